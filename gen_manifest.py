#!/usr/bin/env python3
"""Regenerates MANIFEST.json from the table below (kept next to the checks so the two stay in step)."""
import json, subprocess

BASE_OFF = "cd /repo && go test -vet=off -count=1 ./..."
NOTE_COMMON = ("Trusted base: go/packages + go/types + go/ssa + VTA call graph of golang.org/x/tools v0.29.0, the Go standard library's documented behaviour, "
               "and this checker's own rules (unverified; exercised both ways by /verif/mutants and /verif/seeded). ")

# id -> (text, technique, note, design_ref)   ; ids absent here go to not_applicable with NA[id]
CHECKS = {
 "C15": ("Static error-discipline rule W1 at every call that is handed the destination writer (exhaustive over write sites, hence over every failure point and table): the error is returned or nil-tested before any further write and the failure branch returns it without writing. "
         "Decides 'a failing write always surfaces and nothing is written after it'; the byte-prefix clause follows structurally; no-panic is C09's.",
         "SSA dataflow: must-check-before-next-write rule over every io.Writer call site",
         "Assumes fmt/io/html-template stop at the first writer error.", "DESIGN.md 2.3, 3 C15"),
 "C16": ("Interprocedural effect analysis (who writes what, with the origin of the written object) over the module, go-runewidth and uniseg: no package-level variable reachable from the public API is written after package initialisation unless under its own mutex, no goroutine is started, wrapper fields are written only through their receiver. "
         "Decides absence of shared mutable state between distinct tables, which is what race freedom for independent tables requires; does not decide byte-equality of concurrent outputs.",
         "interprocedural effects/mod-set analysis over SSA + call graph; global-mutability classification",
         "Assumes the standard library is race-free for the uses made of it; callers sharing items between tables are out of scope.", "DESIGN.md 2.4, 3 C16"),
 "C17": ("Lock-held must-analysis over the CFG of every function touching the registry (every map access under the mutex on all paths, released on every exit, address never escapes), plus dataflow rules for the fail-closed chain Named -> SetDecorationNamed -> RenderTo and agreement of the D_* constants with init-time registrations and of the listing with the sorted key set. "
         "Decides data-race freedom of the registry for all schedules and the fail-closed behaviour; does not decide last-writer-wins (map semantics).",
         "lock-held forward must-dataflow on the CFG; dominance rules; table agreement",
         "Assumes sync.Mutex semantics and Go map semantics.", "DESIGN.md 3 C17"),
}

NA = {}

props = [json.loads(l) for l in open('properties.jsonl')]
checks, na = [], []
for p in props:
    i = p['id']
    if i in CHECKS:
        text, tech, note, ref = CHECKS[i]
        checks.append({
            "property_id": i,
            "quick_cmd": f"./check.sh {i} quick",
            "thorough_cmd": f"./check.sh {i} thorough",
            "evidence_file": f"evidence/{i}.json",
            "replay_cmd_template": f"./check.sh {i} quick",
            "engine": "tabverif",
            "level_claimed": {"category": "other", "text": text, "design_ref": ref},
            "level_note": NOTE_COMMON + note,
            "technique": "static analysis: " + tech,
        })
    else:
        na.append({"property_id": i, "reason": NA.get(i, "check not built yet (build round in progress); see DESIGN.md section 3 for the planned rules")})

m = {
 "version": 1,
 "setup_cmd": "./setup.sh",
 "hooks": {"guard": "verif", "enable": "none needed: the checks are static and read /repo's working tree as it is (no instrumentation, no hook commits)",
           "baseline_off_cmd": BASE_OFF, "source_commits": [], "add_only": True},
 "engines": [{"name": "tabverif", "path": "checker/", "serves_properties": [c["property_id"] for c in checks],
              "kind_free_text": "repository-specific static analyser (Go, go/packages + go/ssa + VTA call graph): effects/mod-set, lock-held, error-flow, index-safety, dispatch/agreement, taint and template-parse rules"}],
 "checks": checks,
 "not_applicable": na,
 "notes": "All checks are static analysis of /repo's current working tree; none executes tabular code. Genuine defects found are recorded in known-findings.txt (all repaired by fix: commits). Defect demonstrations: defects/; checker self-test mutants: mutants/; independently seeded changes: seeded/.",
}
json.dump(m, open('MANIFEST.json', 'w'), indent=1)
print(len(checks), "checks,", len(na), "not applicable")
