#!/usr/bin/env python3
"""Regenerates MANIFEST.json from the table below (kept next to the checks so the two stay in step)."""
import json, subprocess

BASE_OFF = "cd /repo && go test -vet=off -count=1 ./..."
NOTE_COMMON = ("Trusted base: go/packages + go/types + go/ssa + VTA call graph of golang.org/x/tools v0.29.0, the Go standard library's documented behaviour, "
               "and this checker's own rules (unverified; exercised both ways by /verif/mutants, /verif/seeded and the behaviour-preserving refactorings in /verif/mutants/benign). "
               "Where this property's guarantee rests on a rule that belongs to another property (cell text, property store, column bookkeeping, write-error discipline, fresh render buffer, row list), "
               "that rule's obligations are evaluated again here and appear in the evidence as '... premise [Rxx.y] ...'. ")

# id -> (text, technique, note, design_ref)   ; ids absent here go to not_applicable with NA[id]
CHECKS = {
 "C01": ("Dispatch/agreement rules over the single function that computes a cell's text: order of the dynamic-type tests against the documented precedence (with go/types deciding which concrete arms an interface arm would shadow), the value each arm stores against its documented source, definite assignment of the text on every path through each arm, a path-enumerated abstract interpretation of Update showing empty == (text is empty) at every exit, plus who-writes/who-calls rules (item stored only at construction, only Update touches the item, accessors return the snapshot). "
         "Decides the dispatch for every dynamic type at once (inputs only select an arm); does not decide what fmt's %v prints.",
         "type-switch arm order/source agreement on SSA, must-assign dataflow, path-enumerated abstract interpretation, who-writes/who-calls", "Trusts fmt for the default arm.", "DESIGN.md 3 C01"),
 "C02": ("Who-writes and pairing rules on the bookkeeping state, for every history: rows append-only by one row; row/column numbers are the list length right after the installing append, stored on the appended object; every function that grows a row or installs one brings the column count up to the row's cell count (only the resize helper writes the count, it never decreases, and len(columns)==nColumns+1 is proved at every writer); CellAt returns exactly &rows[r-1].cells[c-1], nil iff error, with its index obligations discharged; Column is non-nil exactly on 0..nColumns; the row slice never escapes. "
         "Decides the writer/reader pairings; the induction from them to the numeric counts is argued, not mechanised.",
         "writers-of-field analysis, append/len pairing by linear normalisation, index-safety obligations, alias-escape check", "Fields are unexported, so every writer is in the module.", "DESIGN.md 3 C02"),
 "C03": ("NECESSARY CONDITIONS ONLY (equality of the display widths of all rendered lines is arithmetic over run-time strings and is not decided): one width source per render with max-updates only; rule-line and content-line arithmetic agree (K == 2*len(J) read from the code) with one slot and one divider per column in both builders; layout and emit share one measure; every glyph the emitter reads is guaranteed non-empty by Populate, built-ins are populated or boxless, glyph constants are single non-combining runes; the sequence of rule/content lines is the documented one with the bottom rule on every successful path.",
         "sibling/table agreement rules over SSA constants and call sequences; Populate dependency-order check", "Each glyph is assumed one cell wide in the terminal.", "DESIGN.md 3 C03"),
 "C04": ("NECESSARY CONDITIONS ONLY (that text survives unmodified and pad counts for all inputs are value-level): effective alignment = own setting else column-0 default (dataflow: the default flows to the same destination on the own-is-nil edge); slot wiring uses one index for text, width and alignment; line l/column c of a row is line l of cell c, blanks for missing; padding = available - W clamped at 0 with the text exactly once and the documented side/split per alignment (linear identities over SSA); declared width/height reach layout and the single-line declared width reaches the padding.",
         "index-agreement and linear-identity rules on SSA; nil-edge dataflow for the effective property", "strings.Repeat(\" \", n) is n spaces.", "DESIGN.md 3 C04"),
 "C05": ("Taint analysis (cell text -> writer only through a function recognised by its body as an RFC 4180 all-fields quoter, constants and the constant-only separator field otherwise), refusal of column-less tables before the first write, header-first/rows-in-order/separators-skipped structure, per-record shape (one field per column index, quoted cell where the row has one and the quoted empty field otherwise, separator before every field but the first, one terminator), and the quoter's buffer arithmetic via the index-safety prover. Does not decide the byte-for-byte round trip.",
         "interprocedural taint on SSA with sanitizers recognised by shape; content-fidelity walk (only the quoter and concatenation may touch cell text); dominance/refusal rules; linear edge-condition checks", "fmt.Fprint of one string writes that string.", "DESIGN.md 3 C05"),
 "C06": ("The only write is html/template's Execute of a template parsed from a string constant on plain-string data; no conversion to html/template's trusted types anywhere in the package; template functions return no trusted type except the caller's own row-class result; the template constant is parsed statically (text/template/parse) and its tag skeleton, attributes, guards, range/if nesting (rows in order, separators skipped, one th/td per cell) and the two RowClass uses (0 / OnePlus of the Rows range index, under HaveRowClass) are checked, as are the Go bindings of Rows/Headers/CellsOf/OnePlus/RowClass. html/template's escaper itself is trusted.",
         "static parse of the embedded template DSL + SSA checks of its function bindings and of trusted-type conversions", "html/template escapes plain strings contextually.", "DESIGN.md 3 C06"),
 "C07": ("Taint (only constants and json.Marshal output are written), every documented refusal is a branch returning a non-nil error that cannot be reached once anything has been written, the comma state machine (any array-level write that may contain a comma is followed by an object emission on every path before the loop comes round or the array closes), object shape (braces, separators, key before value with the same index, skip rule), and skipable = own else column-0 default. encoding/json is trusted for value/key syntax.",
         "taint on SSA; reachability/dominance rules for validation-before-output; path rule for the comma state machine", "encoding/json output is valid JSON.", "DESIGN.md 3 C07"),
 "C08": ("Taint (cell text -> writer only through a function recognised by its body as html.EscapeString first, then '|' and LF to numeric entities), refusals before output, header/delimiter/rows sequence with separators skipped, pipe bookkeeping per line (shape), every dash run proved >= 3 by the linear prover, colon placement per alignment arm, and the effective-alignment rule shared with the text renderer. Entity-decoding equality is not decided.",
         "taint on SSA with sanitizer shape; content-fidelity walk; linear prover for the dash clamp; sibling agreement with the text renderer's alignment resolution", "html.EscapeString escapes <, >, &, ' and \".", "DESIGN.md 3 C08"),
 "C09": ("Panic-freedom as a finite set of instruction-level obligations (index, slice, make/Repeat size, division, unchecked assertion, explicit panic, dereference of a possibly-nil result) in every library function, each discharged for all table shapes by an abstract interpretation over SSA: linear facts from definitions, dominating branches, inductive loop invariants, memory forwarding, module-wide field facts proved at every writer, callee summaries and call-site requirements (depth <= 3), decided by Fourier-Motzkin; out-of-quantifier panics are tabled with machine-checked premises; every Render returns \"\" with every non-nil error. "
         "This is the property static analysis suits best: all 140+ obligations must be discharged, an undecided one is an alarm.",
         "abstract interpretation over SSA with linear-arithmetic entailment (Fourier-Motzkin), interprocedural requires/summaries, tabled premises", "Standard library and width dependencies do not panic on the arguments given; Table implementers are the module's.", "DESIGN.md 2.2, 3 C09"),
 "C10": ("NECESSARY CONDITIONS ONLY (byte identity across creation paths is not decided): symbolic execution of the registration function for every owner type a wrapper can pass shows the measuring callback reaches the core table (or the error is checked), with an interface arm for foreign Table implementations; package-level Render/RenderTo/New are pure delegations; Render is RenderTo into a fresh buffer; no wrapper overrides a Table method and no renderer asserts a Table to a concrete table type.",
         "symbolic path enumeration of the registration switch; delegation-shape and method-set rules", "Method promotion forwards calls unchanged.", "DESIGN.md 3 C10"),
 "C11": ("Error routing on every path: each store to the error list is an empty make, an append of an error a dominating test shows non-nil, or a spread append guarded by the scan idiom; no adoption of caller slices; container methods tolerate nil receivers; Errors() is nil or non-empty (proved); every installed row shares the table's container; swallow-before-divert ordering; every errTaker handed to the callback invoker is non-nil by construction (recursively through parameters and callers); the invoker passes every non-nil result on.",
         "who-writes + dominance rules; nil-ness by construction through the call graph", "All writers of the list are in the module.", "DESIGN.md 3 C11"),
 "C12": ("Immutability of property-chain links after construction (every store to a link field initialises a link allocated in the same function) - which is exactly what makes copies of an owner independent; SetProperty installs the stripped remainder of the CURRENT chain for the SAME key or a fresh link on it, on every path; the strip's result pairs; lookup structure; single writer of the chain head; column handles are the stored pointers (no address into the growable slice escapes); no owner that lives behind a pointer is overwritten as a whole and no filled slot of the column list is refilled. The induction to map semantics is argued, not mechanised.",
         "who-writes/freshness analysis, must-store dataflow, alias-escape rule", "Interface == compares type and value.", "DESIGN.md 3 C12"),
 "C13": ("The registration function is executed symbolically for all 48 (owner type x target x time) combinations plus wrapper/unknown owners and compared with the documented matrix; the time->list mapping of registration and invocation must agree; every invocation site is classified by (role, time, loop depth) and each function's sequence in execution order must equal the documented add-time events / render nesting, unconditionally and once; targets handed to callbacks are pointers into the table's own structure; the loops around render-time callbacks visit every column (column 0 included), row and cell; every exported operation that links a cell-bearing row into a table announces it as AddRow does; a cell's column is read afresh from the table's list; one callback pass per RenderTo before measuring and writing.",
         "symbolic path enumeration; call-site sequence agreement in reverse post-order; live-object (address-root) rule", "Callbacks do not re-enter the building API.", "DESIGN.md 3 C13"),
 "C14": ("NECESSARY CONDITIONS ONLY (byte equality of successive renders is not decided): the interprocedural mod-set of every RenderTo/Render is inside a short allowlist (cell measurement properties, cached template, error list), measurement keys are private pointers of unexported types, built-in callbacks recompute from the cell and never read back, and fail only when not given a cell.",
         "interprocedural effects/mod-set analysis with parametric origins", "User callbacks are excluded, as the property allows.", "DESIGN.md 3 C14"),
 "C15": ("Static error-discipline rule W1 at every call that is handed the destination writer (exhaustive over write sites, hence over every failure point and table): the error is returned or nil-tested before any further write and the failure branch returns it without writing. "
         "Decides 'a failing write always surfaces and nothing is written after it'; the byte-prefix clause follows structurally; no-panic is C09's.",
         "SSA dataflow: must-check-before-next-write rule over every call site that receives the destination writer (flow-scoped); no wrapper-resident output buffers; panic obligations of the writing functions",
         "Assumes fmt/io/html-template stop at the first writer error.", "DESIGN.md 2.3, 3 C15"),
 "C16": ("Interprocedural effect analysis (who writes what, with the origin of the written object) over the module, go-runewidth and uniseg: no package-level variable reachable from the public API is written after package initialisation unless under its own mutex, no goroutine is started, wrapper fields are written only through their receiver. "
         "Decides absence of shared mutable state between distinct tables, which is what race freedom for independent tables requires; does not decide byte-equality of concurrent outputs.",
         "interprocedural effects/mod-set analysis over SSA + call graph; global-mutability classification; sync.Pool hand-over and emptied-buffer rules; reader/writer lock modes; immutability of structure shared by cell copies",
         "Assumes the standard library is race-free for the uses made of it; callers sharing items between tables are out of scope.", "DESIGN.md 2.4, 3 C16"),
 "C17": ("Lock-held must-analysis over the CFG of every function touching the registry (every map access under the mutex on all paths, released on every exit, address never escapes), plus dataflow rules for the fail-closed chain Named -> SetDecorationNamed -> RenderTo and agreement of the D_* constants with init-time registrations and of the listing with the sorted key set. "
         "Decides data-race freedom of the registry for all schedules and the fail-closed behaviour; does not decide last-writer-wins (map semantics).",
         "lock-held forward must-dataflow on the CFG; dominance rules; table agreement",
         "Assumes sync.Mutex semantics and Go map semantics.", "DESIGN.md 3 C17"),
 "C18": ("SMALL PART ONLY (the numeric clauses over all strings are not decided): the three LongestLine* functions are structural siblings (split with Lines, measure only with their own String*, running maximum guarded by '>' over a loop visiting every line); one newline splitter and one cell measure shared by Cell, layout and emit; the height formula and Lines agree on separator and trailing rule (shape rule); Lines uses only library calls that lose nothing but the separator; every store of a cell's width is 0 (only for a text found empty), the widest line of the text or the item's own declaration; the measuring callback's index obligations are discharged.",
         "sibling-agreement rules on SSA; shape comparison of two formulas; index-safety obligations", "strings.Split/Count/HasSuffix as documented.", "DESIGN.md 3 C18"),
 "C19": ("STATIC AGREEMENT ONLY (run-time registry contents are not decided): listing constants are cases of the style switch and every renderer sub-package is listed, on top of the registry's names, sorted last; the switch tag is ToLower(Split(style, \".\")[0]) and each sub-package case returns that package's Wrap(t); the texttable and default arms name the decoration by the un-lowered section 1 (only when present) / section 0; built-in names contain no dot and collide with no case.",
         "table-agreement rules between the listing, the dispatch switch and the decoration constants", "strings.Split/ToLower/sort.Strings as documented.", "DESIGN.md 3 C19"),
}

# clauses added by later seeding rounds (appended to the text above)
EXTRA = {
 "C05": " Also: a write that begins with the separator sits only where a field of the same record is known to have been written (no record begins with a separator).",
 "C06": " Also: the id, class and caption strings handed to the template are the wrapper's settings read as they are.",
 "C07": " Also: wherever json.Marshal of the item may have failed nothing else is encoded, written or reported as success.",
 "C10": " Also: every renderer registers its measuring callback for the RENDER slot of each cell (sibling agreement).",
 "C11": " Also: AddError records every non-nil error a non-nil container is given (no filter, limit or de-duplication); no caller hands a row-installing function a row that already shares the table's container.",
 "C14": " Also (premise from C06): what a renderer keeps between renders is re-bound to the current wrapper and table before each use.",
 "C16": " Also: no exported function stores into a slice or map its caller handed it (callers may share what they build tables from).",
 "C17": " Also (premise from C19): every decoration section of a style string reaches SetDecorationNamed, as written and even when empty.",
 "C02": " Also: every store into the list of column handles keeps the existing handles in place (own list extended, or a new slice into which every old entry was copied first).",
 "C18": " Also: the count formula gives the height only of a text known not to be empty (the splitter yields no line for the empty text).",
}

NA = {}

props = [json.loads(l) for l in open('properties.jsonl')]
checks, na = [], []
for p in props:
    i = p['id']
    if i in CHECKS:
        text, tech, note, ref = CHECKS[i]
        text += EXTRA.get(i, "")
        checks.append({
            "property_id": i,
            "quick_cmd": f"./check.sh {i} quick",
            "thorough_cmd": f"./check.sh {i} thorough",
            "evidence_file": f"evidence/{i}.json",
            "replay_cmd_template": f"./check.sh {i} quick",
            "engine": "tabverif",
            "level_claimed": {"category": "other", "text": text, "design_ref": ref},
            "level_note": NOTE_COMMON + note,
            "technique": "static analysis: " + tech,
        })
    else:
        na.append({"property_id": i, "reason": NA.get(i, "check not built yet (build round in progress); see DESIGN.md section 3 for the planned rules")})

m = {
 "version": 1,
 "setup_cmd": "./setup.sh",
 "hooks": {"guard": "verif", "enable": "none needed: the checks are static and read /repo's working tree as it is (no instrumentation, no hook commits)",
           "baseline_off_cmd": BASE_OFF, "source_commits": [], "add_only": True},
 "engines": [{"name": "tabverif", "path": "checker/", "serves_properties": [c["property_id"] for c in checks],
              "kind_free_text": "repository-specific static analyser (Go, go/packages + go/ssa + VTA call graph): effects/mod-set, lock-held, error-flow, index-safety, dispatch/agreement, taint and template-parse rules"}],
 "checks": checks,
 "not_applicable": na,
 "notes": "All checks are static analysis of /repo's current working tree; none executes tabular code. Genuine defects found are recorded in known-findings.txt (all repaired by fix: commits). Defect demonstrations: defects/; checker self-test mutants: mutants/; independently seeded changes: seeded/.",
}
json.dump(m, open('MANIFEST.json', 'w'), indent=1)
print(len(checks), "checks,", len(na), "not applicable")
