#!/bin/sh
# usage: ./check.sh <property-id> [quick|thorough]
# Runs the static checker for one property against /repo's current working tree.
# Exit 0: every obligation discharged (known findings are printed as KNOWN-FINDING lines).
# Exit 1: prints "VIOLATION property=<id> replay=evidence/<id>.json".
cd "$(dirname "$0")" || exit 2
id=$1
tier=${2:-${VERIF_TIER:-quick}}
export GOFLAGS=-mod=mod GOPROXY=off GOSUMDB=off GOTOOLCHAIN=local
unset GOWORK
REPO=${TABVERIF_REPO:-/repo}
mkdir -p evidence bin
# (re)build the checker when missing or older than its sources
need=0
[ -x bin/tabverif ] || need=1
if [ $need -eq 0 ] && [ -n "$(find checker -name '*.go' -newer bin/tabverif 2>/dev/null | head -1)" ]; then need=1; fi
if [ $need -eq 1 ]; then
  (cd checker && go build -o ../bin/tabverif .) || { echo "VIOLATION property=$id replay=evidence/$id.json (checker build failed)"; exit 1; }
fi
ev=evidence/$id.json
rm -f "$ev"
run() { # run <out> <extra flags...>
  out=$1; shift
  ./bin/tabverif -prop "$id" -tier "$tier" -repo "$REPO" -known known-findings.txt -out "$out" "$@"
}
run "$ev"
rc=$?
if [ $rc -ne 0 ] && [ $rc -ne 1 ]; then
  echo "VIOLATION property=$id replay=$ev (checker could not analyse the tree: exit $rc)"
  exit 1
fi
[ "$tier" = thorough ] || exit $rc

# ---- thorough: the same rules under other build configurations and a coarser call graph must give the
# same obligations and verdicts; then the self-test mutants of this property are replayed (recorded only).
tmp=$(mktemp -d /tmp/tabverif-thorough.XXXXXX)
trap 'rm -rf "$tmp"' EXIT
GOARCH=386 run "$tmp/386.json" -goarch 386 >"$tmp/386.out" 2>&1; rc386=$?
run "$tmp/tags.json" -tags verif >"$tmp/tags.out" 2>&1; rctags=$?
run "$tmp/cha.json" -cg cha >"$tmp/cha.out" 2>&1; rccha=$?
worst=$rc
# the CHA graph is a coarser superset of VTA: its result is recorded for comparison, never decisive
for r in $rc386 $rctags; do [ $r -ne 0 ] && worst=1; done
python3 - "$ev" "$tmp" "$id" "$rc386" "$rctags" "$rccha" <<'PY'
import json,sys,os,subprocess,glob
ev,tmp,pid,rc386,rctags,rccha=sys.argv[1:7]
e=json.load(open(ev))
base=set(e['coverage'].get('obligation_keys',[]))
th={}
for name,rc in (('goarch_386',rc386),('tags_verif',rctags),('call_graph_cha',rccha)):
    f=os.path.join(tmp,{'goarch_386':'386.json','tags_verif':'tags.json','call_graph_cha':'cha.json'}[name])
    rec={'exit':int(rc)}
    if os.path.exists(f):
        o=set(json.load(open(f))['coverage'].get('obligation_keys',[]))
        rec['obligations']=len(o); rec['same_as_default']=(o==base)
        rec['only_here']=sorted(o-base)[:10]; rec['missing_here']=sorted(base-o)[:10]
        if o!=base and name!='call_graph_cha':
            print("  THOROUGH %s: obligation set/verdicts differ from the default configuration (%d vs %d)"%(name,len(o),len(base)))
    th[name]=rec
e['coverage']['thorough']=th
json.dump(e,open(ev,'w'),indent=1)
PY
for f in "$tmp"/386.out "$tmp"/tags.out; do grep -E "VIOLATED|UNDECIDED|FLOOR|ANCHOR" "$f" | sed "s|^|  [$(basename $f .out)] |" ; done
# self-test mutants (never affect the exit status: on an edited tree a patch may not apply)
if [ -z "$TABVERIF_NO_MUTANTS" ] && [ -f mutants/INDEX.tsv ]; then
  fired=0; total=0; list=""
  for m in $(awk -v p="$id" '$2==p {print $1}' mutants/INDEX.tsv); do
    [ -f "mutants/$m.diff" ] || continue
    total=$((total+1))
    if NOTEST=1 mutants/run.sh "mutants/$m.diff" "$id" >/dev/null 2>&1; then fired=$((fired+1)); list="$list $m:fired"; else list="$list $m:silent"; fi
  done
  python3 - "$ev" "$fired" "$total" "$list" <<'PY'
import json,sys
ev,fired,total,lst=sys.argv[1:5]
e=json.load(open(ev))
e['coverage'].setdefault('thorough',{})['self_test_mutants']={'fired':int(fired),'total':int(total),'results':lst.split()}
json.dump(e,open(ev,'w'),indent=1)
PY
  echo "  thorough: self-test mutants fired $fired/$total"
fi
# regression corpus: independently seeded breaking changes of this property, and behaviour-preserving refactorings
if [ -z "$TABVERIF_NO_MUTANTS" ] && [ -x mutants/replay.sh ]; then
  rep=$(mutants/replay.sh "$id" 2>/dev/null)
  if [ -n "$rep" ]; then
    python3 - "$ev" "$rep" <<'PY'
import json,sys
ev,rep=sys.argv[1:3]
e=json.load(open(ev))
e['coverage'].setdefault('thorough',{})['regression_corpus']=json.loads(rep)
json.dump(e,open(ev,'w'),indent=1)
PY
    echo "  thorough: regression corpus $rep" | cut -c1-400
  fi
fi
if [ $worst -ne 0 ] && [ $rc -eq 0 ]; then
  echo "VIOLATION property=$id replay=$ev (a thorough configuration disagrees or fails; see coverage.thorough)"
  exit 1
fi
exit $rc
