#!/bin/sh
# usage: ./check.sh <property-id> [quick|thorough]
# Runs the static checker for one property against /repo's current working tree.
# Exit 0: every obligation discharged (known findings are printed as KNOWN-FINDING lines).
# Exit 1: prints "VIOLATION property=<id> replay=evidence/<id>.json".
cd "$(dirname "$0")" || exit 2
id=$1
tier=${2:-${VERIF_TIER:-quick}}
export GOFLAGS=-mod=mod GOPROXY=off GOSUMDB=off GOTOOLCHAIN=local
unset GOWORK
REPO=${TABVERIF_REPO:-/repo}
mkdir -p evidence bin
# (re)build the checker when missing or older than its sources
need=0
[ -x bin/tabverif ] || need=1
if [ $need -eq 0 ] && [ -n "$(find checker -name '*.go' -newer bin/tabverif 2>/dev/null | head -1)" ]; then need=1; fi
if [ $need -eq 1 ]; then
  (cd checker && go build -o ../bin/tabverif .) || { echo "VIOLATION property=$id replay=evidence/$id.json (checker build failed)"; exit 1; }
fi
ev=evidence/$id.json
rm -f "$ev"
if [ "$tier" = thorough ]; then
  ./bin/tabverif -prop "$id" -tier thorough -repo "$REPO" -known known-findings.txt -out "$ev"
  rc=$?
  exit $rc
fi
./bin/tabverif -prop "$id" -tier quick -repo "$REPO" -known known-findings.txt -out "$ev"
rc=$?
if [ $rc -ne 0 ] && [ $rc -ne 1 ]; then
  echo "VIOLATION property=$id replay=$ev (checker could not analyse the tree: exit $rc)"
  exit 1
fi
exit $rc
