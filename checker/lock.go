package main

import (
	"go/types"

	"golang.org/x/tools/go/ssa"
)

// guardedGlobal describes a package-level struct variable that carries its own mutex.
type guardedGlobal struct {
	G       *ssa.Global
	MuField int   // index of the sync.Mutex / sync.RWMutex field
	Data    []int // the other fields
}

func isSyncMutex(t types.Type) bool {
	n, ok := t.(*types.Named)
	return ok && n.Obj().Pkg() != nil && n.Obj().Pkg().Path() == "sync" && (n.Obj().Name() == "Mutex" || n.Obj().Name() == "RWMutex")
}

// findGuardedGlobals: module globals of struct type with a mutex field.
func (c *Ctx) findGuardedGlobals() []*guardedGlobal {
	var out []*guardedGlobal
	for _, path := range c.sortedPkgPaths() {
		sp := c.SSA[path]
		if sp == nil {
			continue
		}
		for _, name := range sortedMemberNames(sp) {
			g, ok := sp.Members[name].(*ssa.Global)
			if !ok {
				continue
			}
			st, ok := g.Type().(*types.Pointer).Elem().Underlying().(*types.Struct)
			if !ok {
				continue
			}
			gg := &guardedGlobal{G: g, MuField: -1}
			for i := 0; i < st.NumFields(); i++ {
				if isSyncMutex(st.Field(i).Type()) && gg.MuField < 0 {
					gg.MuField = i
				} else {
					gg.Data = append(gg.Data, i)
				}
			}
			if gg.MuField >= 0 {
				out = append(out, gg)
			}
		}
	}
	return out
}

type lockState struct {
	held     bool
	deferred bool // a deferred Unlock is pending
	shared   bool // held only as a reader (RLock): enough for reads, not for writes
}

// isWriteAccess: the instruction modifies the guarded data (store, map update, delete).
func isWriteAccess(in ssa.Instruction) bool {
	switch x := in.(type) {
	case *ssa.Store, *ssa.MapUpdate:
		return true
	case *ssa.Call:
		if b, ok := x.Call.Value.(*ssa.Builtin); ok && (b.Name() == "delete" || b.Name() == "clear") {
			return true
		}
	}
	return false
}

// lockOp classifies a call as Lock/Unlock (or RLock/RUnlock) on gg's mutex.
func lockOp(in ssa.Instruction, gg *guardedGlobal) (op string, isDefer bool) {
	cc := callCommon(in)
	if cc == nil {
		return "", false
	}
	f := cc.StaticCallee()
	if f == nil || f.Signature.Recv() == nil || funcPkgPath(f) != "sync" {
		return "", false
	}
	if len(cc.Args) == 0 {
		return "", false
	}
	fa, ok := cc.Args[0].(*ssa.FieldAddr)
	if !ok || fa.X != ssa.Value(gg.G) || fa.Field != gg.MuField {
		return "", false
	}
	_, isDefer = in.(*ssa.Defer)
	switch f.Name() {
	case "Lock":
		return "lock", isDefer
	case "RLock":
		return "rlock", isDefer
	case "Unlock", "RUnlock":
		return "unlock", isDefer
	}
	return "", false
}

// An access to guarded data: any instruction using FieldAddr(G, dataField).
type guardedAccess struct {
	In   ssa.Instruction
	Held bool
	Desc string
}

type lockResult struct {
	Accesses   []guardedAccess
	ExitsHeld  []ssa.Instruction // returns with the lock held and no deferred unlock
	DoubleLock []ssa.Instruction
	LockOps    int
}

// analyseLock runs a forward must-analysis ("the mutex is held") over fn.
func analyseLock(fn *ssa.Function, gg *guardedGlobal, entryHeld bool) *lockResult {
	res := &lockResult{}
	if len(fn.Blocks) == 0 {
		return res
	}
	in := map[*ssa.BasicBlock]*lockState{}
	in[fn.Blocks[0]] = &lockState{held: entryHeld}
	work := []*ssa.BasicBlock{fn.Blocks[0]}
	transfer := func(b *ssa.BasicBlock, s lockState, record bool) lockState {
		for _, ins := range b.Instrs {
			if op, isDefer := lockOp(ins, gg); op != "" {
				if record {
					res.LockOps++
				}
				switch {
				case (op == "lock" || op == "rlock") && !isDefer:
					if s.held && record {
						res.DoubleLock = append(res.DoubleLock, ins)
					}
					s.held = true
					s.shared = op == "rlock"
				case op == "unlock" && !isDefer:
					s.held = false
					s.shared = false
				case op == "unlock" && isDefer:
					s.deferred = true
				}
				continue
			}
			if record {
				// does this instruction touch guarded data?
				for _, opnd := range ins.Operands(nil) {
					if opnd == nil || *opnd == nil {
						continue
					}
					if fa, ok := (*opnd).(*ssa.FieldAddr); ok && fa.X == ssa.Value(gg.G) && fa.Field != gg.MuField {
						res.Accesses = append(res.Accesses, guardedAccess{In: ins, Held: s.held && !(s.shared && isWriteAccess(ins)), Desc: ins.String()})
					}
				}
				if r, ok := ins.(*ssa.Return); ok {
					if s.held && !s.deferred {
						res.ExitsHeld = append(res.ExitsHeld, r)
					}
				}
				if _, ok := ins.(*ssa.RunDefers); ok && s.deferred {
					s.held = false
				}
			} else if _, ok := ins.(*ssa.RunDefers); ok && s.deferred {
				s.held = false
			}
		}
		return s
	}
	for len(work) > 0 {
		b := work[0]
		work = work[1:]
		out := transfer(b, *in[b], false)
		for _, s := range b.Succs {
			cur := in[s]
			if cur == nil {
				cp := out
				in[s] = &cp
				work = append(work, s)
				continue
			}
			n := lockState{held: cur.held && out.held, deferred: cur.deferred && out.deferred, shared: cur.shared || out.shared}
			if n != *cur {
				*cur = n
				work = append(work, s)
			}
		}
	}
	for _, b := range fn.Blocks {
		if in[b] == nil {
			continue // unreachable
		}
		transfer(b, *in[b], true)
	}
	return res
}

func (c *Ctx) sortedPkgPaths() []string {
	var out []string
	for p := range c.Pkgs {
		out = append(out, p)
	}
	sortStrings(out)
	return out
}
