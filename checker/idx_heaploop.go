package main

import (
	"fmt"
	"go/token"
	"go/types"
	"os"

	"golang.org/x/tools/go/ssa"
)

// ---- loops whose variable lives in a struct field --------------------------------------------------------------
//
//   for len(t.columns) < wanted { t.columns = append(t.columns, x) }
//
// The header's load of the field is not an SSA phi, yet it behaves like one: it sees the value the field had when
// the loop was entered, or a value stored by an earlier iteration. heapLoopFacts proves, by that induction, the
// bound the continuation test suggests (len <= N); together with the negated test at the exit this pins the length.

func isLoopHeaderBlock(b *ssa.BasicBlock) bool {
	for _, p := range b.Preds {
		if b.Dominates(p) {
			return true
		}
	}
	return false
}

func (ix *idxEngine) heapLoopFacts(p *prover, v ssa.Value, t string, at ssa.Instruction) []constraint {
	ld, ok := v.(*ssa.UnOp)
	if !ok || ld.Op != token.MUL {
		return nil
	}
	f, base := loadedField(v)
	if f == nil {
		return nil
	}
	H := ld.Block()
	if !isLoopHeaderBlock(H) {
		return nil
	}
	key := "heaploop:" + t
	if c, ok := p.relCache[key]; ok {
		return c
	}
	p.relCache[key] = nil
	iff, ok := H.Instrs[len(H.Instrs)-1].(*ssa.If)
	if !ok {
		return nil
	}
	cs := p.condConstraints(iff.Cond, true)
	if len(cs) != 1 || cs[0].e.coef[t] != 1 {
		return nil
	}
	// cs: len - N + 1 <= 0  =>  N = len + 1 - e
	N := linTerm(t).add(linConst(1)).sub(cs[0].e)
	if _, has := N.coef[t]; has {
		return nil
	}
	inLoop := func(b *ssa.BasicBlock) bool { return H.Dominates(b) && blockReach(b, nil)[H] }
	// N is made of values computed before the loop
	ti := p.termIndex()
	for tm := range N.coef {
		var src ssa.Value
		if x, ok := ti.ints[tm]; ok {
			src = x
		} else if x, ok := ti.lens[tm]; ok {
			src = x
		} else {
			return nil
		}
		switch y := src.(type) {
		case *ssa.Const, *ssa.Parameter:
		case ssa.Instruction:
			if inLoop(y.Block()) {
				return nil
			}
			if u, isU := src.(*ssa.UnOp); isU && u.Op == token.MUL {
				return nil // a memory load: its meaning may change inside the loop
			}
		default:
			return nil
		}
	}
	bc := p.canon(base)
	var stores []*ssa.Store
	bad := false
	for _, b := range p.fn.Blocks {
		if !inLoop(b) {
			continue
		}
		for _, in := range b.Instrs {
			if st, isSt := in.(*ssa.Store); isSt {
				if fa, isFA := st.Addr.(*ssa.FieldAddr); isFA && fieldOfFieldAddr(fa) == f {
					if p.canon(fa.X) != bc {
						bad = true
					}
					stores = append(stores, st)
					continue
				}
			}
			if p.mayWrite(in, memLoc{kind: "field", field: f}, f.Type(), nil) {
				bad = true
				if os.Getenv("TABDBG") != "" {
					fmt.Fprintf(os.Stderr, "heaploop %s: %s may write %s\n", p.fn.Name(), in, f.Name())
				}
			}
		}
	}
	if os.Getenv("TABDBG") != "" {
		fmt.Fprintf(os.Stderr, "heaploop %s: N=%s bad=%v stores=%d\n", p.fn.Name(), N.String(), bad, len(stores))
	}
	if bad || len(stores) == 0 {
		return nil
	}
	inv := func(l lin) constraint {
		return leq(l, N, "loop invariant: the field's length never passes the bound of the loop test (inductive over the stores in the loop)")
	}
	hyp := []constraint{inv(linTerm(t))}
	for _, st := range stores {
		if ok, _ := p.prove(inv(p.lenOf(st.Val)), st, hyp, 1); !ok {
			return nil
		}
	}
	for _, pred := range H.Preds {
		if H.Dominates(pred) {
			continue
		}
		last := pred.Instrs[len(pred.Instrs)-1]
		el, ok := ix.fieldLenAt(p, f, base, last)
		if !ok {
			return nil
		}
		// the loop may be entered straight from a test (if n <= t.count { return }; for ...): what that edge says holds too
		var edge []constraint
		if pi, isIf := last.(*ssa.If); isIf && pred.Succs[0] != pred.Succs[1] {
			edge = p.condConstraints(pi.Cond, pred.Succs[0] == H)
		}
		if ok, _ := p.prove(inv(el), last, edge, 1); !ok {
			return nil
		}
	}
	out := []constraint{inv(linTerm(t))}
	p.relCache[key] = out
	return out
}

// fieldLenAt: the length of slice field f of *base as it is just before instruction `at`, expressed through a
// value that is still current there: an earlier load or store of the field with no write in between, or the
// partner integer of a structural invariant read in the same epoch.
func (ix *idxEngine) fieldLenAt(p *prover, f *types.Var, base ssa.Value, at ssa.Instruction) (lin, bool) {
	bc := p.canon(base)
	clean := func(from ssa.Instruction, fields ...*types.Var) bool {
		for _, mid := range p.between(from, at) {
			for _, fl := range fields {
				if p.mayWrite(mid, memLoc{kind: "field", field: fl}, fl.Type(), nil) {
					return false
				}
			}
		}
		return true
	}
	var found *lin
	eachInstr(p.fn, func(in ssa.Instruction) {
		if found != nil || in == at || !instrDominates(in, at) {
			return
		}
		switch x := in.(type) {
		case *ssa.UnOp:
			if f2, b2 := loadedField(x); f2 == f && p.canon(b2) == bc && clean(in, f) {
				l := p.lenOf(x)
				found = &l
			}
		case *ssa.Store:
			if fa, ok := x.Addr.(*ssa.FieldAddr); ok && fieldOfFieldAddr(fa) == f && p.canon(fa.X) == bc && clean(in, f) {
				l := p.lenOf(x.Val)
				found = &l
			}
		}
	})
	if found != nil {
		return *found, true
	}
	for _, inv := range ix.invariants() {
		if inv.Slice != f || !ix.invariantHolds(inv) {
			continue
		}
		eachInstr(p.fn, func(in ssa.Instruction) {
			if found != nil || !instrDominates(in, at) {
				return
			}
			u, ok := in.(*ssa.UnOp)
			if !ok {
				return
			}
			if f2, b2 := loadedField(u); f2 == inv.Int && p.canon(b2) == bc && clean(in, inv.Slice, inv.Int) && ix.cleanFromEntry(p, in, inv) {
				l := p.linOf(u).add(linConst(inv.Off))
				found = &l
			}
		})
	}
	if found != nil {
		return *found, true
	}
	return lin{}, false
}

// cleanFromEntry: nothing before `in` in its function may have written either invariant field (so the invariant,
// assumed at entry, still holds when `in` reads).
func (ix *idxEngine) cleanFromEntry(p *prover, in ssa.Instruction, inv structInv) bool {
	first := p.fn.Blocks[0].Instrs[0]
	if first == in {
		return true
	}
	if !instrDominates(first, in) {
		return false
	}
	for _, mid := range append([]ssa.Instruction{first}, p.between(first, in)...) {
		for _, fl := range []*types.Var{inv.Slice, inv.Int} {
			if p.mayWrite(mid, memLoc{kind: "field", field: fl}, fl.Type(), nil) {
				return false
			}
		}
	}
	return true
}

// ---- the invariant at the exits of a function that updates the fields in several steps ------------------------

// invariantAtExits: fn writes the invariant's fields of ONE object in a way the simple rule (both stores side by
// side) does not cover. It is accepted when
//
//	(1) nothing that runs after the first of those stores can look at or write the two fields except fn's own
//	    code (callees are scanned transitively for any access to the fields), and
//	(2) at every return that a store can reach, len(slice field) == int field + off is proved from the values the
//	    fields hold there: the last store on the way, or - for stores inside a loop - the header's load of the
//	    field together with the loop's exit condition (heapLoopFacts).
func (ix *idxEngine) invariantAtExits(fn *ssa.Function, inv structInv, stores []fieldStore) bool {
	p := ix.proverFor(fn)
	if len(stores) == 0 {
		return true
	}
	bc := p.canon(stores[0].Base)
	for _, s := range stores {
		if p.canon(s.Base) != bc {
			return false
		}
	}
	afterStore := func(in ssa.Instruction) bool {
		for _, s := range stores {
			if s.St == in {
				continue
			}
			if s.St.Block() == in.Block() && instrIndex(s.St) < instrIndex(in) {
				return true
			}
			for _, succ := range s.St.Block().Succs {
				if blockReach(succ, nil)[in.Block()] {
					return true
				}
			}
		}
		return false
	}
	okCalls := true
	eachInstr(fn, func(in ssa.Instruction) {
		ci, isCall := in.(ssa.CallInstruction)
		if !isCall || !afterStore(in) {
			return
		}
		if _, isB := ci.Common().Value.(*ssa.Builtin); isB {
			return
		}
		if ix.eff.siteCallsUnknown(fn, ci) {
			okCalls = false
			return
		}
		for _, cal := range ix.eff.calleesAt(fn, ci) {
			if ix.touchesFields(cal, inv, 0, map[*ssa.Function]bool{}) {
				okCalls = false
			}
		}
	})
	if !okCalls {
		return false
	}
	base := stores[0].Base
	for _, ret := range returnsOf(fn) {
		if !afterStore(ret) {
			continue
		}
		cl, ok1 := ix.fieldLenAtExit(p, inv.Slice, base, ret, stores)
		n, ok2 := ix.fieldIntAtExit(p, inv, base, ret, stores)
		if !ok1 || !ok2 {
			return false
		}
		a, _ := p.prove(leq(cl, n.add(linConst(inv.Off)), "invariant at exit"), ret, nil, 0)
		b, _ := p.prove(leq(n.add(linConst(inv.Off)), cl, "invariant at exit"), ret, nil, 0)
		if !a || !b {
			return false
		}
	}
	return true
}

func (ix *idxEngine) touchesFields(f *ssa.Function, inv structInv, depth int, seen map[*ssa.Function]bool) bool {
	if f == nil || seen[f] {
		return false
	}
	seen[f] = true
	if f.Blocks == nil {
		return inModule(f) // an external function cannot name the fields; a bodiless module function is unknown
	}
	if depth > 6 {
		return true
	}
	hit := false
	eachInstr(f, func(in ssa.Instruction) {
		if hit {
			return
		}
		if fa, ok := in.(*ssa.FieldAddr); ok {
			if fl := fieldOfFieldAddr(fa); fl == inv.Slice || fl == inv.Int {
				hit = true
			}
		}
		if fv, ok := in.(*ssa.Field); ok {
			if st, isS := fv.X.Type().Underlying().(*types.Struct); isS {
				if fl := st.Field(fv.Field); fl == inv.Slice || fl == inv.Int {
					hit = true
				}
			}
		}
		if ci, ok := in.(ssa.CallInstruction); ok {
			if _, isB := ci.Common().Value.(*ssa.Builtin); isB {
				return
			}
			if ix.eff.siteCallsUnknown(f, ci) {
				hit = true
				return
			}
			for _, cal := range ix.eff.calleesAt(f, ci) {
				if ix.touchesFields(cal, inv, depth+1, seen) {
					hit = true
				}
			}
		}
	})
	return hit
}

func (ix *idxEngine) fieldLenAtExit(p *prover, f *types.Var, base ssa.Value, ret ssa.Instruction, stores []fieldStore) (lin, bool) {
	var mine []*ssa.Store
	for _, s := range stores {
		if s.Field == f {
			mine = append(mine, s.St)
		}
	}
	if len(mine) == 0 {
		return ix.fieldLenAt(p, f, base, ret)
	}
	// a last store on the way to ret
	for _, st := range mine {
		if !instrDominates(st, ret) {
			continue
		}
		clean := true
		for _, mid := range p.between(st, ret) {
			if p.mayWrite(mid, memLoc{kind: "field", field: f}, f.Type(), nil) {
				clean = false
			}
		}
		if clean {
			return p.lenOf(st.Val), true
		}
	}
	// a counted loop that appends one element per iteration
	if l, ok := ix.countedAppendLoop(p, f, base, ret, mine); ok {
		return l, true
	}
	// all stores inside one loop whose header loads the field; ret lies beyond the loop's exit
	var H *ssa.BasicBlock
	for _, st := range mine {
		h := innermostLoopHeader(st.Block())
		if h == nil || (H != nil && h != H) {
			return lin{}, false
		}
		H = h
	}
	if H == nil || !H.Dominates(ret.Block()) || blockReach(ret.Block(), nil)[H] {
		return lin{}, false
	}
	bc := p.canon(base)
	var hl *ssa.UnOp
	for _, in := range H.Instrs {
		if u, ok := in.(*ssa.UnOp); ok {
			if f2, b2 := loadedField(u); f2 == f && p.canon(b2) == bc {
				hl = u
			}
		}
	}
	if hl == nil {
		return lin{}, false
	}
	// nothing writes the field between the header's exit and ret
	for _, b := range p.fn.Blocks {
		if !H.Dominates(b) || blockReach(b, nil)[H] || !blockReach(b, nil)[ret.Block()] {
			continue
		}
		for _, in := range b.Instrs {
			if p.mayWrite(in, memLoc{kind: "field", field: f}, f.Type(), nil) {
				return lin{}, false
			}
		}
	}
	return p.lenOf(hl), true
}

func (ix *idxEngine) fieldIntAtExit(p *prover, inv structInv, base ssa.Value, ret ssa.Instruction, stores []fieldStore) (lin, bool) {
	f := inv.Int
	n := 0
	for _, s := range stores {
		if s.Field != f {
			continue
		}
		n++
		if !instrDominates(s.St, ret) {
			continue
		}
		clean := true
		for _, mid := range p.between(s.St, ret) {
			if p.mayWrite(mid, memLoc{kind: "field", field: f}, f.Type(), nil) {
				clean = false
			}
		}
		if clean {
			return p.linOf(s.St.Val), true
		}
	}
	if n > 0 {
		return lin{}, false
	}
	// never stored here: a fresh object holds zero
	if len(stores) > 0 && stores[0].Fresh {
		return linConst(0), true
	}
	return lin{}, false
}

// countedAppendLoop: the only store of slice field f sits in a loop that runs a counted number of times
//
//	for c := M; c > 0; c-- { x.f = append(x.f, e) }      or      for i := 0; i < K; i++ { .. }
//
// and executes exactly once per iteration, appending exactly one element to the field's current value. Then after
// the loop  len(x.f) = len(x.f before the loop) + (number of iterations), the count being M (resp. K) when that is
// proved >= 0 at the loop's entry.
func (ix *idxEngine) countedAppendLoop(p *prover, f *types.Var, base ssa.Value, ret ssa.Instruction, stores []*ssa.Store) (lin, bool) {
	if len(stores) != 1 {
		return lin{}, false
	}
	st := stores[0]
	H := innermostLoopHeader(st.Block())
	if H == nil || !H.Dominates(ret.Block()) || blockReach(ret.Block(), nil)[H] {
		return lin{}, false
	}
	inLoop := func(b *ssa.BasicBlock) bool { return H.Dominates(b) && blockReach(b, nil)[H] }
	// the store runs on every iteration
	for _, pred := range H.Preds {
		if H.Dominates(pred) && !st.Block().Dominates(pred) {
			return lin{}, false
		}
	}
	// value stored: append(<current value of the field>, one element)
	src, elems, ok := appendedElems(st.Val)
	if !ok || len(elems) != 1 {
		return lin{}, false
	}
	sf, sb := loadedField(src)
	if sf != f || p.canon(sb) != p.canon(base) {
		return lin{}, false
	}
	srcLoad, _ := src.(ssa.Instruction)
	if srcLoad == nil || !inLoop(srcLoad.Block()) {
		return lin{}, false
	}
	// nothing else in the loop writes the field, and nothing writes it between the load and the store
	for _, b := range p.fn.Blocks {
		if !inLoop(b) {
			continue
		}
		for _, in := range b.Instrs {
			if in == ssa.Instruction(st) {
				continue
			}
			if p.mayWrite(in, memLoc{kind: "field", field: f}, f.Type(), nil) {
				return lin{}, false
			}
		}
	}
	// nothing writes it after the loop on the way to ret
	for _, b := range p.fn.Blocks {
		if !H.Dominates(b) || inLoop(b) || !blockReach(b, nil)[ret.Block()] {
			continue
		}
		for _, in := range b.Instrs {
			if p.mayWrite(in, memLoc{kind: "field", field: f}, f.Type(), nil) {
				return lin{}, false
			}
		}
	}
	// the counter
	iff, ok := H.Instrs[len(H.Instrs)-1].(*ssa.If)
	if !ok {
		return lin{}, false
	}
	cond, ok := iff.Cond.(*ssa.BinOp)
	if !ok {
		return lin{}, false
	}
	var phi *ssa.Phi
	for _, side := range []ssa.Value{cond.X, cond.Y} {
		if q, isPhi := side.(*ssa.Phi); isPhi && q.Block() == H {
			phi = q
		}
	}
	if phi == nil {
		return lin{}, false
	}
	var init ssa.Value
	step := int64(0)
	var entryPred *ssa.BasicBlock
	for k, pred := range H.Preds {
		if H.Dominates(pred) {
			e := p.linOf(phi.Edges[k]).sub(linTerm(p.canon(phi)))
			if !e.isConst() || (e.k != 1 && e.k != -1) || (step != 0 && step != e.k) {
				return lin{}, false
			}
			step = e.k
		} else {
			if init != nil {
				return lin{}, false
			}
			init = phi.Edges[k]
			entryPred = pred
		}
	}
	if init == nil || step == 0 {
		return lin{}, false
	}
	// iterations: the loop continues while cs holds (a single linear constraint in phi)
	cs := p.condConstraints(iff.Cond, true)
	if len(cs) != 1 {
		return lin{}, false
	}
	pt := p.canon(phi)
	coef := cs[0].e.coef[pt]
	// continue-condition:  coef*phi + rest <= 0
	rest := cs[0].e.sub(linTerm(pt).scale(coef))
	var count lin
	switch {
	case step == -1 && coef == -1:
		// -phi + rest <= 0  <=>  phi >= rest ; iterations = init - rest + 1
		count = p.linOf(init).sub(rest).add(linConst(1))
	case step == 1 && coef == 1:
		// phi + rest <= 0  <=>  phi <= -rest ; iterations = -rest - init + 1
		count = rest.scale(-1).sub(p.linOf(init)).add(linConst(1))
	default:
		return lin{}, false
	}
	// the bound must not change inside the loop
	ti := p.termIndex()
	for tm := range rest.coef {
		var srcV ssa.Value
		if x, ok := ti.ints[tm]; ok {
			srcV = x
		} else if x, ok := ti.lens[tm]; ok {
			srcV = x
		} else {
			return lin{}, false
		}
		if in, isIn := srcV.(ssa.Instruction); isIn && inLoop(in.Block()) {
			return lin{}, false
		}
	}
	last := entryPred.Instrs[len(entryPred.Instrs)-1]
	if ok, _ := p.prove(leq(linConst(0), count, "the loop runs a non-negative number of times"), last, nil, 0); !ok {
		return lin{}, false
	}
	el, ok := ix.fieldLenAt(p, f, base, last)
	if !ok {
		return lin{}, false
	}
	return el.add(count), true
}
