package main

import (
	"fmt"
	"go/token"
	"go/types"
	"os"
	"strings"

	"golang.org/x/tools/go/ssa"
)

func init() { register("C09", runC09) }

func runC09(c *Ctx) {
	r := c.R
	r.Explanation = "'Never panics' is a finite set of instruction-level obligations: every index, slice, make/Repeat size, integer division, unchecked type assertion and explicit panic in the library's functions (R09.P), plus every dereference of a result that a module function may return as nil (R09.N). " +
		"Each obligation is discharged for all table shapes at once by an abstract interpretation over SSA: linear facts from definitions (len of make/slice/append, strings.Split >= 1), from dominating branch conditions, from induction on loop counters (lower bounds; header-bound and two-variable relational invariants checked for inductiveness), from store->load and load->load forwarding on locally made slices and unmodified struct fields, from module-wide field facts proved at every writer (slice fields that only grow, integer fields never negative, len(columns) == nColumns+1), from callee summaries (non-negative results, filled result slices, struct results built from parameters) and, for helpers that are not entry points, from requirements proved at every call site (depth <= 3); entailment is decided by Fourier-Motzkin elimination over the rationals with integer tightening. " +
		"Obligations outside the property's quantifier are not skipped but tabled with a machine-checked premise each (T1..T7). R09.R: every Render returns \"\" whenever it returns a non-nil error. " +
		"Decided: absence of run-time panics in library code for every table buildable through the public API, and the empty-string-on-error clause. Not decided: panics inside user-supplied callbacks/String methods/row-class generators, the standard library and the two width dependencies (assumed total on arbitrary strings)."
	r.NotDecided = []string{"panics raised inside user-supplied code (callbacks, item methods, row-class generator, io.Writer)", "nil receivers / nil tables handed in by the caller", "stack or memory exhaustion"}
	r.Assumptions = []string{
		"standard library, go-runewidth and uniseg functions do not panic on the arguments they are given and return documented non-negative counts",
		"Table implementers are the module's own types (a foreign implementation of tabular.Table, like the suite's brokenTable, is not 'built through the public API')",
		"decoration's emitter/WidthString methods and texttable's line helpers are internal API (texttable/decoration/doc.go): their requirements are checked at in-module call sites only",
		"integer arithmetic on sizes does not overflow",
	}
	r.Rule("R09.P", "every panic-capable instruction in the library is proved safe (locally, by call-site requirements, or by a tabled premise)")
	r.Rule("R09.N", "a result that may be nil is dereferenced only under a nil test or with arguments proved to be in the callee's non-nil range")
	r.Rule("R09.R", "every Render returns the empty string together with every non-nil error")

	ix := c.Idx()
	ix.Run()
	kinds := map[string]int{}
	nontrivialIdx := 0
	for _, o := range ix.Obls {
		kinds[o.Kind]++
		ob := r.CheckHow("R09.P", FuncName(o.Fn), o.Kind+" "+o.What, o.In.Pos(), o.OK, o.How, o.How)
		if o.Kind == "IDX" || o.Kind == "SLC" {
			nontrivialIdx++
		}
		_ = ob
	}
	r.Extra["obligation_kinds"] = kinds
	r.Floor("R09.P", "index/slice obligations", nontrivialIdx, 80)
	r.Floor("R09.P", "obligations of all kinds", len(ix.Obls), 120)
	ents := 0
	for _, fn := range c.LibFuncs() {
		if ix.isEntry(fn) {
			ents++
		}
	}
	r.Extra["entry_points"] = ents
	r.Floor("R09.P", "public entry points", ents, 60)

	c09NilResults(c, ix)
	c09RenderEmpty(c)
}

// ---- R09.R ------------------------------------------------------------------------

func c09RenderEmpty(c *Ctx) {
	r := c.R
	n := 0
	for _, fn := range c.LibFuncs() {
		if fn.Name() != "Render" || fn.Parent() != nil {
			continue
		}
		res := fn.Signature.Results()
		if res.Len() != 2 || !isStringType(res.At(0).Type()) || !isErrorType(res.At(1).Type()) {
			continue
		}
		n++
		pr := c.Idx().proverFor(fn)
		// (a return fed by assignments to named results is judged case by case, each with the tests on its path)
		for _, rc := range returnCases(fn) {
			i, ret, rv := rc.N-1, rc.Ret, rc.Vals
			s, e := rv[0], rv[1]
			ok, why := false, ""
			errKnownNil := false
			conds := expandConds(dominatingConds(ret.Block()))
			if rc.Via != nil && rc.Into != nil {
				conds = append(conds, pr.edgeConds(rc.Via, rc.Into)...)
			}
			for _, cf := range conds {
				if x, nn, isT := nilTest(cf.Cond); isT && x == e && ((nn == 0 && !cf.Val) || (nn == 1 && cf.Val)) {
					errKnownNil = true
				}
			}
			switch {
			case isNil(e):
				ok, why = true, "error is nil"
			case errKnownNil:
				ok, why = true, "the error was tested and is nil on this path"
			case isEmptyStringConst(s):
				ok, why = true, "text is \"\""
			default:
				// forwarding both results of another Render
				es, ok1 := s.(*ssa.Extract)
				ee, ok2 := e.(*ssa.Extract)
				if ok1 && ok2 && es.Tuple == ee.Tuple && es.Index == 0 && ee.Index == 1 {
					if call, isCall := es.Tuple.(*ssa.Call); isCall {
						name := ""
						if call.Call.IsInvoke() {
							name = call.Call.Method.Name()
						} else if f := call.Call.StaticCallee(); f != nil {
							name = f.Name()
						}
						if name == "Render" {
							ok, why = true, "forwards the results of another Render"
						}
					}
				}
				if !ok {
					why = "returns a possibly non-empty text together with a possibly non-nil error"
				}
			}
			r.Check("R09.R", FuncName(fn), fmt.Sprintf("return #%d", i+1), ret.Pos(), ok, why)
		}
	}
	r.Floor("R09.R", "Render functions and methods", n, 10)
	// "either complete output or an error": a write error that is swallowed gives incomplete output and no error
	importPremises(c, "R09.R", "write-error premise ", "a dropped write error is incomplete output reported as success", nil, func() { runC15(c) })
}

func isEmptyStringConst(v ssa.Value) bool {
	s, ok := constString(v)
	return ok && s == ""
}

// ---- R09.N ------------------------------------------------------------------------

// nilableResults: module functions some return of which hands back a nil pointer at result index k.
func nilableResults(c *Ctx) map[*ssa.Function]int {
	out := map[*ssa.Function]int{}
	for _, fn := range c.LibFuncs() {
		if fn.Parent() != nil {
			continue
		}
		res := fn.Signature.Results()
		for k := 0; k < res.Len(); k++ {
			if _, ok := res.At(k).Type().Underlying().(*types.Pointer); !ok {
				continue
			}
			for _, ret := range returnsOf(fn) {
				for _, v := range phiClosure(results(ret)[k]) {
					if isNil(v) {
						out[fn] = k
					}
				}
			}
		}
	}
	return out
}

func c09NilResults(c *Ctx, ix *idxEngine) {
	r := c.R
	nilable := nilableResults(c)
	nsites := 0
	for _, fn := range c.LibFuncs() {
		p := ix.proverFor(fn)
		counts := map[string]int{}
		eachInstr(fn, func(in ssa.Instruction) {
			call, ok := in.(*ssa.Call)
			if !ok {
				return
			}
			var callee *ssa.Function
			k := -1
			for _, f := range ix.eff.calleesAt(fn, call) {
				f = skipWrappers(f)
				if kk, ok := nilable[f]; ok {
					callee, k = f, kk
				}
			}
			if callee == nil {
				return
			}
			var v ssa.Value = call
			if callee.Signature.Results().Len() > 1 {
				v = nil
				for _, rr := range referrersOf(call) {
					if ex, ok := rr.(*ssa.Extract); ok && ex.Index == k {
						v = ex
					}
				}
				if v == nil {
					return
				}
			}
			for _, use := range derefUses(v) {
				nsites++
				name := "deref of " + FuncName(callee) + "(" + describeArgs(p, call) + ") result"
				counts[name]++
				if counts[name] > 1 {
					name = fmt.Sprintf("%s #%d", name, counts[name])
				}
				if nilChecked(v, use) {
					r.Check("R09.N", FuncName(fn), name, use.Pos(), true, "dominated by a nil test of the result")
					continue
				}
				ok, why := ix.nonNilByRange(fn, call, callee)
				r.Check("R09.N", FuncName(fn), name, use.Pos(), ok, why)
			}
		})
	}
	r.Floor("R09.N", "dereferences of possibly-nil results", nsites, 8)
	// the pointer a comma-ok assertion yields is nil when the assertion fails: with the ok result thrown away (or not
	// consulted on the way), nothing says it succeeded
	ix = c.Idx()
	for _, fn := range c.LibFuncs() {
		eachInstr(fn, func(in ssa.Instruction) {
			ta, isTA := in.(*ssa.TypeAssert)
			if !isTA || !ta.CommaOk {
				return
			}
			if _, isPtr := ta.AssertedType.Underlying().(*types.Pointer); !isPtr {
				return
			}
			var val, okv ssa.Value
			for _, rr := range referrersOf(ta) {
				if ex, isEx := rr.(*ssa.Extract); isEx {
					if ex.Index == 0 {
						val = ex
					} else {
						okv = ex
					}
				}
			}
			if val == nil {
				return
			}
			okUsed := okv != nil && len(referrersOf(okv)) > 0
			if !okUsed {
				// ... nor may it be wrapped into an interface value: a typed nil pointer inside an interface is not nil,
				// so later nil tests pass and the first method call through it dereferences nil
				carried := map[ssa.Value]bool{val: true}
				for changed := true; changed; {
					changed = false
					for v := range carried {
						for _, rr := range referrersOf(v) {
							if phi, isPhi := rr.(*ssa.Phi); isPhi && !carried[phi] {
								carried[phi] = true
								changed = true
							}
						}
					}
				}
				for v := range carried {
					for _, rr := range referrersOf(v) {
						mi, isMI := rr.(*ssa.MakeInterface)
						if !isMI || mi.X != v {
							continue
						}
						r.Check("R09.N", FuncName(fn), "the pointer from a comma-ok assertion whose ok is discarded is not wrapped into an interface unchecked", mi.Pos(), knownNonNil(ix, v, mi),
							"when the assertion fails the interface holds a typed nil pointer: it compares unequal to nil and the next method call through it dereferences nil")
					}
				}
			}
			for _, use := range referrersOf(val) {
				deref := false
				switch u := use.(type) {
				case *ssa.FieldAddr:
					deref = u.X == val
				case *ssa.UnOp:
					deref = u.Op == token.MUL && u.X == val
				case *ssa.Store:
					deref = u.Addr == val
				}
				if !deref {
					continue
				}
				if okUsed {
					// consulted somewhere: the dereference must sit behind it (or behind a nil test)
					guarded := knownNonNil(ix, val, use)
					for _, cf := range expandConds(dominatingConds(use.Block())) {
						if cf.Cond == okv && cf.Val {
							guarded = true
						}
					}
					if guarded {
						continue
					}
					// a phi-carried value etc.: left to the other rules
					continue
				}
				r.Check("R09.N", FuncName(fn), "the pointer from a comma-ok assertion whose ok is discarded is dereferenced only under a nil test", use.Pos(), knownNonNil(ix, val, use),
					"the assertion can fail (the chain's bottom marker, a foreign implementation): the pointer is then nil and this dereference panics")
			}
		})
	}
}

func describeArgs(p *prover, call *ssa.Call) string {
	var parts []string
	args := call.Call.Args
	if !call.Call.IsInvoke() && call.Call.Signature().Recv() != nil && len(args) > 0 {
		args = args[1:]
	}
	for _, a := range args {
		parts = append(parts, describe(p, a))
	}
	return strings.Join(parts, ",")
}

// derefUses: instructions that dereference pointer v (directly, or after flowing through a phi).
func derefUses(v ssa.Value) []ssa.Instruction {
	var out []ssa.Instruction
	seen := map[ssa.Value]bool{}
	var walk func(x ssa.Value)
	walk = func(x ssa.Value) {
		if seen[x] {
			return
		}
		seen[x] = true
		for _, r := range referrersOf(x) {
			switch y := r.(type) {
			case *ssa.FieldAddr:
				if y.X == x {
					out = append(out, y)
				}
			case *ssa.IndexAddr:
				if y.X == x {
					out = append(out, y)
				}
			case *ssa.UnOp:
				if y.X == x {
					out = append(out, y)
				}
			case *ssa.Store:
				if y.Addr == x {
					out = append(out, y)
				}
			case *ssa.Phi:
				walk(y)
			case ssa.CallInstruction:
				cc := y.Common()
				if !cc.IsInvoke() && cc.Signature().Recv() != nil && len(cc.Args) > 0 && cc.Args[0] == x {
					if f := cc.StaticCallee(); f != nil && !toleratesNilReceiver(f) && !toleratesNilReceiverSem(gCtx.Idx(), f, 0) {
						out = append(out, r)
					}
				}
			}
		}
	}
	walk(v)
	return out
}

// toleratesNilReceiver: the method's first action is to test its receiver against nil and return.
func toleratesNilReceiver(f *ssa.Function) bool {
	f = skipWrappers(f)
	if len(f.Blocks) == 0 || len(f.Params) == 0 {
		return false
	}
	b := f.Blocks[0]
	iff, ok := b.Instrs[len(b.Instrs)-1].(*ssa.If)
	if !ok {
		return false
	}
	e, _, ok := nilTest(iff.Cond)
	if !ok || e != ssa.Value(f.Params[0]) {
		return false
	}
	for _, in := range b.Instrs[:len(b.Instrs)-1] {
		switch in.(type) {
		case *ssa.BinOp, *ssa.DebugRef:
		default:
			return false
		}
	}
	return true
}

func nilChecked(v ssa.Value, use ssa.Instruction) bool {
	for _, cf := range dominatingConds(use.Block()) {
		e, nonNilSucc, ok := nilTest(cf.Cond)
		if !ok || e != v {
			continue
		}
		// nonNilSucc==0 means "cond true <=> non-nil"
		if (nonNilSucc == 0) == cf.Val {
			return true
		}
	}
	return false
}

// nonNilByRange: the callee returns non-nil whenever a conjunction G of linear guards over its parameters and
// its receiver's integer fields holds (simple guard chain); G is proved at the call site, where a receiver
// field is known to be >= any earlier getter result on the same receiver (the field never decreases).
func (ix *idxEngine) nonNilByRange(fn *ssa.Function, call *ssa.Call, callee *ssa.Function) (bool, string) {
	pc := ix.proverFor(callee)
	rets := returnsOf(callee)
	var nonNil *ssa.Return
	for _, ret := range rets {
		isN := false
		for _, v := range phiClosure(results(ret)[0]) {
			if isNil(v) {
				isN = true
			}
		}
		if !isN {
			if nonNil != nil {
				return false, "callee has several non-nil returns"
			}
			nonNil = ret
		}
	}
	if nonNil == nil {
		return false, "callee always returns nil"
	}
	guards := dominatingConds(nonNil.Block())
	guardIfs := map[*ssa.If]bool{}
	for _, g := range guards {
		guardIfs[g.If] = true
	}
	loops := false
	nifs := 0
	for _, b := range callee.Blocks {
		for _, s := range b.Succs {
			if s.Dominates(b) {
				loops = true
			}
		}
		if iff, ok := b.Instrs[len(b.Instrs)-1].(*ssa.If); ok {
			nifs++
			if !guardIfs[iff] {
				return false, "callee's control flow is not a plain chain of guards"
			}
		}
	}
	if loops || nifs == 0 {
		return false, "callee's control flow is not a plain chain of guards"
	}
	// translate
	p2 := ix.proverFor(fn)
	ti := pc.termIndex()
	acts := call.Call.Args
	var recvVal ssa.Value
	if call.Call.IsInvoke() {
		recvVal = call.Call.Value
		acts = append([]ssa.Value{nil}, acts...)
	} else if len(acts) > 0 {
		recvVal = acts[0]
	}
	var extra []constraint
	var goals []constraint
	for _, g := range guards {
		for _, cs := range pc.condConstraints(g.Cond, g.Val) {
			out := linConst(cs.e.k)
			for t, coef := range cs.e.coef {
				v, ok := ti.ints[t]
				if !ok {
					return false, "guard term " + t + " not expressible at the call"
				}
				if par, ok := v.(*ssa.Parameter); ok {
					idx := -1
					for i, q := range callee.Params {
						if q == par {
							idx = i
						}
					}
					if idx < 0 || idx >= len(acts) || acts[idx] == nil {
						return false, "guard mentions the receiver itself"
					}
					out = out.add(p2.linOf(acts[idx]).scale(coef))
					continue
				}
				f, base := loadedField(v)
				if f == nil || len(callee.Params) == 0 || base != ssa.Value(callee.Params[0]) {
					return false, "guard term " + t + " is neither a parameter nor a receiver field"
				}
				if !ix.nonDecreasingField(f) {
					return false, "receiver field " + f.Name() + " may decrease"
				}
				now := "fieldnow(" + p2.canon(recvVal) + "." + f.Name() + ")"
				out = out.add(linTerm(now).scale(coef))
				if lb, ok := ix.fieldLowerBound(f); ok {
					extra = append(extra, leq(linConst(lb), linTerm(now), "field "+f.Name()+" >= "+fmt.Sprint(lb)))
				}
				// earlier getter results on the same receiver
				eachInstr(fn, func(in ssa.Instruction) {
					c2, ok := in.(*ssa.Call)
					if !ok || c2 == call || !instrDominates(c2, call) {
						return
					}
					var r2 ssa.Value
					if c2.Call.IsInvoke() {
						r2 = c2.Call.Value
					} else if len(c2.Call.Args) > 0 {
						r2 = c2.Call.Args[0]
					}
					if os.Getenv("TABDBG") == "getter" && r2 != nil {
						fmt.Fprintf(os.Stderr, "getter? %s recv %s (%s) vs %s (%s)\n", c2, r2.Name(), p2.canon(r2), recvVal.Name(), p2.canon(recvVal))
					}
					if r2 == nil || p2.canon(r2) != p2.canon(recvVal) {
						return
					}
					cs2 := ix.eff.calleesAt(fn, c2)
					if len(cs2) == 0 {
						return
					}
					for _, g2 := range cs2 {
						if !isGetterOf(skipWrappers(g2), f) {
							return
						}
					}
					extra = append(extra, leq(p2.linOf(c2), linTerm(now), "an earlier "+calleeDesc(&c2.Call)+"() on the same receiver is <= the field now (it never decreases)"))
				})
			}
			goals = append(goals, constraint{out, cs.why})
		}
	}
	lifted := 0
	for _, g := range goals {
		if ok, _ := p2.prove(g, call, extra, 0); !ok {
			if okL, _ := ix.liftFieldGuard(fn, call, g, extra, recvVal); okL {
				lifted++
				continue
			}
			return false, "cannot show the callee's non-nil guard at this call: " + g.e.String() + " <= 0"
		}
	}
	if lifted > 0 {
		return true, fmt.Sprintf("the callee returns non-nil when its %d guard(s) hold; %d of them follow from a bound on this function's parameters that is proved at every one of its call sites", len(goals), lifted)
	}
	return true, fmt.Sprintf("the callee returns non-nil when its %d guard(s) hold; they are proved from the arguments here", len(goals))
}

// liftFieldGuard: the guard  X + .. <= fieldnow(recv.f)  could not be shown inside fn. If fn is internal, recv is
// one of fn's parameters (or an immutable field of one) and some parameter term A of fn satisfies
//
//	(A <= fieldnow(recv.f))  =>  guard,
//
// then it suffices that at every call site of fn the actual for A is <= the current value of that field of the
// actual receiver: the field never decreases, so the bound still holds when the inner call is made.
func (ix *idxEngine) liftFieldGuard(fn *ssa.Function, call *ssa.Call, g constraint, extra []constraint, recvVal ssa.Value) (bool, string) {
	if ix.isEntry(fn) || recvVal == nil {
		return false, ""
	}
	p2 := ix.proverFor(fn)
	// the fieldnow term of the goal
	var now string
	for t := range g.e.coef {
		if strings.HasPrefix(t, "fieldnow(") {
			if now != "" {
				return false, ""
			}
			now = t
		}
	}
	if now == "" {
		return false, ""
	}
	fname := now[strings.LastIndex(now, ".")+1 : len(now)-1]
	// receiver as a path from a parameter
	parIdx, viaField := -1, (*types.Var)(nil)
	recv := recvVal
	if f1, base := loadedField(recv); f1 != nil {
		if !ix.immutableField(f1) {
			return false, ""
		}
		viaField = f1
		recv = base
	}
	for i, par := range fn.Params {
		if recv == ssa.Value(par) {
			parIdx = i
		}
	}
	if parIdx < 0 {
		return false, ""
	}
	sites := ix.callSitesOf(fn)
	if len(sites) == 0 {
		return false, ""
	}
	for _, a := range p2.paramTerms() {
		cand := leq(linTerm(a.Term), linTerm(now), "requires "+a.Term+" <= "+now)
		if ok, _ := p2.prove(g, call, append(append([]constraint{}, extra...), cand), 0); !ok {
			continue
		}
		good := true
		for _, s := range sites {
			tr, ok := ix.translate(fn, constraint{linTerm(a.Term), ""}, s)
			acts := actualsOf(s.Call, fn)
			if !ok || parIdx >= len(acts) || acts[parIdx] == nil {
				good = false
				break
			}
			ps := ix.proverFor(s.Fn)
			act := acts[parIdx]
			sameRecv := func(r2 ssa.Value) bool {
				if viaField == nil {
					return ps.canon(r2) == ps.canon(act)
				}
				f2, b2 := loadedField(r2)
				return f2 == viaField && ps.canon(b2) == ps.canon(act)
			}
			nowS := "fieldnow(" + ps.canon(act) + "/" + fname + ")"
			var ex []constraint
			var fld *types.Var
			eachInstr(s.Fn, func(in ssa.Instruction) {
				c2, ok := in.(*ssa.Call)
				if !ok || ssa.Instruction(c2) == s.Call.(ssa.Instruction) || !instrDominates(c2, s.Call.(ssa.Instruction)) {
					return
				}
				var r2 ssa.Value
				if c2.Call.IsInvoke() {
					r2 = c2.Call.Value
				} else if len(c2.Call.Args) > 0 {
					r2 = c2.Call.Args[0]
				}
				if r2 == nil || !sameRecv(r2) {
					return
				}
				cs2 := ix.eff.calleesAt(s.Fn, c2)
				if len(cs2) == 0 {
					return
				}
				for _, g2 := range cs2 {
					gf := getterField(skipWrappers(g2))
					if gf == nil || gf.Name() != fname || !ix.nonDecreasingField(gf) {
						return
					}
					fld = gf
				}
				ex = append(ex, leq(ps.linOf(c2), linTerm(nowS), "an earlier getter on the same receiver is <= the field now"))
			})
			_ = fld
			goal := leq(tr.e, linTerm(nowS), "bound on the callee's parameter")
			if ok, _ := ps.prove(goal, s.Call.(ssa.Instruction), ex, 0); !ok {
				good = false
				break
			}
		}
		if good {
			return true, cand.why
		}
	}
	return false, ""
}

// getterField: every return of f is a load of one field of its receiver; returns that field.
func getterField(f *ssa.Function) *types.Var {
	if f == nil || len(f.Params) == 0 {
		return nil
	}
	var out *types.Var
	rets := returnsOf(f)
	for _, ret := range rets {
		rv := results(ret)
		if len(rv) != 1 {
			return nil
		}
		fl, base := loadedField(rv[0])
		if fl == nil || base != ssa.Value(f.Params[0]) || (out != nil && out != fl) {
			return nil
		}
		out = fl
	}
	return out
}

// isGetterOf: every return of f is a load of field fld of its receiver.
func isGetterOf(f *ssa.Function, fld *types.Var) bool {
	if f == nil || len(f.Params) == 0 {
		return false
	}
	rets := returnsOf(f)
	if len(rets) == 0 {
		return false
	}
	for _, ret := range rets {
		rv := results(ret)
		if len(rv) != 1 {
			return false
		}
		fl, base := loadedField(rv[0])
		if fl != fld || base != ssa.Value(f.Params[0]) {
			return false
		}
	}
	return true
}

// nonDecreasingField: every store to integer field f of an existing object stores a value >= the old one.
func (ix *idxEngine) nonDecreasingField(f *types.Var) bool {
	if v, ok := ix.nondec[f]; ok {
		return v
	}
	ok := true
	for _, fs := range ix.c.StoresTo(f) {
		if fs.Fresh {
			continue
		}
		p := ix.proverFor(fs.Fn)
		// find a load of the same field of the same base that dominates the store
		proved := false
		eachInstr(fs.Fn, func(in ssa.Instruction) {
			u, isU := in.(*ssa.UnOp)
			if !isU || proved {
				return
			}
			fl, base := loadedField(u)
			if fl != f || base != fs.Base || !instrDominates(in, fs.St) {
				return
			}
			clean := true
			for _, mid := range p.between(in, fs.St) {
				if p.mayWrite(mid, memLoc{kind: "field", field: f}, f.Type(), nil) {
					clean = false
				}
			}
			if !clean {
				return
			}
			if good, _ := p.prove(leq(p.linOf(u), p.linOf(fs.St.Val), "new >= old"), fs.St, nil, 0); good {
				proved = true
			}
		})
		if !proved {
			ok = false
		}
	}
	ix.nondec[f] = ok
	return ok
}

// ---- nil receivers, decided by what is reachable rather than by where the test is written ---------------------

// helperExcludesNil: the branch (cond, val) can only be taken when v is non-nil, because cond compares the result
// of a module function h(.., v, ..) with a constant and every return of h that can be reached with v == nil hands
// back a constant for which the comparison comes out the other way
// (if ec.count() == 0 { return nil } ; count returns 0 for a nil receiver).
func helperExcludesNil(ix *idxEngine, cond ssa.Value, val bool, v ssa.Value) bool {
	bo, ok := cond.(*ssa.BinOp)
	if !ok {
		return false
	}
	var call *ssa.Call
	var k int64
	swapped := false
	if c1, isC := bo.X.(*ssa.Call); isC {
		if kk, isK := constInt(bo.Y); isK {
			call, k = c1, kk
		}
	}
	if call == nil {
		if c2, isC := bo.Y.(*ssa.Call); isC {
			if kk, isK := constInt(bo.X); isK {
				call, k, swapped = c2, kk, true
			}
		}
	}
	if call == nil {
		return false
	}
	h := call.Call.StaticCallee()
	if h == nil || !inModule(h) || h.Blocks == nil || h.Signature.Results().Len() != 1 {
		return false
	}
	idx := -1
	for i, a := range call.Call.Args {
		if a == v {
			idx = i
		}
	}
	if idx < 0 || idx >= len(h.Params) {
		return false
	}
	par := h.Params[idx]
	cmp := func(r int64) bool { // truth of cond when the call yields r
		a, b := r, k
		if swapped {
			a, b = k, r
		}
		switch bo.Op {
		case token.EQL:
			return a == b
		case token.NEQ:
			return a != b
		case token.LSS:
			return a < b
		case token.LEQ:
			return a <= b
		case token.GTR:
			return a > b
		case token.GEQ:
			return a >= b
		}
		return val // unknown operator: cannot exclude
	}
	for _, rc := range returnCases(h) {
		// can this case be reached with par == nil?
		nonNil := false
		for _, blk := range []*ssa.BasicBlock{rc.Via, rc.Ret.Block()} {
			for _, cf := range expandConds(dominatingConds(blk)) {
				if e, nn, isT := nilTest(cf.Cond); isT && e == ssa.Value(par) && (nn == 0) == cf.Val {
					nonNil = true
				}
			}
		}
		if rc.Via != rc.Ret.Block() {
			// the edge Via -> merge block itself
			if last, isIf := rc.Via.Instrs[len(rc.Via.Instrs)-1].(*ssa.If); isIf {
				if e, nn, isT := nilTest(last.Cond); isT && e == ssa.Value(par) {
					for si, s := range rc.Via.Succs {
						if s == rc.Into && si == nn {
							nonNil = true
						}
					}
				}
			}
		}
		if nonNil {
			continue
		}
		r, isK := constInt(rc.Vals[0])
		if !isK || cmp(r) == val {
			return false // a nil v can produce a result that takes this branch
		}
	}
	_ = ix
	return true
}

// knownNonNil: v is non-nil wherever `at` runs: a dominating nil test, or a dominating comparison of a helper's
// result that a nil v cannot pass.
func knownNonNil(ix *idxEngine, v ssa.Value, at ssa.Instruction) bool {
	if nilChecked(v, at) {
		return true
	}
	for _, cf := range expandConds(dominatingConds(at.Block())) {
		if helperExcludesNil(ix, cf.Cond, cf.Val, v) {
			return true
		}
	}
	return false
}

// toleratesNilReceiverSem: nothing in f touches memory through the receiver, or hands it to a method that would,
// unless the receiver is known non-nil there.
func toleratesNilReceiverSem(ix *idxEngine, f *ssa.Function, depth int) bool {
	f = skipWrappers(f)
	if len(f.Blocks) == 0 || len(f.Params) == 0 || depth > 3 {
		return false
	}
	recv := ssa.Value(f.Params[0])
	ok := true
	eachInstr(f, func(in ssa.Instruction) {
		if !ok {
			return
		}
		switch x := in.(type) {
		case *ssa.FieldAddr:
			if x.X == recv && !knownNonNil(ix, recv, in) {
				ok = false
			}
		case *ssa.UnOp:
			if x.Op == token.MUL && x.X == recv && !knownNonNil(ix, recv, in) {
				ok = false
			}
		case *ssa.Store:
			if x.Addr == recv && !knownNonNil(ix, recv, in) {
				ok = false
			}
		case ssa.CallInstruction:
			cc := x.Common()
			for i, a := range cc.Args {
				if a != recv {
					continue
				}
				if knownNonNil(ix, recv, in) {
					continue
				}
				g := cc.StaticCallee()
				if g == nil || !inModule(g) || i != 0 || g.Signature.Recv() == nil {
					ok = false // handed to something that is not known to cope with nil
					continue
				}
				if !toleratesNilReceiverSem(ix, g, depth+1) {
					ok = false
				}
			}
			if cc.IsInvoke() && cc.Value == recv {
				ok = false
			}
		}
	})
	return ok
}

// helperSaysLenPositive: the branch (cond, val) is taken only when len(<field fld of v>) >= 1, because cond compares
// with a constant the result of a module function h(.., v, ..) whose every return either hands back a constant that
// fails the comparison or hands back len(v.fld), and a length of 0 fails the comparison too.
func helperSaysLenPositive(cond ssa.Value, val bool, v ssa.Value, fld *types.Var) bool {
	bo, ok := cond.(*ssa.BinOp)
	if !ok {
		return false
	}
	var call *ssa.Call
	var k int64
	swapped := false
	if c1, isC := bo.X.(*ssa.Call); isC {
		if kk, isK := constInt(bo.Y); isK {
			call, k = c1, kk
		}
	}
	if call == nil {
		if c2, isC := bo.Y.(*ssa.Call); isC {
			if kk, isK := constInt(bo.X); isK {
				call, k, swapped = c2, kk, true
			}
		}
	}
	if call == nil {
		return false
	}
	h := call.Call.StaticCallee()
	if h == nil || !inModule(h) || h.Blocks == nil || h.Signature.Results().Len() != 1 {
		return false
	}
	idx := -1
	for i, a := range call.Call.Args {
		if a == v {
			idx = i
		}
	}
	if idx < 0 || idx >= len(h.Params) {
		return false
	}
	par := h.Params[idx]
	cmp := func(r int64) bool {
		a, b := r, k
		if swapped {
			a, b = k, r
		}
		switch bo.Op {
		case token.EQL:
			return a == b
		case token.NEQ:
			return a != b
		case token.LSS:
			return a < b
		case token.LEQ:
			return a <= b
		case token.GTR:
			return a > b
		case token.GEQ:
			return a >= b
		}
		return val
	}
	if cmp(0) == val {
		return false // an empty list takes this branch as well
	}
	sawLen := false
	for _, rc := range returnCases(h) {
		if r, isK := constInt(rc.Vals[0]); isK {
			if cmp(r) == val && r < 1 {
				return false
			}
			if cmp(r) == val {
				return false // a constant result takes the branch: says nothing about the list
			}
			continue
		}
		lc, isLen := isBuiltinCall(rc.Vals[0], "len")
		if !isLen {
			return false
		}
		f, b := loadedField(lc.Call.Args[0])
		if f != fld || b != ssa.Value(par) {
			return false
		}
		sawLen = true
	}
	return sawLen
}
