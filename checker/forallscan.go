package main

import (
	"fmt"
	"go/token"

	"golang.org/x/tools/go/ssa"
)

// scanEstablishesNoNil decides "every element of el has been seen non-nil" at instruction `at` by induction over
// a loop that visits every index of el, instead of by the spelling of that loop.
//
// Atoms:  CUR   - the element at the loop's current index is nil
//
//	F     - a boolean the loop carries (a phi of its header): "a nil has been seen" flags, whatever they are called
//	RANGE - the header's own test (index still in range)
//
// Invariant I at the header:   (every carried boolean is false)  =>  (every element visited so far is non-nil).
//
//	init  : nothing visited yet - holds whatever the flags are.
//	step  : for every path once round the loop, from what the path's branches say and from I: if all the new flag
//	        values are false then the old flags were false and the element of this trip is non-nil. A flag's new
//	        value may be a constant, the old flag, or the very test CUR; a trip that neither branches on CUR nor
//	        records it in a flag is rejected.
//	exit  : every feasible path from the header to `at` has RANGE false (the loop ran out of indexes, it was not
//	        left early) and every flag known false (tested on the way); then I gives the claim.
//
// Branches are followed consistently: a path that assumes an atom both ways is infeasible and dropped.
func scanEstablishesNoNil(p *prover, el ssa.Value, at ssa.Instruction) (bool, string) {
	fn := p.fn
	c := p.ix.c
	// el's elements are never written here
	bad := false
	eachInstr(fn, func(in ssa.Instruction) {
		if st, ok := in.(*ssa.Store); ok {
			if ia, isIA := st.Addr.(*ssa.IndexAddr); isIA && p.resolve(ia.X) == p.resolve(el) {
				bad = true
			}
		}
	})
	if bad {
		return false, "the list is written while it is scanned"
	}
	why := "no loop over the whole list decides this"
	for _, H := range fn.Blocks {
		if !isLoopHeaderBlock(H) || !H.Dominates(at.Block()) {
			continue
		}
		inLoop := func(b *ssa.BasicBlock) bool { return H.Dominates(b) && blockReach(b, nil)[H] }
		if inLoop(at.Block()) {
			continue
		}
		hif, ok := H.Instrs[len(H.Instrs)-1].(*ssa.If)
		if !ok {
			continue
		}
		// the index: every read of el inside the loop uses one induction variable that covers the list
		var idx ssa.Value
		okIdx, reads := true, 0
		for _, b := range fn.Blocks {
			if !inLoop(b) {
				continue
			}
			for _, in := range b.Instrs {
				ia, isIA := in.(*ssa.IndexAddr)
				if !isIA || p.resolve(ia.X) != p.resolve(el) {
					continue
				}
				reads++
				i := p.resolve(ia.Index)
				if idx != nil && idx != i {
					okIdx = false
				}
				idx = i
			}
		}
		if reads == 0 || !okIdx || !isFullRangeIndex(c, fn, idx, el) {
			continue
		}
		if phi, isPhi := idx.(*ssa.Phi); isPhi && phi.Block() != H {
			continue
		}
		if b, isB := idx.(*ssa.BinOp); isB {
			if phi, isPhi := b.X.(*ssa.Phi); !isPhi || phi.Block() != H {
				continue
			}
		}
		var flags []*ssa.Phi
		for _, in := range H.Instrs {
			phi, isPhi := in.(*ssa.Phi)
			if !isPhi {
				break
			}
			if isBoolType(phi.Type()) {
				flags = append(flags, phi)
			}
		}
		isCur := func(v ssa.Value) bool {
			u, ok := v.(*ssa.UnOp)
			if !ok || u.Op != token.MUL {
				return false
			}
			ia, ok := u.X.(*ssa.IndexAddr)
			return ok && p.resolve(ia.X) == p.resolve(el) && p.resolve(ia.Index) == idx
		}
		type lit struct {
			key   string // "" : constant
			neg   bool
			konst bool
		}
		var resolve func(v ssa.Value, phis map[*ssa.Phi]ssa.Value, depth int) (lit, bool)
		resolve = func(v ssa.Value, phis map[*ssa.Phi]ssa.Value, depth int) (lit, bool) {
			if depth > 8 {
				return lit{}, false
			}
			if b, isC := constBool(v); isC {
				return lit{konst: b}, true
			}
			if v == hif.Cond {
				return lit{key: "RANGE"}, true
			}
			switch x := v.(type) {
			case *ssa.UnOp:
				if x.Op == token.NOT {
					l, ok := resolve(x.X, phis, depth+1)
					if !ok {
						return l, false
					}
					if l.key == "" {
						l.konst = !l.konst
					} else {
						l.neg = !l.neg
					}
					return l, true
				}
			case *ssa.BinOp:
				if e, nn, isT := nilTest(x); isT && isCur(e) {
					// nn==1: "== nil"
					return lit{key: "CUR", neg: nn != 1}, true
				}
			case *ssa.Call:
				// the test made by a function: isNil(el[i]), or a predicate the caller handed in and that is known,
				// at the call being judged, to be such a function
				if len(x.Call.Args) == 1 && !x.Call.IsInvoke() && isCur(x.Call.Args[0]) {
					f := x.Call.StaticCallee()
					if f == nil {
						if par, isPar := x.Call.Value.(*ssa.Parameter); isPar {
							f = scanFuncBindings[par]
						}
					}
					if isNilForm, okP := nilPredicateFunc(f); okP {
						return lit{key: "CUR", neg: !isNilForm}, true
					}
				}
			case *ssa.Phi:
				if x.Block() == H {
					return lit{key: "F:" + p.canon(x)}, true
				}
				if e, has := phis[x]; has {
					return resolve(e, phis, depth+1)
				}
			}
			return lit{}, false
		}
		type pathState struct {
			know map[string]bool
			phis map[*ssa.Phi]ssa.Value
		}
		clone := func(s pathState) pathState {
			n := pathState{know: map[string]bool{}, phis: map[*ssa.Phi]ssa.Value{}}
			for k, v := range s.know {
				n.know[k] = v
			}
			for k, v := range s.phis {
				n.phis[k] = v
			}
			return n
		}
		const maxPaths = 512
		npaths := 0
		failed := ""
		// walk enumerates paths from H; onArrive is called when `stop(b)` holds for the block about to be entered.
		var walk func(from, b *ssa.BasicBlock, s pathState, seen map[*ssa.BasicBlock]bool, left bool, mode string, onArrive func(pred *ssa.BasicBlock, s pathState))
		walk = func(from, b *ssa.BasicBlock, s pathState, seen map[*ssa.BasicBlock]bool, left bool, mode string, onArrive func(pred *ssa.BasicBlock, s pathState)) {
			if failed != "" {
				return
			}
			npaths++
			if npaths > maxPaths {
				failed = "too many paths"
				return
			}
			if from != nil {
				if mode == "body" && b == H {
					onArrive(from, s)
					return
				}
				if mode == "exit" {
					if b == H {
						return // a whole trip: covered by the induction step
					}
					if b == at.Block() {
						onArrive(from, s)
						return
					}
					if !inLoop(b) {
						left = true
					} else if left {
						failed = "control re-enters the loop"
						return
					}
					if !blockReach(b, nil)[at.Block()] {
						return
					}
				}
				if mode == "body" && !inLoop(b) {
					return // leaves the loop: an exit path
				}
				if seen[b] {
					failed = "a nested loop lies on the way"
					return
				}
				seen[b] = true
				defer delete(seen, b)
				// phis of b take the value of the edge we came by
				for k, pr := range b.Preds {
					if pr != from {
						continue
					}
					for _, in := range b.Instrs {
						phi, isPhi := in.(*ssa.Phi)
						if !isPhi {
							break
						}
						s.phis[phi] = phi.Edges[k]
					}
				}
			}
			switch t := b.Instrs[len(b.Instrs)-1].(type) {
			case *ssa.Jump:
				walk(b, b.Succs[0], s, seen, left, mode, onArrive)
			case *ssa.If:
				l, ok := resolve(t.Cond, s.phis, 0)
				for k, succ := range b.Succs {
					want := k == 0
					s2 := s
					if ok {
						if l.key == "" {
							if l.konst != want {
								continue
							}
						} else {
							val := want != l.neg // truth of the atom on this branch
							if old, has := s.know[l.key]; has {
								if old != val {
									continue // infeasible
								}
							} else {
								s2 = clone(s)
								s2.know[l.key] = val
							}
						}
					}
					if !ok || l.key == "" {
						s2 = clone(s)
					}
					walk(b, succ, s2, seen, left, mode, onArrive)
				}
			default:
				// return, panic: the path ends without reaching anything of interest
			}
		}
		// ---- step
		trips := 0
		walk(nil, H, pathState{know: map[string]bool{}, phis: map[*ssa.Phi]ssa.Value{}}, map[*ssa.BasicBlock]bool{}, false, "body", func(pred *ssa.BasicBlock, s pathState) {
			trips++
			predIdx := -1
			for k, pr := range H.Preds {
				if pr == pred {
					predIdx = k
				}
			}
			if predIdx < 0 {
				failed = "internal: back edge not found"
				return
			}
			curCovered := false
			if v, has := s.know["CUR"]; has && !v {
				curCovered = true // this trip branched on the element and took the non-nil side
			}
			for _, f := range flags {
				key := "F:" + p.canon(f)
				nl, ok := resolve(f.Edges[predIdx], s.phis, 0)
				switch {
				case ok && nl.key == "" && nl.konst:
					return // a flag is raised: I holds trivially after this trip
				case ok && nl.key == "" && !nl.konst:
					// flag lowered (or kept false): the old flag must be known false for I to be usable
					if v, has := s.know[key]; !has || v {
						failed = fmt.Sprintf("a trip lowers the flag %s without knowing it was false", p.canon(f))
						return
					}
				case ok && nl.key == key && !nl.neg:
					// carried unchanged: not-new implies not-old
				case ok && nl.key == "CUR" && !nl.neg:
					// the new flag IS the test of this trip's element: not-new implies the element is non-nil;
					// the old flag must have been known false
					if v, has := s.know[key]; !has || v {
						failed = fmt.Sprintf("a trip overwrites the flag %s without knowing it was false", p.canon(f))
						return
					}
					curCovered = true
				default:
					failed = fmt.Sprintf("a trip sets the flag %s to something this analysis does not follow", p.canon(f))
					return
				}
			}
			if !curCovered {
				failed = "a trip of the loop neither tests its element against nil nor records that test"
			}
		})
		if failed != "" {
			why = failed
			continue
		}
		if trips == 0 {
			continue
		}
		// ---- exit
		npaths = 0
		arrivals := 0
		walk(nil, H, pathState{know: map[string]bool{}, phis: map[*ssa.Phi]ssa.Value{}}, map[*ssa.BasicBlock]bool{}, false, "exit", func(pred *ssa.BasicBlock, s pathState) {
			arrivals++
			if v, has := s.know["RANGE"]; !has || v {
				failed = "the append can be reached after leaving the scan early"
				return
			}
			for _, f := range flags {
				if v, has := s.know["F:"+p.canon(f)]; !has || v {
					failed = fmt.Sprintf("the append can be reached without knowing that %s is false", p.canon(f))
					return
				}
			}
		})
		if failed != "" {
			why = failed
			continue
		}
		if arrivals == 0 {
			continue
		}
		return true, fmt.Sprintf("by induction over the scan loop before %s: it visits every index, each trip tests its element (directly or through %d carried flag(s)), and the append is reached only after the last index with every flag false", c.Pos(at.Pos()), len(flags))
	}
	return false, why
}

// scanFuncBindings: while a helper is judged for one particular call of it, the function each of its
// function-typed parameters is bound to at that call.
var scanFuncBindings = map[*ssa.Parameter]*ssa.Function{}

// nilPredicateFunc: f(e) returns exactly e == nil (isNilForm) or exactly e != nil.
func nilPredicateFunc(f *ssa.Function) (isNilForm, ok bool) {
	if f == nil || f.Blocks == nil || len(f.Params) != 1 || f.Signature.Results().Len() != 1 || !isBoolType(f.Signature.Results().At(0).Type()) {
		return false, false
	}
	rets := returnsOf(f)
	if len(rets) != 1 {
		return false, false
	}
	e, nn, isT := nilTest(results(rets[0])[0])
	if !isT || e != ssa.Value(f.Params[0]) {
		return false, false
	}
	return nn == 1, true
}
