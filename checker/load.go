package main

import (
	"fmt"
	"go/token"
	"go/types"
	"os"
	"sort"
	"strings"

	"golang.org/x/tools/go/callgraph"
	"golang.org/x/tools/go/callgraph/cha"
	"golang.org/x/tools/go/callgraph/vta"
	"golang.org/x/tools/go/packages"
	"golang.org/x/tools/go/ssa"
	"golang.org/x/tools/go/ssa/ssautil"
)

const modPath = "go.pennock.tech/tabular"

// minPackages is the number of packages of the module confirmed by reading;
// fewer loaded means the loader did not see what the build sees.
const minPackages = 12

// Ctx is one loaded, type-checked program in SSA form plus its call graph.
type Ctx struct {
	Repo    string
	Fset    *token.FileSet
	Pkgs    map[string]*packages.Package // by import path, module packages only
	immGlob map[*ssa.Global]bool
	renamed []string // anchors found by type after a rename (anchors.go)
	inRole  bool
	All     []*packages.Package // every package with syntax (deps too)
	Prog    *ssa.Program
	SSA     map[string]*ssa.Package // by import path (module + deps that have SSA)
	CG      *callgraph.Graph
	CHA     *callgraph.Graph
	R       *Report
	GOARCH  string
	Tags    string
	Tier    string
	CGKind  string
	Dump    string

	fieldOwner map[*types.Var]string
	eff        *Effects
	fstores    []fieldStore
	idx        *idxEngine

	modFuncs   []*ssa.Function // all functions (incl. anonymous, methods) of module packages, tests excluded
	depFuncs   []*ssa.Function // same for runewidth/uniseg
	allFuncSet map[*ssa.Function]bool
}

func fatalf(format string, a ...interface{}) {
	fmt.Fprintf(os.Stderr, "tabverif: "+format+"\n", a...)
	os.Exit(2)
}

// Load type-checks /repo's working tree (all packages, no tests) and builds SSA
// and call graphs.  Any load or type error is fatal (exit 2 => the check fails).
func Load(repo, goarch, tags string) *Ctx {
	env := append(os.Environ(),
		"GOFLAGS=-mod=mod", "GOPROXY=off", "GOSUMDB=off", "GOTOOLCHAIN=local", "GOWORK=off")
	if goarch != "" {
		env = append(env, "GOARCH="+goarch)
	}
	cfg := &packages.Config{
		Mode:  packages.LoadAllSyntax,
		Dir:   repo,
		Env:   env,
		Tests: os.Getenv("TABVERIF_TESTS") == "1", // only the DEBUG-rename helper loads test files
	}
	if tags != "" {
		cfg.BuildFlags = []string{"-tags=" + tags}
	}
	pkgs, err := packages.Load(cfg, "./...")
	if err != nil {
		fatalf("load: %v", err)
	}
	c := &Ctx{Repo: repo, Pkgs: map[string]*packages.Package{}, SSA: map[string]*ssa.Package{}, GOARCH: goarch, Tags: tags}
	nerr := 0
	packages.Visit(pkgs, nil, func(p *packages.Package) {
		for _, e := range p.Errors {
			fmt.Fprintf(os.Stderr, "tabverif: package %s: %v\n", p.PkgPath, e)
			nerr++
		}
		c.All = append(c.All, p)
	})
	if nerr > 0 {
		fatalf("%d load/type errors", nerr)
	}
	for _, p := range pkgs {
		if p.PkgPath == modPath || strings.HasPrefix(p.PkgPath, modPath+"/") {
			c.Pkgs[p.PkgPath] = p
		}
	}
	if len(c.Pkgs) < minPackages {
		fatalf("only %d packages of %s loaded (floor %d)", len(c.Pkgs), modPath, minPackages)
	}
	if len(pkgs) > 0 {
		c.Fset = pkgs[0].Fset
	}
	prog, _ := ssautil.AllPackages(pkgs, ssa.InstantiateGenerics)
	prog.Build()
	c.Prog = prog
	for _, sp := range prog.AllPackages() {
		c.SSA[sp.Pkg.Path()] = sp
	}
	all := ssautil.AllFunctions(prog)
	c.allFuncSet = all
	c.CHA = cha.CallGraph(prog)
	c.CG = vta.CallGraph(all, c.CHA)
	for fn := range all {
		if fn.Pkg == nil && fn.Parent() == nil && fn.Origin() == nil {
			// wrappers, bound method thunks: attributed by their declared object below
		}
		pp := funcPkgPath(fn)
		switch {
		case pp == modPath || strings.HasPrefix(pp, modPath+"/"):
			if fn.Synthetic == "" || fn.Parent() != nil || fn.Name() == "init" {
				c.modFuncs = append(c.modFuncs, fn)
			}
		case strings.HasPrefix(pp, "github.com/mattn/go-runewidth") || strings.HasPrefix(pp, "github.com/rivo/uniseg"):
			if fn.Synthetic == "" || fn.Parent() != nil || fn.Name() == "init" {
				c.depFuncs = append(c.depFuncs, fn)
			}
		}
	}
	sortFuncs(c.modFuncs)
	sortFuncs(c.depFuncs)
	gCtx = c
	return c
}

func sortFuncs(fs []*ssa.Function) {
	sort.Slice(fs, func(i, j int) bool {
		a, b := fs[i].String(), fs[j].String()
		if a != b {
			return a < b
		}
		return fs[i].Pos() < fs[j].Pos()
	})
}

// funcPkgPath gives the import path of the package a function's source is in
// ("" for synthetic wrappers without one).
func funcPkgPath(fn *ssa.Function) string {
	for f := fn; f != nil; f = f.Parent() {
		if f.Pkg != nil {
			return f.Pkg.Pkg.Path()
		}
		if o := f.Origin(); o != nil && o.Pkg != nil {
			return o.Pkg.Pkg.Path()
		}
		if f.Object() != nil && f.Object().Pkg() != nil {
			return f.Object().Pkg().Path()
		}
	}
	return ""
}

// pkgPath turns a module-relative name ("", "csv", "texttable/decoration") into an import path.
func pkgPath(rel string) string {
	if rel == "" || rel == "." || rel == "tabular" {
		return modPath
	}
	return modPath + "/" + rel
}

// relPkg is the inverse, for printing.
func relPkg(path string) string {
	if path == modPath {
		return "tabular"
	}
	return strings.TrimPrefix(path, modPath+"/")
}

// inModule reports whether fn's source is in the module (any package).
func inModule(fn *ssa.Function) bool {
	pp := funcPkgPath(fn)
	return pp == modPath || strings.HasPrefix(pp, modPath+"/")
}

// ModFuncs returns the module's source functions; pkgs (relative names)
// restricts to those packages when given.
func (c *Ctx) ModFuncs(pkgs ...string) []*ssa.Function {
	if len(pkgs) == 0 {
		return c.modFuncs
	}
	want := map[string]bool{}
	for _, p := range pkgs {
		want[pkgPath(p)] = true
	}
	var out []*ssa.Function
	for _, fn := range c.modFuncs {
		if want[funcPkgPath(fn)] {
			out = append(out, fn)
		}
	}
	return out
}

// LibFuncs = module functions outside package examples.
func (c *Ctx) LibFuncs() []*ssa.Function {
	var out []*ssa.Function
	for _, fn := range c.modFuncs {
		if funcPkgPath(fn) != pkgPath("examples") {
			out = append(out, fn)
		}
	}
	return out
}

// ---- anchors (resolved through go/types; failure is fatal for the rule) ----

func (c *Ctx) TPkg(rel string) *types.Package {
	p := c.Pkgs[pkgPath(rel)]
	if p == nil {
		c.R.AnchorMissing("package " + pkgPath(rel))
		return nil
	}
	return p.Types
}

// Named resolves a package-level named type.
func (c *Ctx) Named(rel, name string) *types.Named {
	tp := c.TPkg(rel)
	if tp == nil {
		return nil
	}
	o := tp.Scope().Lookup(name)
	tn, _ := o.(*types.TypeName)
	if tn == nil {
		c.R.AnchorMissing("type " + relPkg(pkgPath(rel)) + "." + name)
		return nil
	}
	n, _ := tn.Type().(*types.Named)
	if n == nil {
		c.R.AnchorMissing("named type " + relPkg(pkgPath(rel)) + "." + name)
	}
	return n
}

// Field resolves a struct field (possibly of an embedded struct is NOT followed).
func (c *Ctx) Field(n *types.Named, name string) *types.Var {
	if n == nil {
		return nil
	}
	st, _ := n.Underlying().(*types.Struct)
	if st != nil {
		for i := 0; i < st.NumFields(); i++ {
			if st.Field(i).Name() == name {
				return st.Field(i)
			}
		}
	}
	if v := c.renamedField(n, name); v != nil {
		return v
	}
	c.R.AnchorMissing("field " + n.Obj().Name() + "." + name)
	return nil
}

// FieldOpt is Field without the anchor-missing failure.
func (c *Ctx) FieldOpt(n *types.Named, name string) *types.Var {
	if n == nil {
		return nil
	}
	if st, _ := n.Underlying().(*types.Struct); st != nil {
		for i := 0; i < st.NumFields(); i++ {
			if st.Field(i).Name() == name {
				return st.Field(i)
			}
		}
	}
	return c.renamedField(n, name)
}

// Func resolves a package-level function to its SSA function.
func (c *Ctx) Func(rel, name string) *ssa.Function {
	sp := c.SSA[pkgPath(rel)]
	if sp == nil {
		c.R.AnchorMissing("package " + pkgPath(rel))
		return nil
	}
	fn := sp.Func(name)
	if fn == nil {
		fn = c.renamedFunc(rel, "", name)
	}
	if fn == nil {
		c.R.AnchorMissing("func " + relPkg(pkgPath(rel)) + "." + name)
	}
	return fn
}

// FuncOpt is Func without the anchor failure.
func (c *Ctx) FuncOpt(rel, name string) *ssa.Function {
	sp := c.SSA[pkgPath(rel)]
	if sp == nil {
		return nil
	}
	if fn := sp.Func(name); fn != nil {
		return fn
	}
	return c.renamedFunc(rel, "", name)
}

// Method resolves a method on T or *T by name.
func (c *Ctx) Method(n *types.Named, ptr bool, name string) *ssa.Function {
	fn := c.MethodOpt(n, ptr, name)
	if fn == nil && n != nil {
		c.R.AnchorMissing("method " + n.Obj().Name() + "." + name)
	}
	return fn
}

func (c *Ctx) MethodOpt(n *types.Named, ptr bool, name string) *ssa.Function {
	if n == nil {
		return nil
	}
	var t types.Type = n
	if ptr {
		t = types.NewPointer(n)
	}
	ms := c.Prog.MethodSets.MethodSet(t)
	for i := 0; i < ms.Len(); i++ {
		sel := ms.At(i)
		if sel.Obj().Name() == name {
			// only methods declared on n itself (not promoted)
			f := sel.Obj().(*types.Func)
			recv := f.Type().(*types.Signature).Recv()
			if recv == nil {
				continue
			}
			rt := recv.Type()
			if p, ok := rt.(*types.Pointer); ok {
				rt = p.Elem()
			}
			if rt != types.Type(n) && !types.Identical(rt, n) {
				continue
			}
			return c.Prog.FuncValue(f)
		}
	}
	if n.Obj().Pkg() != nil {
		return c.renamedFunc(relPkg(n.Obj().Pkg().Path()), n.Obj().Name(), name)
	}
	return nil
}

// Global resolves a package-level variable.
func (c *Ctx) Global(rel, name string) *ssa.Global {
	sp := c.SSA[pkgPath(rel)]
	if sp == nil {
		c.R.AnchorMissing("package " + pkgPath(rel))
		return nil
	}
	g, _ := sp.Members[name].(*ssa.Global)
	if g == nil {
		c.R.AnchorMissing("var " + relPkg(pkgPath(rel)) + "." + name)
	}
	return g
}

// Pos formats a position relative to the repo root.
func (c *Ctx) Pos(p token.Pos) string {
	if !p.IsValid() {
		return "-"
	}
	pos := c.Fset.Position(p)
	f := strings.TrimPrefix(pos.Filename, c.Repo+"/")
	return fmt.Sprintf("%s:%d", f, pos.Line)
}

// FuncName is the stable, position-free display name used in keys:
// pkg.Func, pkg.(*T).Method, pkg.Func$1 for closures.
func FuncName(fn *ssa.Function) string {
	if fn == nil {
		return "<nil>"
	}
	s := fn.String()
	s = strings.ReplaceAll(s, modPath+"/", "")
	s = strings.ReplaceAll(s, modPath, "tabular")
	return s
}

// gCtx: the loaded program, for the few value classifiers that need to look at call sites.
var gCtx *Ctx
