package main

import (
	"fmt"
	"go/token"
	"go/types"
	"sort"
	"strings"

	"golang.org/x/tools/go/ssa"
)

type requireClause struct {
	Goal constraint
}

// paramTerms lists the canonical terms of fn that a caller can be asked to guarantee:
// integer parameters, lengths of slice/string parameters, and (lengths of) fields of struct-valued parameters.
type paramTerm struct {
	Term  string
	Param int
	Field *types.Var // non-nil: field of the struct-valued parameter
	IsLen bool
}

func (p *prover) paramTerms() []paramTerm {
	var out []paramTerm
	for k, par := range p.fn.Params {
		c := p.canon(par)
		switch t := par.Type().Underlying().(type) {
		case *types.Basic:
			if t.Info()&types.IsInteger != 0 {
				out = append(out, paramTerm{Term: c, Param: k})
			} else if t.Kind() == types.String {
				out = append(out, paramTerm{Term: "len(" + c + ")", Param: k, IsLen: true})
			}
		case *types.Slice:
			out = append(out, paramTerm{Term: "len(" + c + ")", Param: k, IsLen: true})
		case *types.Struct:
			for i := 0; i < t.NumFields(); i++ {
				f := t.Field(i)
				fc := "fld(" + c + "." + f.Name() + ")"
				switch ft := f.Type().Underlying().(type) {
				case *types.Slice:
					out = append(out, paramTerm{Term: "len(" + fc + ")", Param: k, Field: f, IsLen: true})
				case *types.Basic:
					if ft.Info()&types.IsInteger != 0 {
						out = append(out, paramTerm{Term: fc, Param: k, Field: f})
					}
				}
			}
		}
	}
	// package-level tables that are never reassigned: their length means the same thing in every function
	seenG := map[*ssa.Global]bool{}
	eachInstr(p.fn, func(in ssa.Instruction) {
		u, ok := in.(*ssa.UnOp)
		if !ok || u.Op != token.MUL {
			return
		}
		g, isG := u.X.(*ssa.Global)
		if !isG || seenG[g] || !p.ix.c.immutableGlobalHeader(g) {
			return
		}
		seenG[g] = true
		if _, isSl := u.Type().Underlying().(*types.Slice); isSl {
			out = append(out, paramTerm{Term: "len(" + p.canon(u) + ")", Param: -1, IsLen: true})
		}
	})
	return out
}

// candidates proposes caller-side requirements that would make goal provable at `at`.
func (p *prover) candidates(goal constraint) []constraint {
	pts := p.paramTerms()
	isPT := map[string]bool{}
	for _, pt := range pts {
		isPT[pt.Term] = true
	}
	var out []constraint
	all := true
	for t := range goal.e.coef {
		if !isPT[t] {
			all = false
		}
	}
	if all && len(goal.e.coef) > 0 {
		out = append(out, constraint{goal.e, "requires (the obligation itself, over the parameters)"})
	}
	for _, a := range pts {
		out = append(out, leq(linConst(0), linTerm(a.Term), "requires "+a.Term+" >= 0"))
	}
	for _, a := range pts {
		for _, b := range pts {
			if a.Term == b.Term {
				continue
			}
			out = append(out, leq(linTerm(a.Term), linTerm(b.Term), "requires "+a.Term+" <= "+b.Term))
		}
	}
	for _, a := range pts {
		for _, b := range pts {
			if a.Term == b.Term {
				continue
			}
			out = append(out, lt(linTerm(a.Term), linTerm(b.Term), "requires "+a.Term+" < "+b.Term))
		}
	}
	return out
}

type callSite struct {
	Fn   *ssa.Function
	Call ssa.CallInstruction
}

// callSitesOf: the module call sites that may invoke fn (through wrappers too).
func (ix *idxEngine) callSitesOf(fn *ssa.Function) []callSite {
	var out []callSite
	seen := map[ssa.CallInstruction]bool{}
	var visit func(f *ssa.Function, depth int)
	visit = func(f *ssa.Function, depth int) {
		n := ix.c.CG.Nodes[f]
		if n == nil || depth > 3 {
			return
		}
		for _, e := range n.In {
			caller := e.Caller.Func
			if caller.Synthetic != "" && caller.Parent() == nil {
				visit(caller, depth+1) // promoted-method wrapper: look at who calls the wrapper
				continue
			}
			if !inModule(caller) || funcPkgPath(caller) == pkgPath("examples") {
				continue
			}
			if e.Site == nil || seen[e.Site] {
				continue
			}
			seen[e.Site] = true
			out = append(out, callSite{caller, e.Site})
		}
	}
	visit(fn, 0)
	sort.Slice(out, func(i, j int) bool { return out[i].Call.Pos() < out[j].Call.Pos() })
	return out
}

// actualsOf lines the actual arguments up with the callee's parameters (receiver first).
func actualsOf(ci ssa.CallInstruction, callee *ssa.Function) []ssa.Value {
	cc := ci.Common()
	if cc.IsInvoke() {
		// the receiver is an interface value: the concrete receiver is not expressible in the caller
		out := []ssa.Value{nil}
		return append(out, cc.Args...)
	}
	if len(cc.Args) == len(callee.Params) {
		return cc.Args
	}
	if mc, ok := cc.Value.(*ssa.MakeClosure); ok {
		_ = mc
	}
	return cc.Args
}

// translate rewrites a requirement over callee parameter terms into the caller's terms at a call site.
func (ix *idxEngine) translate(callee *ssa.Function, req constraint, site callSite) (constraint, bool) {
	pc := ix.proverFor(callee)
	p2 := ix.proverFor(site.Fn)
	acts := actualsOf(site.Call, callee)
	out := linConst(req.e.k)
	pts := pc.paramTerms()
	for t, coef := range req.e.coef {
		if strings.HasPrefix(t, "len(gv:") || strings.HasPrefix(t, "gv:") {
			out = out.add(linTerm(t).scale(coef)) // an immutable package-level value: the same term at the call
			continue
		}
		var pt *paramTerm
		for i := range pts {
			if pts[i].Term == t {
				pt = &pts[i]
			}
		}
		if pt == nil || pt.Param >= len(acts) || acts[pt.Param] == nil {
			return constraint{}, false
		}
		a := acts[pt.Param]
		var l lin
		switch {
		case pt.Field != nil:
			if par := p2.paramValueOf(a); par != nil {
				term := "fld(" + p2.canon(par) + "." + pt.Field.Name() + ")"
				if pt.IsLen {
					term = "len(" + term + ")"
				}
				l = linTerm(term)
				break
			}
			fv, ok := p2.structFieldValue(a, pt.Field, site.Call.(ssa.Instruction), 0)
			if !ok {
				return constraint{}, false
			}
			if pt.IsLen {
				l = p2.lenOf(fv)
			} else {
				l = p2.linOf(fv)
			}
		case pt.IsLen:
			l = p2.lenOf(a)
		default:
			l = p2.linOf(a)
		}
		out = out.add(l.scale(coef))
	}
	return constraint{out, req.why + " [at call from " + FuncName(site.Fn) + "]"}, true
}

// structFieldValue finds the value of field f of the struct value v (as seen at instruction `at`).
func (p *prover) structFieldValue(v ssa.Value, f *types.Var, at ssa.Instruction, depth int) (ssa.Value, bool) {
	if depth > 4 {
		return nil, false
	}
	v = p.resolve(v)
	switch x := v.(type) {
	case *ssa.UnOp:
		al, ok := x.X.(*ssa.Alloc)
		if !ok {
			return nil, false
		}
		// the latest whole-struct store to al that dominates the load, with no later write to field f
		var whole *ssa.Store
		for _, r := range referrersOf(al) {
			st, ok := r.(*ssa.Store)
			if !ok || st.Addr != ssa.Value(al) || !instrDominates(st, x) {
				continue
			}
			if whole == nil || instrDominates(whole, st) {
				whole = st
			}
		}
		if whole == nil {
			// field-wise initialisation (composite literal)
			for _, r := range referrersOf(al) {
				fa, ok := r.(*ssa.FieldAddr)
				if !ok || fieldOfFieldAddr(fa) != f {
					continue
				}
				var last *ssa.Store
				n := 0
				for _, rr := range referrersOf(fa) {
					if st, ok := rr.(*ssa.Store); ok && st.Addr == ssa.Value(fa) {
						n++
						last = st
					}
				}
				if n == 1 && instrDominates(last, x) && !p.fieldWrittenBetween(al, f, last, x) {
					return last.Val, true
				}
			}
			return nil, false
		}
		if p.fieldWrittenBetween(al, f, whole, x) {
			return nil, false
		}
		return p.structFieldValue(whole.Val, f, whole, depth+1)
	case *ssa.Call:
		callee := x.Call.StaticCallee()
		if callee == nil || !inModule(callee) {
			return nil, false
		}
		// every return yields a struct whose field f is the same parameter of the callee
		pc := p.ix.proverFor(callee)
		param := -1
		for _, ret := range returnsOf(callee) {
			fv, ok := pc.structFieldValue(results(ret)[0], f, ret, depth+1)
			if !ok {
				return nil, false
			}
			par, ok := pc.resolve(fv).(*ssa.Parameter)
			if !ok {
				return nil, false
			}
			k := -1
			for i, q := range callee.Params {
				if q == par {
					k = i
				}
			}
			if k < 0 || (param >= 0 && param != k) {
				return nil, false
			}
			param = k
		}
		if param < 0 {
			return nil, false
		}
		acts := actualsOf(x, callee)
		if param >= len(acts) || acts[param] == nil {
			return nil, false
		}
		return acts[param], true
	case *ssa.Parameter:
		return nil, false
	}
	return nil, false
}

// fieldWrittenBetween: may field f of the local struct al be written between a and b?
func (p *prover) fieldWrittenBetween(al *ssa.Alloc, f *types.Var, a, b ssa.Instruction) bool {
	for _, mid := range p.between(a, b) {
		switch x := mid.(type) {
		case *ssa.Store:
			if fa, ok := x.Addr.(*ssa.FieldAddr); ok && fa.X == ssa.Value(al) && fieldOfFieldAddr(fa) == f {
				return true
			}
			if x.Addr == ssa.Value(al) && mid != a {
				return true
			}
		case ssa.CallInstruction:
			cc := x.Common()
			passes := false
			for i, arg := range cc.Args {
				if arg == ssa.Value(al) {
					passes = true
					// which fields may the callee write through this parameter?
					for _, callee := range p.ix.eff.calleesAt(p.fn, x) {
						s := p.ix.eff.sums[callee]
						if s == nil {
							return true
						}
						for _, ef := range s.Effects {
							if ef.Org.Kind == orgParam && ef.Org.Idx == i {
								if len(ef.Fields) == 0 || ef.Fields[0] == f || ef.Org.Deep {
									if len(ef.Fields) > 0 && ef.Fields[0] != f && !ef.Org.Deep {
										continue
									}
									if len(ef.Fields) > 0 && ef.Fields[0] != f {
										continue
									}
									return true
								}
							}
						}
					}
				}
			}
			_ = passes
		}
	}
	return false
}

// ---- fill summaries: "every element of the returned slice has length L(params)" ----

type fillSummary struct {
	ok      bool
	elemLen lin // over the callee's parameter terms
}

func (ix *idxEngine) fillSummaryOf(callee *ssa.Function) fillSummary {
	if s, ok := ix.fills[callee]; ok {
		return s
	}
	ix.fills[callee] = fillSummary{}
	p := ix.proverFor(callee)
	rets := returnsOf(callee)
	if len(rets) == 0 {
		return fillSummary{}
	}
	var A *ssa.MakeSlice
	for _, r := range rets {
		ms, ok := p.resolve(results(r)[0]).(*ssa.MakeSlice)
		if !ok || (A != nil && ms != A) {
			return fillSummary{}
		}
		A = ms
	}
	// element stores
	var stores []*ssa.Store
	for _, r := range referrersOf(A) {
		switch x := r.(type) {
		case *ssa.IndexAddr:
			for _, rr := range referrersOf(x) {
				if st, ok := rr.(*ssa.Store); ok && st.Addr == ssa.Value(x) {
					stores = append(stores, st)
				}
			}
		case *ssa.Return, *ssa.DebugRef:
		case ssa.CallInstruction:
			if b, ok := x.Common().Value.(*ssa.Builtin); ok && (b.Name() == "len" || b.Name() == "cap") {
				continue
			}
			return fillSummary{}
		default:
			return fillSummary{}
		}
	}
	if len(stores) != 1 {
		return fillSummary{}
	}
	st := stores[0]
	ia := st.Addr.(*ssa.IndexAddr)
	// the index counts 0,1,..,len(A)-1:  i := 0; i < len(A); i++   or the rotated form of  for i := range A
	idx := p.resolve(ia.Index)
	var phi *ssa.Phi
	off := int64(0)
	switch x := idx.(type) {
	case *ssa.Phi:
		phi = x
	case *ssa.BinOp:
		if q, isPhi := x.X.(*ssa.Phi); isPhi && x.Op == token.ADD {
			if k, isK := constInt(x.Y); isK {
				phi, off = q, k
			}
		}
	}
	if phi == nil || !p.isLoopPhi(phi) {
		return fillSummary{}
	}
	hdr := phi.Block()
	for k, pred := range hdr.Preds {
		if hdr.Dominates(pred) {
			e := p.linOf(phi.Edges[k]).sub(linTerm(p.canon(phi)))
			if !e.isConst() || e.k != 1 {
				return fillSummary{}
			}
			if !st.Block().Dominates(pred) {
				return fillSummary{} // an iteration may skip the store
			}
		} else if k0, ok := constInt(phi.Edges[k]); !ok || k0+off != 0 {
			return fillSummary{}
		}
	}
	// header test: idx < len(A)
	iff, ok := hdr.Instrs[len(hdr.Instrs)-1].(*ssa.If)
	if !ok {
		return fillSummary{}
	}
	cs := p.condConstraints(iff.Cond, true)
	want := lt(p.linOf(idx), p.lenOf(A), "")
	if len(cs) != 1 || cs[0].e.String() != want.e.String() {
		return fillSummary{}
	}
	// every return is reached only through the loop's exit edge
	exit := hdr.Succs[1]
	for _, r := range rets {
		if !edgeControls(hdr, exit, r.Block()) {
			return fillSummary{}
		}
	}
	el := p.lenOf(st.Val)
	isPT := map[string]bool{}
	for _, pt := range p.paramTerms() {
		isPT[pt.Term] = true
	}
	for t := range el.coef {
		if !isPT[t] {
			return fillSummary{}
		}
	}
	s := fillSummary{ok: true, elemLen: el}
	ix.fills[callee] = s
	return s
}

// resultFieldFacts (misnamed hook): facts about len(v) when v is an element of a filled call result.
func (ix *idxEngine) resultFieldFacts(p *prover, v ssa.Value, t string) []constraint {
	u, ok := v.(*ssa.UnOp)
	if !ok {
		return nil
	}
	ia, ok := u.X.(*ssa.IndexAddr)
	if !ok {
		return nil
	}
	call, ok := p.resolve(ia.X).(*ssa.Call)
	if !ok {
		return nil
	}
	callee := call.Call.StaticCallee()
	if callee == nil || !inModule(callee) {
		return nil
	}
	// the result must not be written by the caller before the load
	for _, r := range referrersOf(call) {
		if x, ok := r.(*ssa.IndexAddr); ok {
			for _, rr := range referrersOf(x) {
				if _, isSt := rr.(*ssa.Store); isSt {
					return nil
				}
			}
		}
	}
	fs := ix.fillSummaryOf(callee)
	if !fs.ok {
		return nil
	}
	req := constraint{fs.elemLen, ""}
	tr, ok := ix.translate(callee, req, callSite{p.fn, call})
	if !ok {
		return nil
	}
	why := "every element of the slice returned by " + FuncName(callee) + " is stored by its fill loop with this length"
	return []constraint{leq(linTerm(t), tr.e, why), leq(tr.e, linTerm(t), why)}
}

// ---- lifting ----------------------------------------------------------------------

// lift tries to discharge locally unprovable obligations of non-entry functions by proving a sufficient
// requirement at every call site (recursively, depth <= 3).
func (ix *idxEngine) lift() {
	for _, o := range ix.Obls {
		if o.OK || len(o.Goals) == 0 {
			continue
		}
		p := ix.proverFor(o.Fn)
		allOK := true
		var notes []string
		for _, g := range o.Goals {
			if ok, _ := p.prove(g, o.In, nil, 0); ok {
				continue
			}
			ok, how := ix.liftGoal(o.Fn, g, o.In, 0)
			if !ok {
				allOK = false
				notes = append(notes, how)
				break
			}
			notes = append(notes, how)
		}
		if allOK {
			o.OK = true
			o.Lifted = true
			o.How = "requirement proved at every call site: " + strings.Join(notes, "; ")
		} else {
			o.How += " | lifting: " + strings.Join(notes, "; ")
		}
	}
}

func (ix *idxEngine) liftGoal(fn *ssa.Function, g constraint, at ssa.Instruction, depth int) (bool, string) {
	if depth > 3 {
		return false, "lifting depth exceeded"
	}
	if ix.isEntry(fn) {
		return false, FuncName(fn) + " is a public entry point: its caller is the user, nothing can be required of the arguments"
	}
	p := ix.proverFor(fn)
	sites := ix.callSitesOf(fn)
	if len(sites) == 0 {
		return true, "internal helper " + FuncName(fn) + " has no caller in the module: requirement vacuous"
	}
	var lastWhy string
	for _, cand := range p.candidates(g) {
		if ok, _ := p.prove(g, at, []constraint{cand}, 0); !ok {
			continue
		}
		good := true
		for _, s := range sites {
			callee := fn
			tr, ok := ix.translate(callee, cand, s)
			if !ok {
				good = false
				lastWhy = cand.why + " cannot be expressed at the call in " + FuncName(s.Fn)
				break
			}
			p2 := ix.proverFor(s.Fn)
			if ok, _ := p2.prove(tr, s.Call.(ssa.Instruction), nil, 0); ok {
				continue
			}
			if ok, _ := ix.liftGoal(s.Fn, tr, s.Call.(ssa.Instruction), depth+1); ok {
				continue
			}
			good = false
			lastWhy = cand.why + " not provable at the call in " + FuncName(s.Fn) + " (" + ix.c.Pos(s.Call.Pos()) + ")"
			break
		}
		if good {
			return true, fmt.Sprintf("%s (%d call sites)", cand.why, len(sites))
		}
	}
	if lastWhy == "" {
		lastWhy = "no requirement over the parameters of " + FuncName(fn) + " makes it provable"
	}
	return false, lastWhy
}

func init() { register("DEBUG-idx", debugIdx) }

func debugIdx(c *Ctx) {
	ix := c.Idx()
	ix.Run()
	n, ok := 0, 0
	for _, o := range ix.Obls {
		n++
		if o.OK {
			ok++
			if o.Lifted {
				println("LIFTED", c.Pos(o.In.Pos()), FuncName(o.Fn), o.Kind, o.What, "--", o.How)
			}
			continue
		}
		println(c.Pos(o.In.Pos()), FuncName(o.Fn), o.Kind, o.What, "--", o.How)
	}
	println("obligations", n, "discharged", ok)
}

func init() { register("DEBUG-idx1", debugIdx1) }

func debugIdx1(c *Ctx) {
	ix := c.Idx()
	for _, fn := range c.LibFuncs() {
		if fn.Name() != c.Dump {
			continue
		}
		p := ix.proverFor(fn)
		for _, o := range ix.enumerate(fn) {
			ix.discharge(o)
			println(c.Pos(o.In.Pos()), o.Kind, o.What, o.OK, o.How)
			if !o.OK {
				for _, g := range o.Goals {
					ok, facts := p.prove(g, o.In, nil, 0)
					println("   goal", g.why, g.e.String(), ok)
					if !ok {
						for _, f := range facts {
							println("      fact", f.e.String(), "<= 0   //", f.why)
						}
					}
				}
			}
		}
	}
}

// paramValueOf: v is a by-value parameter of the current function, or a load of its unmodified local spill.
func (p *prover) paramValueOf(v ssa.Value) *ssa.Parameter {
	v = p.resolve(v)
	if par, ok := v.(*ssa.Parameter); ok {
		return par
	}
	if u, ok := v.(*ssa.UnOp); ok {
		if al, ok := u.X.(*ssa.Alloc); ok {
			return p.spillOf(al)
		}
	}
	return nil
}
