package main

import (
	"fmt"
	"go/token"
	"go/types"
	"sort"
	"strings"

	"golang.org/x/tools/go/ssa"
)

func init() { register("C05", runC05); register("C07", runC07); register("C08", runC08) }

// renderToOf returns the RenderTo method of the wrapper type in package rel.
func renderToOf(c *Ctx, rel string) *ssa.Function {
	for _, fn := range c.ModFuncs(rel) {
		if fn.Name() == "RenderTo" && fn.Signature.Recv() != nil {
			return fn
		}
	}
	c.R.AnchorMissing("RenderTo method in package " + rel)
	return nil
}

// allWriteSites: write sites of fn (those that hand the writer to anything).
func allWriteSites(fn *ssa.Function) []*writeSite {
	return writeSitesOf(fn, writerValues(fn))
}

// refusalGuard: there is a branch on `cond(columnCount)` (linear condition implying value < 1 on the taken edge)
// whose taken edge returns a non-nil error and whose other edge dominates every write site.
func refusalChecks(c *Ctx, rule string, fn *ssa.Function, what string, match func(p *prover, cf condFact) bool) {
	r := c.R
	p := c.Idx().proverFor(fn)
	sites := allWriteSites(fn)
	found := false
	for _, b := range fn.Blocks {
		iff, ok := b.Instrs[len(b.Instrs)-1].(*ssa.If)
		if !ok {
			continue
		}
		for _, val := range []bool{true, false} {
			cf := condFact{iff.Cond, val, iff}
			if !match(p, cf) {
				continue
			}
			refuse := b.Succs[0]
			pass := b.Succs[1]
			if !val {
				refuse, pass = pass, refuse
			}
			// refuse edge: returns non-nil error without writing
			okRef := edgeControls(b, refuse, refuse)
			for rb := range blockReach(refuse, nil) {
				if !edgeControls(b, refuse, rb) {
					okRef = false
				}
				for _, in := range rb.Instrs {
					if ret, isRet := in.(*ssa.Return); isRet {
						if !definitelyNonNilErr(results(ret)[len(ret.Results)-1]) {
							okRef = false
						}
					}
				}
			}
			okDom := true
			for _, s := range sites {
				if !edgeControls(b, pass, s.Call.(ssa.Instruction).Block()) {
					okDom = false
				}
			}
			if okRef && okDom {
				found = true
			}
		}
	}
	r.Check(rule, FuncName(fn), what, fn.Pos(), found, "no such test returns an error before the first write")
}

func isNColumnsResult(v ssa.Value) bool {
	v = capturedLoad(v)
	call, ok := v.(*ssa.Call)
	if !ok {
		return false
	}
	if call.Call.IsInvoke() {
		return call.Call.Method.Name() == "NColumns"
	}
	return call.Call.StaticCallee() != nil && call.Call.StaticCallee().Name() == "NColumns"
}

// noColumnsRefusal: cond says NColumns() < 1.
func noColumnsRefusal(p *prover, cf condFact) bool {
	b, ok := cf.Cond.(*ssa.BinOp)
	if !ok {
		return false
	}
	if !isNColumnsResult(b.X) && !isNColumnsResult(b.Y) {
		return false
	}
	cs := p.condConstraints(cf.Cond, cf.Val)
	var nc ssa.Value = b.X
	if !isNColumnsResult(nc) {
		nc = b.Y
	}
	// the taken edge implies n <= 0 and is implied by it
	n := p.linOf(nc)
	return len(cs) > 0 && entails(cs, leq(n, linConst(0), "")) && entails([]constraint{leq(n, linConst(0), "")}, cs[0])
}

func isHeadersResult(v ssa.Value) bool {
	return isHeadersResultD(v, 0)
}

// isHeadersResultD: the result of Headers(), possibly re-sliced from the front (h[:n]) or merged from such values.
func isHeadersResultD(v ssa.Value, depth int) bool {
	if depth > 4 {
		return false
	}
	switch x := v.(type) {
	case *ssa.Slice:
		return x.Low == nil && isHeadersResultD(x.X, depth+1)
	case *ssa.Phi:
		if len(x.Edges) == 0 {
			return false
		}
		for _, e := range x.Edges {
			if e != v && !isHeadersResultD(e, depth+1) {
				return false
			}
		}
		return true
	}
	call, ok := v.(*ssa.Call)
	if !ok {
		return false
	}
	if call.Call.IsInvoke() {
		return call.Call.Method.Name() == "Headers"
	}
	return call.Call.StaticCallee() != nil && call.Call.StaticCallee().Name() == "Headers"
}

func nilHeadersRefusal(p *prover, cf condFact) bool {
	e, nonNilSucc, ok := nilTest(cf.Cond)
	if !ok || !isHeadersResult(e) {
		return false
	}
	return (nonNilSucc == 1) == cf.Val
}

// separatorsSkipped: the per-row emit call is never reached on the IsSeparator()==true edge, and the header
// emit (if any) dominates the row loop.
func separatorsSkipped(c *Ctx, rule string, fn *ssa.Function, emit func(in ssa.Instruction) bool) {
	r := c.R
	n := 0
	eachInstr(fn, func(in ssa.Instruction) {
		if !emit(in) || loopDepth(in.Block()) == 0 {
			return
		}
		n++
		ok := false
		for _, cf := range dominatingConds(in.Block()) {
			if call, isCall := cf.Cond.(*ssa.Call); isCall && !cf.Val {
				if f := call.Call.StaticCallee(); f != nil && f.Name() == "IsSeparator" {
					ok = true
				}
			}
		}
		r.Check(rule, FuncName(fn), "a body row is emitted only when it is not a separator", in.Pos(), ok, "")
	})
	r.Floor(rule, "per-row emit calls in the row loop of "+FuncName(fn), n, 1)
	separatorIdentity(c, rule)
}

// separatorIdentity: "is a separator" is a stored fact about how the row was made, not something inferred from
// what the row happens to contain: IsSeparator returns a boolean field of the row, and that field is set (to true)
// only on a row being built by the library's separator constructor. A data row with no cells is still a data row.
func separatorIdentity(c *Ctx, rule string) {
	r := c.R
	row := c.Named("", "Row")
	isSep := c.Method(row, true, "IsSeparator")
	if isSep == nil {
		return
	}
	var fld *types.Var
	ok := true
	for _, ret := range returnsOf(isSep) {
		f, base := loadedField(results(ret)[0])
		if f == nil || base != ssa.Value(isSep.Params[0]) {
			ok = false
			continue
		}
		if b, isB := f.Type().Underlying().(*types.Basic); !isB || b.Kind() != types.Bool {
			ok = false
		}
		fld = f
	}
	r.Check(rule, FuncName(isSep), "whether a row is a separator is a flag stored in the row, not derived from its contents", isSep.Pos(), ok && fld != nil, "a data row that merely looks like a separator (no cell storage, no cells) would be dropped from the output")
	if !ok || fld == nil {
		return
	}
	n := 0
	for _, fs := range c.StoresTo(fld) {
		n++
		b, isB := constBool(fs.St.Val)
		r.Check(rule, FuncName(fs.Fn), "the separator flag is set only on a row under construction", fs.St.Pos(), fs.Fresh && isB && b, "an existing row changes kind")
	}
	r.Floor(rule, "writers of the separator flag", n, 1)
}

// rowsInOrder: the row loop ranges over the result of AllRows() from index 0 upward by one.
func rowsInOrder(c *Ctx, rule string, fn *ssa.Function, emit func(in ssa.Instruction) bool) {
	r := c.R
	// premise: the list AllRows() hands out is the table's rows in insertion order and a copy of the caller's own
	// (C02's R02.1 and R02.5): nobody else's sorting or filtering of "their" list can reorder a later render
	importPremises(c, rule, "row-list premise ", "rows would be emitted in an order, or a selection, other than the table's", func(o *Ob) bool {
		return o.Rule == "R02.1" || o.Rule == "R02.5"
	}, func() { runC02(c) })
	eachInstr(fn, func(in ssa.Instruction) {
		if !emit(in) || loopDepth(in.Block()) == 0 {
			return
		}
		// the row handed to the emitter is AllRows()[i] with i the full range index
		ok := false
		for _, a := range callCommon(in).Args {
			call, isCall := a.(*ssa.Call)
			if !isCall {
				continue
			}
			f := call.Call.StaticCallee()
			if f == nil || f.Name() != "Cells" {
				continue
			}
			sl, idx := sectionOfAny(call.Call.Args[0])
			if sl == nil {
				continue
			}
			if src, isCall := sl.(*ssa.Call); isCall {
				name := ""
				if src.Call.IsInvoke() {
					name = src.Call.Method.Name()
				}
				if name == "AllRows" && isFullRangeIndex(c, fn, idx, sl) {
					ok = true
				}
			}
		}
		r.Check(rule, FuncName(fn), "body rows are emitted in table order, one pass over AllRows()", in.Pos(), ok, "")
	})
}

// ---- C05 ---------------------------------------------------------------------------

func runC05(c *Ctx) {
	r := c.R
	r.Explanation = "The byte-for-byte round trip through a strict RFC 4180 parser ranges over all byte strings and is not decided. Decided: " +
		"R05.1 (taint) every operand written by package csv is a constant, the output of a function recognised BY ITS BODY as an all-fields quoter (opening quote, every input byte copied, each quote byte doubled, closing quote - or the strings.Replace equivalent), the wrapper's separator field (only ever stored from a constant), or a concatenation of those; text that comes out of a cell never reaches the writer otherwise. " +
		"R05.2 a table without columns is refused with an error before the first write. R05.3 the header record is written before the row loop, rows are taken from AllRows() in order, and a separator row is never emitted. " +
		"R05.4 per record: a row with more cells than columns is refused before any write; exactly one field is written per column index 0..columnCount-1, the field is the quoted cell when the row has that cell and the constant empty field otherwise, every field but the first is preceded by the separator, and one line terminator ends the record. R05.5 the quoter's buffer arithmetic is safe (C09 obligations of the quoter)."
	r.NotDecided = []string{"byte-level correctness of quote doubling beyond the recognised shape", "round trip through a parser"}
	r.Assumptions = []string{"fmt.Fprint of a single string writes exactly that string; fmt.Fprintln() writes \"\\n\""}
	r.Rule("R05.1", "cell text reaches the writer only through the quoter")
	r.Rule("R05.2", "no columns => error before any output")
	r.Rule("R05.3", "header first, rows in order, separators skipped")
	r.Rule("R05.4", "one field per column per record; missing cells are empty fields")
	r.Rule("R05.5", "the quoter cannot overrun its buffer")

	fn := renderToOf(c, "csv")
	if fn == nil {
		return
	}
	t := newTaint(c, "csv", "csv")
	sinks, srcs := t.run("R05.1")
	r.Floor("R05.1", "written operands examined", sinks, 2)
	r.Floor("R05.1", "places where cell text is read", srcs, 1)
	r.Floor("R05.1", "recognised quoters", len(t.sanitizers), 1)
	for f, d := range t.sanitizers {
		r.Check("R05.1", FuncName(f), "is an RFC 4180 all-fields quoter by shape", f.Pos(), true, d)
	}
	checkFidelity(c, "R05.1", "csv", t.sanitizers)
	importCellText(c, "R05.1", false)
	importWriteDiscipline(c, "R05.1", "csv")
	refusalChecks(c, "R05.2", fn, "a table with no columns is refused before the first write", noColumnsRefusal)

	var emitRow *ssa.Function
	isEmit := func(in ssa.Instruction) bool {
		if f := emitCallee(in, pkgPath("csv"), fn); f != nil {
			emitRow = f
			return true
		}
		return false
	}
	separatorsSkipped(c, "R05.3", fn, isEmit)
	rowsInOrder(c, "R05.3", fn, isEmit)
	// header emit dominates the loop's emit
	{
		var hdr, body ssa.Instruction
		eachInstr(fn, func(in ssa.Instruction) {
			if !isEmit(in) {
				return
			}
			if loopDepth(in.Block()) == 0 {
				hdr = in
			} else {
				body = in
			}
		})
		ok := hdr != nil && body != nil && !blockReach(body.Block(), nil)[hdr.Block()]
		if ok {
			// the header record is the Headers() result, under headers != nil
			ok = false
			for _, a := range callCommon(hdr).Args {
				if isHeadersResult(a) {
					ok = true
				}
			}
		}
		r.Check("R05.3", FuncName(fn), "the header record (when there are headers) is written before any body record", fn.Pos(), ok, "")
	}
	if emitRow != nil {
		c05Record(c, emitRow, t)
	}
	ix := c.Idx()
	ix.Run()
	n := 0
	for _, o := range ix.Obls {
		if _, isSan := t.sanitizers[o.Fn]; isSan {
			n++
			r.CheckHow("R05.5", FuncName(o.Fn), o.Kind+" "+o.What, o.In.Pos(), o.OK, o.How, o.How)
		}
	}
	if n == 0 {
		r.Note("the quoter performs no index arithmetic; R05.5 has nothing to check")
	}
}

// c05Record checks the field sequencing of one CSV record.
func c05Record(c *Ctx, emitRow *ssa.Function, t *taintCtx) {
	r := c.R
	p := c.Idx().proverFor(emitRow)
	name := FuncName(emitRow)
	sites := allWriteSites(emitRow)
	var colCount, cells *ssa.Parameter
	for _, par := range emitRow.Params {
		if isIntType(par.Type()) {
			colCount = par
		}
		if _, ok := par.Type().Underlying().(*types.Slice); ok {
			cells = par
		}
	}
	if colCount == nil || cells == nil {
		r.Note("shape-unrecognised R05.4: record emitter has no (columnCount, cells) parameters")
		return
	}
	// refusal of over-long rows before any write
	{
		ok := false
		for _, b := range emitRow.Blocks {
			iff, isIf := b.Instrs[len(b.Instrs)-1].(*ssa.If)
			if !isIf {
				continue
			}
			for _, val := range []bool{true, false} {
				cs := p.condConstraints(iff.Cond, val)
				want := lt(p.linOf(colCount), p.lenOf(cells), "")
				if len(cs) == 1 && cs[0].e.String() == want.e.String() {
					refuse, pass := b.Succs[0], b.Succs[1]
					if !val {
						refuse, pass = pass, refuse
					}
					good := true
					for _, s := range sites {
						if !edgeControls(b, pass, s.Call.(ssa.Instruction).Block()) {
							good = false
						}
					}
					for _, in := range refuse.Instrs {
						if ret, isRet := in.(*ssa.Return); isRet && !definitelyNonNilErr(results(ret)[0]) {
							good = false
						}
					}
					if good {
						ok = true
					}
				}
			}
		}
		r.Check("R05.4", name, "a row with more cells than columns is refused before anything is written", emitRow.Pos(), ok, "")
	}
	c05SeparatorAfterField(c, emitRow, cells, t)
	var inLoop, after []*writeSite
	for _, s := range sites {
		if loopDepth(s.Call.(ssa.Instruction).Block()) > 0 {
			inLoop = append(inLoop, s)
		} else {
			after = append(after, s)
		}
	}
	if len(inLoop) == 0 {
		if c05JoinShape(c, emitRow, p, sites, colCount, cells, t) {
			return
		}
	}
	if len(inLoop) != 1 || len(after) != 1 {
		r.Note(fmt.Sprintf("shape-unrecognised R05.4: %d writes inside loops and %d outside (expected one field write per column and one record terminator)", len(inLoop), len(after)))
		return
	}
	fw := inLoop[0].Call.(ssa.Instruction)
	// the loop runs i = 0 .. columnCount-1
	var loopIdx ssa.Value
	for _, b := range emitRow.Blocks {
		if !b.Dominates(fw.Block()) {
			continue
		}
		iff, ok := b.Instrs[len(b.Instrs)-1].(*ssa.If)
		if !ok {
			continue
		}
		if bo, ok := iff.Cond.(*ssa.BinOp); ok && bo.Op == token.LSS && bo.Y == ssa.Value(colCount) {
			loopIdx = bo.X
		}
	}
	okLoop := loopIdx != nil && isFullRangeIndexTo(c, emitRow, loopIdx, p.linOf(colCount))
	r.Check("R05.4", name, "exactly one field is written for every column index 0..columnCount-1", fw.Pos(), okLoop, "")
	// field value: quoter(cells[i]) when i < len(cells), constant empty field otherwise; separator prefix iff i > 0
	if okLoop {
		data := sinkArgs(inLoop[0], writerValues(emitRow))
		ok, why := false, "the written field is not a single operand"
		if len(data) == 1 {
			v := data[0]
			if sl, isSl := v.(*ssa.Slice); isSl {
				// varargs
				if al, isAl := sl.X.(*ssa.Alloc); isAl {
					for _, rr := range referrersOf(al) {
						if ia, isIA := rr.(*ssa.IndexAddr); isIA {
							for _, r3 := range referrersOf(ia) {
								if st, isSt := r3.(*ssa.Store); isSt {
									v = unwrap(st.Val, true)
								}
							}
						}
					}
				}
			}
			ok, why = c05FieldShape(p, v, loopIdx, cells, t)
		}
		if !ok && (why == "no separator logic recognised" || why == "field is not (separator +) value" || strings.HasPrefix(why, "shape:")) {
			r.Note("shape-unrecognised R05.4: the value written per column is not assembled as (separator +) (quoted cell | quoted empty) in the emitting function itself (" + why + "); the per-field shape is not evaluated (taint, fidelity and the record structure still are)")
		} else {
			r.Check("R05.4", name, "the field is the quoted cell where the row has one and \"\" (quoted empty) otherwise, preceded by the separator except in column 0", fw.Pos(), ok, why)
		}
	}
	// terminator
	{
		tw := after[0]
		f := tw.Call.Common().StaticCallee()
		ok := f != nil && funcPkgPath(f) == "fmt" && f.Name() == "Fprintln" && len(sinkArgs(tw, writerValues(emitRow))) == 1
		if ok {
			// Fprintln(w) with no operands: the varargs slice is nil
			a := sinkArgs(tw, writerValues(emitRow))[0]
			ok = isNil(a)
		}
		if !ok {
			// or an explicit "\n" / "\r\n"
			for _, a := range sinkArgs(tw, writerValues(emitRow)) {
				if s, isS := constString(a); isS && (s == "\n" || s == "\r\n") {
					ok = true
				}
			}
		}
		// after the loop on every path
		r.Check("R05.4", name, "one line terminator ends the record, after the last field", tw.Call.Pos(), ok && !blockReach(tw.Call.(ssa.Instruction).Block(), nil)[fw.Block()], "")
	}
}

// isFullRangeIndexTo: idx counts 0,1,2.. and the loop continues while idx < bound.
func isFullRangeIndexTo(c *Ctx, fn *ssa.Function, idx ssa.Value, bound lin) bool {
	p := c.Idx().proverFor(fn)
	phi, ok := idx.(*ssa.Phi)
	if !ok || !p.isLoopPhi(phi) {
		return false
	}
	hdr := phi.Block()
	for k, pred := range hdr.Preds {
		if hdr.Dominates(pred) {
			e := p.linOf(phi.Edges[k]).sub(linTerm(p.canon(phi)))
			if !e.isConst() || e.k != 1 {
				return false
			}
		} else if k0, ok := constInt(phi.Edges[k]); !ok || k0 != 0 {
			return false
		}
	}
	iff, ok := hdr.Instrs[len(hdr.Instrs)-1].(*ssa.If)
	if !ok {
		return false
	}
	cs := p.condConstraints(iff.Cond, true)
	want := lt(p.linOf(idx), bound, "")
	return len(cs) == 1 && cs[0].e.String() == want.e.String()
}

// c05FieldShape: v = [sep +] (i < len(cells) ? quoter(cells[i].String()) : "\"\"") with sep present iff i > 0.
func c05FieldShape(p *prover, v ssa.Value, idx ssa.Value, cells *ssa.Parameter, t *taintCtx) (bool, string) {
	// outer phi: (field, sep+field) under i > 0
	core := v
	if phi, ok := v.(*ssa.Phi); ok && len(phi.Edges) == 2 {
		var plain, withSep ssa.Value
		for _, e := range phi.Edges {
			if parts := concatParts(e); len(parts) == 2 {
				withSep = e
			} else {
				plain = e
			}
		}
		if plain == nil || withSep == nil {
			return false, "field is not (separator +) value"
		}
		parts := concatParts(withSep)
		if parts[1] != plain {
			return false, "the separated form wraps a different value"
		}
		if f, _ := loadedField(parts[0]); f == nil || t.fieldTainted(f) {
			if s, isC := constString(parts[0]); !isC || s == "" {
				return false, "the prefix is not the (constant) separator"
			}
		}
		// the sep edge is taken exactly when i > 0
		for k, e := range phi.Edges {
			pred := phi.Block().Preds[k]
			var facts []constraint
			for _, cf := range p.edgeConds(pred, phi.Block()) {
				facts = append(facts, p.condConstraints(cf.Cond, cf.Val)...)
			}
			i := p.linOf(idx)
			if e == withSep {
				if !entails(facts, leq(linConst(1), i, "")) {
					return false, "separator is added in column 0 as well"
				}
			} else {
				// reached with i <= 0 only (given i >= 0)
				if !entails(append(facts, leq(linConst(1), i, "")), leq(linConst(1), linConst(0), "")) {
					return false, "a column after the first can be written without a separator"
				}
			}
		}
		core = plain
	} else {
		return false, "no separator logic recognised"
	}
	phi, ok := core.(*ssa.Phi)
	if !ok || len(phi.Edges) != 2 {
		return false, "field value is not a choice between the cell and the empty field"
	}
	for k, e := range phi.Edges {
		pred := phi.Block().Preds[k]
		var facts []constraint
		for _, cf := range p.edgeConds(pred, phi.Block()) {
			facts = append(facts, p.condConstraints(cf.Cond, cf.Val)...)
		}
		i, n := p.linOf(idx), p.lenOf(cells)
		if s, isC := constString(e); isC {
			if s != "\"\"" {
				return false, "the filler for a missing cell is not the quoted empty field"
			}
			if !entails(facts, leq(n, i, "")) {
				return false, "the empty field can replace a cell the row has"
			}
			continue
		}
		call, isCall := e.(*ssa.Call)
		if !isCall || t.sanitizers[call.Call.StaticCallee()] == "" {
			return false, "the non-empty alternative is not the quoter's output"
		}
		if !entails(facts, lt(i, n, "")) {
			return false, "the cell is read where the row may not have it"
		}
		// argument: cells[i].String()
		okArg := false
		for _, a := range call.Call.Args {
			if src, isSrc := a.(*ssa.Call); isSrc && isCellSource(src.Call.StaticCallee()) && src.Call.StaticCallee().Name() == "String" {
				sl, ix := sectionOfAny(src.Call.Args[0])
				if sl == ssa.Value(cells) && ix == idx {
					okArg = true
				}
			}
		}
		if !okArg {
			return false, "the quoted text is not the text of cell i"
		}
	}
	return true, ""
}

// ---- C08 ---------------------------------------------------------------------------

func runC08(c *Ctx) {
	r := c.R
	r.Explanation = "Entity-decoding equality and pipe counting over all content strings are not decided. Decided: " +
		"R08.1 (taint) every operand written by package markdown is a constant, padding made of constant characters, or the output of a function recognised BY ITS BODY as the escaper (html.EscapeString applied first, then '|' and LF replaced by numeric entities that contain neither); cell text reaches the writer no other way. " +
		"R08.2 a table without columns or without headers is refused with an error before the first write. R08.3 separators are never emitted, header line then delimiter line then the rows in order; per line: one opener, one bar per cell the row has, one bar per missing column up to the column count (shape rule), rows longer than the table are refused. " +
		"R08.4 every dash run of the delimiter row is proved to be >= 3 long; colon placement per alignment arm (none for left/unset, right colon for right, both for centre); and the alignment used is the EFFECTIVE one: own setting, else the column-0 default (R04.1, the same resolution rule the text renderer uses)."
	r.NotDecided = []string{"that html.EscapeString neutralises all markup (standard library)", "equality after entity decoding", "carriage returns (documented non-goal)"}
	r.Assumptions = []string{"html.EscapeString escapes <, >, &, ' and \""}
	r.Rule("R08.1", "cell text reaches the writer only through the escaper (escape first, then neutralise pipe and LF)")
	r.Rule("R08.2", "no columns / no headers => error before any output")
	r.Rule("R08.3", "line sequence and pipe structure")
	r.Rule("R08.4", "delimiter row: >= 3 dashes, colons per effective alignment")

	fn := renderToOf(c, "markdown")
	if fn == nil {
		return
	}
	t := newTaint(c, "markdown", "markdown")
	sinks, srcs := t.run("R08.1")
	r.Floor("R08.1", "written operands examined", sinks, 4)
	r.Floor("R08.1", "places where cell text is read", srcs, 1)
	r.Floor("R08.1", "recognised escapers", len(t.sanitizers), 1)
	for f, d := range t.sanitizers {
		r.Check("R08.1", FuncName(f), "is the markdown cell escaper by shape", f.Pos(), true, d)
	}
	checkFidelity(c, "R08.1", "markdown", t.sanitizers)
	importCellText(c, "R08.1", false)
	importWriteDiscipline(c, "R08.1", "markdown")
	refusalChecks(c, "R08.2", fn, "a table with no columns is refused before the first write", noColumnsRefusal)
	refusalChecks(c, "R08.2", fn, "a table without headers is refused before the first write", nilHeadersRefusal)

	var emitRow *ssa.Function
	isEmit := func(in ssa.Instruction) bool {
		if f := emitCallee(in, pkgPath("markdown"), fn); f != nil {
			emitRow = f
			return true
		}
		return false
	}
	separatorsSkipped(c, "R08.3", fn, isEmit)
	rowsInOrder(c, "R08.3", fn, isEmit)
	// header line, then delimiter line, then the loop
	{
		var straight []ssa.Instruction
		var body ssa.Instruction
		eachInstr(fn, func(in ssa.Instruction) {
			if !isEmit(in) {
				return
			}
			if loopDepth(in.Block()) == 0 {
				straight = append(straight, in)
			} else {
				body = in
			}
		})
		ok := len(straight) == 2 && body != nil
		why := fmt.Sprintf("%d line emits before the row loop", len(straight))
		if ok {
			a, b := straight[0], straight[1]
			if !instrDominates(a, b) {
				a, b = b, a
			}
			hdrFirst := false
			for _, arg := range callCommon(a).Args {
				if isHeadersResult(arg) {
					hdrFirst = true
				}
			}
			ok = hdrFirst && instrDominates(a, b) && instrDominates(b, body)
			why = "header line, delimiter line, body"
		}
		r.Check("R08.3", FuncName(fn), "the header line and then the delimiter line precede the body rows", fn.Pos(), ok, why)
	}
	if emitRow != nil {
		c08Line(c, emitRow)
	}
	// R08.4 dashes >= 3: wherever the package builds dash runs (RenderTo itself or a helper it delegates to)
	nd := 0
	builders := map[*ssa.Function]bool{}
	for _, df := range c.ModFuncs("markdown") {
		pd := c.Idx().proverFor(df)
		eachInstr(df, func(in ssa.Instruction) {
			if !isCallTo(in, "strings", "Repeat") {
				return
			}
			cc := callCommon(in)
			if s, ok := constString(cc.Args[0]); !ok || s != "-" {
				return
			}
			nd++
			builders[df] = true
			goal := leq(linConst(3), pd.linOf(cc.Args[1]), "at least three dashes")
			ok, _ := pd.prove(goal, in, nil, 0)
			if !ok {
				// the clamp may be applied by the caller of a helper that only repeats
				ok, _ = c.Idx().liftGoal(df, goal, in, 0)
			}
			r.Check("R08.4", FuncName(df), fmt.Sprintf("dash run #%d has at least three dashes", nd), in.Pos(), ok, "the width is not clamped to >= 3 before repeating")
		})
	}
	r.Floor("R08.4", "dash runs of the delimiter row", nd, 1)
	target := fn
	if len(builders) == 1 {
		for df := range builders {
			target = df
		}
	}
	c08Colons(c, target)
	checkEffectiveProperty(c, "R08.4", target, "properties/align", "PropertyType")
	importPropertyStore(c, "R08.4")
}

// c08Line: pipe bookkeeping of one markdown line (shape rule).
func c08Line(c *Ctx, emitRow *ssa.Function) {
	r := c.R
	name := FuncName(emitRow)
	p := c.Idx().proverFor(emitRow)
	wv := writerValues(emitRow)
	sites := writeSitesOf(emitRow, wv)
	var colCount, cells *ssa.Parameter
	for _, par := range emitRow.Params {
		if isIntType(par.Type()) && colCount == nil {
			colCount = par
		}
		if sl, ok := par.Type().Underlying().(*types.Slice); ok && isNamed(sl.Elem(), modPath, "Cell") {
			cells = par
		}
	}
	if colCount == nil || cells == nil {
		r.Note("shape-unrecognised R08.3: line emitter has no (columnCount, cells) parameters")
		return
	}
	// count bar-bearing constant operands per site
	barsIn := func(s *writeSite) (n int, ok bool) {
		for _, a := range sinkArgs(s, wv) {
			vals := []ssa.Value{a}
			if sl, isSl := a.(*ssa.Slice); isSl {
				if al, isAl := sl.X.(*ssa.Alloc); isAl {
					vals = nil
					for _, rr := range referrersOf(al) {
						if ia, isIA := rr.(*ssa.IndexAddr); isIA {
							for _, r3 := range referrersOf(ia) {
								if st, isSt := r3.(*ssa.Store); isSt {
									vals = append(vals, unwrap(st.Val, true))
								}
							}
						}
					}
				}
			}
			for _, v := range vals {
				cnt := -1
				for _, x := range phiClosure(v) {
					s, isC := constString(x)
					if !isC {
						// non-constant operand: escaped cell text (no raw bar by R08.1)
						cnt = max0(cnt)
						continue
					}
					k := strings.Count(s, "|")
					if cnt >= 0 && k != cnt && isC {
						return 0, false
					}
					if isC {
						cnt = k
					}
				}
				if cnt > 0 {
					n += cnt
				}
			}
		}
		return n, true
	}
	var opener, perCell, perMissing, tail int
	okShape := true
	for _, s := range sites {
		in := s.Call.(ssa.Instruction)
		n, ok := barsIn(s)
		if !ok {
			okShape = false
		}
		if loopDepth(in.Block()) == 0 {
			if n > 0 && opener == 0 && tail == 0 {
				opener += n
			} else {
				tail += n
			}
			continue
		}
		// which loop: bounded by len(cells) or by columnCount?
		var facts []constraint
		for _, cf := range dominatingConds(in.Block()) {
			facts = append(facts, p.condConstraints(cf.Cond, cf.Val)...)
		}
		hasIdx := false
		eachInstr(emitRow, func(x ssa.Instruction) {
			if phi, isPhi := x.(*ssa.Phi); isPhi && isIntType(phi.Type()) && p.isLoopPhi(phi) && phi.Block().Dominates(in.Block()) {
				i := p.linOf(phi)
				switch {
				case entails(facts, lt(i, p.lenOf(cells), "")):
					perCell += n
					hasIdx = true
				case entails(facts, lt(i, p.linOf(colCount), "")):
					perMissing += n
					hasIdx = true
				}
			}
		})
		if !hasIdx {
			okShape = false
		}
	}
	if !okShape {
		r.Note("shape-unrecognised R08.3: the bar constants written per site could not be counted")
		return
	}
	r.Check("R08.3", name, "one opening bar, one bar per cell, one bar per missing column, none after", emitRow.Pos(), opener == 1 && perCell == 1 && perMissing == 1 && tail == 0,
		fmt.Sprintf("opener %d, per cell %d, per missing column %d, trailing %d", opener, perCell, perMissing, tail))
	// the two loops together cover 0..columnCount-1: second loop continues the first's index
	// refusal of over-long rows
	ok := false
	for _, b := range emitRow.Blocks {
		iff, isIf := b.Instrs[len(b.Instrs)-1].(*ssa.If)
		if !isIf {
			continue
		}
		for _, val := range []bool{true, false} {
			cs := p.condConstraints(iff.Cond, val)
			want := lt(p.linOf(colCount), p.lenOf(cells), "")
			if len(cs) == 1 && cs[0].e.String() == want.e.String() {
				pass := b.Succs[1]
				if !val {
					pass = b.Succs[0]
				}
				good := true
				for _, s := range sites {
					if !edgeControls(b, pass, s.Call.(ssa.Instruction).Block()) {
						good = false
					}
				}
				if good {
					ok = true
				}
			}
		}
	}
	r.Check("R08.3", name, "a row with more cells than columns is refused before anything is written", emitRow.Pos(), ok, "")
}

func max0(a int) int {
	if a < 0 {
		return 0
	}
	return a
}

// c08Colons: in the delimiter-row construction, the text built under each alignment arm has the GFM colons.
func c08Colons(c *Ctx, fn *ssa.Function) {
	r := c.R
	alignPkg := pkgPath("properties/align")
	// find concatenations  X + Repeat("-", n) + Y  and the alignment comparisons dominating them
	n := 0
	eachInstr(fn, func(in ssa.Instruction) {
		b, ok := in.(*ssa.BinOp)
		if !ok || b.Op != token.ADD || !isStringType(b.Type()) {
			return
		}
		// only outermost concatenations
		for _, rr := range referrersOf(b) {
			if bb, isB := rr.(*ssa.BinOp); isB && bb.Op == token.ADD {
				return
			}
		}
		parts := concatParts(b)
		if len(parts) != 3 {
			return
		}
		mid, isCall := parts[1].(*ssa.Call)
		if !isCall || !isFunc(mid.Call.StaticCallee(), "strings", "Repeat") {
			return
		}
		if s, ok := constString(mid.Call.Args[0]); !ok || s != "-" {
			return
		}
		l, okL := constString(parts[0])
		rt, okR := constString(parts[2])
		if !okL || !okR {
			return
		}
		// which alignment arm?
		arm := ""
		for _, cf := range dominatingConds(in.Block()) {
			bo, isB := cf.Cond.(*ssa.BinOp)
			if !isB || bo.Op != token.EQL || !cf.Val {
				continue
			}
			for si, side := range []ssa.Value{bo.X, bo.Y} {
				if g := loadedGlobal(unwrap(side, true)); g != nil && g.Pkg.Pkg.Path() == alignPkg {
					arm = g.Name()
					// the alignment compared must be this column's: not a value left over from an earlier column
					other := []ssa.Value{bo.Y, bo.X}[si]
					if h := innermostLoopHeader(in.Block()); h != nil {
						for _, v := range phiClosure(other) {
							_ = v
						}
						if carriedInto(other, h, map[ssa.Value]bool{}) {
							r.Check("R08.4", FuncName(fn), "the alignment deciding column i's markers is column i's (own or default), decided afresh for each column", in.Pos(), false,
								"the value compared can be the one left over from the previous column (a variable declared outside the loop and not reset)")
						}
					}
				}
				if isNil(side) {
					arm = "nil"
				}
			}
		}
		n++
		want := map[string][2]string{"Left": {" ", " "}, "nil": {" ", " "}, "Right": {" ", ":"}, "Center": {":", ":"}, "": {" ", " "}}
		w := want[arm]
		armName := arm
		if armName == "" {
			armName = "default"
		}
		// GFM also allows ":---" for left; accept both for Left
		ok2 := l == w[0] && rt == w[1]
		if arm == "Left" && l == ":" && rt == " " {
			ok2 = true
		}
		r.Check("R08.4", FuncName(fn), fmt.Sprintf("delimiter cell for alignment %s has the right colons", armName), in.Pos(), ok2, fmt.Sprintf("built as %q + dashes + %q", l, rt))
	})
	if n < 3 {
		r.Note("shape-unrecognised R08.4: fewer than three delimiter-cell constructions of the form X + dashes + Y were found; colon placement not evaluated")
	}
}

// ---- R04.1 (shared): effective per-column property --------------------------------------

// checkEffectiveProperty: if fn reads property `key` of a column chosen by a non-constant index, it must also
// read it from column 0 and use that value where the column's own value is nil.
// checkEffectiveProperty applies the resolution rule to fn and to the helpers of its own package it delegates to.
func checkEffectiveProperty(c *Ctx, rule string, fn *ssa.Function, keyPkg, keyVar string) {
	key := c.Global(keyPkg, keyVar)
	n := 0
	var readers []*ssa.Function
	for _, f := range pkgReach(fn, 2) {
		has := false
		eachInstr(f, func(in ssa.Instruction) {
			if call, ok := in.(*ssa.Call); ok && len(call.Call.Args) > 0 {
				if g := loadedGlobal(unwrap(call.Call.Args[len(call.Call.Args)-1], true)); g != nil && g == key {
					has = true
				}
			}
		})
		if has {
			n++
			readers = append(readers, f)
		}
	}
	if n == 0 {
		checkEffectiveProperty1(c, rule, fn, keyPkg, keyVar, false)
		return
	}
	// does any of them read the column-0 default?
	anyDef := false
	for _, f := range readers {
		if readsColumnZero(f, key) {
			anyDef = true
		}
	}
	for _, f := range readers {
		checkEffectiveProperty1(c, rule, f, keyPkg, keyVar, anyDef && !readsColumnZero(f, key))
	}
}

// readsColumnZero: f reads the property `key` from Column(0).
func readsColumnZero(f *ssa.Function, key *ssa.Global) bool {
	found := false
	eachInstr(f, func(in ssa.Instruction) {
		call, ok := in.(*ssa.Call)
		if !ok || len(call.Call.Args) == 0 {
			return
		}
		if g := loadedGlobal(unwrap(call.Call.Args[len(call.Call.Args)-1], true)); g == nil || g != key {
			return
		}
		var recv ssa.Value
		if call.Call.IsInvoke() {
			recv = call.Call.Value
		} else {
			recv = call.Call.Args[0]
		}
		if fa, isFA := recv.(*ssa.FieldAddr); isFA {
			recv = fa.X
		}
		if cc, isCall := unwrap(recv, true).(*ssa.Call); isCall && len(cc.Call.Args) > 0 {
			if k, isK := constInt(cc.Call.Args[len(cc.Call.Args)-1]); isK && k == 0 {
				found = true
			}
		}
	})
	return found
}

// pkgReach: fn and the functions of fn's own package it calls statically, transitively up to depth.
func pkgReach(fn *ssa.Function, depth int) []*ssa.Function {
	out := []*ssa.Function{fn}
	seen := map[*ssa.Function]bool{fn: true}
	frontier := []*ssa.Function{fn}
	for d := 0; d < depth; d++ {
		var next []*ssa.Function
		for _, f := range frontier {
			eachInstr(f, func(in ssa.Instruction) {
				cal := staticCallee(in)
				if cal == nil || seen[cal] || cal.Blocks == nil || funcPkgPath(cal) != funcPkgPath(fn) {
					return
				}
				seen[cal] = true
				out = append(out, cal)
				next = append(next, cal)
			})
		}
		frontier = next
	}
	return out
}

func checkEffectiveProperty1(c *Ctx, rule string, fn *ssa.Function, keyPkg, keyVar string, defElsewhere bool) {
	r := c.R
	key := c.Global(keyPkg, keyVar)
	if key == nil {
		return
	}
	type read struct {
		call   *ssa.Call
		col0   bool
		column *ssa.Call
	}
	var reads []read
	eachInstr(fn, func(in ssa.Instruction) {
		call, ok := in.(*ssa.Call)
		if !ok {
			return
		}
		name := ""
		if call.Call.IsInvoke() {
			name = call.Call.Method.Name()
		} else if f := call.Call.StaticCallee(); f != nil {
			name = f.Name()
		}
		if name != "GetProperty" {
			return
		}
		k := call.Call.Args[len(call.Call.Args)-1]
		if g := loadedGlobal(unwrap(k, true)); g != key {
			return
		}
		// receiver: result of Column(k)
		var recv ssa.Value
		if call.Call.IsInvoke() {
			recv = call.Call.Value
		} else {
			recv = call.Call.Args[0]
		}
		if fa, isFA := recv.(*ssa.FieldAddr); isFA {
			recv = fa.X
		}
		colCall, isCall := unwrap(recv, true).(*ssa.Call)
		if !isCall {
			return
		}
		cname := ""
		if colCall.Call.IsInvoke() {
			cname = colCall.Call.Method.Name()
		} else if f := colCall.Call.StaticCallee(); f != nil {
			cname = f.Name()
		}
		if cname != "Column" {
			return
		}
		idx := colCall.Call.Args[len(colCall.Call.Args)-1]
		k0, isK := constInt(idx)
		reads = append(reads, read{call, isK && k0 == 0, colCall})
	})
	var def *ssa.Call
	var own []*ssa.Call
	for _, rd := range reads {
		if rd.col0 {
			def = rd.call
		} else {
			own = append(own, rd.call)
		}
	}
	if len(own) == 0 {
		r.Note(fmt.Sprintf("%s: %s reads no per-column %s property; nothing to resolve", rule, FuncName(fn), keyVar))
		return
	}
	if def == nil {
		if defElsewhere {
			r.Note(fmt.Sprintf("shape-unrecognised %s: %s reads the per-column %s while the column-0 default is read in another function and handed over; how the two are combined is not evaluated", rule, FuncName(fn), keyVar))
			return
		}
		r.Check(rule, FuncName(fn), "per-column "+keyVar+" falls back to the column-0 default", own[0].Pos(), false, "the property is read from each column but never from column 0: a default set for all columns is ignored")
		return
	}
	for i, o := range own {
		// where o's value is nil, something derived from def must flow to the same destination as o-derived values
		dOwn := destinations(o, nil)
		ok := false
		for _, b := range fn.Blocks {
			for _, cf := range dominatingConds(b) {
				e, nn, isT := nilTest(cf.Cond)
				if !isT || e != ssa.Value(o) || (nn == 1) != cf.Val {
					continue
				}
				// b executes only when o == nil
				for d := range destinations(def, func(in ssa.Instruction) bool { return in.Block() == b || b.Dominates(in.Block()) }) {
					if dOwn[d] {
						ok = true
					}
				}
			}
		}
		// or a phi merging o (non-nil edge) with def-derived (nil edge)
		for _, rr := range referrersOf(o) {
			if phi, isPhi := rr.(*ssa.Phi); isPhi {
				for k, e := range phi.Edges {
					if derivesFromCall(e, def, 0) {
						pred := phi.Block().Preds[k]
						for _, cf := range append(dominatingConds(pred), edgeCondOf(pred, phi.Block())...) {
							e2, nn, isT := nilTest(cf.Cond)
							if isT && e2 == ssa.Value(o) && (nn == 1) == cf.Val {
								ok = true
							}
						}
					}
				}
			}
		}
		if !ok {
			// or "default first, own setting on top": the default is stored into a field of the column's record
			// unconditionally, and the own value overwrites that same field later, only where it is set
			type fstore struct {
				st  *ssa.Store
				key string
			}
			storesOf := func(call *ssa.Call) []fstore {
				var out []fstore
				seen := map[ssa.Value]bool{}
				var walk func(v ssa.Value)
				walk = func(v ssa.Value) {
					if seen[v] {
						return
					}
					seen[v] = true
					for _, rr := range referrersOf(v) {
						switch x := rr.(type) {
						case *ssa.TypeAssert, *ssa.Extract, *ssa.MakeInterface, *ssa.ChangeInterface, *ssa.Phi:
							walk(x.(ssa.Value))
						case *ssa.Store:
							if fa, isFA := x.Addr.(*ssa.FieldAddr); isFA && x.Val == v {
								out = append(out, fstore{x, fieldKindKey(fa)})
							}
						}
					}
				}
				walk(call)
				return out
			}
			for _, os := range storesOf(o) {
				ownGuarded := false
				for _, cf := range expandConds(dominatingConds(os.st.Block())) {
					if e, nn, isT := nilTest(cf.Cond); isT && e == ssa.Value(o) && (nn == 0) == cf.Val {
						ownGuarded = true
					}
				}
				if !ownGuarded {
					continue
				}
				for _, ds := range storesOf(def) {
					if ds.key == os.key && instrDominates(ds.st, os.st) {
						ok = true
					}
				}
			}
		}
		if !ok {
			// or a helper handed both: it answers with the default (or what was derived from it) where the own value is nil
			eachInstr(fn, func(in ssa.Instruction) {
				call, isCall := in.(*ssa.Call)
				if !isCall || ok {
					return
				}
				h := call.Call.StaticCallee()
				if h == nil || h.Blocks == nil || !inModule(h) || len(call.Call.Args) != len(h.Params) {
					return
				}
				oi, di := -1, -1
				for k, a := range call.Call.Args {
					if derivesFromCall(a, o, 0) {
						oi = k
					} else if derivesFromCall(a, def, 0) {
						di = k
					}
				}
				if oi < 0 || di < 0 {
					return
				}
				for _, ret := range returnsOf(h) {
					for _, rv := range results(ret) {
						if !derivesFrom(rv, h.Params[di], 0) {
							continue
						}
						for _, cf := range dominatingConds(ret.Block()) {
							e, nn, isT := nilTest(cf.Cond)
							if isT && (e == ssa.Value(h.Params[oi]) || derivesFrom(e, h.Params[oi], 0)) && (nn == 1) == cf.Val {
								ok = true
							}
						}
					}
				}
			})
		}
		r.Check(rule, FuncName(fn), fmt.Sprintf("per-column %s read #%d: own setting, else the column-0 default", keyVar, i+1), o.Pos(), ok, "the default is read but not used where the column's own value is nil")
	}
}

func edgeCondOf(pred, succ *ssa.BasicBlock) []condFact {
	if iff, ok := pred.Instrs[len(pred.Instrs)-1].(*ssa.If); ok && pred.Succs[0] != pred.Succs[1] {
		if pred.Succs[0] == succ {
			return []condFact{{iff.Cond, true, iff}}
		}
		if pred.Succs[1] == succ {
			return []condFact{{iff.Cond, false, iff}}
		}
	}
	return nil
}

func derivesFromCall(v ssa.Value, call *ssa.Call, depth int) bool {
	if depth > 6 {
		return false
	}
	if v == ssa.Value(call) {
		return true
	}
	switch x := v.(type) {
	case *ssa.TypeAssert:
		return derivesFromCall(x.X, call, depth+1)
	case *ssa.Extract:
		return derivesFromCall(x.Tuple, call, depth+1)
	case *ssa.Phi:
		for _, e := range x.Edges {
			if derivesFromCall(e, call, depth+1) {
				return true
			}
		}
	case *ssa.MakeInterface:
		return derivesFromCall(x.X, call, depth+1)
	case *ssa.ChangeInterface:
		return derivesFromCall(x.X, call, depth+1)
	case *ssa.Call:
		// a module helper that interprets the raw value (assertion to the property's type, with a fallback)
		if h := x.Call.StaticCallee(); h != nil && inModule(h) && h.Blocks != nil {
			for _, a := range x.Call.Args {
				if derivesFromCall(a, call, depth+1) {
					return true
				}
			}
		}
	}
	return false
}

// destinations: where values derived from `call` are stored (keyed by a description of the destination).
func destinations(call *ssa.Call, filter func(ssa.Instruction) bool) map[string]bool {
	out := map[string]bool{}
	seen := map[ssa.Value]bool{}
	var walk func(v ssa.Value)
	walk = func(v ssa.Value) {
		if seen[v] {
			return
		}
		seen[v] = true
		for _, rr := range referrersOf(v) {
			switch x := rr.(type) {
			case *ssa.TypeAssert:
				walk(x)
			case *ssa.Extract:
				walk(x)
			case *ssa.Phi:
				if filter == nil || filter(x) || true {
					out[fmt.Sprintf("phi:%p", x)] = true
				}
				walk(x)
			case *ssa.MakeInterface:
				walk(x)
			case *ssa.ChangeInterface:
				walk(x)
			case *ssa.Store:
				if x.Val != v {
					continue
				}
				if filter != nil && !filter(x) {
					continue
				}
				switch a := x.Addr.(type) {
				case *ssa.IndexAddr:
					out[fmt.Sprintf("elem:%p", capturedLoad(a.X))] = true // (the slice itself, also when it lives in a variable a closure captures)
				case *ssa.FieldAddr:
					out[fmt.Sprintf("field:%p:%d", a.X, a.Field)] = true
					// ... and, less exactly, "that field of that kind of record" (a record built as a literal and then
					// stored whole, and the same field of the stored record written again later)
					out[fieldKindKey(a)] = true
				case *ssa.Alloc:
					out[fmt.Sprintf("var:%p", a)] = true
				}
			}
		}
	}
	walk(call)
	return out
}

var _ = sort.Strings

// c05JoinShape: alternative record shape  Join(quoted cells, sep) + Repeat(sep + empty, columnCount-len(cells)).
// The field count is right only if the row has at least one cell (Join of nothing is not a field), so that must
// be provable where the record is assembled; the padding count must be columnCount - len(cells).
func c05JoinShape(c *Ctx, emitRow *ssa.Function, p *prover, sites []*writeSite, colCount, cells *ssa.Parameter, t *taintCtx) bool {
	r := c.R
	name := FuncName(emitRow)
	var join, rep *ssa.Call
	eachInstr(emitRow, func(in ssa.Instruction) {
		if isCallTo(in, "strings", "Join") {
			join = in.(*ssa.Call)
		}
		if isCallTo(in, "strings", "Repeat") {
			rep = in.(*ssa.Call)
		}
	})
	if join == nil {
		return false
	}
	// the joined slice has one quoted cell per cell
	n := p.lenOf(join.Call.Args[0])
	okLen := n.String() == p.lenOf(cells).String()
	r.Check("R05.4", name, "the joined fields are one per cell of the row", join.Pos(), okLen, "joined slice has length "+n.String())
	nonEmpty, _ := p.prove(leq(linConst(1), n, "at least one cell"), join, nil, 0)
	padSep := false
	if rep != nil {
		// padding unit begins with the separator?
		parts := concatParts(rep.Call.Args[0])
		if len(parts) >= 1 {
			if f, _ := loadedField(parts[0]); f != nil && !t.fieldTainted(f) {
				padSep = true
			}
			if s, ok := constString(parts[0]); ok && strings.HasPrefix(s, ",") {
				padSep = true
			}
		}
		cnt := p.linOf(rep.Call.Args[1])
		want := p.linOf(colCount).sub(p.lenOf(cells))
		r.Check("R05.4", name, "missing columns are padded: columnCount - len(cells) empty fields", rep.Pos(), cnt.String() == want.String(), "pad count is "+cnt.String())
	}
	if padSep {
		r.Check("R05.4", name, "joining the row's cells yields at least one field before separator-prefixed padding is appended", join.Pos(), nonEmpty,
			"for a row without cells the record would start with a separator: one field too many, the first one unquoted")
	}
	return true
}

// carriedInto: v can be a value computed in an EARLIER iteration of the loop headed by h: it is, or is merged from,
// a phi of h with an incoming back edge.
func carriedInto(v ssa.Value, h *ssa.BasicBlock, seen map[ssa.Value]bool) bool {
	if seen[v] {
		return false
	}
	seen[v] = true
	phi, ok := v.(*ssa.Phi)
	if !ok {
		return false
	}
	if phi.Block() == h {
		for k, pred := range h.Preds {
			if h.Dominates(pred) {
				// a back edge: the incoming value is from the previous iteration, unless it is assigned on every path
				// of the body (then the header phi is dead on entry to the use... but the merge still exists): treat
				// the carried value as live when the phi itself is what is used
				_ = k
				return true
			}
		}
	}
	for _, e := range phi.Edges {
		if carriedInto(e, h, seen) {
			return true
		}
	}
	return false
}

// emitCallee: the call at `in` (made by fn) emits one row/line: its callee is a function of the package that takes
// the destination writer, or a local closure / thin helper holding the writer whose body makes exactly one such
// call. Returns the function that does the emitting (nil if `in` is no such call).
func emitCallee(in ssa.Instruction, pkg string, fn *ssa.Function) *ssa.Function {
	f := staticCallee(in)
	if f == nil || funcPkgPath(f) != pkg || f == fn || f.Blocks == nil {
		return nil
	}
	for _, p := range f.Params {
		if isIOWriter(p.Type()) || carriesWriter(p.Type()) {
			return f
		}
	}
	if len(writerValues(f)) == 0 {
		return nil
	}
	var inner *ssa.Function
	n := 0
	eachInstr(f, func(x ssa.Instruction) {
		g := staticCallee(x)
		if g == nil || funcPkgPath(g) != pkg || g == f || g == fn {
			return
		}
		for _, p := range g.Params {
			if isIOWriter(p.Type()) || carriesWriter(p.Type()) {
				inner = g
				n++
				return
			}
		}
	})
	if n == 1 {
		return inner
	}
	return nil
}

// fieldKindKey: "field #i of struct type T", whichever object of that type is meant.
func fieldKindKey(fa *ssa.FieldAddr) string {
	t := fa.X.Type()
	if pt, ok := t.Underlying().(*types.Pointer); ok {
		t = pt.Elem()
	}
	return fmt.Sprintf("fieldkind:%s:%d", types.TypeString(t, nil), fa.Field)
}

// c05SeparatorAfterField: a record must not begin with the separator. Every write whose data begins with the
// separator (sep + x, strings.Repeat(sep + x, k)) must sit where a field is known to have been written already:
// under a test that a counting index is past zero, or where the row is known to have a cell. Decided for the
// record emitter and the package helpers it hands its writer to; a guard that is a boolean flag rather than
// arithmetic is not followed (NOTE).
func c05SeparatorAfterField(c *Ctx, emitRow *ssa.Function, cells *ssa.Parameter, t *taintCtx) {
	r := c.R
	fns := []*ssa.Function{emitRow}
	for _, h := range pkgReach(emitRow, 1)[1:] {
		if len(writerValues(h)) > 0 {
			fns = append(fns, h)
		}
	}
	for _, g := range emitRow.AnonFuncs {
		fns = append(fns, g)
	}
	n := 0
	for _, fn := range fns {
		p := c.Idx().proverFor(fn)
		isSep := func(v ssa.Value) bool {
			if f, _ := loadedField(v); f != nil && isStringType(f.Type()) && !t.fieldTainted(f) {
				return true
			}
			if sv, ok := constString(v); ok && sv != "" && !strings.HasPrefix(sv, "\"") && !strings.ContainsAny(sv, "\r\n") {
				return true
			}
			return false
		}
		var leadingSep func(v ssa.Value, d int) bool
		leadingSep = func(v ssa.Value, d int) bool {
			if d > 6 {
				return false
			}
			switch x := v.(type) {
			case *ssa.BinOp:
				if x.Op == token.ADD && isStringType(x.Type()) {
					return isSep(x.X) || leadingSep(x.X, d+1)
				}
			case *ssa.Call:
				if isFunc(x.Call.StaticCallee(), "strings", "Repeat") {
					return isSep(x.Call.Args[0]) || leadingSep(x.Call.Args[0], d+1)
				}
			}
			return false
		}
		counting := func(v ssa.Value) bool {
			v = p.resolve(v)
			if call, ok := isBuiltinCall(v, "len"); ok {
				return cells != nil && fn == emitRow && p.resolve(call.Call.Args[0]) == ssa.Value(cells)
			}
			isHdrPhi := func(x ssa.Value) bool {
				phi, ok := x.(*ssa.Phi)
				if !ok || !isIntType(phi.Type()) {
					return false
				}
				for _, pr := range phi.Block().Preds {
					if phi.Block().Dominates(pr) {
						return true
					}
				}
				return false
			}
			if isHdrPhi(v) {
				return true
			}
			if bo, ok := v.(*ssa.BinOp); ok && bo.Op == token.ADD && isHdrPhi(bo.X) {
				return true
			}
			// an index handed in by the caller (the helper writes one field of column i)
			if par, ok := v.(*ssa.Parameter); ok && fn != emitRow && isIntType(par.Type()) {
				return true
			}
			return false
		}
		judge := func(site *writeSite, data ssa.Value, conds []condFact) {
			n++
			var facts []constraint
			flag := false
			var cands []ssa.Value
			for _, cf := range conds {
				facts = append(facts, p.condConstraints(cf.Cond, cf.Val)...)
				switch x := cf.Cond.(type) {
				case *ssa.BinOp:
					cands = append(cands, x.X, x.Y)
				default:
					if isBoolType(cf.Cond.Type()) {
						if _, isCall := x.(*ssa.Call); !isCall {
							flag = true
						}
					}
				}
			}
			ok := false
			for _, cv := range cands {
				if counting(cv) && entails(facts, leq(linConst(1), p.linOf(cv), "")) {
					ok = true
				}
			}
			if !ok && cells != nil && fn == emitRow {
				if entails(facts, leq(linConst(1), p.lenOf(cells), "")) {
					ok = true
				}
			}
			if !ok && flag {
				r.Note("shape-unrecognised R05.4: a separator is written under a boolean flag in " + FuncName(fn) + "; whether a field precedes it is not evaluated")
				return
			}
			r.Check("R05.4", FuncName(fn), site.Desc+": a separator is written only after a field of the same record", site.Call.Pos(), ok,
				"nothing here says a field has been written yet (a row without cells): the record would begin with the separator, which readers take for an extra empty field")
		}
		wv := writerValues(fn)
		for _, site := range writeSitesOf(fn, wv) {
			if callee := site.Call.Common().StaticCallee(); callee != nil && funcPkgPath(callee) == pkgPath("csv") {
				continue // judged in the helper itself
			}
			for _, a := range sinkArgs(site, wv) {
				v := a
				if sl, isSl := v.(*ssa.Slice); isSl {
					if al, isAl := sl.X.(*ssa.Alloc); isAl {
						for _, rr := range referrersOf(al) {
							if ia, isIA := rr.(*ssa.IndexAddr); isIA {
								for _, r3 := range referrersOf(ia) {
									if st, isSt := r3.(*ssa.Store); isSt {
										v = unwrap(st.Val, true)
									}
								}
							}
						}
					}
				}
				base := expandConds(dominatingConds(site.Call.(ssa.Instruction).Block()))
				if phi, isPhi := v.(*ssa.Phi); isPhi {
					for k, e := range phi.Edges {
						if leadingSep(e, 0) {
							judge(site, e, append(append([]condFact(nil), base...), p.edgeConds(phi.Block().Preds[k], phi.Block())...))
						}
					}
					continue
				}
				if leadingSep(v, 0) {
					judge(site, v, base)
				}
			}
		}
	}
	_ = n
}
