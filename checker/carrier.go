package main

import (
	"go/token"

	"golang.org/x/tools/go/ssa"
)

// A carrier is a small struct a function builds locally to keep together what one pass needs (a count, the
// widths, the alignments) and hands, whole and by value, to helpers. This file lets the value analyses look
// through it: a field of such a struct that is assigned exactly once is the value assigned.

// localFieldValue: ld is a load of field k of a struct variable of this function that never escapes by address,
// is never overwritten whole, and whose field k is stored exactly once, by a store that dominates the load:
// returns the stored value.
func localFieldValue(ld *ssa.UnOp) ssa.Value {
	if ld.Op != token.MUL {
		return nil
	}
	fa, ok := ld.X.(*ssa.FieldAddr)
	if !ok {
		return nil
	}
	al, ok := fa.X.(*ssa.Alloc)
	if !ok {
		return nil
	}
	var st *ssa.Store
	for _, rr := range referrersOf(al) {
		switch x := rr.(type) {
		case *ssa.DebugRef:
		case *ssa.UnOp: // the whole struct read (handed on by value)
		case *ssa.FieldAddr:
			if x.Field != fa.Field {
				continue
			}
			for _, r2 := range referrersOf(x) {
				switch y := r2.(type) {
				case *ssa.DebugRef, *ssa.UnOp:
				case *ssa.Store:
					if y.Addr != ssa.Value(x) || st != nil {
						return nil
					}
					st = y
				default:
					return nil // the field's address is taken or indexed into: not followed
				}
			}
		default:
			return nil
		}
	}
	if st == nil || !instrDominates(st, ld) {
		return nil
	}
	return st.Val
}

// A call that hands the carrier on, whole.
type carrierCall struct {
	Call ssa.CallInstruction
	Arg  int
}

// structFieldAliases: the values that denote field k of the struct held in holder (a local struct variable, or a
// struct value such as a by-value parameter or a whole-struct load), and the calls the struct is handed to.
// ok is false when the struct is used in a way not followed (its address escapes, it is stored elsewhere, ...).
func structFieldAliases(holder ssa.Value, k int, depth int) (vals []ssa.Value, stores []*ssa.Store, calls []carrierCall, ok bool) {
	ok = true
	if depth > 3 {
		return nil, nil, nil, false
	}
	merge := func(v []ssa.Value, s []*ssa.Store, c []carrierCall, o bool) {
		vals = append(vals, v...)
		stores = append(stores, s...)
		calls = append(calls, c...)
		if !o {
			ok = false
		}
	}
	switch h := holder.(type) {
	case *ssa.Alloc:
		for _, rr := range referrersOf(h) {
			switch x := rr.(type) {
			case *ssa.DebugRef:
			case *ssa.FieldAddr:
				if x.Field != k {
					continue
				}
				for _, r2 := range referrersOf(x) {
					switch y := r2.(type) {
					case *ssa.DebugRef:
					case *ssa.UnOp:
						vals = append(vals, y)
					case *ssa.Store:
						if y.Addr != ssa.Value(x) {
							ok = false
						}
						stores = append(stores, y)
					default:
						ok = false
					}
				}
			case *ssa.UnOp:
				merge(structFieldAliases(x, k, depth+1))
			case *ssa.Store:
				// the spill of a by-value parameter into its variable is the only whole store followed
				if _, isPar := x.Val.(*ssa.Parameter); !isPar || x.Addr != ssa.Value(h) {
					ok = false
				}
			default:
				ok = false
			}
		}
	default:
		for _, rr := range referrersOf(holder) {
			switch x := rr.(type) {
			case *ssa.DebugRef:
			case *ssa.Field:
				if x.Field == k {
					vals = append(vals, x)
				}
			case *ssa.Store:
				al, isAl := x.Addr.(*ssa.Alloc)
				if !isAl || x.Val != holder {
					ok = false
					continue
				}
				merge(structFieldAliases(al, k, depth+1))
			case ssa.CallInstruction:
				for j, a := range x.Common().Args {
					if a == holder {
						calls = append(calls, carrierCall{x, j})
					}
				}
			default:
				ok = false
			}
		}
	}
	return
}

// carrierOfStore: st stores a value into a field of a local struct variable; returns the variable and the field.
func carrierOfStore(st *ssa.Store) (*ssa.Alloc, int) {
	fa, ok := st.Addr.(*ssa.FieldAddr)
	if !ok {
		return nil, -1
	}
	al, ok := fa.X.(*ssa.Alloc)
	if !ok {
		return nil, -1
	}
	return al, fa.Field
}
