package main

import (
	"fmt"
	"go/token"
	"go/types"
	"strings"

	"golang.org/x/tools/go/ssa"
)

func runC07(c *Ctx) {
	r := c.R
	r.Explanation = "Validity of the emitted text as JSON for all inputs is not decided as such; encoding/json is trusted for values and keys. Decided: " +
		"R07.1 (taint) every operand written by package json is a constant or comes from json.Marshal (keys: Marshal(header text) + \": \"; values: Marshal(item) or Marshal(non-empty text)); cell text reaches the writer no other way. " +
		"R07.2 each documented refusal (no columns, non-boolean default skipable, no headers, too few headers, empty header, duplicate header, non-boolean column skipable) is a branch returning a non-nil error, and none of them can be reached once anything has been written. " +
		"R07.3 (comma state machine) whenever text that may contain a comma is written at array level, an object emission follows on every path before the loop comes round again or the array is closed - so a comma is never left dangling by trailing, leading or consecutive separators. " +
		"R07.4 object shape: first field opened with '{', later ones with ', ', key written before its value with the same column index, '{}' when every field was skipped and '}' otherwise; a cell is skipped only under skipable[i] && Empty(). R07.5 skipable is resolved as own setting, else column-0 default. Render returns no text on error: C09 R09.R."
	r.NotDecided = []string{"that encoding/json produces valid JSON (trusted)", "that the table is mirrored value by value (needs the values)"}
	r.Assumptions = []string{"encoding/json.Marshal output is a complete JSON value without raw newlines"}
	r.Rule("R07.1", "only constants and json.Marshal output are written")
	r.Rule("R07.2", "all validation errors are raised before the first write")
	r.Rule("R07.3", "a comma at array level is always followed by an object")
	r.Rule("R07.4", "object shape: braces, separators, key before value, skip rule")
	r.Rule("R07.5", "skipable: own setting, else the column-0 default")

	fn := renderToOf(c, "json")
	if fn == nil {
		return
	}
	t := newTaint(c, "json", "json")
	sinks, srcs := t.run("R07.1")
	r.Floor("R07.1", "written operands examined", sinks, 8)
	r.Floor("R07.1", "places where cell text is read", srcs, 2)

	p := c.Idx().proverFor(fn)
	sites := allWriteSites(fn)
	afterWrite := map[*ssa.BasicBlock]bool{}
	for _, s := range sites {
		in := s.Call.(ssa.Instruction)
		for b := range blockReach(in.Block(), nil) {
			if b != in.Block() {
				afterWrite[b] = true
			}
		}
	}
	// R07.2: every refusal returns before output; specific conditions present
	type refusal struct {
		name string
		ok   bool
	}
	found := map[string]bool{}
	nref := 0
	for _, b := range fn.Blocks {
		iff, ok := b.Instrs[len(b.Instrs)-1].(*ssa.If)
		if !ok {
			continue
		}
		for _, val := range []bool{true, false} {
			succ := b.Succs[0]
			if !val {
				succ = b.Succs[1]
			}
			// the taken edge must lead straight to a return of a non-nil error that is not a write's error
			var ret *ssa.Return
			for _, in := range succ.Instrs {
				if rr, isRet := in.(*ssa.Return); isRet {
					ret = rr
				}
			}
			if ret == nil || !edgeControls(b, succ, succ) {
				continue
			}
			ev := results(ret)[0]
			if !definitelyNonNilErr(ev) {
				continue
			}
			kind := classifyJSONRefusal(p, iff.Cond, val)
			if kind == "" {
				continue
			}
			nref++
			early := !afterWrite[succ] && !afterWrite[b]
			for _, s := range sites {
				if s.Call.(ssa.Instruction).Block() == b {
					early = false
				}
			}
			r.Check("R07.2", FuncName(fn), "refusal ("+kind+") happens before any output", ret.Pos(), early, "the error can be raised after part of the array has been written")
			found[kind] = true
		}
	}
	// validation delegated to helpers of the package: a helper called before any output whose error result is
	// returned at once; its own refusing branches count
	eachInstr(fn, func(in ssa.Instruction) {
		call, isCall := in.(*ssa.Call)
		if !isCall {
			return
		}
		h := call.Call.StaticCallee()
		if h == nil || h.Blocks == nil || funcPkgPath(h) != funcPkgPath(fn) || afterWrite[in.Block()] || len(allWriteSites(h)) > 0 {
			return
		}
		nres := h.Signature.Results().Len()
		if nres == 0 || !isErrorType(h.Signature.Results().At(nres-1).Type()) {
			return
		}
		// the error is tested and returned by RenderTo
		var errV ssa.Value = call
		if nres > 1 {
			errV = nil
			for _, rr := range referrersOf(call) {
				if ex, ok := rr.(*ssa.Extract); ok && ex.Index == nres-1 {
					errV = ex
				}
			}
		}
		propagated := false
		if errV != nil {
			for _, b := range fn.Blocks {
				iff, ok := b.Instrs[len(b.Instrs)-1].(*ssa.If)
				if !ok {
					continue
				}
				if e, nn, isT := nilTest(iff.Cond); isT && e == errV {
					succ := b.Succs[0]
					if nn == 1 {
						succ = b.Succs[1]
					}
					for _, x := range succ.Instrs {
						if ret, isRet := x.(*ssa.Return); isRet && derivedFrom(results(ret)[len(ret.Results)-1], errV, 0) {
							propagated = true
						}
					}
				}
			}
		}
		if !propagated {
			return
		}
		ph := c.Idx().proverFor(h)
		for _, b := range h.Blocks {
			iff, ok := b.Instrs[len(b.Instrs)-1].(*ssa.If)
			if !ok {
				continue
			}
			for _, val := range []bool{true, false} {
				succ := b.Succs[0]
				if !val {
					succ = b.Succs[1]
				}
				var ret *ssa.Return
				for _, x := range succ.Instrs {
					if rr, isRet := x.(*ssa.Return); isRet {
						ret = rr
					}
				}
				if ret == nil || !edgeControls(b, succ, succ) || !definitelyNonNilErr(results(ret)[len(ret.Results)-1]) {
					continue
				}
				kind := classifyJSONRefusal(ph, iff.Cond, val)
				if kind == "" {
					continue
				}
				nref++
				r.Check("R07.2", FuncName(h), "refusal ("+kind+") happens before any output", ret.Pos(), true, "")
				found[kind] = true
			}
		}
	})
	for _, k := range []string{"no columns", "no headers", "too few headers", "empty header", "duplicate header", "non-boolean skipable"} {
		r.Check("R07.2", FuncName(fn), "refuses: "+k, fn.Pos(), found[k], "this documented error condition has no refusing branch")
	}
	r.Floor("R07.2", "refusing branches", nref, 7)

	// R07.3: the function that writes the array: RenderTo itself, or the helper it hands the writer to once the
	// validation is done (its per-row emit calls sit in a loop)
	var emit *ssa.Function
	body := fn
	hasRowLoop := func(f *ssa.Function) bool {
		found := false
		eachInstr(f, func(in ssa.Instruction) {
			if loopDepth(in.Block()) > 0 && emitCallee(in, pkgPath("json"), f) != nil {
				found = true
			}
		})
		return found
	}
	if !hasRowLoop(fn) {
		for _, h := range pkgReach(fn, 1)[1:] {
			takesWriter := false
			for _, par := range h.Params {
				if isIOWriter(par.Type()) {
					takesWriter = true
				}
			}
			if takesWriter && hasRowLoop(h) {
				body = h
			}
		}
	}
	isEmit := func(in ssa.Instruction) bool {
		if f := emitCallee(in, pkgPath("json"), body); f != nil {
			emit = f
			return true
		}
		return false
	}
	if body != fn {
		sites = allWriteSites(body)
	}
	separatorsSkipped(c, "R07.3", body, isEmit)
	importCellText(c, "R07.4", true)
	importWriteDiscipline(c, "R07.2", "json")
	rowsInOrder(c, "R07.3", body, isEmit)
	wv := writerValues(body)
	ncomma := 0
	for _, s := range sites {
		in := s.Call.(ssa.Instruction)
		if isEmit(in) {
			continue
		}
		mayComma := false
		for _, a := range sinkArgs(s, wv) {
			if mayContain(a, ",", map[ssa.Value]bool{}) {
				mayComma = true
			}
		}
		if !mayComma {
			continue
		}
		ncomma++
		ok, why := objectFollows(body, in, isEmit)
		r.Check("R07.3", FuncName(body), s.Desc+" may write a comma: an object follows on every path", in.Pos(), ok, why)
	}
	r.Floor("R07.3", "array-level writes that may contain a comma", ncomma, 1)
	// ... and the other way round: a comma is chosen only where an object has already been written - no comma before
	// the first object, whatever precedes it (separators, nothing)
	{
		nsel := 0
		for _, s := range sites {
			in := s.Call.(ssa.Instruction)
			if isEmit(in) {
				continue
			}
			for _, a := range sinkArgs(s, wv) {
				for _, sel := range commaSelections(a, in, map[ssa.Value]bool{}) {
					nsel++
					ok, why := emittedBefore(body, sel, isEmit)
					r.Check("R07.3", FuncName(body), fmt.Sprintf("comma selection #%d for %s happens only after an object was written", nsel, s.Desc), in.Pos(), ok, why)
				}
			}
		}
	}
	// brackets: first write "[", last "]"
	{
		first, last := "", ""
		for _, s := range sites {
			in := s.Call.(ssa.Instruction)
			if isEmit(in) || loopDepth(in.Block()) > 0 {
				continue
			}
			for _, a := range sinkArgs(s, wv) {
				for _, x := range phiClosure(a) {
					if str, ok := constString(x); ok {
						if first == "" {
							first = str
						}
						last = str
					}
				}
			}
		}
		r.Check("R07.3", FuncName(body), "the array is opened first and closed last", body.Pos(), strings.HasPrefix(strings.TrimSpace(first), "[") && strings.HasPrefix(strings.TrimSpace(last), "]"), fmt.Sprintf("first %q, last %q", first, last))
	}
	if emit != nil {
		c07Object(c, emit)
		c07ItemEncodingError(c, emit)
	}
	checkEffectiveProperty(c, "R07.5", fn, "properties", "Skipable")
	importPropertyStore(c, "R07.5")
}

func classifyJSONRefusal(p *prover, cond ssa.Value, val bool) string {
	switch x := cond.(type) {
	case *ssa.BinOp:
		if isNColumnsResult(x.X) || isNColumnsResult(x.Y) {
			if isHeadersLen(x.X) || isHeadersLen(x.Y) {
				cs := p.condConstraints(cond, val)
				if len(cs) == 1 {
					return "too few headers"
				}
				return ""
			}
			if noColumnsRefusal(p, condFact{cond, val, nil}) {
				return "no columns"
			}
			return ""
		}
		if isHeadersLen(x.X) || isHeadersLen(x.Y) {
			return "too few headers"
		}
		if e, nn, ok := nilTest(cond); ok && isHeadersResult(e) && (nn == 1) == val {
			return "no headers"
		}
		// a helper hands back the offending value: non-nil exactly where its assertion to bool failed
		if e, nn, ok := nilTest(cond); ok && (nn == 0) == val {
			if ex, isEx := e.(*ssa.Extract); isEx {
				if call, isCall := ex.Tuple.(*ssa.Call); isCall && badValueOfFailedBoolAssert(call.Call.StaticCallee(), ex.Index) {
					return "non-boolean skipable"
				}
			}
		}
		if (x.Op == token.EQL && val) || (x.Op == token.NEQ && !val) {
			for _, side := range []ssa.Value{x.X, x.Y} {
				if s, ok := constString(side); ok && s == "" {
					return "empty header"
				}
			}
		}
	case *ssa.Extract:
		if _, isCall := x.Tuple.(*ssa.Call); x.Index != 1 && !isCall {
			return ""
		}
		switch tup := x.Tuple.(type) {
		case *ssa.Lookup:
			if tup.CommaOk && val {
				return "duplicate header"
			}
		case *ssa.TypeAssert:
			if b, ok := tup.AssertedType.Underlying().(*types.Basic); ok && b.Kind() == types.Bool && !val {
				return "non-boolean skipable"
			}
		case *ssa.Call:
			// (value, ok) from a helper whose ok is that of an assertion to bool (or constant true)
			if !val && boolAssertOKResult(tup.Call.StaticCallee(), x.Index, 0) {
				return "non-boolean skipable"
			}
		}
	}
	return ""
}

func isHeadersLen(v ssa.Value) bool {
	call, ok := isBuiltinCall(v, "len")
	return ok && isHeadersResult(call.Call.Args[0])
}

// mayContain: can the string value contain substring sub (constants, concatenations and phis of them)?
func mayContain(v ssa.Value, sub string, seen map[ssa.Value]bool) bool {
	if seen[v] {
		return false
	}
	seen[v] = true
	switch x := v.(type) {
	case *ssa.Const:
		s, ok := constString(x)
		return ok && strings.Contains(s, sub)
	case *ssa.Phi:
		for _, e := range x.Edges {
			if mayContain(e, sub, seen) {
				return true
			}
		}
		return false
	case *ssa.BinOp:
		return mayContain(x.X, sub, seen) || mayContain(x.Y, sub, seen)
	case *ssa.Slice:
		return mayContain(x.X, sub, seen)
	case *ssa.Alloc:
		for _, rr := range referrersOf(x) {
			if ia, ok := rr.(*ssa.IndexAddr); ok {
				for _, r3 := range referrersOf(ia) {
					if st, ok := r3.(*ssa.Store); ok && mayContain(st.Val, sub, seen) {
						return true
					}
				}
			}
		}
		return false
	case *ssa.MakeInterface:
		return mayContain(x.X, sub, seen)
	}
	return false // marshalled data and other non-constant text is not array-level punctuation
}

// objectFollows: from `at`, every path reaches an object emission before it re-enters a loop header that
// dominates `at` or reaches a return of a nil error.
func objectFollows(fn *ssa.Function, at ssa.Instruction, isEmit func(ssa.Instruction) bool) (bool, string) {
	start := at.Block()
	idx := instrIndex(at)
	seen := map[*ssa.BasicBlock]bool{}
	var walk func(b *ssa.BasicBlock, from int) (bool, string)
	walk = func(b *ssa.BasicBlock, from int) (bool, string) {
		for _, in := range b.Instrs[from:] {
			if isEmit(in) {
				return true, ""
			}
			if ret, ok := in.(*ssa.Return); ok {
				if isNil(results(ret)[len(ret.Results)-1]) {
					return false, "the function can finish successfully after the comma without another object"
				}
				return true, "" // failing exit: output abandoned
			}
		}
		for _, s := range b.Succs {
			if s.Dominates(start) && s != start || (s == start) {
				// back to a loop header enclosing the write: next iteration may be a separator or the end
				isHdr := false
				for _, pr := range s.Preds {
					if s.Dominates(pr) {
						isHdr = true
					}
				}
				if isHdr {
					return false, "control returns to the row loop after the comma without having written an object"
				}
			}
			if seen[s] {
				continue
			}
			seen[s] = true
			if ok, why := walk(s, 0); !ok {
				return false, why
			}
		}
		return true, ""
	}
	return walk(start, idx+1)
}

// c07Object: shape of the per-row object emitter.
func c07Object(c *Ctx, emit *ssa.Function) {
	r := c.R
	name := FuncName(emit)
	wv := writerValues(emit)
	sites := writeSitesOf(emit, wv)
	// separators
	var sepWrite *writeSite
	var closers []string
	var keyIdx, valIdx ssa.Value
	var keyW, valW ssa.Instruction
	for _, s := range sites {
		in := s.Call.(ssa.Instruction)
		args := sinkArgs(s, wv)
		if len(args) != 1 {
			continue
		}
		a := args[0]
		if loopDepth(in.Block()) > 0 {
			if isStringType(a.Type()) {
				sepWrite = s
				continue
			}
			// []byte writes: key (element of the keys parameter) or value (Marshal result)
			if _, idx := sectionOfAny(a); idx != nil {
				keyIdx, keyW = idx, in
			} else {
				valW = in
				for _, v := range phiClosure(a) {
					if idx := marshalledCellIndex(v, 0); idx != nil {
						valIdx = idx
					}
				}
			}
			continue
		}
		for _, cv := range phiClosure(a) {
			if s, ok := constString(cv); ok {
				dup := false
				for _, have := range closers {
					if have == s {
						dup = true
					}
				}
				if !dup {
					closers = append(closers, s)
				}
			}
		}
	}
	if sepWrite == nil || keyW == nil || valW == nil {
		r.Note("shape-unrecognised R07.4: per-field separator/key/value writes not identified")
		return
	}
	// separator phi: "{" first, ", " afterwards
	sepArg := sinkArgs(sepWrite, wv)[0]
	vals := map[string]bool{}
	for _, v := range phiClosure(sepArg) {
		if s, ok := constString(v); ok {
			vals[s] = true
		}
	}
	r.Check("R07.4", name, "fields are opened with '{' and separated with ', '", sepWrite.Call.Pos(), len(vals) == 2 && vals["{"] && vals[", "], fmt.Sprint(vals))
	r.Check("R07.4", name, "the key is written before its value, for the same column", keyW.Pos(), instrDominates(sepWrite.Call.(ssa.Instruction), keyW) && instrDominates(keyW, valW) && keyIdx != nil && keyIdx == valIdx, "")
	okClose := len(closers) == 2 && ((closers[0] == "{}" && closers[1] == "}") || (closers[0] == "}" && closers[1] == "{}"))
	if len(closers) == 0 {
		r.Note("shape-unrecognised R07.4: the closing write of an object is not a constant; the '{}' / '}' rule is not evaluated")
	} else {
		r.Check("R07.4", name, "an object with no emitted field is '{}', any other is closed with '}'", emit.Pos(), okClose, fmt.Sprint(closers))
	}
	// skip rule: the only conditions that skip a field are skipable[i] and cells[i].Empty()
	skipOK := true
	why := ""
	base := map[ssa.Value]bool{}
	for _, b := range emit.Blocks {
		if b.Dominates(sepWrite.Call.(ssa.Instruction).Block()) {
			continue
		}
	}
	for _, cf := range dominatingConds(sepWrite.Call.(ssa.Instruction).Block()) {
		hb := cf.If.Block()
		isHdr := false
		for _, pr := range hb.Preds {
			if hb.Dominates(pr) {
				isHdr = true
			}
		}
		if isHdr || base[cf.Cond] {
			continue
		}
		// conditions before the loop (structural refusal) are fine
		if loopDepth(hb) == 0 {
			continue
		}
		skipOK, why = false, "a field is also skipped under "+cf.Cond.String()
	}
	// the skip branch: blocks in the loop that jump to the latch without writing: their conditions
	nskip := 0
	for _, b := range emit.Blocks {
		if loopDepth(b) == 0 {
			continue
		}
		iff, ok := b.Instrs[len(b.Instrs)-1].(*ssa.If)
		if !ok {
			continue
		}
		switch x := iff.Cond.(type) {
		case *ssa.UnOp:
			if _, idx := sectionOfAny(x); idx != nil {
				nskip++ // skipable[i]
			}
		case *ssa.Call:
			if f := x.Call.StaticCallee(); f != nil && f.Name() == "Empty" {
				nskip++
			}
		}
	}
	r.Check("R07.4", name, "a cell is omitted only when its column is skipable and the cell is empty", sepWrite.Call.Pos(), skipOK && nskip == 2, why)
}

// marshalledCellIndex: v is (a result of) json.Marshal applied to something read from cells[idx] -- directly, or
// inside a module helper that is handed cells[idx] and returns the Marshal result of a value read from that
// parameter. Returns idx.
func marshalledCellIndex(v ssa.Value, depth int) ssa.Value {
	ex, ok := v.(*ssa.Extract)
	if !ok || depth > 2 {
		return nil
	}
	call, ok := ex.Tuple.(*ssa.Call)
	if !ok {
		return nil
	}
	f := call.Call.StaticCallee()
	if isFunc(f, "encoding/json", "Marshal") {
		// Marshal(cells[i].Item()) / Marshal(cells[i].String())
		arg := unwrap(call.Call.Args[0], true)
		if src, ok := arg.(*ssa.Call); ok && len(src.Call.Args) > 0 {
			if _, idx := sectionOfAny(src.Call.Args[0]); idx != nil {
				return idx
			}
		}
		return nil
	}
	if f == nil || !inModule(f) || f.Blocks == nil {
		return nil
	}
	for pi, a := range call.Call.Args {
		_, idx := sectionOfAny(a)
		if ia, isIA := a.(*ssa.IndexAddr); isIA && idx == nil {
			idx = ia.Index // &cells[i] handed to the helper
		}
		if idx == nil {
			continue
		}
		// every non-nil result of the helper is Marshal of something derived from that parameter
		okAll, n := true, 0
		for _, ret := range returnsOf(f) {
			for _, rv := range phiClosure(results(ret)[ex.Index]) {
				if k, isK := rv.(*ssa.Const); isK && k.Value == nil {
					continue
				}
				rex, isEx := rv.(*ssa.Extract)
				if !isEx {
					okAll = false
					continue
				}
				rc, isCall := rex.Tuple.(*ssa.Call)
				if !isCall || !isFunc(rc.Call.StaticCallee(), "encoding/json", "Marshal") || !derivesFrom(rc.Call.Args[0], f.Params[pi], 0) {
					okAll = false
					continue
				}
				n++
			}
		}
		if okAll && n > 0 {
			return idx
		}
	}
	return nil
}

// derivesFrom: src occurs among the transitive operands of v (bounded).
func derivesFrom(v, src ssa.Value, depth int) bool {
	if v == src {
		return true
	}
	if depth > 8 {
		return false
	}
	in, ok := v.(ssa.Instruction)
	if !ok {
		return false
	}
	for _, op := range in.Operands(nil) {
		if op != nil && *op != nil && derivesFrom(*op, src, depth+1) {
			return true
		}
	}
	return false
}

// boolAssertOKResult: result idx of f is, on every return, the ok of a comma-ok assertion to bool, or constant true,
// with at least one return of the first kind.
func boolAssertOKResult(f *ssa.Function, idx int, depth int) bool {
	if f == nil || f.Blocks == nil || !inModule(f) || depth > 2 {
		return false
	}
	some := false
	for _, ret := range returnsOf(f) {
		rv := results(ret)
		if idx >= len(rv) {
			return false
		}
		for _, v := range phiClosure(rv[idx]) {
			if k, ok := constBool(v); ok && k {
				continue
			}
			// constant false on a path where an assertion to bool has failed (type-switch form)
			if k, ok := constBool(v); ok && !k {
				failed := false
				for _, cf := range dominatingConds(ret.Block()) {
					if ex2, isEx := cf.Cond.(*ssa.Extract); isEx && ex2.Index == 1 && !cf.Val {
						if ta, isTA := ex2.Tuple.(*ssa.TypeAssert); isTA {
							if b, isB := ta.AssertedType.Underlying().(*types.Basic); isB && b.Kind() == types.Bool {
								failed = true
							}
						}
					}
				}
				if failed {
					some = true
					continue
				}
				return false
			}
			ex, ok := v.(*ssa.Extract)
			if !ok || ex.Index != 1 {
				return false
			}
			ta, ok := ex.Tuple.(*ssa.TypeAssert)
			if !ok {
				return false
			}
			if b, isB := ta.AssertedType.Underlying().(*types.Basic); !isB || b.Kind() != types.Bool {
				return false
			}
			some = true
		}
	}
	return some
}

// commaSelections: the blocks in which a constant containing a comma enters the value v written at `at`:
// the block of a concatenation with such a constant, the predecessor that brings one into a phi, the write itself.
func commaSelections(v ssa.Value, at ssa.Instruction, seen map[ssa.Value]bool) []*ssa.BasicBlock {
	if seen[v] {
		return nil
	}
	seen[v] = true
	hasComma := func(x ssa.Value) bool {
		s, ok := constString(x)
		return ok && strings.Contains(s, ",")
	}
	switch x := v.(type) {
	case *ssa.Const:
		if hasComma(x) {
			return []*ssa.BasicBlock{at.Block()}
		}
	case *ssa.Phi:
		var out []*ssa.BasicBlock
		for k, e := range x.Edges {
			if hasComma(e) {
				out = append(out, x.Block().Preds[k])
				continue
			}
			out = append(out, commaSelections(e, at, seen)...)
		}
		return out
	case *ssa.BinOp:
		var out []*ssa.BasicBlock
		for _, side := range []ssa.Value{x.X, x.Y} {
			if hasComma(side) {
				out = append(out, x.Block())
			} else {
				out = append(out, commaSelections(side, at, seen)...)
			}
		}
		return out
	case *ssa.MakeInterface:
		return commaSelections(x.X, at, seen)
	}
	return nil
}

// emittedBefore: block b runs only after an object emission: an emit call dominates it (earlier in the same pass),
// or it is guarded by a condition that can only hold once an emission has happened: a boolean the loop carries that
// starts false (true) and is flipped only behind an emission, or a counter that starts at 0 and is raised only
// behind an emission, compared with 0.
func emittedBefore(fn *ssa.Function, b *ssa.BasicBlock, isEmit func(ssa.Instruction) bool) (bool, string) {
	var emits []ssa.Instruction
	eachInstr(fn, func(in ssa.Instruction) {
		if isEmit(in) {
			emits = append(emits, in)
		}
	})
	behindEmit := func(blk *ssa.BasicBlock) bool {
		for _, e := range emits {
			if e.Block() == blk || e.Block().Dominates(blk) {
				// within one pass of the loop: the emission's block dominates and lies in the same loop body
				if innermostLoopHeader(e.Block()) == innermostLoopHeader(blk) || innermostLoopHeader(e.Block()) == nil {
					return true
				}
			}
		}
		return false
	}
	if len(b.Instrs) > 0 {
		for _, e := range emits {
			// the selection takes effect where the block ends (a value carried round the loop): an emission anywhere
			// in the block, or in one that dominates it within the same pass, is "before"
			if (e.Block() == b || instrDominates(e, b.Instrs[0])) && (innermostLoopHeader(e.Block()) == innermostLoopHeader(b) || innermostLoopHeader(e.Block()) == nil) {
				return true, ""
			}
		}
	}
	// the flag / counter forms
	carried := func(phi *ssa.Phi, changedOK func(e ssa.Value) bool) (entry ssa.Value, ok bool) {
		hdr := phi.Block()
		if !isLoopHeaderBlock(hdr) {
			return nil, false
		}
		for k, pred := range hdr.Preds {
			e := phi.Edges[k]
			if !hdr.Dominates(pred) {
				if entry != nil && entry != e {
					return nil, false
				}
				entry = e
				continue
			}
			// the value coming round: taken apart through the merges inside the body
			var visit func(v ssa.Value, via *ssa.BasicBlock, depth int) bool
			visit = func(v ssa.Value, via *ssa.BasicBlock, depth int) bool {
				if v == ssa.Value(phi) {
					return true // unchanged on this path
				}
				if p2, isPhi := v.(*ssa.Phi); isPhi && p2 != phi && depth < 4 && hdr.Dominates(p2.Block()) {
					for j, e2 := range p2.Edges {
						if !visit(e2, p2.Block().Preds[j], depth+1) {
							return false
						}
					}
					return true
				}
				return changedOK(v) && behindEmit(via)
			}
			if !visit(e, pred, 0) {
				return nil, false
			}
		}
		return entry, entry != nil
	}
	for _, cf := range expandConds(dominatingConds(b)) {
		cond, val := cf.Cond, cf.Val
		if u, isU := cond.(*ssa.UnOp); isU && u.Op == token.NOT {
			cond, val = u.X, !val
		}
		// a boolean flag
		if phi, isPhi := cond.(*ssa.Phi); isPhi {
			entry, ok := carried(phi, func(e ssa.Value) bool { _, isK := constBool(e); return isK })
			if ok {
				if b0, isK := constBool(entry); isK && b0 != val {
					// the branch is taken with the flag unlike its initial value: it was flipped, behind an emission
					flipsOnly := true
					for k, pred := range phi.Block().Preds {
						if phi.Block().Dominates(pred) {
							if kv, isC := constBool(phi.Edges[k]); isC && kv == b0 {
								continue
							}
						}
					}
					if flipsOnly {
						return true, ""
					}
				}
			}
		}
		// a counter compared with zero
		if bo, isB := cond.(*ssa.BinOp); isB {
			var n ssa.Value
			positive := false
			if k, isK := constInt(bo.Y); isK {
				n = bo.X
				positive = (bo.Op == token.GTR && k == 0 && val) || (bo.Op == token.NEQ && k == 0 && val) || (bo.Op == token.GEQ && k == 1 && val) ||
					(bo.Op == token.EQL && k == 0 && !val) || (bo.Op == token.LEQ && k == 0 && !val) || (bo.Op == token.LSS && k == 1 && !val)
			}
			if phi, isPhi := n.(*ssa.Phi); isPhi && positive {
				entry, ok := carried(phi, func(e ssa.Value) bool {
					add, isAdd := e.(*ssa.BinOp)
					if !isAdd || add.Op != token.ADD {
						return false
					}
					k, isK := constInt(add.Y)
					return isK && k >= 1 && (add.X == ssa.Value(phi) || true)
				})
				if k0, isK := constInt(entry); ok && isK && k0 == 0 {
					return true, ""
				}
			}
		}
	}
	return false, "the comma is chosen under a condition that does not say an object has been written (a row index also counts separator rows; a flag must be raised only behind an emission): a comma can precede the first object"
}

// badValueOfFailedBoolAssert: result idx of f is nil on every return except those reached after an assertion to
// bool has failed, where it is the value that was asserted (or a freshly made non-nil interface value).
func badValueOfFailedBoolAssert(f *ssa.Function, idx int) bool {
	if f == nil || f.Blocks == nil || !inModule(f) {
		return false
	}
	pr := gCtx.Idx().proverFor(f)
	some := false
	for _, rc := range returnCases(f) {
		if idx >= len(rc.Vals) {
			return false
		}
		conds := expandConds(dominatingConds(rc.Ret.Block()))
		if rc.Via != nil && rc.Into != nil {
			conds = append(conds, pr.edgeConds(rc.Via, rc.Into)...)
		}
		var failedOn ssa.Value
		for _, cf := range conds {
			if ex2, isEx := cf.Cond.(*ssa.Extract); isEx && ex2.Index == 1 && !cf.Val {
				if ta, isTA := ex2.Tuple.(*ssa.TypeAssert); isTA && ta.CommaOk {
					if b, isB := ta.AssertedType.Underlying().(*types.Basic); isB && b.Kind() == types.Bool {
						failedOn = ta.X
					}
				}
			}
		}
		v := rc.Vals[idx]
		switch {
		case failedOn == nil:
			if !isNil(v) {
				return false
			}
		default:
			if _, isMI := v.(*ssa.MakeInterface); !isMI && v != failedOn {
				return false
			}
			some = true
		}
	}
	return some
}

// c07ItemEncodingError: the value of a field is the JSON encoding of the row's item; the cell's text stands in
// only for an item that DID encode (as an empty object). So wherever the item's own json.Marshal may have
// failed, nothing further is encoded, nothing is written and no success is returned: the only way on is to
// return the error. Decided by walking the paths that leave the Marshal(item) call, in the record emitter and in
// the package helpers it calls.
func c07ItemEncodingError(c *Ctx, emit *ssa.Function) {
	r := c.R
	n := 0
	for _, fn := range pkgReach(emit, 1) {
		wv := writerValues(fn)
		eachInstr(fn, func(in ssa.Instruction) {
			m1, ok := in.(*ssa.Call)
			if !ok || !isFunc(m1.Call.StaticCallee(), "encoding/json", "Marshal") {
				return
			}
			// Marshal of an item: the argument comes from a call of Cell.Item
			fromItem := false
			for _, v := range phiClosure(unwrap(m1.Call.Args[0], true)) {
				if src, isC := v.(*ssa.Call); isC && isCellSource(src.Call.StaticCallee()) && src.Call.StaticCallee().Name() == "Item" {
					fromItem = true
				}
			}
			if !fromItem {
				return
			}
			n++
			var e1 ssa.Value
			for _, rr := range referrersOf(m1) {
				if ex, isEx := rr.(*ssa.Extract); isEx && ex.Index == 1 {
					e1 = ex
				}
			}
			bad, npaths := "", 0
			var badAt token.Pos
			var walk func(b *ssa.BasicBlock, from int, knownNil bool, seen map[*ssa.BasicBlock]bool)
			walk = func(b *ssa.BasicBlock, from int, knownNil bool, seen map[*ssa.BasicBlock]bool) {
				if npaths > 400 || knownNil {
					return // beyond a successful test of the error nothing is owed
				}
				if from == 0 {
					if seen[b] {
						return
					}
					seen[b] = true
					defer delete(seen, b)
				}
				for _, x := range b.Instrs[from:] {
					use := ""
					switch y := x.(type) {
					case *ssa.Call:
						if y != m1 && isFunc(y.Call.StaticCallee(), "encoding/json", "Marshal") {
							use = "something else is encoded in its place"
						}
						for _, a := range y.Call.Args {
							if wv[a] {
								use = "output is written"
							}
						}
						if y.Call.IsInvoke() && wv[y.Call.Value] {
							use = "output is written"
						}
					case *ssa.Return:
						npaths++
						rv := results(y)
						if len(rv) > 0 && !definitelyNonNilErr(rv[len(rv)-1]) && rv[len(rv)-1] != e1 {
							use = "the function returns without that error"
						}
						if use == "" {
							return
						}
					case *ssa.If:
						for k, sb := range b.Succs {
							kn := false
							for _, cf := range expandConds([]condFact{{y.Cond, k == 0, y}}) {
								if e, nn, isT := nilTest(cf.Cond); isT && e1 != nil && e == e1 && ((nn == 0 && !cf.Val) || (nn == 1 && cf.Val)) {
									kn = true
								}
							}
							walk(sb, 0, kn, seen)
						}
						return
					}
					if use != "" {
						if bad == "" {
							bad, badAt = use, x.Pos()
						}
						return
					}
				}
				for _, sb := range b.Succs {
					walk(sb, 0, false, seen)
				}
			}
			if e1 == nil {
				r.Check("R07.4", FuncName(fn), "the error of encoding the item is looked at", m1.Pos(), false, "json.Marshal(item): the error result is dropped")
				return
			}
			walk(m1.Block(), instrIndex(m1)+1, false, map[*ssa.BasicBlock]bool{})
			if badAt == token.NoPos {
				badAt = m1.Pos()
			}
			r.Check("R07.4", FuncName(fn), "an item that cannot be encoded ends the render with that error: nothing is substituted, written or reported as success while the error may be non-nil", badAt, bad == "",
				"on a path where json.Marshal(item) may have failed, "+bad+": the output holds a value that is not the item's encoding (its Go text), and no error is returned")
		})
	}
	r.Floor("R07.4", "encodings of a cell's item", n, 1)
}
