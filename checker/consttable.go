package main

import (
	"fmt"
	"go/ast"
	"go/constant"
	"go/token"
	"go/types"
	"os"

	"golang.org/x/tools/go/ssa"
)

// A package-level table of constants:  var t = [...]struct{a, b string}{{"x","y"}, ...}  (or a slice, or
// elements that are plain strings). The rows are read from the variable's initializer in the syntax tree with the
// type checker's constant values; the table counts as constant only if no function other than the package
// initializer stores into the variable and its address is never taken for anything but element/field reads.

type constTable struct {
	G    *ssa.Global
	Rows [][]string // per element, per field (one column for a table of plain strings)
}

func (c *Ctx) constTableOf(g *ssa.Global) *constTable {
	if g == nil || g.Pkg == nil {
		return nil
	}
	pp := c.Pkgs[g.Pkg.Pkg.Path()]
	if pp == nil {
		return nil
	}
	var lit *ast.CompositeLit
	for _, f := range pp.Syntax {
		for _, d := range f.Decls {
			gd, ok := d.(*ast.GenDecl)
			if !ok || gd.Tok != token.VAR {
				continue
			}
			for _, sp := range gd.Specs {
				vs := sp.(*ast.ValueSpec)
				for i, n := range vs.Names {
					if pp.TypesInfo.Defs[n] == g.Object() && i < len(vs.Values) {
						lit, _ = ast.Unparen(vs.Values[i]).(*ast.CompositeLit)
					}
				}
			}
		}
	}
	if lit == nil {
		return nil
	}
	dbg := os.Getenv("TABDBG") != ""
	if dbg {
		fmt.Println("lit found for", g.Name())
	}
	tv, ok := pp.TypesInfo.Types[lit]
	if !ok {
		return nil
	}
	var elem types.Type
	switch t := tv.Type.Underlying().(type) {
	case *types.Array:
		elem = t.Elem()
	case *types.Slice:
		elem = t.Elem()
	default:
		return nil
	}
	str := func(e ast.Expr) (string, bool) {
		v, ok := pp.TypesInfo.Types[e]
		if !ok || v.Value == nil || v.Value.Kind() != constant.String {
			return "", false
		}
		return constant.StringVal(v.Value), true
	}
	ct := &constTable{G: g}
	st, isStruct := elem.Underlying().(*types.Struct)
	for _, e := range lit.Elts {
		if _, keyed := e.(*ast.KeyValueExpr); keyed {
			return nil // indexed elements: order not positional
		}
		if !isStruct {
			s, ok := str(e)
			if !ok {
				return nil
			}
			ct.Rows = append(ct.Rows, []string{s})
			continue
		}
		el, ok := ast.Unparen(e).(*ast.CompositeLit)
		if !ok {
			return nil
		}
		row := make([]string, st.NumFields())
		for i, fe := range el.Elts {
			if kv, keyed := fe.(*ast.KeyValueExpr); keyed {
				id, ok := kv.Key.(*ast.Ident)
				if !ok {
					return nil
				}
				idx := -1
				for k := 0; k < st.NumFields(); k++ {
					if st.Field(k).Name() == id.Name {
						idx = k
					}
				}
				s, ok := str(kv.Value)
				if idx < 0 || !ok {
					return nil
				}
				row[idx] = s
				continue
			}
			s, ok := str(fe)
			if !ok || i >= len(row) {
				return nil
			}
			row[i] = s
		}
		ct.Rows = append(ct.Rows, row)
	}
	// never written after initialisation, never aliased
	okUse := true
	for _, fn := range c.LibFuncs() {
		if fn.Synthetic != "" && fn.Name() == "init" && fn.Parent() == nil {
			continue // the package initializer builds the value
		}
		eachInstr(fn, func(in ssa.Instruction) {
			for _, op := range in.Operands(nil) {
				if op == nil || *op != ssa.Value(g) {
					continue
				}
				switch x := in.(type) {
				case *ssa.UnOp: // whole-value load
				case *ssa.IndexAddr, *ssa.FieldAddr:
					if writesThrough(x.(ssa.Value), 0) {
						okUse = false
					}
				case *ssa.Slice:
					// a slice of a constant array handed on (append(x, tbl[:]...)): contents may be read only
					if writesThrough(x, 0) {
						okUse = false
					}
				case *ssa.Store:
					if !(fn.Synthetic != "" && fn.Name() == "init") {
						okUse = false
					}
				default:
					okUse = false
				}
				if dbg && !okUse {
					fmt.Println("  use:", fn.Name(), fn.Synthetic, in.String())
				}
			}
		})
	}
	if !okUse {
		if dbg {
			fmt.Println("uses disqualify", g.Name())
		}
		return nil
	}
	return ct
}

// writesThrough: some use of the address v (or of an address derived from it) stores through it or lets it escape.
func writesThrough(v ssa.Value, depth int) bool {
	if depth > 4 || v.Referrers() == nil {
		return depth > 4
	}
	for _, u := range *v.Referrers() {
		switch x := u.(type) {
		case *ssa.UnOp:
		case *ssa.Store:
			if x.Addr == v {
				return true
			}
			return true // the address itself is stored somewhere
		case *ssa.IndexAddr:
			if writesThrough(x, depth+1) {
				return true
			}
		case *ssa.FieldAddr:
			if writesThrough(x, depth+1) {
				return true
			}
		case *ssa.Slice:
			if writesThrough(x, depth+1) {
				return true
			}
		case *ssa.Call:
			// only as the variadic tail of append (read-only)
			if b, ok := x.Call.Value.(*ssa.Builtin); ok && (b.Name() == "append" && len(x.Call.Args) == 2 && x.Call.Args[1] == v || b.Name() == "len") {
				continue
			}
			return true
		case *ssa.DebugRef:
		default:
			return true
		}
	}
	return false
}

// tableElemField: v is the value of field f of "the current element" of a loop that visits every element of a
// constant table in order:   for _, e := range tbl { ... e.f ... }   or   for i := range tbl { ... tbl[i].f ... }.
// Returns the table, the field index (0 for plain-string tables), and the SSA value identifying the element
// (so that two fields can be required to come from the same element).
func (c *Ctx) tableElemField(v ssa.Value) (*constTable, int, ssa.Value) {
	ld, ok := v.(*ssa.UnOp)
	field := 0
	var elem ssa.Value
	switch {
	case ok && ld.Op == token.MUL:
		switch a := ld.X.(type) {
		case *ssa.FieldAddr:
			field = a.Field
			elem = a.X
		case *ssa.IndexAddr:
			elem = a
		default:
			return nil, 0, nil
		}
	default:
		if f, isF := v.(*ssa.Field); isF {
			field, elem = f.Field, f.X
		} else if ix, isI := v.(*ssa.Index); isI {
			elem = ix
		} else {
			return nil, 0, nil
		}
	}
	// elem: &tbl[i], or a local holding a copy of tbl[i] (single store), or the value tbl[i]
	var base, idx ssa.Value
	resolveElem := func(e ssa.Value) bool {
		switch x := e.(type) {
		case *ssa.IndexAddr:
			base, idx = x.X, x.Index
			return true
		case *ssa.Index:
			base, idx = x.X, x.Index
			return true
		case *ssa.UnOp:
			if ia, ok := x.X.(*ssa.IndexAddr); ok && x.Op == token.MUL {
				base, idx = ia.X, ia.Index
				return true
			}
		}
		return false
	}
	if al, isAl := elem.(*ssa.Alloc); isAl {
		var only *ssa.Store
		n := 0
		for _, u := range *al.Referrers() {
			if st, isSt := u.(*ssa.Store); isSt && st.Addr == ssa.Value(al) {
				only = st
				n++
			}
		}
		if n != 1 || !resolveElem(only.Val) {
			return nil, 0, nil
		}
	} else if !resolveElem(elem) {
		return nil, 0, nil
	}
	// base: the global itself, a whole-value load of it, or a slice of it
	var g *ssa.Global
	for i := 0; i < 4 && g == nil; i++ {
		switch x := base.(type) {
		case *ssa.Global:
			g = x
		case *ssa.UnOp:
			base = x.X
		case *ssa.Slice:
			if x.Low != nil || x.High != nil {
				return nil, 0, nil
			}
			base = x.X
		default:
			return nil, 0, nil
		}
	}
	ct := c.constTableOf(g)
	if ct == nil {
		return nil, 0, nil
	}
	// idx visits 0..len-1 in order: the counter of a range loop, or  i := 0; i < N; i++  with N the table's length
	if !fullRangeIndex(idx, int64(len(ct.Rows))) {
		return nil, 0, nil
	}
	return ct, field, idx
}

// fullRangeIndex: idx takes the values 0,1,..,n-1 in order, once each.
func fullRangeIndex(idx ssa.Value, n int64) bool {
	// range loops: t = phi[-1, t+1] #rangeindex; idx = t+1; idx < n
	if bo, ok := idx.(*ssa.BinOp); ok && bo.Op == token.ADD {
		if phi, isPhi := bo.X.(*ssa.Phi); isPhi && phi.Comment == "rangeindex" {
			if k, isK := constInt(bo.Y); isK && k == 1 && len(phi.Edges) == 2 {
				if k0, is0 := constInt(phi.Edges[0]); is0 && k0 == -1 && phi.Edges[1] == ssa.Value(bo) {
					return rangeBound(phi.Block(), bo, n)
				}
			}
		}
		return false
	}
	// i := 0; i < n; i++
	if phi, ok := idx.(*ssa.Phi); ok && len(phi.Edges) == 2 {
		k0, is0 := constInt(phi.Edges[0])
		inc, isInc := phi.Edges[1].(*ssa.BinOp)
		if is0 && k0 == 0 && isInc && inc.Op == token.ADD && inc.X == ssa.Value(phi) {
			if k, isK := constInt(inc.Y); isK && k == 1 {
				return rangeBound(phi.Block(), phi, n)
			}
		}
	}
	return false
}

func rangeBound(hdr *ssa.BasicBlock, v ssa.Value, n int64) bool {
	iff, ok := hdr.Instrs[len(hdr.Instrs)-1].(*ssa.If)
	if !ok {
		return false
	}
	b, ok := iff.Cond.(*ssa.BinOp)
	if !ok || b.Op != token.LSS || b.X != v {
		return false
	}
	if k, isK := constInt(b.Y); isK {
		return k == n
	}
	// len(tbl) of an array folds to a constant; for slices accept len(<load of the table>)
	if call, isCall := b.Y.(*ssa.Call); isCall {
		if bi, isB := call.Call.Value.(*ssa.Builtin); isB && bi.Name() == "len" {
			return globalRoot(call.Call.Args[0]) != nil
		}
	}
	return false
}

// immutableGlobalHeader: the package-level variable g is assigned only by its package's initializer and its
// address is never taken for anything but loading it: every load of g yields the same value (for a slice: the same
// header, hence the same length).
func (c *Ctx) immutableGlobalHeader(g *ssa.Global) bool {
	if c.immGlob == nil {
		c.immGlob = map[*ssa.Global]bool{}
	}
	if v, ok := c.immGlob[g]; ok {
		return v
	}
	ok := inModule2(g)
	if ok {
		for _, fn := range c.LibFuncs() {
			isInit := fn.Synthetic != "" && fn.Name() == "init" && fn.Parent() == nil
			eachInstr(fn, func(in ssa.Instruction) {
				for _, op := range in.Operands(nil) {
					if op == nil || *op != ssa.Value(g) {
						continue
					}
					switch x := in.(type) {
					case *ssa.UnOp:
					case *ssa.Store:
						if x.Addr != ssa.Value(g) || !isInit {
							ok = false
						}
					case *ssa.IndexAddr, *ssa.FieldAddr:
						// arrays/structs: element addresses; fine for the header question only if g is not itself
						// re-assigned, which the Store case covers
						if !isInit {
							if _, isArr := g.Type().(*types.Pointer).Elem().Underlying().(*types.Array); !isArr {
								ok = false
							}
						}
					default:
						ok = false
					}
				}
			})
		}
	}
	c.immGlob[g] = ok
	return ok
}

func inModule2(g *ssa.Global) bool {
	return g.Pkg != nil && (g.Pkg.Pkg.Path() == modPath || len(g.Pkg.Pkg.Path()) > len(modPath) && g.Pkg.Pkg.Path()[:len(modPath)+1] == modPath+"/")
}

// ---- a local table literal driving a loop ------------------------------------------------------------------

// localTableColumn: v is field f of "the current element" of a loop over a LOCAL array/slice literal
// (for _, e := range [...]T{{..},{..}} { .. e.f .. }). Returns, for every row of the literal, the value stored in
// that field (constants, functions, loads of package variables - whatever the literal holds), and the SSA value
// identifying the element, or ok=false.
func localTableColumn(v ssa.Value) ([]ssa.Value, ssa.Value, bool) {
	fieldIdx := -1
	cur := v
	var root *ssa.Alloc
	var elem ssa.Value
	for i := 0; i < 10 && root == nil; i++ {
		switch y := cur.(type) {
		case *ssa.Field:
			if fieldIdx < 0 {
				fieldIdx = y.Field
				elem = y.X
			}
			cur = y.X
		case *ssa.Index:
			cur = y.X
		case *ssa.UnOp:
			if y.Op != token.MUL {
				return nil, nil, false
			}
			cur = y.X
		case *ssa.FieldAddr:
			if fieldIdx < 0 {
				fieldIdx = y.Field
				elem = y.X
			}
			cur = y.X
		case *ssa.IndexAddr:
			cur = y.X
		case *ssa.Slice:
			cur = y.X
		case *ssa.Alloc:
			var only *ssa.Store
			n := 0
			for _, rr := range referrersOf(y) {
				if st, ok := rr.(*ssa.Store); ok && st.Addr == ssa.Value(y) {
					only = st
					n++
				}
			}
			if n == 1 {
				cur = only.Val
			} else {
				root = y
			}
		default:
			return nil, nil, false
		}
	}
	if root == nil || fieldIdx < 0 {
		return nil, nil, false
	}
	at, ok := root.Type().(*types.Pointer).Elem().Underlying().(*types.Array)
	if !ok {
		return nil, nil, false
	}
	rows := make([]ssa.Value, at.Len())
	okAll := true
	for _, rr := range referrersOf(root) {
		ia, isIA := rr.(*ssa.IndexAddr)
		if !isIA {
			continue
		}
		k, isK := constInt(ia.Index)
		if !isK || k < 0 || k >= at.Len() {
			okAll = false
			continue
		}
		for _, r2 := range referrersOf(ia) {
			fa, isFA := r2.(*ssa.FieldAddr)
			if !isFA || fa.Field != fieldIdx {
				continue
			}
			for _, r3 := range referrersOf(fa) {
				if st, isSt := r3.(*ssa.Store); isSt && st.Addr == ssa.Value(fa) {
					rows[k] = st.Val
				}
			}
		}
	}
	for _, rv := range rows {
		if rv == nil {
			okAll = false
		}
	}
	if !okAll {
		return nil, nil, false
	}
	return rows, elem, true
}

// A decoration registered by a package initializer: its name and the function that builds it.
type initRegistration struct {
	Name    string
	Builder *ssa.Function
	Value   ssa.Value // the registered value when it is not a plain call of Builder (nil otherwise)
	At      ssa.Instruction
	Fn      *ssa.Function
}

// decorationInitRegistrations: every RegisterDecorationName call made by an initializer of the decoration package,
// expanded over the rows of a local table when the name and the builder come from one. unresolved lists calls
// whose name could not be determined.
func decorationInitRegistrations(c *Ctx) (regs []initRegistration, unresolved []ssa.Instruction) {
	regFn := c.Func("texttable/decoration", "RegisterDecorationName")
	if regFn == nil {
		return nil, nil
	}
	for _, fn := range c.ModFuncs("texttable/decoration") {
		if !isPkgInit(fn) {
			continue
		}
		fn := fn
		eachInstr(fn, func(in ssa.Instruction) {
			if staticCallee(in) != regFn {
				return
			}
			cc := callCommon(in)
			if s, ok := constString(cc.Args[0]); ok {
				rg := initRegistration{Name: s, At: in, Fn: fn, Value: cc.Args[1]}
				if call, isCall := cc.Args[1].(*ssa.Call); isCall && call.Call.StaticCallee() != nil {
					rg.Builder = call.Call.StaticCallee()
				}
				regs = append(regs, rg)
				return
			}
			names, e1, ok1 := localTableColumn(cc.Args[0])
			if !ok1 {
				unresolved = append(unresolved, in)
				return
			}
			// the value: a call of the function held in another field of the same element
			var builders []ssa.Value
			if call, isCall := cc.Args[1].(*ssa.Call); isCall && call.Call.StaticCallee() == nil {
				if bs, e2, ok2 := localTableColumn(call.Call.Value); ok2 && sameElem(e1, e2) {
					builders = bs
				}
			}
			for k, nv := range names {
				s, isS := constString(nv)
				if !isS {
					unresolved = append(unresolved, in)
					return
				}
				rg := initRegistration{Name: s, At: in, Fn: fn}
				if builders != nil {
					switch b := builders[k].(type) {
					case *ssa.Function:
						rg.Builder = b
					case *ssa.MakeClosure:
						rg.Builder, _ = b.Fn.(*ssa.Function)
					}
				}
				regs = append(regs, rg)
			}
		})
	}
	return regs, unresolved
}

// sameElem: two element designators refer to the same loop element (the same local copy, or loads of it).
func sameElem(a, b ssa.Value) bool {
	root := func(v ssa.Value) ssa.Value {
		for i := 0; i < 4; i++ {
			switch y := v.(type) {
			case *ssa.UnOp:
				v = y.X
			case *ssa.Field:
				v = y.X
			case *ssa.FieldAddr:
				v = y.X
			default:
				return v
			}
		}
		return v
	}
	return root(a) == root(b)
}
