package main

import (
	"fmt"
	"go/token"
	"go/types"
	"strings"

	"golang.org/x/tools/go/ssa"
)

// Content fidelity: the text written for a cell is the renderer's quoter/escaper applied to the cell's own text,
// joined to other pieces by concatenation only. Anything else that takes cell-derived text and returns text
// (trimming, case mapping, truncation, formatting) changes what the reader gets back, and is reported at the call
// that does it. This is the counterpart of the taint rule: taint asks "does it pass the escaper", fidelity asks
// "does anything but the escaper touch it".

type fidRes struct {
	ok   bool
	cell bool // the value depends on cell text
	why  string
	pos  token.Pos
}

type fidelity struct {
	c     *Ctx
	sanit map[*ssa.Function]string
	memo  map[string]*fidRes
}

func (f *fidelity) join(a, b fidRes) fidRes {
	out := fidRes{ok: a.ok && b.ok, cell: a.cell || b.cell}
	if !a.ok {
		out.why, out.pos = a.why, a.pos
	} else if !b.ok {
		out.why, out.pos = b.why, b.pos
	}
	return out
}

func isTextType(t types.Type) bool {
	switch u := t.Underlying().(type) {
	case *types.Basic:
		return u.Kind() == types.String || u.Kind() == types.UntypedString
	case *types.Slice:
		if b, ok := u.Elem().Underlying().(*types.Basic); ok && (b.Kind() == types.Byte || b.Kind() == types.String) {
			return true
		}
		if _, ok := u.Elem().Underlying().(*types.Interface); ok {
			return true // the packed operands of a variadic Fprint
		}
	case *types.Interface:
		return true
	}
	return false
}

func (f *fidelity) eval(fn *ssa.Function, v ssa.Value, env map[*ssa.Parameter]bool, depth int) fidRes {
	if v == nil || depth > 24 {
		return fidRes{ok: true, cell: true}
	}
	key := fmt.Sprintf("%p|%v", v, env)
	if r, ok := f.memo[key]; ok {
		if r == nil {
			return fidRes{ok: true} // cycle: least fixpoint
		}
		return *r
	}
	f.memo[key] = nil
	r := f.evalRaw(fn, v, env, depth)
	f.memo[key] = &r
	return r
}

func (f *fidelity) evalRaw(fn *ssa.Function, v ssa.Value, env map[*ssa.Parameter]bool, depth int) fidRes {
	switch x := v.(type) {
	case *ssa.Const, *ssa.Global, *ssa.Function, *ssa.Builtin:
		return fidRes{ok: true}
	case *ssa.Parameter:
		if cell, has := env[x]; has {
			return fidRes{ok: true, cell: cell}
		}
		return fidRes{ok: true, cell: isTextType(x.Type())}
	case *ssa.FreeVar:
		return fidRes{ok: true, cell: isTextType(x.Type())}
	case *ssa.Phi:
		out := fidRes{ok: true}
		for _, e := range x.Edges {
			out = f.join(out, f.eval(fn, e, env, depth+1))
		}
		return out
	case *ssa.BinOp:
		if x.Op == token.ADD && isTextType(x.Type()) {
			return f.join(f.eval(fn, x.X, env, depth+1), f.eval(fn, x.Y, env, depth+1))
		}
		return fidRes{ok: true}
	case *ssa.Convert:
		return f.eval(fn, x.X, env, depth+1)
	case *ssa.ChangeType:
		return f.eval(fn, x.X, env, depth+1)
	case *ssa.ChangeInterface:
		return f.eval(fn, x.X, env, depth+1)
	case *ssa.MakeInterface:
		return f.eval(fn, x.X, env, depth+1)
	case *ssa.Slice:
		r := f.eval(fn, x.X, env, depth+1)
		if _, isStr := x.X.Type().Underlying().(*types.Basic); isStr && r.cell && (x.Low != nil || x.High != nil) {
			return fidRes{ok: false, cell: true, why: "cell text is cut (" + x.String() + ")", pos: x.Pos()}
		}
		// a slice of a local array/buffer: its contents
		if al, isAl := x.X.(*ssa.Alloc); isAl {
			return f.stored(fn, al, env, depth)
		}
		return r
	case *ssa.Alloc:
		return f.stored(fn, x, env, depth)
	case *ssa.UnOp:
		if x.Op != token.MUL {
			return fidRes{ok: true}
		}
		switch a := x.X.(type) {
		case *ssa.FieldAddr:
			// configuration fields of the renderer are not cell text; fields of the model's records are
			st := a.X.Type().Underlying().(*types.Pointer).Elem()
			if n := namedOf(st); n != nil && (n.Obj().Name() == "Cell" || n.Obj().Name() == "WidthString") {
				return fidRes{ok: true, cell: true}
			}
			return fidRes{ok: true}
		case *ssa.IndexAddr:
			if root, _ := addrPath(a); root != nil {
				if al, isAl := root.(*ssa.Alloc); isAl {
					return f.stored(fn, al, env, depth)
				}
				if ms, isMS := root.(*ssa.MakeSlice); isMS {
					return f.stored(fn, ms, env, depth)
				}
			}
			r := f.eval(fn, a.X, env, depth+1)
			return fidRes{ok: r.ok, cell: r.cell, why: r.why, pos: r.pos}
		case *ssa.Alloc:
			return f.stored(fn, a, env, depth)
		}
		return fidRes{ok: true, cell: isTextType(x.Type())}
	case *ssa.Extract:
		return f.eval(fn, x.Tuple, env, depth+1)
	case *ssa.TypeAssert:
		return f.eval(fn, x.X, env, depth+1)
	case *ssa.Call:
		return f.call(fn, x, env, depth)
	}
	return fidRes{ok: true, cell: isTextType(v.Type())}
}

// stored: what has been put into a local buffer/array/slice.
func (f *fidelity) stored(fn *ssa.Function, root ssa.Value, env map[*ssa.Parameter]bool, depth int) fidRes {
	out := fidRes{ok: true}
	var visit func(v ssa.Value, d int)
	visit = func(v ssa.Value, d int) {
		if d > 4 {
			return
		}
		for _, rr := range referrersOf(v) {
			switch y := rr.(type) {
			case *ssa.IndexAddr:
				visit(y, d+1)
			case *ssa.Slice:
				visit(y, d+1)
			case *ssa.Store:
				if y.Addr == v {
					out = f.join(out, f.eval(fn, y.Val, env, depth+1))
				}
			}
		}
	}
	visit(root, 0)
	return out
}

func (f *fidelity) call(fn *ssa.Function, call *ssa.Call, env map[*ssa.Parameter]bool, depth int) fidRes {
	cc := &call.Call
	callee := cc.StaticCallee()
	if isCellSource(callee) {
		return fidRes{ok: true, cell: true}
	}
	if b, isB := cc.Value.(*ssa.Builtin); isB {
		if b.Name() == "append" {
			out := f.eval(fn, cc.Args[0], env, depth+1)
			if _, elems, ok := appendedElems(call); ok && elems != nil {
				for _, e := range elems {
					out = f.join(out, f.eval(fn, e, env, depth+1))
				}
			} else if len(cc.Args) == 2 {
				out = f.join(out, f.eval(fn, cc.Args[1], env, depth+1))
			}
			return out
		}
		return fidRes{ok: true}
	}
	var args []fidRes
	anyCell := false
	bad := fidRes{ok: true}
	for _, a := range cc.Args {
		if !isTextType(a.Type()) {
			args = append(args, fidRes{ok: true})
			continue
		}
		r := f.eval(fn, a, env, depth+1)
		args = append(args, r)
		if r.cell {
			anyCell = true
		}
		if !r.ok && bad.ok {
			bad = r
		}
	}
	if !bad.ok {
		return bad
	}
	if callee != nil {
		if _, isS := f.sanit[callee]; isS {
			return fidRes{ok: true, cell: anyCell}
		}
		switch funcPkgPath(callee) + "." + callee.Name() {
		case "strings.Repeat":
			return args[0]
		case "strings.Join":
			return f.join(args[0], args[1])
		case "fmt.Sprint":
			return fidRes{ok: true, cell: anyCell}
		case "encoding/json.Marshal":
			return fidRes{ok: true, cell: anyCell}
		}
		if inModule(callee) && callee.Blocks != nil && len(cc.Args) == len(callee.Params) {
			if !isTextType(call.Type()) && !hasTextResult(callee) {
				return fidRes{ok: true}
			}
			nenv := map[*ssa.Parameter]bool{}
			for k, p := range callee.Params {
				nenv[p] = args[k].cell
			}
			out := fidRes{ok: true}
			for _, ret := range returnsOf(callee) {
				for _, rv := range results(ret) {
					if isTextType(rv.Type()) {
						out = f.join(out, f.eval(callee, rv, nenv, depth+1))
					}
				}
			}
			return out
		}
	}
	if !isTextType(call.Type()) {
		if tup, isT := call.Type().(*types.Tuple); !isT || tup.Len() == 0 || !isTextType(tup.At(0).Type()) {
			return fidRes{ok: true}
		}
	}
	if anyCell {
		return fidRes{ok: false, cell: true, why: "cell text is passed through " + calleeDesc(cc) + ", which is neither the renderer's quoter/escaper nor a concatenation", pos: call.Pos()}
	}
	return fidRes{ok: true}
}

func hasTextResult(f *ssa.Function) bool {
	res := f.Signature.Results()
	for i := 0; i < res.Len(); i++ {
		if isTextType(res.At(i).Type()) {
			return true
		}
	}
	return false
}

// checkFidelity evaluates every data operand of every write of the renderer package rel.
func checkFidelity(c *Ctx, rule, rel string, sanit map[*ssa.Function]string) {
	r := c.R
	f := &fidelity{c: c, sanit: sanit, memo: map[string]*fidRes{}}
	n := 0
	for _, fn := range c.ModFuncs(rel) {
		wv := writerValues(fn)
		if len(wv) == 0 {
			continue
		}
		for _, site := range writeSitesOf(fn, wv) {
			callee := site.Call.Common().StaticCallee()
			if callee != nil && inModule(callee) {
				continue // a helper that takes the writer: its own writes are examined in it
			}
			for i, a := range sinkArgs(site, wv) {
				if !isTextType(a.Type()) {
					continue
				}
				n++
				res := f.eval(fn, a, nil, 0)
				ob := r.Check(rule, FuncName(fn), fmt.Sprintf("%s operand %d: cell text arrives through the quoter/escaper and concatenation only", site.Desc, i+1), site.Call.Pos(), res.ok, res.why)
				if !res.ok && res.pos.IsValid() {
					ob.Pos = c.Pos(res.pos)
				}
			}
		}
	}
	r.Floor(rule, "written operands examined for fidelity", n, 2)
	_ = strings.TrimSpace
}
