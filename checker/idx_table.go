package main

import (
	"fmt"
	"go/constant"
	"go/token"
	"go/types"
	"sort"
	"strings"

	"golang.org/x/tools/go/ssa"
)

// Tabled obligations: panics that are outside C09's quantifier (ill-typed values under the library's own
// property keys, misuse of internal helpers, incomplete custom decorations) or that need a module-level
// argument.  Each entry has a machine-checked premise; when the premise stops holding the entry no longer
// applies and the obligation is reported.
type tableEntry struct {
	ID      string
	Match   func(ix *idxEngine, o *idxOb) bool
	Premise func(ix *idxEngine, o *idxOb) (bool, string)
	Reason  string
}

func (ix *idxEngine) table() []tableEntry {
	c := ix.c
	alignPkg := pkgPath("properties/align")
	return []tableEntry{
		{
			ID: "T1 alignment property is an align.Alignment",
			Match: func(ix *idxEngine, o *idxOb) bool {
				ta, ok := o.In.(*ssa.TypeAssert)
				return ok && o.Kind == "TA" && isNamed(ta.AssertedType, alignPkg, "Alignment")
			},
			Premise: func(ix *idxEngine, o *idxOb) (bool, string) {
				ta := o.In.(*ssa.TypeAssert)
				key := c.Global("properties/align", "PropertyType")
				for _, v := range phiClosure(ta.X) {
					call, ok := v.(*ssa.Call)
					if !ok {
						return false, "asserted value is not the result of GetProperty: " + v.String()
					}
					name := ""
					if call.Call.IsInvoke() {
						name = call.Call.Method.Name()
					} else if f := call.Call.StaticCallee(); f != nil {
						name = f.Name()
					}
					if name != "GetProperty" {
						return false, "asserted value comes from " + name
					}
					k := call.Call.Args[len(call.Call.Args)-1]
					if g := loadedGlobal(unwrap(k, true)); g == nil || g != key {
						return false, "GetProperty key is not align.PropertyType"
					}
				}
				return true, "the asserted value is what GetProperty(align.PropertyType) returned and was tested non-nil"
			},
			Reason: "C09 quantifies over tables of text-like items, not over ill-typed values stored under the library's own property keys (Overview.md)",
		},
		{
			ID: "T2 unhandled alignment",
			Match: func(ix *idxEngine, o *idxOb) bool {
				return o.Kind == "PANIC" && strings.Contains(o.What, "unhandled alignment")
			},
			Premise: func(ix *idxEngine, o *idxOb) (bool, string) {
				// reached only when the value differs from each of the three exported alignments
				tp := c.TPkg("properties/align")
				if tp == nil {
					return false, "no align package"
				}
				want := map[string]bool{"Left": false, "Right": false, "Center": false}
				for _, cf := range dominatingConds(o.In.Block()) {
					b, ok := cf.Cond.(*ssa.BinOp)
					if !ok || !(b.Op == token.EQL && !cf.Val || b.Op == token.NEQ && cf.Val) {
						continue
					}
					for _, side := range []ssa.Value{b.X, b.Y} {
						if g := loadedGlobal(unwrap(side, true)); g != nil && g.Pkg.Pkg.Path() == alignPkg {
							want[g.Name()] = true
						}
					}
				}
				for n, ok := range want {
					if !ok {
						return false, "the panic is not confined to values other than align." + n
					}
				}
				// users cannot create other Alignment values: the interface has an unexported method
				al, _ := tp.Scope().Lookup("Alignment").(*types.TypeName)
				if al == nil {
					return false, "no Alignment type"
				}
				it, ok := al.Type().Underlying().(*types.Interface)
				if !ok || it.NumMethods() == 0 || it.Method(0).Exported() {
					return false, "align.Alignment can be implemented outside its package"
				}
				return true, "default arm after comparisons with align.Left, Right and Center; Alignment is sealed by an unexported method"
			},
			Reason: "only align.TestingInvalidAlignment(), documented as existing to exercise this panic, can reach it",
		},
		{
			ID: "T3 callback time constants",
			Match: func(ix *idxEngine, o *idxOb) bool {
				return o.Kind == "PANIC" && isAnchorFn(o.Fn, "", "", "invokePropertyCallbacks")
			},
			Premise: func(ix *idxEngine, o *idxOb) (bool, string) {
				// every value of an integer parameter that decides whether the panic is reached is a constant at
				// every call site (following parameters that merely forward it, depth <= 3), and executing the
				// function symbolically with each of those constants never reaches the panic
				if o.Fn.Object() != nil && o.Fn.Object().Exported() {
					return false, "function is exported: callers are not enumerable"
				}
				tried := 0
				for idx, par := range o.Fn.Params {
					if !isIntType(par.Type()) {
						continue
					}
					ks, all := ix.constActuals(o.Fn, idx, 0)
					if !all || len(ks) == 0 {
						continue
					}
					tried++
					reached := false
					for k := range ks {
						for _, sp := range symExec(o.Fn, map[ssa.Value]absVal{par: {kind: "int", k: k}}, func(in ssa.Instruction) bool { _, isP := in.(*ssa.Panic); return isP }) {
							if sp.panicked {
								for _, t := range sp.trace {
									if t == o.In {
										reached = true
									}
								}
							}
						}
					}
					if !reached {
						return true, fmt.Sprintf("parameter %s only ever receives the constants %v (call sites enumerated through forwarding helpers); none of them reaches the panic", par.Name(), sortedKeys(ks))
					}
				}
				if tried == 0 {
					return false, "no integer parameter receives only constants at every call site"
				}
				return false, "a constant passed at some call site reaches the panic"
			},
			Reason: "unreachable: internal function, every caller passes a handled constant",
		},
		{
			ID: "T4 property key misuse",
			Match: func(ix *idxEngine, o *idxOb) bool {
				return o.Kind == "PANIC" && isAnchorFn(o.Fn, "", "", "withValue")
			},
			Premise: func(ix *idxEngine, o *idxOb) (bool, string) {
				// every key the module itself passes to SetProperty is a non-nil package-level pointer (comparable)
				n := 0
				for _, fn := range c.LibFuncs() {
					bad := ""
					eachInstr(fn, func(in ssa.Instruction) {
						cc := callCommon(in)
						if cc == nil {
							return
						}
						name := ""
						if cc.IsInvoke() {
							name = cc.Method.Name()
						} else if f := cc.StaticCallee(); f != nil {
							name = f.Name()
						}
						if name != "SetProperty" || len(cc.Args) < 2 {
							return
						}
						if fn.Name() == "SetProperty" {
							return // the promoted wrappers forward their own parameters
						}
						key := cc.Args[len(cc.Args)-2]
						gs, okG := keyGlobalsOf(unwrap(key, true))
						if !okG {
							bad = "SetProperty key in " + FuncName(fn) + " is not a package-level key variable"
							return
						}
						for _, g := range gs {
							if g == nil {
								bad = "SetProperty key in " + FuncName(fn) + " is a literal, not a package-level key variable"
								continue
							}
							if _, isPtr := g.Type().(*types.Pointer).Elem().(*types.Pointer); !isPtr {
								bad = "key variable " + g.Name() + " is not a pointer"
							}
						}
						n++
					})
					if bad != "" {
						return false, bad
					}
				}
				if n == 0 {
					return false, "no SetProperty call in the module"
				}
				return true, fmt.Sprintf("the %d SetProperty calls made by the renderers use package-level pointer keys", n)
			},
			Reason: "a nil or non-comparable property key is misuse of the property API by the caller; C09 is about tables of items and their rendering, and no renderer passes such a key",
		},
		{
			ID: "T5 decoration field names",
			Match: func(ix *idxEngine, o *idxOb) bool {
				return o.Kind == "PANIC" && isAnchorFn(o.Fn, "texttable/decoration", "", "decorateDefaultTo")
			},
			Premise: func(ix *idxEngine, o *idxOb) (bool, string) {
				dec := c.Named("texttable/decoration", "Decoration")
				if dec == nil {
					return false, "no Decoration type"
				}
				st := dec.Underlying().(*types.Struct)
				strFields := map[string]bool{}
				for i := 0; i < st.NumFields(); i++ {
					if isStringType(st.Field(i).Type()) {
						strFields[st.Field(i).Name()] = true
					}
				}
				// param 0 is *Decoration
				if len(o.Fn.Params) < 3 || !types.Identical(o.Fn.Params[0].Type(), types.NewPointer(dec)) {
					return false, "first parameter is not *Decoration"
				}
				sites := ix.callSitesOf(o.Fn)
				if len(sites) == 0 {
					return false, "no call sites"
				}
				for _, s := range sites {
					pairs, okP, whyP := ix.defaultPairsAt(s.Call, o.Fn)
					if !okP {
						return false, fmt.Sprintf("call at %s: %s", c.Pos(s.Call.Pos()), whyP)
					}
					for _, pr := range pairs {
						for _, name := range pr {
							if !strFields[name] {
								return false, fmt.Sprintf("call at %s passes %q, which is not a string field of Decoration", c.Pos(s.Call.Pos()), name)
							}
						}
					}
					if _, isNilConst := s.Call.Common().Args[0].(*ssa.Const); isNilConst {
						return false, "nil decoration passed"
					}
				}
				return true, fmt.Sprintf("all %d call sites pass constant names of string fields of Decoration and a *Decoration", len(sites))
			},
			Reason: "unreachable: the reflection helper is internal and is only called with names of existing fields",
		},
		{
			ID: "T5b reflection sanity checks of the defaults machinery",
			Match: func(ix *idxEngine, o *idxOb) bool {
				if o.Kind != "PANIC" || funcPkgPath(o.Fn) != pkgPath("texttable/decoration") {
					return false
				}
				re := ix.populateReflection()
				return re != nil && re.visited[o.Fn]
			},
			Premise: func(ix *idxEngine, o *idxOb) (bool, string) {
				re := ix.populateReflection()
				if re == nil {
					return false, "Populate's reflection could not be evaluated"
				}
				okP, seen := re.panicOK[o.In]
				if !seen {
					return false, "this panic is not behind a sanity check of a reflect value that Populate's evaluation reached"
				}
				if !okP {
					return false, "the check can fail for the values Populate passes (a name that is not a string field of Decoration, or a value of another kind)"
				}
				return true, "in every context Populate reaches it in, the reflect value has the kind the check asks for (pointer to Decoration, its struct, an existing string field)"
			},
			Reason: "unreachable: the helpers are internal and only ever handed a non-nil *Decoration and names of existing string fields",
		},
		{
			ID: "T6 divider bookkeeping",
			Match: func(ix *idxEngine, o *idxOb) bool {
				// the last-element bookkeeping of the content-line builder: an index or re-slice of a []string at
				// len-1 in the emitter method that assembles slots and dividers
				if o.Kind != "IDX" && o.Kind != "SLC" {
					return false
				}
				inBuilder := isAnchorFn(o.Fn, "texttable/decoration", "emitter", "commonRenderedLine")
				if !inBuilder {
					// or in a helper of the same package that the builder hands its field list to
					if em := c.Named("texttable/decoration", "emitter"); em != nil {
						if crl := c.MethodOpt(em, false, "commonRenderedLine"); crl != nil {
							for _, h := range pkgReach(crl, 1)[1:] {
								if h == o.Fn {
									inBuilder = true
								}
							}
						}
					}
				}
				if !inBuilder {
					return false
				}
				var sl ssa.Value
				switch x := o.In.(type) {
				case *ssa.IndexAddr:
					sl = x.X
				case *ssa.Slice:
					sl = x.X
				}
				if sl == nil {
					return false
				}
				st, isSl := sl.Type().Underlying().(*types.Slice)
				return isSl && isStringType(st.Elem())
			},
			Premise: func(ix *idxEngine, o *idxOb) (bool, string) {
				return ix.dividerPremise(o)
			},
			Reason: "needs a decoration that draws an inner or right divider but no left one: impossible for a complete decoration (every glyph non-empty after Populate) and for the boxless one (all empty); incomplete custom decorations are outside C03/C09's quantifier",
		},
		{
			ID: "T7 column widths are non-negative",
			Match: func(ix *idxEngine, o *idxOb) bool {
				return o.Kind == "NEG" && isAnchorFn(o.Fn, "texttable/decoration", "emitter", "commonTemplateLine") && strings.Contains(o.What, anchorFieldName("texttable/decoration", "emitter", "colWidths"))
			},
			Premise: func(ix *idxEngine, o *idxOb) (bool, string) {
				return ix.colWidthsPremise()
			},
			Reason: "the widths handed to the emitter are maxima of measured cell widths, each >= 0",
		},
	}
}

// dividerPremise: DividerSets take Left and Right from the same decoration field, Populate fills every
// field the dividers read, and every registered built-in is populated or boxless.
func (ix *idxEngine) dividerPremise(o *idxOb) (bool, string) {
	c := ix.c
	ds := c.Named("texttable/decoration", "DividerSet")
	dec := c.Named("texttable/decoration", "Decoration")
	if ds == nil || dec == nil {
		return false, "types missing"
	}
	left, right := c.Field(ds, "Left"), c.Field(ds, "Right")
	read := map[string]bool{}
	nlit := 0
	for _, fn := range c.ModFuncs("texttable/decoration") {
		// per function: stores to Left / Right of a fresh DividerSet
		var lv, rv *types.Var
		cnt := 0
		eachInstr(fn, func(in ssa.Instruction) {
			st, ok := in.(*ssa.Store)
			if !ok {
				return
			}
			f, _ := storeField(st.Addr)
			if f == nil || c.ownerOf(f) == "?."+f.Name() || !strings.HasPrefix(c.ownerOf(f), "DividerSet.") {
				return
			}
			src, _ := loadedField(st.Val)
			if src != nil {
				read[src.Name()] = true
			}
			cnt++
			if f == left {
				lv = src
			}
			if f == right {
				rv = src
			}
		})
		if cnt > 0 {
			nlit++
			if lv == nil || rv == nil || lv != rv {
				return false, FuncName(fn) + " builds a DividerSet whose Left and Right come from different decoration fields"
			}
		}
	}
	if nlit < 2 {
		return false, "fewer than two DividerSet constructors found"
	}
	// the construct guarded by Right != "" needs only Left == Right; the one guarded by Right == "" && Inner != ""
	// additionally needs completeness
	okp, why := ix.populateComplete(read)
	if !okp {
		return false, why
	}
	return true, fmt.Sprintf("%d DividerSet constructors use one field for Left and Right; Populate guarantees %d divider fields non-empty; built-ins are populated or boxless", nlit, len(read))
}

// populateComplete: every field in `need` is one of Populate's non-empty bases or a defaulted target, and
// every init-registered decoration is built via Populate or sets isBoxless.
func (ix *idxEngine) populateComplete(need map[string]bool) (bool, string) {
	c := ix.c
	dec := c.Named("texttable/decoration", "Decoration")
	pop := c.Method(dec, true, "Populate")
	def := c.FuncOpt("texttable/decoration", "decorateDefaultTo") // the reflection helper, when Populate uses one
	if pop == nil || dec == nil {
		return false, "Populate missing"
	}
	filled := map[string]bool{}
	evs, okE, whyE := ix.populateFillEvents(pop, dec, def)
	if !okE {
		return false, whyE
	}
	for _, ev := range evs {
		switch {
		case ev.From == "":
			filled[ev.To] = true
		case ev.From == "?":
			filled[ev.To] = false
		case filled[ev.From]:
			filled[ev.To] = true
		default:
			// filled from something not (yet) guaranteed: the target keeps whatever guarantee it had
			if need[ev.To] && !filled[ev.To] {
				return false, "default for " + ev.To + " is taken from " + ev.From + " which is not yet guaranteed non-empty"
			}
		}
	}
	for n := range need {
		if !filled[n] {
			return false, "divider field " + n + " is not guaranteed non-empty by Populate"
		}
	}
	// built-ins
	isBoxless := c.Field(dec, "isBoxless")
	regs, unresolved := decorationInitRegistrations(c)
	if len(unresolved) > 0 {
		return false, "an init-time registration could not be resolved"
	}
	for _, rg := range regs {
		if rg.Builder == nil {
			return false, "registered value is not built by a function"
		}
		if !ix.buildsComplete(rg.Builder, pop, isBoxless, 0) {
			return false, FuncName(rg.Builder) + " neither calls Populate nor sets isBoxless"
		}
	}
	return true, ""
}

func (ix *idxEngine) buildsComplete(f, pop *ssa.Function, isBoxless *types.Var, depth int) bool {
	if depth > 3 {
		return false
	}
	ok := false
	eachInstr(f, func(in ssa.Instruction) {
		if callee := staticCallee(in); callee != nil {
			if callee == pop {
				ok = true
			} else if inModule(callee) && callee.Signature.Results().Len() == 1 && ix.buildsComplete(callee, pop, isBoxless, depth+1) {
				ok = true
			}
		}
		if st, is := in.(*ssa.Store); is {
			if fl, _ := storeField(st.Addr); fl == isBoxless {
				if b, isC := constBool(st.Val); isC && b {
					ok = true
				}
			}
		}
	})
	return ok
}

// colWidthsPremise: emitter.colWidths has one writer (ForColumnWidths, storing its parameter); every module
// caller passes a slice it made itself and into which it only stores values >= 0.
func (ix *idxEngine) colWidthsPremise() (bool, string) {
	c := ix.c
	em := c.Named("texttable/decoration", "emitter")
	cw := c.Field(em, "colWidths")
	dec := c.Named("texttable/decoration", "Decoration")
	fcw := c.Method(dec, true, "ForColumnWidths")
	if cw == nil || fcw == nil {
		return false, "anchors missing"
	}
	for _, fs := range c.StoresTo(cw) {
		if fs.Fn != fcw || !fs.Fresh {
			return false, "emitter.colWidths is written in " + FuncName(fs.Fn)
		}
		if par, ok := fs.St.Val.(*ssa.Parameter); !ok || par != fcw.Params[1] {
			return false, "ForColumnWidths stores something other than its parameter"
		}
	}
	sites := ix.callSitesOf(fcw)
	if len(sites) == 0 {
		return false, "no caller of ForColumnWidths"
	}
	for _, s := range sites {
		p := ix.proverFor(s.Fn)
		arg := s.Call.Common().Args[1]
		lb, ok := p.elemLowerBound(arg)
		if !ok || lb < 0 {
			return false, "caller " + FuncName(s.Fn) + " passes a slice whose elements are not provably >= 0"
		}
	}
	return true, fmt.Sprintf("single writer ForColumnWidths; %d caller(s) pass a locally made slice with every element store >= 0", len(sites))
}

// applyTable consults the table for the obligations still open.
func (ix *idxEngine) applyTable() {
	tbl := ix.table()
	for _, o := range ix.Obls {
		if o.OK {
			continue
		}
		for _, e := range tbl {
			if !e.Match(ix, o) {
				continue
			}
			ok, why := e.Premise(ix, o)
			if ok {
				o.OK = true
				o.How = "tabled [" + e.ID + "]: " + e.Reason + "; premise checked: " + why
			} else {
				o.How = "tabled entry [" + e.ID + "] does not apply: premise failed: " + why
			}
			break
		}
	}
}

var _ = constant.MakeInt64

// constActuals: the constants passed for parameter idx of fn at every module call site, following callers
// that forward one of their own parameters; all=false if some call site passes anything else.
func (ix *idxEngine) constActuals(fn *ssa.Function, idx int, depth int) (map[int64]bool, bool) {
	out := map[int64]bool{}
	if depth > 3 {
		return out, false
	}
	if fn.Object() != nil && fn.Object().Exported() && ix.isEntry(fn) {
		return out, false
	}
	sites := ix.callSitesOf(fn)
	if len(sites) == 0 {
		return out, false
	}
	for _, s := range sites {
		args := s.Call.Common().Args
		if idx >= len(args) {
			return out, false
		}
		a := args[idx]
		if k, ok := constInt(a); ok {
			out[k] = true
			continue
		}
		if par, ok := a.(*ssa.Parameter); ok {
			pi := -1
			for i, q := range s.Fn.Params {
				if q == par {
					pi = i
				}
			}
			if pi >= 0 {
				ks, all := ix.constActuals(s.Fn, pi, depth+1)
				if !all {
					return out, false
				}
				for k := range ks {
					out[k] = true
				}
				continue
			}
		}
		return out, false
	}
	return out, true
}

func sortedKeys(m map[int64]bool) []int64 {
	var out []int64
	for k := range m {
		out = append(out, k)
	}
	for i := 1; i < len(out); i++ {
		for j := i; j > 0 && out[j] < out[j-1]; j-- {
			out[j], out[j-1] = out[j-1], out[j]
		}
	}
	return out
}

// defaultPairsAt: the (target, source) name pairs one call of decorateDefaultTo can pass: a pair of constants, or
// every row of a constant table when both names are fields of the element a full loop over that table is visiting.
func (ix *idxEngine) defaultPairsAt(call ssa.CallInstruction, def *ssa.Function) ([][2]string, bool, string) {
	cc := call.Common()
	to, ok1 := constString(cc.Args[1])
	from, ok2 := constString(cc.Args[2])
	if ok1 && ok2 {
		return [][2]string{{to, from}}, true, ""
	}
	t1, f1, e1 := ix.c.tableElemField(cc.Args[1])
	t2, f2, e2 := ix.c.tableElemField(cc.Args[2])
	if t1 == nil || t2 == nil || t1.G != t2.G || e1 != e2 {
		return nil, false, "the names are neither constants nor two fields of the element of a constant table being visited in full"
	}
	var out [][2]string
	for _, row := range t1.Rows {
		out = append(out, [2]string{row[f1], row[f2]})
	}
	return out, true, ""
}

// defaultPairs: all pairs applied by fn, in execution order (calls are taken in block order; a table-driven call
// contributes its rows in table order).
func (ix *idxEngine) defaultPairs(fn, def *ssa.Function) ([][2]string, bool, string) {
	var out [][2]string
	order := rpoOrder(fn)
	blocks := append([]*ssa.BasicBlock(nil), fn.Blocks...)
	sort.SliceStable(blocks, func(i, j int) bool { return order[blocks[i]] < order[blocks[j]] })
	for _, b := range blocks {
		for _, in := range b.Instrs {
			if staticCallee(in) != def {
				continue
			}
			ci, _ := in.(ssa.CallInstruction)
			prs, ok, why := ix.defaultPairsAt(ci, def)
			if !ok {
				return nil, false, why
			}
			out = append(out, prs...)
		}
	}
	return out, true, ""
}

// populateReflection: the reflective evaluation of Decoration.Populate, run once.
func (ix *idxEngine) populateReflection() *reflEval {
	if ix.reflTried {
		return ix.reflPanics
	}
	ix.reflTried = true
	c := ix.c
	dec := c.Named("texttable/decoration", "Decoration")
	if dec == nil {
		return nil
	}
	pop := c.MethodOpt(dec, true, "Populate")
	if pop == nil || len(pop.Params) == 0 {
		return nil
	}
	re := ix.newReflEval(dec)
	if _, ok, _ := re.eventsIn(pop, map[ssa.Value]rabs{ssa.Value(pop.Params[0]): {kind: "dec"}}, 0); !ok {
		return nil
	}
	ix.reflPanics = re
	return re
}
