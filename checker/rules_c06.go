package main

import (
	"fmt"
	"go/token"
	"go/types"
	"regexp"
	"sort"
	"strings"
	"text/template/parse"

	"golang.org/x/tools/go/ssa"
)

func init() { register("C06", runC06) }

var trustedHTMLTypes = map[string]bool{"HTML": true, "HTMLAttr": true, "JS": true, "JSStr": true, "CSS": true, "URL": true, "Srcset": true}

func isTrustedHTMLType(t types.Type) bool {
	n, ok := t.(*types.Named)
	return ok && n.Obj().Pkg() != nil && n.Obj().Pkg().Path() == "html/template" && trustedHTMLTypes[n.Obj().Name()]
}

func runC06(c *Ctx) {
	r := c.R
	r.Explanation = "That html/template's contextual escaper neutralises every string in every context is trusted (standard library); entity-decoding equality is not decided. Decided: " +
		"R06.1 the only write of package html is (*html/template.Template).Execute (html/template, not text/template) of a template parsed from a string CONSTANT, on a data value made of plain strings and a bool; nothing in the package converts a value to one of html/template's trusted types (HTML, HTMLAttr, JS, JSStr, CSS, URL, Srcset); no template function returns such a type except the row-class entry, which hands back the caller's own generator result unchanged (documented as the caller's responsibility); cell text reaches the template only as []string built from Cell.String(), one element per cell. " +
		"R06.2 the template constant is parsed statically (text/template/parse): its literal text contains exactly the tags table, caption, thead, tr, th, tbody, td (each closed), the attributes class/id on table and class on tr only, each guarded by a test of the corresponding field, and every data action inside th/td/caption/attribute values is a plain field/dot pipeline. " +
		"R06.3 the body tr is inside 'range $i, $row := Rows' and inside 'if $row.IsSeparator | not'; th ranges over Headers, td over 'CellsOf $row'; Rows/Headers/CellsOf are bound to AllRows()/Headers()/Cells(). R06.4 RowClass occurs exactly twice: 'RowClass 0' in the header tr and 'RowClass (OnePlus $i)' in the body tr with $i the index of the range over Rows and OnePlus = i+1, both under HaveRowClass, which is 'generator != nil'."
	r.NotDecided = []string{"correctness of html/template's contextual auto-escaping", "entity-decoding equality of th/td/caption/attribute text with the supplied strings"}
	r.Assumptions = []string{"html/template escapes plain strings according to their context and passes its trusted types through"}
	r.Rule("R06.1", "all output goes through html/template on plain strings; no trusted-type conversions")
	r.Rule("R06.2", "fixed tag skeleton and attributes in the template constant")
	r.Rule("R06.3", "one header row, one body row per non-separator row in order, one th/td per cell")
	r.Rule("R06.4", "row-class generator called once per emitted row with 0 / 1-based position")

	fn := renderToOf(c, "html")
	if fn == nil {
		return
	}
	ht := c.Named("html", "HTMLTable")
	// R06.1 write sites
	sites := allWriteSites(fn)
	var exec *ssa.Call
	for _, s := range sites {
		f := s.Call.Common().StaticCallee()
		ok := f != nil && funcPkgPath(f) == "html/template" && f.Name() == "Execute"
		r.Check("R06.1", FuncName(fn), s.Desc+" is html/template's Execute", s.Call.Pos(), ok, "output bypasses the contextual escaper")
		if ok {
			exec, _ = s.Call.(*ssa.Call)
		}
	}
	r.Floor("R06.1", "write sites in html.RenderTo", len(sites), 1)
	// the strings of the data value (id, class, caption) are the wrapper's own settings, as they were set: whatever
	// is stored into a string field of the data's type is a field of the wrapper read as it is (or a constant)
	if exec != nil && len(exec.Call.Args) >= 3 && ht != nil {
		dt := unwrap(exec.Call.Args[2], true).Type()
		if pt, isP := dt.Underlying().(*types.Pointer); isP {
			dt = pt.Elem()
		}
		if st, isS := dt.Underlying().(*types.Struct); isS {
			nstr := 0
			for i := 0; i < st.NumFields(); i++ {
				f := st.Field(i)
				if !isStringType(f.Type()) {
					continue
				}
				for _, fs := range c.StoresTo(f) {
					nstr++
					good, why := true, ""
					for _, v := range phiClosure(unwrap(fs.St.Val, true)) {
						v = unwrap(v, true)
						if _, isC := v.(*ssa.Const); isC {
							continue
						}
						if fl, _ := loadedField(v); fl != nil && fieldOfStruct(ht, fl) {
							continue
						}
						if fv, isFV := v.(*ssa.Field); isFV && fieldOfStruct(ht, fieldOfField(fv)) {
							continue
						}
						if _, isPar := v.(*ssa.Parameter); isPar {
							continue
						}
						good, why = false, "the value is "+v.String()+": an attribute or caption would no longer decode to the string that was set"
					}
					r.Check("R06.1", FuncName(fs.Fn), "template data field "+f.Name()+" is the wrapper's own setting, unaltered", fs.St.Pos(), good, why)
				}
			}
			r.Floor("R06.1", "string fields of the template data", nstr, 1)
		}
	}
	for _, f2 := range c.ModFuncs("html") {
		if f2 == fn {
			continue
		}
		if len(writerValues(f2)) > 0 && f2.Name() != "RenderTo" {
			for _, s := range allWriteSites(f2) {
				r.Check("R06.1", FuncName(f2), s.Desc+" (another writer in package html)", s.Call.Pos(), false, "output bypasses the template")
			}
		}
	}
	// template text constant
	var tmplText string
	nparse := 0
	for _, f2 := range c.ModFuncs("html") {
		eachInstr(f2, func(in ssa.Instruction) {
			call, ok := in.(*ssa.Call)
			if !ok {
				return
			}
			f := call.Call.StaticCallee()
			if f == nil || f.Name() != "Parse" || f.Signature.Recv() == nil {
				return
			}
			nparse++
			okPkg := funcPkgPath(f) == "html/template"
			s, isConst := constString(call.Call.Args[1])
			r.Check("R06.1", FuncName(f2), "the template is parsed by html/template from a string constant", in.Pos(), okPkg && isConst, "the template text is computed (could embed data) or parsed by text/template")
			if isConst {
				tmplText = s
			}
		})
	}
	r.Floor("R06.1", "template Parse calls", nparse, 1)
	// no trusted-type conversions
	nconv := 0
	for _, f2 := range c.ModFuncs("html") {
		eachInstr(f2, func(in ssa.Instruction) {
			var to types.Type
			var from ssa.Value
			switch x := in.(type) {
			case *ssa.Convert:
				to, from = x.Type(), x.X
			case *ssa.ChangeType:
				to, from = x.Type(), x.X
			default:
				return
			}
			if isTrustedHTMLType(to) {
				nconv++
				_, isConst := from.(*ssa.Const)
				r.Check("R06.1", FuncName(f2), "conversion to "+shortType(to), in.Pos(), isConst, "a computed string is marked as trusted markup: the escaper will pass it through")
			}
		})
	}
	if nconv == 0 {
		r.Check("R06.1", "package html", "no conversion to html/template's trusted string types", 0, true, "")
	}
	// data value: plain strings and bools
	if exec != nil {
		dt := unwrap(exec.Call.Args[2], true).Type()
		ok := true
		if st, isSt := dt.Underlying().(*types.Struct); isSt {
			for i := 0; i < st.NumFields(); i++ {
				b, isB := st.Field(i).Type().(*types.Basic)
				if !isB || (b.Kind() != types.String && b.Kind() != types.Bool) {
					ok = false
				}
			}
		} else {
			ok = false
		}
		r.Check("R06.1", FuncName(fn), "the template's data is a struct of plain strings and bools", exec.Pos(), ok, shortType(dt))
	}
	// FuncMap
	funcs := c06FuncMap(c, ht)
	var names []string
	for k := range funcs {
		names = append(names, k)
	}
	sort.Strings(names)
	for _, k := range names {
		cl := funcs[k]
		res := cl.Signature.Results()
		trusted := false
		for i := 0; i < res.Len(); i++ {
			if isTrustedHTMLType(res.At(i).Type()) {
				trusted = true
			}
		}
		if !trusted {
			r.Check("R06.1", FuncName(cl), "template function "+k+" returns no trusted-markup type", cl.Pos(), true, "")
			continue
		}
		// only the row-class entry, and only by returning the user's generator result
		ok := false
		gen := c.Field(ht, "rowClassGenerator")
		for _, ret := range returnsOf(cl) {
			if call, isCall := results(ret)[0].(*ssa.Call); isCall {
				if f, _ := loadedField(call.Call.Value); f == gen && gen != nil {
					ok = true
				}
			}
		}
		r.Check("R06.1", FuncName(cl), "template function "+k+" returns a trusted type only as the caller's generator result", cl.Pos(), ok, "")
	}
	r.Floor("R06.1", "template functions", len(funcs), 5)

	c06Bindings(c, ht, funcs)
	importCellText(c, "R06.3", false)
	c06Rebinds(c)
	importWriteDiscipline(c, "R06.1", "html")
	if tmplText != "" {
		c06Template(c, tmplText, funcs)
	}
}

// c06FuncMap finds the closures stored in the template.FuncMap literal of package html, by key.
func c06FuncMap(c *Ctx, ht *types.Named) map[string]*ssa.Function {
	out := map[string]*ssa.Function{}
	for _, fn := range c.ModFuncs("html") {
		eachInstr(fn, func(in ssa.Instruction) {
			mu, ok := in.(*ssa.MapUpdate)
			if !ok {
				return
			}
			k, ok := constString(mu.Key)
			if !ok {
				return
			}
			v := unwrap(mu.Value, true)
			if mc, ok := v.(*ssa.MakeClosure); ok {
				out[k] = boundTarget(mc.Fn.(*ssa.Function))
			} else if f, ok := v.(*ssa.Function); ok {
				out[k] = f
			}
		})
	}
	return out
}

// c06Bindings: Rows -> AllRows(), Headers -> strings of Headers(), CellsOf -> strings of r.Cells(), OnePlus -> i+1,
// RowClass -> generator(i, ctx); HaveRowClass == generator != nil; cellsToStringArray is element-wise String().
func c06Bindings(c *Ctx, ht *types.Named, funcs map[string]*ssa.Function) {
	r := c.R
	callsMethod := func(f *ssa.Function, name string) bool {
		found := false
		eachInstr(f, func(in ssa.Instruction) {
			if m, _ := invokeMethod(in); m == name {
				found = true
			}
			if cal := staticCallee(in); cal != nil && cal.Name() == name {
				found = true
			}
		})
		return found
	}
	// the helper that turns a list of cells into their texts: found by its signature func([]Cell) []string
	var toStrings *ssa.Function
	for _, f := range c.ModFuncs("html") {
		sig := f.Signature
		if sig.Recv() != nil || sig.Params().Len() != 1 || sig.Results().Len() != 1 {
			continue
		}
		ps, okP := sig.Params().At(0).Type().Underlying().(*types.Slice)
		rs, okR := sig.Results().At(0).Type().Underlying().(*types.Slice)
		if okP && okR && isNamed(ps.Elem(), modPath, "Cell") && isStringType(rs.Elem()) {
			toStrings = f
		}
	}
	// ... or a general "apply to each" helper (generic or not) handed the conversion: found at the call that makes
	// the Headers / CellsOf answer, where the conversion handed over is Cell.String itself
	convParam := -1
	isCellStringFn := func(v ssa.Value) bool {
		v = unwrap(v, true)
		if mc, isMC := v.(*ssa.MakeClosure); isMC {
			v = mc.Fn
		}
		f, isF := v.(*ssa.Function)
		if !isF {
			return false
		}
		f = skipWrappers(f) // the thunk of a method expression, a bound-method wrapper
		return isCellSource(f) && f.Name() == "String"
	}
	if toStrings == nil {
		for _, key := range []string{"Headers", "CellsOf"} {
			f := funcs[key]
			if f == nil {
				continue
			}
			for _, ret := range returnsOf(f) {
				call, isCall := results(ret)[0].(*ssa.Call)
				if !isCall {
					continue
				}
				g := call.Call.StaticCallee()
				if g == nil || g.Blocks == nil || !inModule(g) || len(call.Call.Args) != 2 || len(g.Params) != 2 {
					continue
				}
				ps, okP := g.Params[0].Type().Underlying().(*types.Slice)
				rs, okR := g.Signature.Results().At(0).Type().Underlying().(*types.Slice)
				if okP && okR && isNamed(ps.Elem(), modPath, "Cell") && isStringType(rs.Elem()) && isCellStringFn(call.Call.Args[1]) {
					toStrings, convParam = g, 1
				}
			}
		}
		if toStrings != nil {
			// every call of the helper in the package hands it Cell.String
			for _, hf := range c.ModFuncs("html") {
				eachInstr(hf, func(in ssa.Instruction) {
					if staticCallee(in) == toStrings && !isCellStringFn(callCommon(in).Args[convParam]) {
						toStrings = nil
					}
				})
			}
		}
	}
	viaStrings := func(f *ssa.Function) bool {
		ok := false
		for _, ret := range returnsOf(f) {
			if call, isCall := results(ret)[0].(*ssa.Call); isCall && call.Call.StaticCallee() == toStrings {
				ok = true
			}
		}
		return ok
	}
	if f := funcs["Rows"]; f != nil {
		r.Check("R06.3", FuncName(f), "Rows is the table's AllRows()", f.Pos(), callsMethod(f, "AllRows"), "")
	} else {
		r.Check("R06.3", "package html", "template function Rows exists", 0, false, "")
	}
	if f := funcs["Headers"]; f != nil {
		r.Check("R06.3", FuncName(f), "Headers is the text of each header cell", f.Pos(), callsMethod(f, "Headers") && viaStrings(f), "")
	}
	if f := funcs["CellsOf"]; f != nil {
		ok := false
		eachInstr(f, func(in ssa.Instruction) {
			if cal := staticCallee(in); cal != nil && cal.Name() == "Cells" && argParam(f, 0) != nil && callCommon(in).Args[0] == argParam(f, 0) {
				ok = true
			}
		})
		r.Check("R06.3", FuncName(f), "CellsOf is the text of each cell of the row it is given", f.Pos(), ok && viaStrings(f), "")
	}
	if f := funcs["OnePlus"]; f != nil {
		ok := false
		for _, ret := range returnsOf(f) {
			if b, isB := results(ret)[0].(*ssa.BinOp); isB && b.Op == token.ADD {
				k, isK := constInt(b.Y)
				ok = isK && k == 1 && argParam(f, 0) != nil && b.X == argParam(f, 0)
			}
		}
		r.Check("R06.4", FuncName(f), "OnePlus(i) is i+1", f.Pos(), ok, "")
	}
	gen := c.Field(ht, "rowClassGenerator")
	ctx := c.Field(ht, "rowClassCtx")
	if f := funcs["RowClass"]; f != nil && gen != nil && ctx != nil {
		ok := false
		for _, ret := range returnsOf(f) {
			if call, isCall := results(ret)[0].(*ssa.Call); isCall {
				g, _ := loadedField(call.Call.Value)
				if g == gen && len(call.Call.Args) == 2 && argParam(f, 0) != nil && call.Call.Args[0] == argParam(f, 0) {
					if cf, _ := loadedField(call.Call.Args[1]); cf == ctx {
						ok = true
					}
				}
			}
		}
		r.Check("R06.4", FuncName(f), "RowClass(i) calls the generator once with (i, the registered context)", f.Pos(), ok, "")
	}
	if toStrings != nil {
		ok := elementwiseMap(c, toStrings, func(call *ssa.Call) bool {
			if convParam >= 0 {
				return call.Call.Value == ssa.Value(toStrings.Params[convParam]) // the conversion handed in: Cell.String at every call
			}
			return call.Call.StaticCallee() != nil && isCellSource(call.Call.StaticCallee()) && call.Call.StaticCallee().Name() == "String"
		})
		r.Check("R06.3", FuncName(toStrings), "yields one string per cell, in order: r[i] = cells[i].String() for every i", toStrings.Pos(), ok, "")
	}
	// HaveRowClass
	if fn := renderToOf(c, "html"); fn != nil {
		ok := false
		// the template's data may be built by RenderTo or by a helper of the package it calls
		for _, hf := range pkgReach(fn, 2) {
			eachInstr(hf, func(in ssa.Instruction) {
				st, isSt := in.(*ssa.Store)
				if !isSt {
					return
				}
				fa, isFA := st.Addr.(*ssa.FieldAddr)
				if !isFA {
					return
				}
				stt, isS := fa.X.Type().Underlying().(*types.Pointer).Elem().Underlying().(*types.Struct)
				if !isS || stt.Field(fa.Field).Name() != "HaveRowClass" {
					return
				}
				e, nn, isT := nilTest(st.Val)
				if isT && nn == 0 {
					if f, _ := loadedField(e); f == gen {
						ok = true
					}
				}
			})
		}
		r.Check("R06.4", FuncName(fn), "HaveRowClass is 'a generator is set'", fn.Pos(), ok, "")
	}
}

// ---- the template constant ------------------------------------------------------------

type tmplCtx struct {
	controls []string // enclosing control pipelines, outermost first: "with .Class", "range $i, $row := Rows", "if $row.IsSeparator | not"
}

type tmplAction struct {
	pipe   string
	ctx    []string
	before string // literal text seen so far (for the HTML context)
}

func c06Template(c *Ctx, text string, funcs map[string]*ssa.Function) {
	r := c.R
	fm := map[string]interface{}{}
	for k := range funcs {
		fm[k] = true
	}
	fm["not"] = true
	trees, err := parse.Parse("t", text, "", "", fm)
	if err != nil {
		r.Check("R06.2", "html template constant", "parses", 0, false, err.Error())
		return
	}
	tree := trees["t"]
	var lit strings.Builder
	var actions []tmplAction
	var walk func(n parse.Node, ctx []string)
	walk = func(n parse.Node, ctx []string) {
		switch x := n.(type) {
		case *parse.ListNode:
			if x == nil {
				return
			}
			for _, ch := range x.Nodes {
				walk(ch, ctx)
			}
		case *parse.TextNode:
			lit.Write(x.Text)
		case *parse.ActionNode:
			actions = append(actions, tmplAction{pipe: x.Pipe.String(), ctx: append([]string{}, ctx...), before: lit.String()})
			lit.WriteString("\x00")
		case *parse.IfNode:
			walk(x.List, append(ctx, "if "+x.Pipe.String()))
			if x.ElseList != nil {
				walk(x.ElseList, append(ctx, "else "+x.Pipe.String()))
			}
		case *parse.WithNode:
			walk(x.List, append(ctx, "with "+x.Pipe.String()))
			if x.ElseList != nil {
				walk(x.ElseList, append(ctx, "else "+x.Pipe.String()))
			}
		case *parse.RangeNode:
			walk(x.List, append(ctx, "range "+x.Pipe.String()))
			if x.ElseList != nil {
				walk(x.ElseList, append(ctx, "else "+x.Pipe.String()))
			}
		case *parse.CommentNode:
		case *parse.TemplateNode:
			lit.WriteString("<template-call>")
		}
	}
	walk(tree.Root, nil)
	skeleton := lit.String()
	// tags
	tagRe := regexp.MustCompile(`<(/?)([a-zA-Z][a-zA-Z0-9]*)`)
	open, closed := map[string]int{}, map[string]int{}
	for _, m := range tagRe.FindAllStringSubmatch(skeleton, -1) {
		if m[1] == "/" {
			closed[strings.ToLower(m[2])]++
		} else {
			open[strings.ToLower(m[2])]++
		}
	}
	want := map[string]int{"table": 1, "caption": 1, "thead": 1, "tr": 2, "th": 1, "tbody": 1, "td": 1}
	var tags []string
	for t := range open {
		tags = append(tags, t)
	}
	for t := range want {
		if open[t] == 0 {
			tags = append(tags, t)
		}
	}
	sort.Strings(tags)
	for _, t := range tags {
		r.Check("R06.2", "html template constant", fmt.Sprintf("tag <%s>: %d opening, %d closing", t, want[t], want[t]), 0, open[t] == want[t] && closed[t] == want[t],
			fmt.Sprintf("found %d opening and %d closing", open[t], closed[t]))
	}
	r.Floor("R06.2", "tags in the template", len(tags), 7)
	// attributes
	attrRe := regexp.MustCompile(`\s([a-zA-Z-]+)=`)
	attrs := map[string]int{}
	for _, m := range attrRe.FindAllStringSubmatch(skeleton, -1) {
		attrs[strings.ToLower(m[1])]++
	}
	okAttr := attrs["class"] == 3 && attrs["id"] == 1 && len(attrs) == 2
	r.Check("R06.2", "html template constant", "attributes are class (table, header tr, body tr) and id (table) only", 0, okAttr, fmt.Sprint(attrs))
	if strings.Contains(strings.ToLower(skeleton), "<script") || strings.Contains(strings.ToLower(skeleton), "<style") || strings.Contains(skeleton, "<template-call>") {
		r.Check("R06.2", "html template constant", "no script/style/nested template", 0, false, "")
	}
	// actions
	fieldPipe := regexp.MustCompile(`^(\.|\$)?[A-Za-z_.$]*$`)
	nRowClass := 0
	for i, a := range actions {
		htmlCtx := htmlContextOf(a.before)
		name := fmt.Sprintf("action #%d {{%s}} in %s", i+1, a.pipe, htmlCtx)
		if strings.HasPrefix(a.pipe, "RowClass") {
			nRowClass++
			inRows := false
			var rowsRange string
			for _, cx := range a.ctx {
				if strings.HasPrefix(cx, "range ") && strings.HasSuffix(cx, ":= Rows") {
					inRows = true
					rowsRange = cx
				}
			}
			guarded := false
			for _, cx := range a.ctx {
				if cx == "if .HaveRowClass" || cx == "if $.HaveRowClass" {
					guarded = true
				}
			}
			okArg := false
			if !inRows {
				okArg = a.pipe == "RowClass 0"
			} else {
				// range $i, $row := Rows  =>  RowClass (OnePlus $i)
				vars := strings.TrimPrefix(rowsRange, "range ")
				idxVar := strings.TrimSpace(strings.Split(vars, ",")[0])
				okArg = a.pipe == "RowClass (OnePlus "+idxVar+")" && strings.Contains(vars, ",")
			}
			r.Check("R06.4", "html template constant", name+": numbered 0 for the header, 1-based range index for body rows, only when a generator is set", 0,
				okArg && guarded && htmlCtx == "attribute class of <tr>", fmt.Sprintf("in Rows range: %v, guarded: %v", inRows, guarded))
			continue
		}
		switch {
		case htmlCtx == "text of <th>":
			r.Check("R06.3", "html template constant", name+": one th per element of Headers", 0, a.pipe == "." && hasCtx(a.ctx, "range Headers") && !hasCtxPrefix(a.ctx, "range $"), strings.Join(a.ctx, " > "))
		case htmlCtx == "text of <td>":
			okRows := hasCtxPrefixSuffix(a.ctx, "range $", ":= Rows")
			rowVar := ""
			for _, cx := range a.ctx {
				if strings.HasPrefix(cx, "range $") && strings.HasSuffix(cx, ":= Rows") {
					parts := strings.Split(strings.TrimSuffix(strings.TrimPrefix(cx, "range "), " := Rows"), ",")
					rowVar = strings.TrimSpace(parts[len(parts)-1])
				}
			}
			okSep := hasCtx(a.ctx, "if "+rowVar+".IsSeparator | not")
			okCells := hasCtx(a.ctx, "range CellsOf "+rowVar)
			r.Check("R06.3", "html template constant", name+": one td per cell of each non-separator row, rows in order", 0, a.pipe == "." && okRows && okSep && okCells, strings.Join(a.ctx, " > "))
		case htmlCtx == "text of <caption>" || strings.HasPrefix(htmlCtx, "attribute"):
			// {{.}} under "with .Field"
			ok := a.pipe == "." && len(a.ctx) > 0 && strings.HasPrefix(a.ctx[len(a.ctx)-1], "with .") && fieldPipe.MatchString(strings.TrimPrefix(a.ctx[len(a.ctx)-1], "with "))
			r.Check("R06.2", "html template constant", name+": a plain field under a test of that field", 0, ok, strings.Join(a.ctx, " > "))
		default:
			r.Check("R06.2", "html template constant", name+": data appears only in th, td, caption or class/id values", 0, strings.TrimSpace(a.pipe) == "", "data is emitted in an unexpected place")
		}
	}
	r.Check("R06.4", "html template constant", "RowClass is used exactly twice (header tr, body tr)", 0, nRowClass == 2, fmt.Sprintf("%d uses", nRowClass))
	r.Floor("R06.2", "data actions in the template", len(actions), 6)
	// the body <tr> literal itself is inside the Rows range and the separator test: find the text node position
	{
		idx := strings.LastIndex(skeleton, "<tr")
		first := strings.Index(skeleton, "<tr")
		ok := idx > first && first >= 0
		// every action after the second <tr is within the Rows range (already checked for td/RowClass)
		r.Check("R06.3", "html template constant", "two tr elements: one in thead, one per row in tbody", 0, ok && strings.Index(skeleton, "<tbody") < idx && strings.Index(skeleton, "</thead") > first && strings.Index(skeleton, "</thead") < idx, "")
	}
}

func hasCtx(ctx []string, s string) bool {
	for _, c := range ctx {
		if c == s {
			return true
		}
	}
	return false
}
func hasCtxPrefix(ctx []string, p string) bool {
	for _, c := range ctx {
		if strings.HasPrefix(c, p) {
			return true
		}
	}
	return false
}
func hasCtxPrefixSuffix(ctx []string, p, s string) bool {
	for _, c := range ctx {
		if strings.HasPrefix(c, p) && strings.HasSuffix(c, s) {
			return true
		}
	}
	return false
}

// htmlContextOf: where in the HTML skeleton does the text end (element text or attribute value)?
func htmlContextOf(before string) string {
	lt := strings.LastIndex(before, "<")
	gt := strings.LastIndex(before, ">")
	if lt > gt {
		// inside a tag: attribute value?
		tag := before[lt:]
		m := regexp.MustCompile(`^<([a-zA-Z0-9]+)`).FindStringSubmatch(tag)
		name := "?"
		if m != nil {
			name = strings.ToLower(m[1])
		}
		am := regexp.MustCompile(`([a-zA-Z-]+)="[^"]*$`).FindStringSubmatch(tag)
		if am != nil {
			return "attribute " + strings.ToLower(am[1]) + " of <" + name + ">"
		}
		return "inside tag <" + name + ">"
	}
	// element text: last opened tag
	m := regexp.MustCompile(`<([a-zA-Z0-9]+)[^<>]*>[^<>]*$`).FindStringSubmatch(before)
	if m != nil {
		return "text of <" + strings.ToLower(m[1]) + ">"
	}
	return "text"
}

// boundTarget: for the synthetic wrapper behind a method value (x.m), the method itself.
func boundTarget(f *ssa.Function) *ssa.Function {
	if f == nil || !strings.Contains(f.Synthetic, "bound method") {
		return f
	}
	var target *ssa.Function
	eachInstr(f, func(in ssa.Instruction) {
		if cal := staticCallee(in); cal != nil {
			target = cal
		}
	})
	if target == nil {
		return f
	}
	return target
}

// argParam: the k-th declared parameter of f, not counting a method's receiver.
func argParam(f *ssa.Function, k int) ssa.Value {
	if f.Signature.Recv() != nil {
		k++
	}
	if k >= len(f.Params) {
		return nil
	}
	return f.Params[k]
}

// elementwiseMap: fn(xs) returns a slice with exactly one element per element of its first slice parameter, in
// order, the i-th being conv(&xs[i]):
//
//	r := make([]T, len(xs)); for i := range xs { r[i] = conv(xs[i]) }; return r          (indexed form)
//	r := make([]T, 0, n) | nil; for i := range xs { r = append(r, conv(xs[i])) }; return r  (append form)
func elementwiseMap(c *Ctx, fn *ssa.Function, isConv func(*ssa.Call) bool) bool {
	if len(fn.Params) == 0 {
		return false
	}
	p := c.Idx().proverFor(fn)
	src := ssa.Value(fn.Params[0])
	ok := false
	convOf := func(v ssa.Value) ssa.Value { // conv(xs[idx]) -> idx
		call, isCall := v.(*ssa.Call)
		if !isCall || !isConv(call) || len(call.Call.Args) == 0 {
			return nil
		}
		sl, idx := sectionOfAny(call.Call.Args[0])
		if sl != src || !isFullRangeIndex(c, fn, idx, sl) {
			return nil
		}
		return idx
	}
	rets := returnsOf(fn)
	if len(rets) != 1 {
		return false
	}
	result := results(rets[0])[0]
	eachInstr(fn, func(in ssa.Instruction) {
		switch x := in.(type) {
		case *ssa.Store:
			ia, isIA := x.Addr.(*ssa.IndexAddr)
			if !isIA {
				return
			}
			if idx := convOf(x.Val); idx != nil && idx == ia.Index && !condInsideLoop(in.Block()) {
				if ms, isMS := p.resolve(ia.X).(*ssa.MakeSlice); isMS && p.linOf(ms.Len).String() == p.lenOf(src).String() && p.resolve(result) == ssa.Value(ms) {
					ok = true
				}
			}
		case *ssa.Call:
			base, elems, isApp := appendedElems(x)
			if !isApp || len(elems) != 1 || convOf(elems[0]) == nil || condInsideLoop(in.Block()) {
				return
			}
			// accumulator: phi(empty, this append), returned after the loop; no other append in the function
			phi, isPhi := base.(*ssa.Phi)
			if !isPhi || len(phi.Edges) != 2 {
				return
			}
			empty, self := false, false
			for _, e := range phi.Edges {
				if e == ssa.Value(x) {
					self = true
				} else if isEmptySlice(p, e) {
					empty = true
				}
			}
			nApp := 0
			eachInstr(fn, func(in2 ssa.Instruction) {
				if _, isA := isBuiltinCall(valueOf(in2), "append"); isA {
					nApp++
				}
			})
			if empty && self && nApp == 1 && result == ssa.Value(phi) {
				ok = true
			}
		}
	})
	return ok
}

func isEmptySlice(p *prover, v ssa.Value) bool {
	if isNil(v) {
		return true
	}
	l := p.lenOf(v)
	return l.isConst() && l.k == 0
}

// c06Rebinds: the functions the template calls (Rows, Headers, RowClass..) are bound to THIS wrapper on every
// render: each path of RenderTo to Execute passes a Funcs(m) call, and m is a map made during this render (by
// RenderTo or by a helper whose result is always freshly allocated), not one kept from an earlier render.
func c06Rebinds(c *Ctx) {
	r := c.R
	fn := renderToOf(c, "html")
	if fn == nil {
		return
	}
	eff := c.Effects()
	isTmpl := func(in ssa.Instruction, name string) bool {
		f := staticCallee(in)
		return f != nil && funcPkgPath(f) == "html/template" && f.Signature.Recv() != nil && f.Name() == name
	}
	// every Funcs call of RenderTo and its helpers installs a map made during this render
	nf := 0
	for _, hf := range pkgReach(fn, 2) {
		eachInstr(hf, func(in ssa.Instruction) {
			if !isTmpl(in, "Funcs") {
				return
			}
			nf++
			cc := callCommon(in)
			m := unwrap(cc.Args[len(cc.Args)-1], true)
			fresh, why := false, "the function map is "+m.String()
			switch x := m.(type) {
			case *ssa.MakeMap:
				fresh = true
			case *ssa.Call:
				if cal := x.Call.StaticCallee(); cal != nil {
					if sum := eff.sums[cal]; sum != nil && sum.Fresh[0] {
						fresh = true
					} else {
						why = FuncName(cal) + " may hand back a map made by an earlier render (bound to whatever wrapper, table and generator were current then)"
					}
				}
			}
			r.Check("R06.3", FuncName(hf), fmt.Sprintf("template functions #%d are bound to this wrapper by a map made during this render", nf), in.Pos(), fresh, why)
		})
	}
	// rebinding events of f: Funcs calls, and calls of helpers every successful path of which rebinds
	var events func(f *ssa.Function, depth int) []ssa.Instruction
	mustRebind := func(f *ssa.Function, depth int) bool {
		ev := events(f, depth)
		if len(ev) == 0 {
			return false
		}
		isEv := func(b *ssa.BasicBlock) bool {
			for _, e := range ev {
				if e.Block() == b {
					return true
				}
			}
			return false
		}
		reach := blockReach(f.Blocks[0], isEv)
		for _, ret := range returnsOf(f) {
			if reach[ret.Block()] && !isEv(ret.Block()) {
				return false
			}
		}
		return true
	}
	events = func(f *ssa.Function, depth int) []ssa.Instruction {
		var out []ssa.Instruction
		eachInstr(f, func(in ssa.Instruction) {
			if isTmpl(in, "Funcs") {
				out = append(out, in)
				return
			}
			if cal := staticCallee(in); cal != nil && cal != f && cal.Blocks != nil && funcPkgPath(cal) == funcPkgPath(fn) && depth < 2 && mustRebind(cal, depth+1) {
				out = append(out, in)
			}
		})
		return out
	}
	ev := events(fn, 0)
	nx := 0
	eachInstr(fn, func(ex ssa.Instruction) {
		if !isTmpl(ex, "Execute") && !isTmpl(ex, "ExecuteTemplate") {
			return
		}
		nx++
		isEv := func(b *ssa.BasicBlock) bool {
			for _, e := range ev {
				if e.Block() == b && (b != ex.Block() || instrIndex(e) < instrIndex(ex)) {
					return true
				}
			}
			return false
		}
		reach := blockReach(fn.Blocks[0], isEv)
		bypass := reach[ex.Block()] && !isEv(ex.Block())
		r.Check("R06.3", FuncName(fn), fmt.Sprintf("Execute #%d is reached only after the template's functions were rebound", nx), ex.Pos(), !bypass && len(ev) > 0, "a path reaches Execute with the functions of an earlier render")
		// the template executed belongs to this wrapper (a field of the receiver, or made during this call): a
		// template shared between wrappers has its functions re-pointed by whichever wrapper rendered last
		own := true
		for o := range eff.originOf(fn, callCommon(ex).Args[0]) {
			if o.Kind == orgGlobal {
				own = false
			}
		}
		// (also through the field it is kept in: what is stored there must not come from package-level state)
		if tf := c.FieldOpt(c.Named("html", "HTMLTable"), "template"); tf != nil {
			for _, fs := range c.StoresTo(tf) {
				for o := range eff.originOf(fs.Fn, fs.St.Val) {
					if o.Kind == orgGlobal {
						own = false
					}
				}
			}
		}
		r.Check("R06.3", FuncName(fn), fmt.Sprintf("Execute #%d runs the wrapper's own template, not one shared at package level", nx), ex.Pos(), own, "the template is reachable from a package-level variable: another wrapper's render rebinds its functions while this one executes")
	})
	r.Floor("R06.3", "template executions in RenderTo", nx, 1)
}

// fieldOfStruct: f is one of the (direct) fields of the named struct type n.
func fieldOfStruct(n *types.Named, f *types.Var) bool {
	st, ok := n.Underlying().(*types.Struct)
	if !ok || f == nil {
		return false
	}
	for i := 0; i < st.NumFields(); i++ {
		if st.Field(i) == f {
			return true
		}
	}
	return false
}
