package main

import (
	"go/constant"
	"go/token"
	"go/types"
	"strings"

	"golang.org/x/tools/go/ssa"
)

// eachInstr visits every instruction of fn (not of nested closures).
func eachInstr(fn *ssa.Function, f func(ssa.Instruction)) {
	for _, b := range fn.Blocks {
		for _, in := range b.Instrs {
			f(in)
		}
	}
}

// withClosures returns fn and, recursively, the anonymous functions it contains.
func withClosures(fn *ssa.Function) []*ssa.Function {
	out := []*ssa.Function{fn}
	for _, a := range fn.AnonFuncs {
		out = append(out, withClosures(a)...)
	}
	return out
}

func staticCallee(in ssa.Instruction) *ssa.Function {
	ci, ok := in.(ssa.CallInstruction)
	if !ok {
		return nil
	}
	return ci.Common().StaticCallee()
}

// callCommon returns the CallCommon if in is a call/go/defer.
func callCommon(in ssa.Instruction) *ssa.CallCommon {
	ci, ok := in.(ssa.CallInstruction)
	if !ok {
		return nil
	}
	return ci.Common()
}

// isCallTo reports whether in statically calls the function pkgpath.name
// (name is "Func" or "(T).Method"/"(*T).Method" as ssa prints it).
func isCallTo(in ssa.Instruction, pkg, name string) bool {
	fn := staticCallee(in)
	if fn == nil {
		return false
	}
	return isFunc(fn, pkg, name)
}

func isFunc(fn *ssa.Function, pkg, name string) bool {
	if fn == nil {
		return false
	}
	if o := fn.Origin(); o != nil {
		fn = o
	}
	if funcPkgPath(fn) != pkg {
		return false
	}
	if fn.Signature.Recv() != nil {
		// method: compare "(*T).M" or "(T).M"
		recv := fn.Signature.Recv().Type()
		var s string
		if p, ok := recv.(*types.Pointer); ok {
			s = "(*" + typeBaseName(p.Elem()) + ")." + fn.Name()
		} else {
			s = "(" + typeBaseName(recv) + ")." + fn.Name()
		}
		return s == name
	}
	return fn.Name() == name
}

func typeBaseName(t types.Type) string {
	if n, ok := t.(*types.Named); ok {
		return n.Obj().Name()
	}
	return t.String()
}

// invokeMethod returns the interface method name if in is an interface method call.
func invokeMethod(in ssa.Instruction) (string, ssa.Value) {
	cc := callCommon(in)
	if cc == nil || !cc.IsInvoke() {
		return "", nil
	}
	return cc.Method.Name(), cc.Value
}

// structField resolves the field a FieldAddr / Field instruction selects.
func fieldOfFieldAddr(fa *ssa.FieldAddr) *types.Var {
	pt, ok := fa.X.Type().Underlying().(*types.Pointer)
	if !ok {
		return nil
	}
	st, ok := pt.Elem().Underlying().(*types.Struct)
	if !ok {
		return nil
	}
	return st.Field(fa.Field)
}

func fieldOfField(f *ssa.Field) *types.Var {
	st, ok := f.X.Type().Underlying().(*types.Struct)
	if !ok {
		return nil
	}
	return st.Field(f.Field)
}

// ownerStruct returns the named struct type a field var belongs to, searching
// module packages (fields do not know their parent in go/types).
func (c *Ctx) ownerOf(f *types.Var) string {
	if f == nil {
		return "?"
	}
	if s, ok := c.fieldOwner[f]; ok {
		return s
	}
	return "?." + f.Name()
}

// isNil reports whether v is the nil constant.
func isNil(v ssa.Value) bool {
	c, ok := v.(*ssa.Const)
	return ok && c.Value == nil && !isBasicKind(c.Type())
}

func isBasicKind(t types.Type) bool {
	_, ok := t.Underlying().(*types.Basic)
	return ok
}

func constString(v ssa.Value) (string, bool) {
	c, ok := v.(*ssa.Const)
	if !ok || c.Value == nil || c.Value.Kind() != constant.String {
		return "", false
	}
	return constant.StringVal(c.Value), true
}

func constInt(v ssa.Value) (int64, bool) {
	c, ok := v.(*ssa.Const)
	if !ok || c.Value == nil || c.Value.Kind() != constant.Int {
		return 0, false
	}
	i, ok := constant.Int64Val(c.Value)
	return i, ok
}

func constBool(v ssa.Value) (bool, bool) {
	c, ok := v.(*ssa.Const)
	if !ok || c.Value == nil || c.Value.Kind() != constant.Bool {
		return false, false
	}
	return constant.BoolVal(c.Value), true
}

// instrIndex gives the index of in within its block.
func instrIndex(in ssa.Instruction) int {
	for i, x := range in.Block().Instrs {
		if x == in {
			return i
		}
	}
	return -1
}

// instrDominates: a is executed before b on every path reaching b.
func instrDominates(a, b ssa.Instruction) bool {
	if a.Block() == b.Block() {
		return instrIndex(a) < instrIndex(b)
	}
	return a.Block().Dominates(b.Block())
}

// blockReach computes the set of blocks reachable from start (inclusive)
// without entering a block for which stop returns true (stop blocks are
// included in the result but not expanded).
func blockReach(start *ssa.BasicBlock, stop func(*ssa.BasicBlock) bool) map[*ssa.BasicBlock]bool {
	seen := map[*ssa.BasicBlock]bool{}
	var walk func(b *ssa.BasicBlock)
	walk = func(b *ssa.BasicBlock) {
		if seen[b] {
			return
		}
		seen[b] = true
		if stop != nil && stop(b) {
			return
		}
		for _, s := range b.Succs {
			walk(s)
		}
	}
	walk(start)
	return seen
}

// edgeControls reports whether the CFG edge from->to must have been the way
// control last entered `to`'s dominance region when x executes: to dominates x
// and every predecessor of `to` other than `from` is itself dominated by `to`
// (a back edge).
func edgeControls(from, to, x *ssa.BasicBlock) bool {
	if !to.Dominates(x) {
		return false
	}
	for _, p := range to.Preds {
		if p == from {
			continue
		}
		if !to.Dominates(p) {
			return false
		}
	}
	// from must not be reachable again from inside without passing... (from->to
	// taken at least once; conditions are re-evaluated each time, so a fact
	// established on the edge holds only for values that do not change inside
	// the region; callers use SSA values, which are immutable per dynamic instance
	// as long as `from` dominates `to`'s region).
	return true
}

// A condFact is a branch condition known to have evaluated to Val on the way to a block.
type condFact struct {
	Cond ssa.Value
	Val  bool
	If   *ssa.If
}

// dominatingConds lists the branch conditions that hold whenever block x executes.
func dominatingConds(x *ssa.BasicBlock) []condFact {
	var out []condFact
	fn := x.Parent()
	for _, b := range fn.Blocks {
		if len(b.Instrs) == 0 {
			continue
		}
		iff, ok := b.Instrs[len(b.Instrs)-1].(*ssa.If)
		if !ok {
			continue
		}
		if !b.Dominates(x) && b != x {
			continue
		}
		t, f := b.Succs[0], b.Succs[1]
		if t == f {
			continue
		}
		if edgeControls(b, t, x) && !(edgeControls(b, f, x)) {
			out = append(out, condFact{iff.Cond, true, iff})
		} else if edgeControls(b, f, x) && !(edgeControls(b, t, x)) {
			out = append(out, condFact{iff.Cond, false, iff})
		}
	}
	return out
}

// unwrap peels value-preserving wrappers: ChangeType, ChangeInterface, MakeInterface (optional), Convert between same-kind.
func unwrap(v ssa.Value, throughIface bool) ssa.Value {
	for {
		v = capturedLoad(v)
		switch x := v.(type) {
		case *ssa.ChangeType:
			v = x.X
		case *ssa.ChangeInterface:
			v = x.X
		case *ssa.MakeInterface:
			if !throughIface {
				return v
			}
			v = x.X
		default:
			return v
		}
	}
}

// loadedField: if v is a load (*FieldAddr) or a Field extraction, return the field and the base.
func loadedField(v ssa.Value) (*types.Var, ssa.Value) {
	switch x := v.(type) {
	case *ssa.UnOp:
		if x.Op == token.MUL {
			if fa, ok := x.X.(*ssa.FieldAddr); ok {
				return fieldOfFieldAddr(fa), capturedLoad(fa.X)
			}
		}
	case *ssa.Field:
		return fieldOfField(x), capturedLoad(x.X)
	}
	return nil, nil
}

// loadedGlobal: if v is a load of a package-level variable, return it.
func loadedGlobal(v ssa.Value) *ssa.Global {
	if u, ok := v.(*ssa.UnOp); ok && u.Op == token.MUL {
		if g, ok := u.X.(*ssa.Global); ok {
			return g
		}
	}
	return nil
}

// addrPath decomposes an address into its root and the chain of field/index steps.
type addrStep struct {
	Field *types.Var // non-nil for a field step
	Index ssa.Value  // non-nil for an index step
	Deref bool       // a pointer load between steps
}

func addrPath(v ssa.Value) (root ssa.Value, steps []addrStep) {
	for {
		switch x := v.(type) {
		case *ssa.FieldAddr:
			steps = append([]addrStep{{Field: fieldOfFieldAddr(x)}}, steps...)
			v = x.X
		case *ssa.IndexAddr:
			steps = append([]addrStep{{Index: x.Index}}, steps...)
			v = x.X
		case *ssa.UnOp:
			if x.Op == token.MUL {
				steps = append([]addrStep{{Deref: true}}, steps...)
				v = x.X
				continue
			}
			return v, steps
		case *ssa.ChangeType:
			v = x.X
		default:
			return v, steps
		}
	}
}

// lastField returns the innermost field step of an address (the field being written), or nil.
func storeField(addr ssa.Value) (*types.Var, ssa.Value) {
	if fa, ok := addr.(*ssa.FieldAddr); ok {
		return fieldOfFieldAddr(fa), capturedLoad(fa.X)
	}
	return nil, nil
}

// isAppendCall: v = append(a, b...) builtin call.
func isBuiltinCall(v ssa.Value, name string) (*ssa.Call, bool) {
	call, ok := v.(*ssa.Call)
	if !ok {
		return nil, false
	}
	b, ok := call.Call.Value.(*ssa.Builtin)
	if !ok || b.Name() != name {
		return nil, false
	}
	return call, true
}

// referrersOf returns instructions using v.
func referrersOf(v ssa.Value) []ssa.Instruction {
	r := v.Referrers()
	if r == nil {
		return nil
	}
	return *r
}

// namedOf strips pointers and returns the named type, if any.
func namedOf(t types.Type) *types.Named {
	for {
		switch x := t.(type) {
		case *types.Pointer:
			t = x.Elem()
		case *types.Named:
			return x
		default:
			return nil
		}
	}
}

func isNamed(t types.Type, pkg, name string) bool {
	n := namedOf(t)
	return n != nil && n.Obj().Pkg() != nil && n.Obj().Pkg().Path() == pkg && n.Obj().Name() == name
}

// shortType prints a type with module paths shortened.
func shortType(t types.Type) string {
	s := types.TypeString(t, func(p *types.Package) string { return relPkg(p.Path()) })
	return strings.ReplaceAll(s, modPath+"/", "")
}

// returnsOf lists the normal Return instructions of fn (the synthetic recover
// block of a function with defers is not a normal exit).
func returnsOf(fn *ssa.Function) []*ssa.Return {
	var out []*ssa.Return
	for _, b := range fn.Blocks {
		if b == fn.Recover {
			continue
		}
		for _, in := range b.Instrs {
			if r, ok := in.(*ssa.Return); ok {
				out = append(out, r)
			}
		}
	}
	return out
}

// results gives the values a Return hands back, looking through the result
// spill go/ssa introduces in functions with defers (*res = v; rundefers; t = *res; return t).
func results(ret *ssa.Return) []ssa.Value {
	out := make([]ssa.Value, len(ret.Results))
	for i, v := range ret.Results {
		out[i] = v
		u, ok := v.(*ssa.UnOp)
		if !ok || u.Op != token.MUL {
			continue
		}
		al, ok := u.X.(*ssa.Alloc)
		if !ok {
			continue
		}
		// last store to al before the load in the same block
		b := ret.Block()
		for _, in := range b.Instrs {
			if in == ssa.Instruction(u) {
				break
			}
			if st, ok := in.(*ssa.Store); ok && st.Addr == ssa.Value(al) {
				out[i] = st.Val
			}
		}
	}
	return out
}

// phiClosure collects the non-phi values that can flow into v through phis.
func phiClosure(v ssa.Value) []ssa.Value {
	seen := map[ssa.Value]bool{}
	var out []ssa.Value
	var walk func(ssa.Value)
	walk = func(x ssa.Value) {
		if seen[x] {
			return
		}
		seen[x] = true
		if p, ok := x.(*ssa.Phi); ok {
			for _, e := range p.Edges {
				walk(e)
			}
			return
		}
		out = append(out, x)
	}
	walk(v)
	return out
}

// expandConds adds the conditions implied by boolean values that were computed earlier and tested later:
//
//	ok := a && b; ...; if ok {..}     (ok is phi[false, b]: ok true implies a and b)
//	if !x {..}
//
// A phi of booleans implies, for the tested value, whatever holds on the only incoming edge that can carry that
// value: the edge's own value, and every condition under which the edge is taken.
func expandConds(in []condFact) []condFact {
	out := append([]condFact(nil), in...)
	seen := map[ssa.Value]bool{}
	for i := 0; i < len(out) && i < 64; i++ {
		cf := out[i]
		if seen[cf.Cond] {
			continue
		}
		seen[cf.Cond] = true
		switch x := cf.Cond.(type) {
		case *ssa.UnOp:
			if x.Op == token.NOT {
				out = append(out, condFact{x.X, !cf.Val, cf.If})
			}
		case *ssa.Phi:
			if b, ok := x.Type().Underlying().(*types.Basic); !ok || b.Kind() != types.Bool {
				continue
			}
			cand := -1
			n := 0
			for k, e := range x.Edges {
				if kb, isK := constBool(e); isK && kb != cf.Val {
					continue
				}
				cand = k
				n++
			}
			if n != 1 {
				continue
			}
			if _, isK := constBool(x.Edges[cand]); !isK {
				out = append(out, condFact{x.Edges[cand], cf.Val, cf.If})
			}
			pred := x.Block().Preds[cand]
			for _, d := range dominatingConds(pred) {
				out = append(out, condFact{d.Cond, d.Val, cf.If})
			}
			if iff, ok := pred.Instrs[len(pred.Instrs)-1].(*ssa.If); ok && pred.Succs[0] != pred.Succs[1] {
				if pred.Succs[0] == x.Block() {
					out = append(out, condFact{iff.Cond, true, cf.If})
				} else if pred.Succs[1] == x.Block() {
					out = append(out, condFact{iff.Cond, false, cf.If})
				}
			}
		}
	}
	return out
}

// ---- variables captured by closures ---------------------------------------------------------------------------
//
// go/ssa keeps a local variable that a closure captures in a heap cell (an Alloc in the enclosing function, a
// FreeVar inside the closure) and every use becomes a load of that cell. When the variable is assigned exactly once,
// at the top of the enclosing function (a parameter or "x := ..." that is never re-assigned), each of those loads
// is just that value.

var cellCache = map[ssa.Value]ssa.Value{}

// cellValue: the single value ever stored in the cell, or nil.
func cellValue(cell ssa.Value) ssa.Value {
	if v, ok := cellCache[cell]; ok {
		return v
	}
	cellCache[cell] = nil
	var al *ssa.Alloc
	switch x := cell.(type) {
	case *ssa.Alloc:
		al = x
	case *ssa.FreeVar:
		g := x.Parent()
		parent := g.Parent()
		if parent == nil {
			return nil
		}
		idx := -1
		for i, fv := range g.FreeVars {
			if fv == x {
				idx = i
			}
		}
		var bound ssa.Value
		n := 0
		eachInstr(parent, func(in ssa.Instruction) {
			if mc, ok := in.(*ssa.MakeClosure); ok && mc.Fn == ssa.Value(g) && idx >= 0 && idx < len(mc.Bindings) {
				bound = mc.Bindings[idx]
				n++
			}
		})
		if n != 1 {
			return nil
		}
		v := cellValue(bound)
		cellCache[cell] = v
		return v
	default:
		return nil
	}
	fn := al.Parent()
	if fn == nil || len(fn.Blocks) == 0 {
		return nil
	}
	var st *ssa.Store
	for _, rr := range referrersOf(al) {
		switch y := rr.(type) {
		case *ssa.Store:
			if y.Addr != ssa.Value(al) || st != nil {
				return nil
			}
			st = y
		case *ssa.UnOp, *ssa.DebugRef:
		case *ssa.MakeClosure:
			// the closure must not assign the variable
			g, _ := y.Fn.(*ssa.Function)
			if g == nil {
				return nil
			}
			for i, b := range y.Bindings {
				if b != ssa.Value(al) || i >= len(g.FreeVars) {
					continue
				}
				for _, r2 := range referrersOf(g.FreeVars[i]) {
					switch z := r2.(type) {
					case *ssa.UnOp, *ssa.DebugRef:
					case *ssa.MakeClosure:
						_ = z
						return nil // handed on to a nested closure: not followed
					default:
						return nil
					}
				}
			}
		default:
			return nil
		}
	}
	// assigned once, in the entry block or in the very block that creates the variable (a variable declared inside
	// a loop body is a fresh cell per iteration), before anything else looks at it
	if st == nil || (st.Block() != fn.Blocks[0] && st.Block() != al.Block()) {
		return nil
	}
	// every other use comes after the store
	for _, rr := range referrersOf(al) {
		if rr == ssa.Instruction(st) {
			continue
		}
		if rr.Block() == st.Block() && instrIndex(rr) < instrIndex(st) {
			return nil
		}
		if rr.Block() != st.Block() && !st.Block().Dominates(rr.Block()) {
			return nil
		}
	}
	cellCache[cell] = st.Val
	return st.Val
}

// capturedLoad: if v is a load of a once-assigned captured variable, the value assigned; otherwise v.
func capturedLoad(v ssa.Value) ssa.Value {
	if u, ok := v.(*ssa.UnOp); ok && u.Op == token.MUL {
		switch u.X.(type) {
		case *ssa.Alloc, *ssa.FreeVar:
			if cv := cellValue(u.X); cv != nil {
				return cv
			}
		}
	}
	return v
}

// retCase is one way a function returns: the values handed back once the phis that merge several exits into a
// single return statement (named results, "single exit" style) have been taken apart, edge by edge.
type retCase struct {
	Ret  *ssa.Return
	Vals []ssa.Value
	Via  *ssa.BasicBlock // the block control came from (where the values were chosen); the return's own block if no phi was split
	Into *ssa.BasicBlock // the merge block entered from Via (nil if no phi was split): the case runs on the edge Via -> Into
	N    int             // running number, for messages
}

// returnCases expands every return of fn into its cases: when results are phis of one block, each incoming edge of
// that block is a case of its own, with every such phi replaced by its value on that edge (so that "pointer nil
// iff error non-nil" can be judged per case even when both are named results merged at one exit). Up to three
// levels of merging are taken apart.
func returnCases(fn *ssa.Function) []retCase { return returnCasesDepth(fn, 3) }

// returnCasesDepth: as returnCases, taking apart at most maxDepth levels of merges (1: only the merge that feeds
// the return itself, so that Via is the block that chose the values).
func returnCasesDepth(fn *ssa.Function, maxDepth int) []retCase {
	var out []retCase
	n := 0
	var expand func(ret *ssa.Return, vals []ssa.Value, via, into *ssa.BasicBlock, depth int)
	expand = func(ret *ssa.Return, vals []ssa.Value, via, into *ssa.BasicBlock, depth int) {
		var blk *ssa.BasicBlock
		if depth < maxDepth {
			for _, v := range vals {
				if phi, ok := v.(*ssa.Phi); ok {
					if maxDepth == 1 && phi.Block() != ret.Block() {
						continue // only the merge that feeds the return itself
					}
					if blk == nil || phi.Block().Dominates(blk) == false && blk.Dominates(phi.Block()) {
						blk = phi.Block()
					}
				}
			}
		}
		if blk == nil {
			// "return helper()" where the helper is a closure or function of the module whose own returns are
			// constants or freshly made interface values (nil, an error value built on the spot): each of the
			// helper's returns is a case of this one
			if depth < 3 && len(vals) > 0 {
				if hc := sameTupleCall(vals); hc != nil {
					if h := hc.Call.StaticCallee(); h != nil && h.Blocks != nil && h != fn {
						var subs [][]ssa.Value
						okAll := true
						for _, hr := range returnsOf(h) {
							hv := results(hr)
							if len(hv) != len(vals) {
								okAll = false
								break
							}
							for _, v := range hv {
								switch v.(type) {
								case *ssa.Const, *ssa.MakeInterface:
								default:
									okAll = false
								}
							}
							subs = append(subs, hv)
						}
						if okAll && len(subs) > 0 {
							for _, hv := range subs {
								n++
								out = append(out, retCase{ret, hv, via, into, n})
							}
							return
						}
					}
				}
			}
			n++
			out = append(out, retCase{ret, vals, via, into, n})
			return
		}
		for k, pred := range blk.Preds {
			nv := make([]ssa.Value, len(vals))
			for i, v := range vals {
				if phi, ok := v.(*ssa.Phi); ok && phi.Block() == blk {
					nv[i] = phi.Edges[k]
				} else {
					nv[i] = v
				}
			}
			expand(ret, nv, pred, blk, depth+1)
		}
	}
	for _, ret := range returnsOf(fn) {
		expand(ret, results(ret), ret.Block(), nil, 0)
	}
	return out
}

// sameTupleCall: vals are exactly extract #0, #1, ... of one call; returns that call.
func sameTupleCall(vals []ssa.Value) *ssa.Call {
	var call *ssa.Call
	for i, v := range vals {
		ex, ok := v.(*ssa.Extract)
		if !ok || ex.Index != i {
			return nil
		}
		c, ok := ex.Tuple.(*ssa.Call)
		if !ok || (call != nil && c != call) {
			return nil
		}
		call = c
	}
	if call == nil || call.Call.IsInvoke() {
		return nil
	}
	if sig, ok := call.Call.Value.Type().Underlying().(*types.Signature); !ok || sig.Results().Len() != len(vals) {
		return nil
	}
	return call
}
