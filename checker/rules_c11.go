package main

import (
	"fmt"
	"go/token"
	"go/types"
	"os"
	"strings"

	"golang.org/x/tools/go/ssa"
)

func init() { register("C11", runC11) }

// nonNilAt: value v is known non-nil when `at` executes (a dominating nil test on the same value, up to
// equal reloads as established by the prover's memory model).
func nonNilAt(p *prover, v ssa.Value, at ssa.Instruction) bool {
	cv := p.canon(v)
	for _, cf := range dominatingConds(at.Block()) {
		e, nonNilSucc, ok := nilTest(cf.Cond)
		if !ok {
			continue
		}
		if p.canon(e) == cv && (nonNilSucc == 0) == cf.Val {
			return true
		}
	}
	return false
}

func runC11(c *Ctx) {
	r := c.R
	r.Explanation = "The error list is one slice field; the rules look at every store to it and at every place an error can be routed. " +
		"R11.1 nothing nil enters the list: each store is an empty make, an append of one error that a dominating test shows non-nil, or a spread append reached only through the exit of a scan loop that left the function on the first nil entry; no wholesale adoption of a caller's slice; every method of the container tolerates a nil receiver. " +
		"R11.2 Errors() returns the field only under a dominating len != 0, else nil. R11.3 every function that installs a row in a table (rows list or header) points the row's container at the table's. " +
		"R11.4 on attach, the row's own errors are read and added to the table before the row's container is diverted (never after). R11.5 every errTaker handed to the callback invoker can actually hold an error (a *Row, the table's container, an attached row's container, or a parameter all of whose actuals are), the invoker passes every non-nil callback result to it, and misuse of a separator row is reported through the row. " +
		"Decided: routing and nil-filtering on every path. Not decided: 'exactly once' for a row passed to AddRow twice (misuse), textual order of errors beyond append-only."
	r.NotDecided = []string{"a row attached twice", "order of errors from different sources"}
	r.Assumptions = []string{"the error list field is unexported: all writers are in the module"}
	r.Rule("R11.1", "no nil error and no caller-owned slice ever becomes (part of) the list; container methods accept a nil receiver")
	r.Rule("R11.2", "Errors() is nil or a non-empty list")
	r.Rule("R11.3", "every installed row shares the table's error container")
	r.Rule("R11.4", "a row's earlier errors are moved to the table before its container is diverted")
	r.Rule("R11.5", "callback errors always have a non-nil place to go and are always passed on")

	ec := c.Named("", "ErrorContainer")
	at := c.Named("", "ATable")
	row := c.Named("", "Row")
	errs := c.Field(ec, "errors_")
	rowEC := c.Field(row, "ErrorContainer")
	tabEC := c.Field(at, "ErrorContainer")
	rows, hdr := c.Field(at, "rows"), c.Field(at, "headerRow")
	cells := c.Field(row, "cells")
	invoke := c.Func("", "invokePropertyCallbacks")
	if errs == nil || rowEC == nil || tabEC == nil || rows == nil || hdr == nil || invoke == nil || cells == nil {
		return
	}
	ix := c.Idx()

	// ---- R11.1
	ns := 0
	for _, fs := range c.StoresTo(errs) {
		ns++
		p := ix.proverFor(fs.Fn)
		name := FuncName(fs.Fn)
		v := fs.St.Val
		if p.lenOf(v).String() == "0" {
			root := sliceRoots(v)[0]
			_, isMake := root.(*ssa.MakeSlice)
			_, isNew := root.(*ssa.Alloc)
			if isMake || isNew || fs.Fresh {
				r.Check("R11.1", name, "store errors_ = empty make", fs.St.Pos(), true, "")
				continue
			}
		}
		// an empty list made by a helper
		if hc, isCall := v.(*ssa.Call); isCall && hc.Call.StaticCallee() != nil && inModule(hc.Call.StaticCallee()) && hc.Call.StaticCallee().Blocks != nil {
			h := hc.Call.StaticCallee()
			ph := ix.proverFor(h)
			empty := len(returnsOf(h)) > 0
			for _, ret := range returnsOf(h) {
				rv := results(ret)[0]
				root := sliceRoots(rv)[0]
				_, isMake := root.(*ssa.MakeSlice)
				_, isNew := root.(*ssa.Alloc)
				if !(isMake || isNew) || ph.lenOf(rv).String() != "0" {
					empty = false
				}
			}
			if empty {
				r.Check("R11.1", name, "store errors_ = empty make (through "+FuncName(h)+")", fs.St.Pos(), true, "")
				continue
			}
			// the list extended by a helper that appends only entries it has tested non-nil
			if k, ok, why := extensionHelper(ix, h); k >= 0 {
				f, b := loadedField(hc.Call.Args[k])
				r.Check("R11.1", name, "store errors_ = "+FuncName(h)+"(errors_, ...): the list itself, extended by entries tested non-nil", fs.St.Pos(), ok && f == errs && b == fs.Base, why)
				continue
			}
		}
		base, elems, isApp := appendedElems(v)
		if !isApp {
			r.Check("R11.1", name, "store errors_ = <not an append>", fs.St.Pos(), false, "the list is replaced by a slice from elsewhere (adoption): nil entries and aliasing of the caller's slice become possible")
			continue
		}
		if f, b := loadedField(base); f != errs || b != fs.Base {
			r.Check("R11.1", name, "store errors_ = append(<other slice>, ...)", fs.St.Pos(), false, "the list is rebuilt from something other than itself")
			continue
		}
		if elems != nil {
			ok := true
			for _, e := range elems {
				if !nonNilAt(p, e, fs.St) {
					ok = false
				}
			}
			r.Check("R11.1", name, "store errors_ = append(errors_, e) with e tested non-nil", fs.St.Pos(), ok, "the appended error is not dominated by a nil test")
			continue
		}
		// spread append: must be guarded by the scan idiom
		call, _ := isBuiltinCall(v, "append")
		ok, why := scanProvesNoNil(p, call.Call.Args[1], fs.St)
		r.Check("R11.1", name, "store errors_ = append(errors_, list...) after a scan that found no nil entry", fs.St.Pos(), ok, why)
	}
	r.Floor("R11.1", "stores to ErrorContainer.errors_", ns, 4)
	for _, m := range []string{"AddError", "AddErrorList", "Errors"} {
		fn := c.Method(ec, true, m)
		if fn != nil {
			r.Check("R11.1", FuncName(fn), "tolerates a nil receiver", fn.Pos(), toleratesNilReceiver(fn) || toleratesNilReceiverSem(ix, fn, 0), "rows hold a nil container until they have an error or join a table; the method is reached through that nil pointer")
		}
	}

	// AddError records every non-nil error a non-nil container is given: a path through it that stores nothing is a
	// path on which the receiver or the error was found nil - nothing else (no filter, no limit, no de-duplication)
	if fn := c.Method(ec, true, "AddError"); fn != nil && len(fn.Params) >= 2 {
		storesIn := map[*ssa.Function]bool{}
		for _, fs := range c.StoresTo(errs) {
			storesIn[fs.Fn] = true
		}
		records := func(in ssa.Instruction) bool {
			if st, ok := in.(*ssa.Store); ok {
				if f, _ := storeField(st.Addr); f == errs {
					return true
				}
			}
			if h := staticCallee(in); h != nil && h != fn && storesIn[h] {
				return true
			}
			return false
		}
		type frame struct {
			b      *ssa.BasicBlock
			conds  []condFact
			stored bool
		}
		npaths, bad := 0, 0
		var badAt token.Pos
		var why string
		var walk func(fr frame, seen map[*ssa.BasicBlock]bool)
		walk = func(fr frame, seen map[*ssa.BasicBlock]bool) {
			if npaths > 512 || seen[fr.b] {
				return
			}
			seen[fr.b] = true
			defer delete(seen, fr.b)
			for _, in := range fr.b.Instrs {
				if records(in) {
					fr.stored = true
				}
				switch x := in.(type) {
				case *ssa.Return:
					npaths++
					if fr.stored {
						return
					}
					excused := false
					for _, cf := range expandConds(fr.conds) {
						if e, nn, isT := nilTest(cf.Cond); isT && (e == ssa.Value(fn.Params[0]) || e == ssa.Value(fn.Params[1])) && ((nn == 0 && !cf.Val) || (nn == 1 && cf.Val)) {
							excused = true
						}
					}
					if !excused {
						bad++
						badAt = x.Pos()
						var cs []string
						for _, cf := range fr.conds {
							cs = append(cs, fmt.Sprintf("%s=%v", cf.Cond.String(), cf.Val))
						}
						why = "a path returns without recording, for a non-nil container and a non-nil error, under: " + strings.Join(cs, ", ")
					}
					return
				case *ssa.Panic:
					return
				case *ssa.If:
					for k, sb := range fr.b.Succs {
						nc := append(append([]condFact(nil), fr.conds...), condFact{x.Cond, k == 0, x})
						walk(frame{sb, nc, fr.stored}, seen)
					}
					return
				}
			}
			for _, sb := range fr.b.Succs {
				walk(frame{sb, fr.conds, fr.stored}, seen)
			}
		}
		walk(frame{fn.Blocks[0], nil, false}, map[*ssa.BasicBlock]bool{})
		if npaths > 512 {
			r.Note("shape-unrecognised R11.1: AddError has too many paths to enumerate; 'records every non-nil error' is not evaluated")
		} else {
			if badAt == token.NoPos {
				badAt = fn.Pos()
			}
			r.Check("R11.1", FuncName(fn), "every non-nil error given to a non-nil container is recorded", badAt, bad == 0, why)
		}
	}

	// ---- R11.2
	if fn := c.Method(ec, true, "Errors"); fn != nil {
		p := ix.proverFor(fn)
		for i, ret := range returnsOf(fn) {
			v := results(ret)[0]
			if isNil(v) {
				r.Check("R11.2", FuncName(fn), fmt.Sprintf("return #%d is nil", i+1), ret.Pos(), true, "")
				continue
			}
			// each value that can be returned here, under the conditions of the edge that brings it
			ok := true
			var visit func(v ssa.Value, extra []constraint, depth int)
			visit = func(v ssa.Value, extra []constraint, depth int) {
				if isNil(v) {
					return
				}
				if phi, isPhi := v.(*ssa.Phi); isPhi && depth < 4 {
					for k, e := range phi.Edges {
						var ex []constraint
						for _, cf := range p.edgeConds(phi.Block().Preds[k], phi.Block()) {
							ex = append(ex, p.condConstraints(cf.Cond, cf.Val)...)
						}
						visit(e, ex, depth+1)
					}
					return
				}
				f, b := loadedField(v)
				if f != errs || b != ssa.Value(fn.Params[0]) {
					ok = false
					return
				}
				if good, _ := p.prove(leq(linConst(1), p.lenOf(v), "len >= 1"), ret, extra, 0); !good {
					// ... or the emptiness test is made by a helper that counts the list (nil receiver: 0)
					viaHelper := false
					for _, cf := range expandConds(dominatingConds(ret.Block())) {
						if helperSaysLenPositive(cf.Cond, cf.Val, b, errs) {
							viaHelper = true
						}
					}
					if !viaHelper {
						ok = false
					}
				}
			}
			visit(v, nil, 0)
			r.Check("R11.2", FuncName(fn), fmt.Sprintf("return #%d is the list, under len != 0", i+1), ret.Pos(), ok, "an empty non-nil list could be returned")
		}
	}

	// ---- R11.3 / R11.4
	na := 0
	type install struct {
		fn    *ssa.Function
		at    ssa.Instruction
		rowV  ssa.Value
		table ssa.Value
	}
	var ins []install
	for _, e := range c.installEvents(rows, hdr) {
		if e.Lifted {
			continue // checked at the helper's call sites
		}
		ins = append(ins, install{e.Fn, e.At, e.Row, e.Table})
	}
	for _, in := range ins {
		na++
		fn := in.fn
		var div *ssa.Store
		for _, es := range c.StoresTo(rowEC) {
			if es.Fn == fn && es.Base == in.rowV {
				if f, b := loadedField(es.St.Val); f == tabEC && b == in.table {
					div = es.St
				}
			}
		}
		origRow := in.rowV
		if div == nil {
			// the diversion (and the move of earlier errors) may be delegated to a helper handed the row and the table
			if h, hrow, htab, hst := divertHelperCall(c, fn, in.rowV, in.table, rowEC, tabEC); h != nil {
				div = hst
				fn = h
				in.rowV, in.table = hrow, htab
				in.at = hst
			}
		}
		r.Check("R11.3", FuncName(in.fn), "installs a row and points its container at the table's", in.at.Pos(), div != nil, "errors raised on this row afterwards stay in a container nobody reads")
		if div == nil {
			continue
		}
		if _, wasParam := origRow.(*ssa.Parameter); !wasParam {
			continue // a row made here has no earlier errors to move
		}
		// R11.4: reads of the row's own container must not come after the divert
		if _, isParam := in.rowV.(*ssa.Parameter); isParam {
			after := map[ssa.Instruction]bool{}
			for _, x := range instrsAfter(div) {
				after[x] = true
			}
			read, moved := false, false
			var errsCall ssa.Value
			eachInstr(fn, func(x ssa.Instruction) {
				f := staticCallee(x)
				if f == nil || f.Signature.Recv() == nil {
					return
				}
				cc := callCommon(x)
				switch f.Name() {
				case "Errors":
					if fl, b := loadedField(cc.Args[0]); (fl == rowEC && b == in.rowV) || capturedLoad(cc.Args[0]) == in.rowV {
						read = true
						errsCall = x.(ssa.Value)
						ld, isLd := cc.Args[0].(ssa.Instruction)
						if !isLd {
							ld = x
						}
						if after[ld] {
							r.Check("R11.4", FuncName(fn), "row errors read after the divert", x.Pos(), false, "by then the row's container is the table's: the table's list would be appended to itself")
						}
					}
				}
			})
			eachInstr(fn, func(x ssa.Instruction) {
				f := staticCallee(x)
				if f == nil || f.Name() != "AddErrorList" {
					return
				}
				cc := callCommon(x)
				if fl, b := loadedField(cc.Args[0]); fl == tabEC && b == in.table && errsCall != nil && cc.Args[1] == errsCall {
					moved = true
					// only "there are errors" may guard the move
					base := map[ssa.Value]bool{}
					for _, cf := range dominatingConds(in.at.Block()) {
						base[cf.Cond] = true
					}
					for _, cf := range dominatingConds(x.Block()) {
						if base[cf.Cond] {
							continue
						}
						e, _, isNilT := nilTest(cf.Cond)
						if isNilT && (e == errsCall || e == callCommon(errsCall.(ssa.Instruction)).Args[0]) {
							continue
						}
						r.Check("R11.4", FuncName(fn), "moving the row's errors to the table is conditional on something other than their presence", x.Pos(), false, cf.Cond.String())
					}
				}
			})
			if !read && !moved {
				// the move may be a helper's whole job: absorb(dst, src) { if es := src.Errors(); es != nil { dst.AddErrorList(es) } }
				eachInstr(fn, func(x ssa.Instruction) {
					h := staticCallee(x)
					if h == nil || h.Blocks == nil || funcPkgPath(h) != modPath {
						return
					}
					src, dst, okH := errorsMoveHelper(h, rowEC, tabEC)
					cc := callCommon(x)
					if !okH || src >= len(cc.Args) || dst >= len(cc.Args) {
						return
					}
					sv, dv := cc.Args[src], cc.Args[dst]
					if mi, isMI := sv.(*ssa.MakeInterface); isMI {
						sv = mi.X
					}
					srcOK := sv == in.rowV
					if fl, b := loadedField(sv); fl == rowEC && b == in.rowV {
						srcOK = true
					}
					if mi, isMI := dv.(*ssa.MakeInterface); isMI {
						dv = mi.X
					}
					dstOK := dv == in.table
					if fl, b := loadedField(dv); fl == tabEC && b == in.table {
						dstOK = true
					}
					if !srcOK || !dstOK {
						return
					}
					read, moved = true, true
					if after[x] {
						r.Check("R11.4", FuncName(fn), "row errors read after the divert", x.Pos(), false, "by then the row's container is the table's: the table's list would be appended to itself")
					}
					base := map[ssa.Value]bool{}
					for _, cf := range dominatingConds(in.at.Block()) {
						base[cf.Cond] = true
					}
					for _, cf := range dominatingConds(x.Block()) {
						if !base[cf.Cond] {
							r.Check("R11.4", FuncName(fn), "moving the row's errors to the table is conditional on something other than their presence", x.Pos(), false, cf.Cond.String())
						}
					}
				})
			}
			r.Check("R11.4", FuncName(fn), "a pre-built row's errors are read and added to the table before the divert", div.Pos(), read && moved, fmt.Sprintf("Errors() read: %v, AddErrorList(table, those): %v", read, moved))
			// ... and nobody hands this function a row that ALREADY shares the table's container: the "row's errors"
			// it moves would be the table's own list, appended to itself (every earlier error reported twice)
			if read && moved {
				rowPar, _ := in.rowV.(*ssa.Parameter)
				idx := -1
				for k, q := range fn.Params {
					if q == rowPar {
						idx = k
					}
				}
				for _, cs := range ix.callSitesOf(fn) {
					ci, isI := cs.Call.(ssa.Instruction)
					if !isI || idx < 0 || idx >= len(cs.Call.Common().Args) {
						continue
					}
					arg := cs.Call.Common().Args[idx]
					pc := ix.proverFor(cs.Fn)
					for _, es := range c.StoresTo(rowEC) {
						if es.Fn != cs.Fn || pc.canon(es.Base) != pc.canon(arg) || !instrDominates(es.St, ci) {
							continue
						}
						if f2, _ := loadedField(es.St.Val); f2 == tabEC {
							r.Check("R11.4", FuncName(cs.Fn), "the row handed to "+FuncName(fn)+" does not already share the table's container", ci.Pos(), false,
								"its container was set to the table's before the call: the errors moved are the table's own, so every earlier error is recorded twice")
						}
					}
				}
			}
		}
	}
	r.Floor("R11.3", "functions installing a row", na, 2)
	// the table's own container is set at construction to a real container
	for _, fs := range c.StoresTo(tabEC) {
		call, ok := fs.St.Val.(*ssa.Call)
		good := fs.Fresh && ok && call.Call.StaticCallee() != nil && call.Call.StaticCallee().Name() == "NewErrorContainer"
		r.Check("R11.3", FuncName(fs.Fn), "store ATable.ErrorContainer = NewErrorContainer() at construction", fs.St.Pos(), good, "")
	}

	// ---- R11.5
	sites := 0
	// acceptField: the receiver is field f of owner b, read at `at` in fn
	var acceptField func(fn *ssa.Function, f *types.Var, b ssa.Value, at ssa.Instruction, depth int) (bool, string, bool)
	acceptField = func(fn *ssa.Function, f *types.Var, b ssa.Value, at ssa.Instruction, depth int) (bool, string, bool) {
		p := ix.proverFor(fn)
		ok, why, handled := func() (bool, string, bool) {
			res := func(o bool, w string) (bool, string, bool) { return o, w, true }
			_ = res
			if f == tabEC {
				return true, "the table's own container (set at construction)", true
			}
			if f == rowEC {
				// attached: dominated by a store of the same row's container in this function
				for _, es := range c.StoresTo(rowEC) {
					if es.Fn == fn && p.canon(es.Base) == p.canon(b) && instrDominates(es.St, at) {
						return true, "the row's container was set earlier in this function", true
					}
				}
				// ... or by a helper called earlier with this row, which stores a table's container into it
				viaHelper := false
				eachInstr(fn, func(in ssa.Instruction) {
					h := staticCallee(in)
					if h == nil || h.Blocks == nil || !inModule(h) || !instrDominates(in, at) {
						return
					}
					args := callCommon(in).Args
					if len(args) != len(h.Params) {
						return
					}
					for k, a := range args {
						if p.canon(a) != p.canon(b) {
							continue
						}
						for _, es := range c.StoresTo(rowEC) {
							if es.Fn == h && es.Base == ssa.Value(h.Params[k]) {
								if f2, _ := loadedField(es.St.Val); f2 == tabEC {
									// on every path of the helper
									all := true
									for _, ret := range returnsOf(h) {
										if !instrDominates(es.St, ret) {
											all = false
										}
									}
									if all {
										viaHelper = true
									}
								}
							}
						}
					}
				})
				if viaHelper {
					return true, "the row's container was set, by a helper called earlier in this function, to the table's", true
				}
				// ... or this function is a helper handed the row, and at every one of its calls the row's container
				// has been set by then (in the caller, or by a helper the caller ran first)
				if par, isPar := b.(*ssa.Parameter); isPar && depth < 3 && par.Parent() == fn {
					idx := -1
					for k, q := range fn.Params {
						if q == par {
							idx = k
						}
					}
					callers := ix.callSitesOf(fn)
					if idx >= 0 && len(callers) > 0 {
						all := true
						for _, cs := range callers {
							ci, isI := cs.Call.(ssa.Instruction)
							args := cs.Call.Common().Args
							if !isI || idx >= len(args) {
								all = false
								break
							}
							if okUp, _, _ := acceptField(cs.Fn, f, args[idx], ci, depth+1); !okUp {
								all = false
							}
						}
						if all {
							return true, "at every call of this helper the row's container has already been set to the table's", true
						}
					}
				}
				// the row is kept in a small carrier struct (what one pass needs, grouped): it is whatever row was
				// stored there, judged where it was stored
				{
					var cf *types.Var
					if fl, _ := loadedField(b); fl != nil {
						cf = fl
					} else if fv, isFV := b.(*ssa.Field); isFV {
						cf = fieldOfField(fv)
					}
					if cf != nil && depth < 3 {
						if own := c.ownerOf(cf); own != "ATable" && own != "Row" && own != "ErrorContainer" && own != "Cell" && own != "column" {
							stores := c.StoresTo(cf)
							all := len(stores) > 0
							for _, fs := range stores {
								if okUp, _, _ := acceptField(fs.Fn, f, fs.St.Val, fs.St, depth+1); !okUp {
									all = false
								}
							}
							if all {
								return true, "the row is a field of a carrier struct; every row stored there is known to be in a table", true
							}
						}
					}
				}
				// or the row is the receiver (of this function, or of the function a closure was made in) and every
				// caller passes a row taken from the table
				paramIndex := func(q *ssa.Parameter) int {
					for k, x := range q.Parent().Params {
						if x == q {
							return k
						}
					}
					return -1
				}
				if par, ok := b.(*ssa.Parameter); ok && par.Parent() != nil && len(par.Parent().Params) > 0 && paramIndex(par) >= 0 {
					pidx := paramIndex(par)
					sitesOf := ix.callSitesOf(par.Parent())
					if len(sitesOf) == 0 {
						return false, "no callers", true
					}
					var rowFromTable func(sf *ssa.Function, a ssa.Value, d int) bool
					rowFromTable = func(sf *ssa.Function, a ssa.Value, d int) bool {
						pp := ix.proverFor(sf)
						rv := pp.resolve(a)
						if fl, _ := loadedField(rv); fl == hdr {
							return true
						}
						if u, isU := rv.(*ssa.UnOp); isU && u.Op == token.MUL {
							if ia, isIA := u.X.(*ssa.IndexAddr); isIA {
								if fl, _ := loadedField(ia.X); fl == rows {
									return true
								}
							}
						}
						// the caller forwards its own receiver: look at the caller's callers
						if par, isPar := rv.(*ssa.Parameter); isPar && d < 3 && par.Parent() == sf && paramIndex(par) >= 0 {
							up := ix.callSitesOf(sf)
							if len(up) == 0 {
								return false
							}
							j := paramIndex(par)
							for _, u := range up {
								if j >= len(u.Call.Common().Args) || !rowFromTable(u.Fn, u.Call.Common().Args[j], d+1) {
									return false
								}
							}
							return true
						}
						return false
					}
					for _, s := range sitesOf {
						if pidx >= len(s.Call.Common().Args) {
							return false, "caller " + FuncName(s.Fn) + " does not pass the row", true
						}
						a := s.Call.Common().Args[pidx]
						if rowFromTable(s.Fn, a, 0) {
							continue
						}
						pp := ix.proverFor(s.Fn)
						rv := pp.resolve(a)
						okRow := false
						if fl, _ := loadedField(rv); fl == hdr {
							okRow = true
						}
						if u, isU := rv.(*ssa.UnOp); isU && u.Op == token.MUL {
							if ia, isIA := u.X.(*ssa.IndexAddr); isIA {
								if fl, _ := loadedField(ia.X); fl == rows {
									okRow = true
								}
							}
						}
						if !okRow {
							return false, "caller " + FuncName(s.Fn) + " passes a row that is not taken from the table", true
						}
					}
					return true, "the row comes from the table's header or row list at every call (installed rows share the table's container: R11.3)", true
				}
				return false, "the row's container may still be nil here (row not known to be in a table): AddError on it drops the error", true
			}
			return false, "", false
		}()
		return ok, why, handled
	}
	var accept func(fn *ssa.Function, v ssa.Value, at ssa.Instruction, depth int) (bool, string)
	accept = func(fn *ssa.Function, v ssa.Value, at ssa.Instruction, depth int) (bool, string) {
		if depth > 3 {
			return false, "too deep"
		}
		inner := unwrap(v, true)
		// a *Row (lazy creation)
		if pt, ok := inner.Type().(*types.Pointer); ok && isNamed(pt.Elem(), modPath, "Row") {
			return true, "a *Row: its AddError creates the container on demand"
		}
		if f, b := loadedField(inner); f != nil {
			if ok, why, handled := acceptField(fn, f, b, at, depth); handled {
				return ok, why
			}
			// a field of a small carrier struct (what one pass needs, grouped): judged by what is stored there,
			// wherever that is
			if own := c.ownerOf(f); own != "ATable" && own != "Row" && own != "ErrorContainer" {
				stores := c.StoresTo(f)
				if len(stores) > 0 {
					for _, fs := range stores {
						if ok, why := accept(fs.Fn, fs.St.Val, fs.St, depth+1); !ok {
							return false, "the carrier's field " + f.Name() + " is given, in " + FuncName(fs.Fn) + ": " + why
						}
					}
					return true, "a field of a carrier struct; every store into it is an acceptable receiver"
				}
			}
		}
		// (the same, for a by-value carrier whose field is read with a field extraction rather than through an address)
		if fv, isFV := inner.(*ssa.Field); isFV {
			if f := fieldOfField(fv); f != nil {
				if own := c.ownerOf(f); own != "ATable" && own != "Row" && own != "ErrorContainer" {
					stores := c.StoresTo(f)
					if len(stores) > 0 {
						for _, fs := range stores {
							if ok, why := accept(fs.Fn, fs.St.Val, fs.St, depth+1); !ok {
								return false, "the carrier's field " + f.Name() + " is given, in " + FuncName(fs.Fn) + ": " + why
							}
						}
						return true, "a field of a carrier struct; every store into it is an acceptable receiver"
					}
				}
			}
		}
		// a pointer to the place where the container is kept (**ErrorContainer), read when needed: judged as that
		// field of that owner at each call site
		if u, isU := inner.(*ssa.UnOp); isU && u.Op == token.MUL {
			if par, isPar := u.X.(*ssa.Parameter); isPar {
				idx := -1
				for i, q := range fn.Params {
					if q == par {
						idx = i
					}
				}
				sitesOf := ix.callSitesOf(fn)
				if idx >= 0 && len(sitesOf) > 0 {
					for _, s := range sitesOf {
						fa, isFA := s.Call.Common().Args[idx].(*ssa.FieldAddr)
						if !isFA {
							return false, "caller " + FuncName(s.Fn) + " passes a pointer that is not the address of a container field"
						}
						ok, why, handled := acceptField(s.Fn, fieldOfFieldAddr(fa), fa.X, s.Call.(ssa.Instruction), depth+1)
						if !handled || !ok {
							return false, "caller " + FuncName(s.Fn) + ": " + why
						}
					}
					return true, "the address of a container field; every caller passes an acceptable one"
				}
			}
		}
		if par, ok := inner.(*ssa.Parameter); ok {
			idx := -1
			for i, q := range fn.Params {
				if q == par {
					idx = i
				}
			}
			sitesOf := ix.callSitesOf(fn)
			if idx < 0 || len(sitesOf) == 0 {
				return false, "parameter with no callers"
			}
			for _, s := range sitesOf {
				if ok, why := accept(s.Fn, s.Call.Common().Args[idx], s.Call.(ssa.Instruction), depth+1); !ok {
					return false, "caller " + FuncName(s.Fn) + ": " + why
				}
			}
			return true, "a parameter; every caller passes an acceptable receiver"
		}
		// the receiver is asked of a function handed in by the caller (func() ErrorReceiver): every caller passes a
		// closure, and what each of those closures returns is judged where the closure was made
		if call, isCall := inner.(*ssa.Call); isCall && call.Call.StaticCallee() == nil && !call.Call.IsInvoke() {
			if par, isPar := call.Call.Value.(*ssa.Parameter); isPar {
				idx := -1
				for i, q := range fn.Params {
					if q == par {
						idx = i
					}
				}
				sitesOf := ix.callSitesOf(fn)
				if idx >= 0 && len(sitesOf) > 0 {
					for _, s := range sitesOf {
						mc, isMC := s.Call.Common().Args[idx].(*ssa.MakeClosure)
						if !isMC {
							return false, "caller " + FuncName(s.Fn) + " passes something other than a closure as the receiver function"
						}
						g, _ := mc.Fn.(*ssa.Function)
						if g == nil || len(returnsOf(g)) == 0 {
							return false, "receiver function without a body"
						}
						for _, ret := range returnsOf(g) {
							rv := unwrap(results(ret)[0], true)
							f2, b2 := loadedField(rv)
							if f2 == nil {
								return false, "caller " + FuncName(s.Fn) + ": the receiver function returns " + rv.String()
							}
							ok, why, handled := acceptField(s.Fn, f2, b2, s.Call.(ssa.Instruction), depth+1)
							if !handled || !ok {
								return false, "caller " + FuncName(s.Fn) + ": " + why
							}
						}
					}
					return true, "a function handed in by the caller; every caller's function returns an acceptable receiver"
				}
			}
		}
		return false, "unrecognised error receiver " + inner.String()
	}
	for _, fn := range c.LibFuncs() {
		cnt := 0
		eachInstr(fn, func(in ssa.Instruction) {
			if staticCallee(in) != invoke {
				return
			}
			sites++
			cnt++
			cc := callCommon(in)
			ok, why := accept(fn, cc.Args[3], in, 0)
			r.Check("R11.5", FuncName(fn), fmt.Sprintf("errTaker of invokePropertyCallbacks call #%d", cnt), in.Pos(), ok, why)
		})
	}
	r.Floor("R11.5", "invokePropertyCallbacks call sites", sites, 8)
	// the invoker passes every non-nil result on
	{
		okFlow := false
		n := 0
		eachInstr(invoke, func(in ssa.Instruction) {
			m, _ := invokeMethod(in)
			if m != "UpdateProperties" {
				return
			}
			n++
			e := in.(ssa.Value)
			// the next branch tests e != nil and the non-nil side calls errTaker.AddError(e)
			b := in.Block()
			iff, ok := b.Instrs[len(b.Instrs)-1].(*ssa.If)
			if !ok {
				return
			}
			te, nn, ok := nilTest(iff.Cond)
			if !ok || te != e {
				return
			}
			for _, x := range b.Succs[nn].Instrs {
				if mm, recv := invokeMethod(x); mm == "AddError" && recv == ssa.Value(invoke.Params[3]) && callCommon(x).Args[0] == e {
					okFlow = true
				}
			}
		})
		r.Check("R11.5", FuncName(invoke), "every non-nil callback result is handed to errTaker.AddError", invoke.Pos(), okFlow && n == 1, fmt.Sprintf("%d UpdateProperties call(s)", n))
	}
	// Row.AddError creates the container on demand and records the error
	if fn := c.Method(row, true, "AddError"); fn != nil {
		creates, records := false, false
		eachInstr(fn, func(in ssa.Instruction) {
			if st, ok := in.(*ssa.Store); ok {
				if f, b := storeField(st.Addr); f == rowEC && b == ssa.Value(fn.Params[0]) {
					if call, ok := st.Val.(*ssa.Call); ok && call.Call.StaticCallee() != nil && call.Call.StaticCallee().Name() == "NewErrorContainer" {
						for _, cf := range dominatingConds(in.Block()) {
							if e, nn, ok := nilTest(cf.Cond); ok {
								if f2, _ := loadedField(e); f2 == rowEC && (nn == 1) == cf.Val {
									creates = true
								}
							}
						}
					}
				}
			}
			if f := staticCallee(in); f != nil && f.Name() == "AddError" && f != fn {
				cc := callCommon(in)
				recvOK := true
				for _, rv := range phiClosure(cc.Args[0]) {
					if fl, b := loadedField(rv); fl == rowEC && b == ssa.Value(fn.Params[0]) {
						continue
					}
					if call, isCall := rv.(*ssa.Call); isCall && call.Call.StaticCallee() != nil && call.Call.StaticCallee().Name() == "NewErrorContainer" {
						continue
					}
					recvOK = false
				}
				if recvOK && cc.Args[1] == ssa.Value(fn.Params[1]) {
					for _, ret := range returnsOf(fn) {
						if instrDominates(in, ret) {
							records = true
						}
					}
				}
			}
		})
		// the same, with the container fetched (and created on demand) by a helper of the row:
		//   r.container().AddError(err)    container: if r.EC == nil { r.EC = New() }; return r.EC
		if !creates || !records {
			eachInstr(fn, func(in ssa.Instruction) {
				f := staticCallee(in)
				if f == nil || f.Name() != "AddError" || f == fn {
					return
				}
				cc := callCommon(in)
				if len(cc.Args) != 2 || cc.Args[1] != ssa.Value(fn.Params[1]) {
					return
				}
				hc, isCall := unwrap(cc.Args[0], true).(*ssa.Call)
				if !isCall {
					return
				}
				h := hc.Call.StaticCallee()
				if h == nil || !inModule(h) || h.Blocks == nil || len(hc.Call.Args) != 1 || len(h.Params) != 1 {
					return
				}
				// the helper is handed the row, or the address of the row's container field
				viaSlot := false
				if fa, isFA := hc.Call.Args[0].(*ssa.FieldAddr); isFA && fa.X == ssa.Value(fn.Params[0]) && fieldOfFieldAddr(fa) == rowEC {
					viaSlot = true
				} else if hc.Call.Args[0] != ssa.Value(fn.Params[0]) {
					return
				}
				isLocLoad := func(v ssa.Value) bool {
					if viaSlot {
						u, ok := v.(*ssa.UnOp)
						return ok && u.Op == token.MUL && u.X == ssa.Value(h.Params[0])
					}
					fl, b := loadedField(v)
					return fl == rowEC && b == ssa.Value(h.Params[0])
				}
				// every return of h is the receiver's container, and h has created it when it was nil
				allEC := true
				for _, ret := range returnsOf(h) {
					for _, rv := range phiClosure(results(ret)[0]) {
						if isLocLoad(rv) {
							continue
						}
						if call, isC := rv.(*ssa.Call); isC && call.Call.StaticCallee() != nil && call.Call.StaticCallee().Name() == "NewErrorContainer" {
							continue
						}
						allEC = false
					}
				}
				hCreates := false
				eachInstr(h, func(x ssa.Instruction) {
					st, ok := x.(*ssa.Store)
					if !ok {
						return
					}
					f2, b := storeField(st.Addr)
					toLoc := f2 == rowEC && b == ssa.Value(h.Params[0])
					if viaSlot {
						toLoc = st.Addr == ssa.Value(h.Params[0])
					}
					if toLoc {
						if call, ok := st.Val.(*ssa.Call); ok && call.Call.StaticCallee() != nil && call.Call.StaticCallee().Name() == "NewErrorContainer" {
							for _, cf := range expandConds(dominatingConds(x.Block())) {
								if e, nn, ok := nilTest(cf.Cond); ok {
									if isLocLoad(e) && (nn == 1) == cf.Val {
										hCreates = true
									}
								}
							}
						}
					}
				})
				if allEC && hCreates {
					for _, ret := range returnsOf(fn) {
						if instrDominates(in, ret) {
							creates, records = true, true
						}
					}
				}
			})
		}
		r.Check("R11.5", FuncName(fn), "creates the row's container when it is nil, then records the error", fn.Pos(), creates && records, fmt.Sprintf("creates: %v, records: %v", creates, records))
	}
	// misuse of a non-cell row is reported through the row
	if fn := c.Method(row, true, "Add"); fn != nil {
		reported := false
		eachInstr(fn, func(in ssa.Instruction) {
			f := staticCallee(in)
			if f == nil || f.Name() != "AddError" {
				return
			}
			cc := callCommon(in)
			if cc.Args[0] != ssa.Value(fn.Params[0]) {
				return
			}
			for _, cf := range dominatingConds(in.Block()) {
				if e, nn, ok := nilTest(cf.Cond); ok {
					if f2, _ := loadedField(e); f2 == cells && (nn == 1) == cf.Val {
						reported = true
					}
				}
			}
		})
		r.Check("R11.5", FuncName(fn), "adding a cell to a row without a cell list records an error on the row", fn.Pos(), reported, "")
	}
}

// scanProvesNoNil: the store `at` of append(list, el...) is reached only through the exit edge of a loop over
// el in which every iteration either saw el[i] != nil or left the function.
func scanProvesNoNil(p *prover, el ssa.Value, at ssa.Instruction) (bool, string) {
	fn := p.fn
	ok0, how0 := scanEstablishesNoNil(p, el, at)
	if os.Getenv("TABDBG") == "scan" {
		fmt.Fprintf(os.Stderr, "scan %s: %v %s\n", fn.Name(), ok0, how0)
	}
	if ok0 {
		return true, how0
	}
	for _, h := range fn.Blocks {
		isLoop := false
		for _, pr := range h.Preds {
			if h.Dominates(pr) {
				isLoop = true
			}
		}
		if !isLoop || !h.Dominates(at.Block()) {
			continue
		}
		iff, ok := h.Instrs[len(h.Instrs)-1].(*ssa.If)
		if !ok {
			continue
		}
		// header test: i < len(el) (possibly rotated: i+1 < len)
		cs := p.condConstraints(iff.Cond, true)
		if len(cs) != 1 {
			continue
		}
		usesLen := false
		for t := range cs[0].e.coef {
			if t == "len("+p.canon(el)+")" {
				usesLen = true
			}
		}
		if !usesLen {
			continue
		}
		body, exit := h.Succs[0], h.Succs[1]
		if !edgeControls(h, exit, at.Block()) {
			continue
		}
		// in the body: a test el[i] != nil whose nil side cannot come back to the loop or reach `at`
		for _, b := range fn.Blocks {
			if !body.Dominates(b) {
				continue
			}
			biff, ok := b.Instrs[len(b.Instrs)-1].(*ssa.If)
			if !ok {
				continue
			}
			e, nn, ok := nilTest(biff.Cond)
			if !ok {
				continue
			}
			u, ok := e.(*ssa.UnOp)
			if !ok {
				continue
			}
			ia, ok := u.X.(*ssa.IndexAddr)
			if !ok || p.canon(ia.X) != p.canon(el) {
				continue
			}
			// the index is the loop's counter: covers 0..len-1 (range loop)
			nilSide := b.Succs[1-nn]
			reach := blockReach(nilSide, nil)
			if reach[h] || reach[at.Block()] {
				return false, "after seeing a nil entry the scan can still reach the spread append"
			}
			// every back edge passes this test block
			for _, pr := range h.Preds {
				if h.Dominates(pr) && !b.Dominates(pr) {
					return false, "an iteration can skip the nil test"
				}
			}
			// index visits every element: rotated range (i = phi(-1, i+1), index i+1) or plain counter from 0 step 1
			return true, "reached only by leaving a range loop over the list in which every element was seen non-nil"
		}
	}
	// alternative: guarded by a predicate function that reports whether the list contains a nil entry
	for _, cf := range dominatingConds(at.Block()) {
		call, ok := cf.Cond.(*ssa.Call)
		if !ok || cf.Val {
			continue
		}
		f := call.Call.StaticCallee()
		if f == nil || !inModule(f) || len(call.Call.Args) != 1 || p.canon(call.Call.Args[0]) != p.canon(el) {
			continue
		}
		if containsNilPredicate(p.ix, f) {
			return true, "reached only when " + FuncName(f) + " (true exactly when some entry is nil) said no"
		}
	}
	// ... or by a search helper's answer "not found": firstWhere(el, isNil) < 0, the helper handed the list and a
	// predicate that is exactly "is nil"; every way the helper has of answering with a negative number has seen
	// every element fail the predicate
	for _, cf := range expandConds(dominatingConds(at.Block())) {
		bo, ok := cf.Cond.(*ssa.BinOp)
		if !ok {
			continue
		}
		for _, side := range []ssa.Value{bo.X, bo.Y} {
			call, isCall := side.(*ssa.Call)
			if !isCall {
				continue
			}
			h := call.Call.StaticCallee()
			if h == nil || h.Blocks == nil || !inModule(h) || len(call.Call.Args) != len(h.Params) || len(h.Params) < 2 || h.Signature.Results().Len() != 1 || !isIntType(h.Signature.Results().At(0).Type()) {
				continue
			}
			if p.canon(call.Call.Args[0]) != p.canon(el) {
				continue
			}
			var facts []constraint
			facts = append(facts, p.condConstraints(cf.Cond, cf.Val)...)
			if !entails(facts, leq(p.linOf(call), linConst(-1), "")) {
				continue
			}
			bound := map[*ssa.Parameter]*ssa.Function{}
			for k, a := range call.Call.Args {
				if f, isF := unwrap(a, false).(*ssa.Function); isF {
					bound[h.Params[k]] = f
				}
			}
			if len(bound) == 0 {
				continue
			}
			for k, v := range bound {
				scanFuncBindings[k] = v
			}
			ph := p.ix.proverFor(h)
			all, n := true, 0
			for _, rc := range returnCases(h) {
				if lb, okL := ph.lowerBoundInt(rc.Vals[0], 0); okL && lb >= 0 {
					continue // "found at i"
				}
				n++
				hat := ssa.Instruction(rc.Ret)
				if rc.Into != nil {
					hat = rc.Via.Instrs[len(rc.Via.Instrs)-1]
				}
				if ok2, _ := scanEstablishesNoNil(ph, h.Params[0], hat); !ok2 {
					all = false
				}
			}
			for k := range bound {
				delete(scanFuncBindings, k)
			}
			if all && n > 0 {
				return true, "reached only when " + FuncName(h) + " found no entry for which the predicate 'is nil' holds, having tried every entry"
			}
		}
	}
	if ok, how := scanEstablishesNoNil(p, el, at); ok {
		return true, how
	} else if how != "" {
		return false, "no scan over the appended list guards this append (nil entries would be copied in): " + how
	}
	return false, "no scan loop over the appended list guards this append: nil entries would be copied in"
}

// containsNilPredicate: f(list) returns true on finding a nil entry in a loop over the whole list and false otherwise.
func containsNilPredicate(ix *idxEngine, f *ssa.Function) bool {
	if len(f.Params) != 1 || f.Signature.Results().Len() != 1 {
		return false
	}
	p := ix.proverFor(f)
	el := f.Params[0]
	// decided by induction over its scan loop, whatever the direction and style of the loop: every way of answering
	// "no" (false) has seen every element non-nil
	if isBoolType(f.Signature.Results().At(0).Type()) {
		allNo := true
		nNo := 0
		for _, rc := range returnCases(f) {
			if k, isC := constBool(rc.Vals[0]); isC && k {
				continue // "yes, there is a nil": at worst the slow path is taken needlessly
			}
			nNo++
			at := ssa.Instruction(rc.Ret)
			if rc.Into != nil {
				at = rc.Via.Instrs[len(rc.Via.Instrs)-1]
			}
			if ok, _ := scanEstablishesNoNil(p, el, at); !ok {
				allNo = false
			}
		}
		if allNo && nNo > 0 {
			return true
		}
	}
	sawTrue, sawFalse := false, false
	for _, ret := range returnsOf(f) {
		k, isC := constBool(results(ret)[0])
		if !isC {
			return false
		}
		if k {
			// under el[i] == nil
			okc := false
			for _, cf := range dominatingConds(ret.Block()) {
				e, nn, isT := nilTest(cf.Cond)
				if !isT || (nn == 1) != cf.Val {
					continue
				}
				if sl, _ := sectionOfAny(e); sl == ssa.Value(el) {
					okc = true
				}
				if ex, isEx := e.(*ssa.Extract); isEx {
					if nx, isNx := ex.Tuple.(*ssa.Next); isNx {
						if rg, isRg := nx.Iter.(*ssa.Range); isRg && rg.X == ssa.Value(el) {
							okc = true
						}
					}
				}
			}
			if !okc {
				return false
			}
			sawTrue = true
		} else {
			// after the loop over the whole list: dominated by the exit edge of a loop with test idx < len(el)
			okc := false
			for _, cf := range dominatingConds(ret.Block()) {
				if cf.Val {
					continue
				}
				for _, cs := range p.condConstraints(cf.Cond, true) {
					for t := range cs.e.coef {
						if t == "len("+p.canon(el)+")" {
							okc = true
						}
					}
				}
			}
			if !okc {
				return false
			}
			sawFalse = true
		}
	}
	return sawTrue && sawFalse
}

// extensionHelper: h returns one of its slice parameters (index k) extended only by appends whose elements h has
// tested non-nil (or a spread append after a scan that found no nil). Returns k (or -1 when h is not of that kind),
// whether every append qualifies, and why not.
func extensionHelper(ix *idxEngine, h *ssa.Function) (int, bool, string) {
	ph := ix.proverFor(h)
	k := -1
	ok, why := true, ""
	seen := map[ssa.Value]bool{}
	var walk func(v ssa.Value) bool
	walk = func(v ssa.Value) bool {
		if seen[v] {
			return true
		}
		seen[v] = true
		if par, isPar := v.(*ssa.Parameter); isPar {
			for i, q := range h.Params {
				if q == par {
					if k >= 0 && k != i {
						return false
					}
					k = i
					return true
				}
			}
			return false
		}
		if phi, isPhi := v.(*ssa.Phi); isPhi {
			for _, e := range phi.Edges {
				if !walk(e) {
					return false
				}
			}
			return true
		}
		base, elems, isApp := appendedElems(v)
		if !isApp {
			return false
		}
		at, _ := v.(ssa.Instruction)
		if elems != nil {
			for _, e := range elems {
				if !nonNilAt(ph, e, at) {
					ok, why = false, "an appended entry is not dominated by a nil test in "+FuncName(h)
				}
			}
		} else {
			call, _ := isBuiltinCall(v, "append")
			if good, w := scanProvesNoNil(ph, call.Call.Args[1], at); !good {
				ok, why = false, w
			}
		}
		return walk(base)
	}
	rets := returnsOf(h)
	if len(rets) == 0 {
		return -1, false, ""
	}
	for _, ret := range rets {
		rv := results(ret)
		if len(rv) != 1 || !walk(rv[0]) {
			return -1, false, ""
		}
	}
	return k, ok, why
}

// divertHelperCall: fn calls a module helper with the row and the table among its arguments, and the helper stores
// <row parameter>.ErrorContainer = <table parameter>.ErrorContainer. Returns the helper, its row and table
// parameters and that store.
func divertHelperCall(c *Ctx, fn *ssa.Function, rowV, table ssa.Value, rowEC, tabEC *types.Var) (*ssa.Function, ssa.Value, ssa.Value, *ssa.Store) {
	var rh *ssa.Function
	var rrow, rtab ssa.Value
	var rst *ssa.Store
	eachInstr(fn, func(in ssa.Instruction) {
		h := staticCallee(in)
		if h == nil || h.Blocks == nil || !inModule(h) || rh != nil {
			return
		}
		args := callCommon(in).Args
		if len(args) != len(h.Params) {
			return
		}
		ri, ti := -1, -1
		for k, a := range args {
			if capturedLoad(a) == rowV {
				ri = k
			}
			if capturedLoad(a) == table {
				ti = k
			}
		}
		if ri < 0 || ti < 0 {
			return
		}
		for _, es := range c.StoresTo(rowEC) {
			if es.Fn == h && es.Base == ssa.Value(h.Params[ri]) {
				if f, b := loadedField(es.St.Val); f == tabEC && b == ssa.Value(h.Params[ti]) {
					rh, rrow, rtab, rst = h, h.Params[ri], h.Params[ti], es.St
				}
			}
		}
	})
	return rh, rrow, rtab, rst
}

// errorsMoveHelper: h does nothing to its source but read its errors (src.Errors(), src a parameter: an error
// source, a row or a container) and hands exactly those to AddErrorList on its destination parameter, on no
// condition other than their presence. Returns the parameter positions.
func errorsMoveHelper(h *ssa.Function, rowEC, tabEC *types.Var) (src, dst int, ok bool) {
	parIdx := func(v ssa.Value) int {
		if mi, isMI := v.(*ssa.MakeInterface); isMI {
			v = mi.X
		}
		if fl, b := loadedField(v); fl != nil && (fl == rowEC || fl == tabEC) {
			v = b
		}
		for i, p := range h.Params {
			if v == ssa.Value(p) {
				return i
			}
		}
		return -1
	}
	src, dst = -1, -1
	var errsCall ssa.Value
	var addAt ssa.Instruction
	nErr, nAdd := 0, 0
	eachInstr(h, func(x ssa.Instruction) {
		cc := callCommon(x)
		if cc == nil {
			return
		}
		if cc.IsInvoke() {
			if cc.Method.Name() == "Errors" && len(cc.Args) == 0 {
				nErr++
				src = parIdx(cc.Value)
				errsCall, _ = x.(ssa.Value)
			}
			return
		}
		f := cc.StaticCallee()
		if f == nil || f.Signature.Recv() == nil || len(cc.Args) == 0 {
			return
		}
		switch f.Name() {
		case "Errors":
			nErr++
			src = parIdx(cc.Args[0])
			errsCall, _ = x.(ssa.Value)
		case "AddErrorList":
			nAdd++
			dst = parIdx(cc.Args[0])
			addAt = x
		}
	})
	if nErr != 1 || nAdd != 1 || src < 0 || dst < 0 || src == dst || errsCall == nil || addAt == nil {
		return -1, -1, false
	}
	if callCommon(addAt).Args[1] != errsCall {
		return -1, -1, false
	}
	for _, cf := range dominatingConds(addAt.Block()) {
		e, _, isNilT := nilTest(cf.Cond)
		if !isNilT || e != errsCall {
			return -1, -1, false
		}
	}
	// nothing else of consequence happens in the helper: no other calls, no stores
	clean := true
	eachInstr(h, func(x ssa.Instruction) {
		switch y := x.(type) {
		case *ssa.Store, *ssa.Go, *ssa.Defer, *ssa.MapUpdate, *ssa.Send:
			clean = false
		case *ssa.Call:
			if ssa.Value(y) != errsCall && ssa.Instruction(y) != addAt {
				clean = false
			}
		}
	})
	return src, dst, clean
}
