package main

import (
	"fmt"
	"go/token"
	"go/types"

	"golang.org/x/tools/go/ssa"
)

// intFacts: extra facts about the integer term t (the SSA value v).
func (ix *idxEngine) intFacts(p *prover, v ssa.Value, t string, at ssa.Instruction) []constraint {
	var out []constraint
	switch x := v.(type) {
	case *ssa.BinOp:
		if x.Op == token.QUO {
			if k, ok := constInt(x.Y); ok && k > 0 {
				a := p.linOf(x.X)
				q := linTerm(t).scale(k)
				// truncated division: |a - k*q| <= k-1, and a - k*q has the sign of a
				out = append(out, leq(a.sub(q), linConst(k-1), "quotient definition"), leq(q.sub(a), linConst(k-1), "quotient definition"))
				if p.quoGuard[t] == 0 {
					p.quoGuard[t] = 1
					if ok, _ := p.prove(leq(linConst(0), a, "dividend >= 0"), at, nil, 2); ok {
						p.quoGuard[t] = 2
					} else {
						p.quoGuard[t] = 3
					}
				}
				if p.quoGuard[t] == 2 {
					out = append(out, leq(q, a, "quotient of a non-negative dividend"), leq(linConst(0), linTerm(t), "quotient of a non-negative dividend"))
				}
			}
		}
	case *ssa.Call:
		out = append(out, ix.resultNonNegFacts(p, v, t)...)
		// documented postconditions of standard-library searches
		if f := x.Call.StaticCallee(); f != nil && funcPkgPath(f) == "strings" || f != nil && funcPkgPath(f) == "bytes" {
			switch f.Name() {
			case "IndexByte", "IndexRune", "IndexAny", "IndexFunc", "LastIndexByte", "LastIndexAny", "LastIndexFunc":
				out = append(out, leq(linConst(-1), linTerm(t), f.Name()+" returns -1 or an index"),
					leq(linTerm(t), p.lenOf(x.Call.Args[0]).add(linConst(-1)), f.Name()+" returns an index below the length"))
			case "Index", "LastIndex":
				out = append(out, leq(linConst(-1), linTerm(t), f.Name()+" returns -1 or an index"),
					leq(linTerm(t), p.lenOf(x.Call.Args[0]), f.Name()+" returns an index within the string"))
			}
		}
	case *ssa.Extract:
		out = append(out, ix.resultNonNegFacts(p, v, t)...)
	case *ssa.Phi:
		if p.isLoopPhi(x) {
			out = append(out, p.headerBoundInvariant(x, t)...)
			out = append(out, p.entryLowerBoundInvariant(x, t)...)
			out = append(out, p.entryUpperBoundInvariant(x, t)...)
			out = append(out, p.relationalInvariants(x, t)...)
			out = append(out, p.rangeCounterFacts(x, t, at)...)
		}
	case *ssa.UnOp:
		if x.Op == token.MUL {
			if ia, ok := x.X.(*ssa.IndexAddr); ok {
				if lb, ok := p.elemLowerBound(ia.X); ok {
					out = append(out, leq(linConst(lb), linTerm(t), "every element stored into this locally made slice is >= "+fmt.Sprint(lb)))
				}
			}
		}
	}
	return out
}

// elemLowerBound: sl is made in this function, is not handed to anything that could write its elements,
// and every element store has a value with constant lower bound >= c (zero-initialised: c <= 0).
func (p *prover) elemLowerBound(sl ssa.Value) (int64, bool) {
	rv := p.resolve(sl)
	key := "elemlb:" + p.canon(rv)
	if p.lbIn[key] {
		return 0, true // coinductive: elements read back while proving the stores
	}
	ms, ok := rv.(*ssa.MakeSlice)
	if !ok {
		// a slice made and filled by a helper that returns it
		if call, isCall := rv.(*ssa.Call); isCall {
			if hms, h := returnedMake(call); hms != nil {
				st, okT := hms.Type().Underlying().(*types.Slice)
				if !okT || !isIntType(st.Elem()) {
					return 0, false
				}
				ph := p.ix.proverFor(h)
				return 0, ph.elemStoresNonNeg(hms, st.Elem(), 1) && p.elemStoresNonNeg(call, st.Elem(), 0)
			}
		}
		return 0, false
	}
	st, ok := ms.Type().Underlying().(*types.Slice)
	if !ok || !isIntType(st.Elem()) {
		return 0, false
	}
	return 0, p.elemStoresNonNeg(ms, st.Elem(), 0)
}

// returnedMake: call is a static call of a module function every return of which yields the same slice made in
// it (result 0); returns that MakeSlice and the function.
func returnedMake(call *ssa.Call) (*ssa.MakeSlice, *ssa.Function) {
	h := call.Call.StaticCallee()
	if h == nil || h.Blocks == nil || !inModule(h) {
		return nil, nil
	}
	var ms *ssa.MakeSlice
	rets := returnsOf(h)
	if len(rets) == 0 {
		return nil, nil
	}
	for _, ret := range rets {
		rv := results(ret)
		if len(rv) == 0 {
			return nil, nil
		}
		for _, v := range phiClosure(rv[0]) {
			m, ok := v.(*ssa.MakeSlice)
			if !ok || (ms != nil && m != ms) {
				return nil, nil
			}
			ms = m
		}
	}
	return ms, h
}

// elemStoresNonNeg: every store into an element of the slice `root` (a slice made here, or -- when reached from
// a caller -- a parameter bound to such a slice) stores a value proved >= 0; the slice is not aliased away. A
// module helper that is handed the slice and may write its elements is examined the same way (depth <= 2).
func (p *prover) elemStoresNonNeg(root ssa.Value, elem types.Type, depth int) bool {
	key := "elemlb:" + p.canon(root)
	p.lbIn[key] = true
	defer delete(p.lbIn, key)
	good := true
	var visit func(v ssa.Value)
	seen := map[ssa.Value]bool{}
	visit = func(v ssa.Value) {
		if seen[v] || !good {
			return
		}
		seen[v] = true
		for _, r := range referrersOf(v) {
			switch x := r.(type) {
			case *ssa.IndexAddr:
				for _, rr := range referrersOf(x) {
					switch y := rr.(type) {
					case *ssa.Store:
						if y.Addr != ssa.Value(x) {
							good = false
							continue
						}
						ok, _ := p.prove(leq(linConst(0), p.linOf(y.Val), "element >= 0"), y, nil, 1)
						if !ok {
							good = false
						}
					case *ssa.UnOp:
					default:
						good = false
					}
				}
			case *ssa.Phi:
				visit(x)
			case *ssa.Slice:
				visit(x)
			case *ssa.Range, *ssa.Return, *ssa.DebugRef:
			case ssa.CallInstruction:
				cc := x.Common()
				if b, ok := cc.Value.(*ssa.Builtin); ok && (b.Name() == "len" || b.Name() == "cap") {
					continue
				}
				// handed to a callee: fine when the callee cannot write elements of this element type
				if !p.ix.callMayWriteElems(p.fn, x, elem) {
					continue
				}
				callee := cc.StaticCallee()
				if callee == nil || !inModule(callee) || callee.Blocks == nil || depth >= 2 || len(cc.Args) != len(callee.Params) {
					good = false
					continue
				}
				pc := p.ix.proverFor(callee)
				for k, a := range cc.Args {
					if a == v && !pc.elemStoresNonNeg(callee.Params[k], elem, depth+1) {
						good = false
					}
				}
			case *ssa.Store:
				// the slice value itself stored somewhere: escapes - unless it is put into a local struct that only
				// groups values and is handed, by value, to helpers: then the field's readers are further names of it
				al, k := carrierOfStore(x)
				if al == nil || x.Val != v {
					good = false
					continue
				}
				vals, stores, calls, okC := structFieldAliases(al, k, 0)
				if !okC || len(stores) != 1 {
					good = false
					continue
				}
				for _, a := range vals {
					visit(a)
				}
				var follow func(q *prover, calls []carrierCall, d int)
				follow = func(q *prover, calls []carrierCall, d int) {
					for _, cc := range calls {
						callee := cc.Call.Common().StaticCallee()
						if callee == nil || !inModule(callee) || callee.Blocks == nil || d >= 3 || len(cc.Call.Common().Args) != len(callee.Params) {
							if q.ix.callMayWriteElems(q.fn, cc.Call, elem) {
								good = false
							}
							continue
						}
						cv, cst, ccalls, okH := structFieldAliases(callee.Params[cc.Arg], k, 0)
						if !okH || len(cst) != 0 {
							good = false
							continue
						}
						pc := q.ix.proverFor(callee)
						for _, a := range cv {
							if !pc.elemStoresNonNeg(a, elem, depth+1) {
								good = false
							}
						}
						follow(pc, ccalls, d+1)
					}
				}
				follow(p, calls, depth)
			default:
				good = false
			}
		}
	}
	visit(root)
	return good
}

// callMayWriteElems: may the callee(s) store into elements of a slice with this element type?
func (ix *idxEngine) callMayWriteElems(fn *ssa.Function, ci ssa.CallInstruction, elem types.Type) bool {
	cc := ci.Common()
	if cc.StaticCallee() == nil && ix.eff.siteCallsUnknown(fn, ci) {
		return true
	}
	for _, f := range ix.eff.calleesAt(fn, ci) {
		s := ix.eff.sums[f]
		if s == nil {
			return true // unanalysed callee given the slice: assume it may write
		}
		for _, ef := range s.Effects {
			if ef.Org.Kind == orgParam || ef.Org.Kind == orgHeap {
				if st, ok := ef.At.(*ssa.Store); ok {
					if _, isIdx := st.Addr.(*ssa.IndexAddr); isIdx && types.Identical(st.Val.Type(), elem) {
						return true
					}
				}
				if ef.What == "copy" || ef.What == "append" {
					return true
				}
			}
		}
	}
	return false
}

// relationalInvariants: for two induction variables of the same loop header, infer  j <= a*i + b  (and the
// mirror lower bound) from small templates, keeping a template only if it is inductive:
// it holds on entry and is preserved along every back edge (checked with the prover, which case-splits the
// merge phis of the loop body).
func (p *prover) relationalInvariants(j *ssa.Phi, tj string) []constraint {
	if c, ok := p.relCache[tj]; ok {
		return c
	}
	p.relCache[tj] = nil // guard against re-entry while proving
	var out []constraint
	hdr := j.Block()
	for _, in := range hdr.Instrs {
		i, ok := in.(*ssa.Phi)
		if !ok {
			break
		}
		if i == j || !isIntType(i.Type()) || !isIntType(j.Type()) {
			continue
		}
		ti := p.canon(i)
		for _, a := range []int64{1, 2} {
			found := false
			for _, b := range []int64{-1, 0, 1, 2} {
				// candidate: j <= a*i + b
				inv := func(jv, iv lin) constraint {
					return leq(jv, iv.scale(a).add(linConst(b)), fmt.Sprintf("loop invariant %s <= %d*%s%+d (inductive: checked on entry and along every back edge)", j.Comment, a, i.Comment, b))
				}
				if p.inductive(j, i, inv, tj, ti) {
					out = append(out, inv(linTerm(tj), linTerm(ti)))
					found = true
					break
				}
			}
			if found {
				break
			}
		}
	}
	p.relCache[tj] = out
	return out
}

func (p *prover) inductive(j, i *ssa.Phi, inv func(jv, iv lin) constraint, tj, ti string) bool {
	hdr := j.Block()
	for k, pred := range hdr.Preds {
		jv, iv := p.linOf(j.Edges[k]), p.linOf(i.Edges[k])
		goal := inv(jv, iv)
		last := pred.Instrs[len(pred.Instrs)-1]
		if hdr.Dominates(pred) {
			// back edge: assume the invariant for the current values
			hyp := inv(linTerm(tj), linTerm(ti))
			if ok, _ := p.prove(goal, last, []constraint{hyp}, 1); !ok {
				return false
			}
		} else {
			if ok, _ := p.prove(goal, last, nil, 1); !ok {
				return false
			}
		}
	}
	return true
}

// rangeCounterFacts: a counter incremented exactly once per iteration of a range over a map (or slice) X,
// starting at a constant c0, satisfies counter <= c0 + len(X) - 1 inside the body, provided X is not
// modified by the loop.
func (p *prover) rangeCounterFacts(cnt *ssa.Phi, t string, at ssa.Instruction) []constraint {
	hdr := cnt.Block()
	var next *ssa.Next
	for _, in := range hdr.Instrs {
		if n, ok := in.(*ssa.Next); ok {
			next = n
		}
	}
	if next == nil {
		return nil
	}
	rng, ok := next.Iter.(*ssa.Range)
	if !ok {
		return nil
	}
	// the phi must be (c0 from outside, cnt+1 from every back edge)
	var c0 int64
	for k, pred := range hdr.Preds {
		if hdr.Dominates(pred) {
			e := p.linOf(cnt.Edges[k]).sub(linTerm(t))
			if !e.isConst() || e.k != 1 {
				return nil
			}
		} else {
			k0, ok := constInt(cnt.Edges[k])
			if !ok {
				return nil
			}
			c0 = k0
		}
	}
	// body = blocks dominated by the ok-true successor of the header's test
	iff, ok := hdr.Instrs[len(hdr.Instrs)-1].(*ssa.If)
	if !ok {
		return nil
	}
	ex, ok := iff.Cond.(*ssa.Extract)
	if !ok || ex.Tuple != ssa.Value(next) || ex.Index != 0 {
		return nil
	}
	body := hdr.Succs[0]
	if !edgeControls(hdr, body, at.Block()) {
		return nil
	}
	// X must not be modified inside the loop
	X := rng.X
	bad := false
	for _, b := range p.fn.Blocks {
		if !body.Dominates(b) {
			continue
		}
		for _, in := range b.Instrs {
			switch y := in.(type) {
			case *ssa.MapUpdate:
				if p.canon(y.Map) == p.canon(X) {
					bad = true
				}
			case ssa.CallInstruction:
				if b, ok := y.Common().Value.(*ssa.Builtin); ok {
					if b.Name() == "delete" || b.Name() == "clear" {
						bad = true
					}
					continue
				}
				bad = true // any call inside the loop could modify the collection
			}
		}
	}
	if bad {
		return nil
	}
	var l lin
	if _, isMap := X.Type().Underlying().(*types.Map); isMap {
		l = linTerm("len(" + p.canon(X) + ")")
	} else {
		l = p.lenOf(X)
	}
	return []constraint{leq(linTerm(t), l.add(linConst(c0-1)), "counter of a range loop is below the collection's length (collection not modified in the loop)")}
}

// headerBoundInvariant: for `for x := c0; x < N; x += k` with N defined outside the loop, x <= N (or the
// analogous relaxed form of the header test) is kept as a fact when it is inductive.
func (p *prover) headerBoundInvariant(x *ssa.Phi, t string) []constraint {
	key := "hdr:" + t
	if c, ok := p.relCache[key]; ok {
		return c
	}
	p.relCache[key] = nil
	hdr := x.Block()
	iff, ok := hdr.Instrs[len(hdr.Instrs)-1].(*ssa.If)
	if !ok {
		return nil
	}
	b, ok := iff.Cond.(*ssa.BinOp)
	if !ok {
		return nil
	}
	outside := func(v ssa.Value) bool {
		switch y := v.(type) {
		case *ssa.Const, *ssa.Parameter:
			return true
		case ssa.Instruction:
			return !hdr.Dominates(y.Block())
		}
		return false
	}
	var bound ssa.Value
	switch {
	case b.X == ssa.Value(x) && outside(b.Y) && (b.Op == token.LSS || b.Op == token.LEQ):
		bound = b.Y
	case b.Y == ssa.Value(x) && outside(b.X) && (b.Op == token.GTR || b.Op == token.GEQ):
		bound = b.X
	default:
		return nil
	}
	N := p.linOf(bound)
	slack := int64(0)
	if b.Op == token.LEQ || b.Op == token.GEQ {
		slack = 1
	}
	inv := func(xv lin) constraint {
		return leq(xv, N.add(linConst(slack)), "loop invariant "+x.Comment+" <= bound of the loop test (inductive)")
	}
	for k, pred := range hdr.Preds {
		goal := inv(p.linOf(x.Edges[k]))
		last := pred.Instrs[len(pred.Instrs)-1]
		var hyp []constraint
		if hdr.Dominates(pred) {
			hyp = []constraint{inv(linTerm(t))}
		}
		if ok, _ := p.prove(goal, last, hyp, 1); !ok {
			return nil
		}
	}
	out := []constraint{inv(linTerm(t))}
	p.relCache[key] = out
	return out
}

// entryLowerBoundInvariant: a loop variable that starts at the constant c0 and is only ever replaced by
// values proved >= c0 (under the conditions of the edge that carries them) stays >= c0.
func (p *prover) entryLowerBoundInvariant(x *ssa.Phi, t string) []constraint {
	key := "elb:" + t
	if c, ok := p.relCache[key]; ok {
		return c
	}
	p.relCache[key] = nil
	hdr := x.Block()
	var c0 int64
	have := false
	for k, pred := range hdr.Preds {
		if hdr.Dominates(pred) {
			continue
		}
		k0, ok := constInt(x.Edges[k])
		if !ok || (have && k0 != c0) {
			return nil
		}
		c0, have = k0, true
	}
	if !have {
		return nil
	}
	inv := func(v lin) constraint {
		return leq(linConst(c0), v, "loop invariant "+x.Comment+" >= its initial value (inductive)")
	}
	for k, pred := range hdr.Preds {
		if !hdr.Dominates(pred) {
			continue
		}
		last := pred.Instrs[len(pred.Instrs)-1]
		if ok, _ := p.prove(inv(p.linOf(x.Edges[k])), last, []constraint{inv(linTerm(t))}, 1); !ok {
			return nil
		}
	}
	out := []constraint{inv(linTerm(t))}
	p.relCache[key] = out
	return out
}

// entryUpperBoundInvariant: the dual for count-down loops (for i := len(s)-1; i >= 0; i--): a loop variable
// that starts at a value E computed before the loop and is only ever replaced by values proved <= E stays <= E.
func (p *prover) entryUpperBoundInvariant(x *ssa.Phi, t string) []constraint {
	key := "eub:" + t
	if c, ok := p.relCache[key]; ok {
		return c
	}
	p.relCache[key] = nil
	hdr := x.Block()
	var e0 ssa.Value
	for k, pred := range hdr.Preds {
		if hdr.Dominates(pred) {
			continue
		}
		e := x.Edges[k]
		switch y := e.(type) {
		case *ssa.Const, *ssa.Parameter:
		case ssa.Instruction:
			if hdr.Dominates(y.Block()) {
				return nil
			}
		default:
			return nil
		}
		if e0 != nil && e0 != e {
			return nil
		}
		e0 = e
	}
	if e0 == nil || !isIntType(e0.Type()) {
		return nil
	}
	N := p.linOf(e0)
	inv := func(v lin) constraint {
		return leq(v, N, "loop invariant "+x.Comment+" <= its initial value (inductive)")
	}
	for k, pred := range hdr.Preds {
		if !hdr.Dominates(pred) {
			continue
		}
		last := pred.Instrs[len(pred.Instrs)-1]
		if ok, _ := p.prove(inv(p.linOf(x.Edges[k])), last, []constraint{inv(linTerm(t))}, 1); !ok {
			return nil
		}
	}
	out := []constraint{inv(linTerm(t))}
	p.relCache[key] = out
	return out
}

// resultNonNegFacts: v is an integer result of a module function. If every return of the callee yields a value
// proved >= 0 under the assumption that its integer parameters are >= 0, and each integer argument is proved >= 0
// at the call, then v >= 0.
func (ix *idxEngine) resultNonNegFacts(p *prover, v ssa.Value, t string) []constraint {
	var call *ssa.Call
	k := 0
	switch x := v.(type) {
	case *ssa.Extract:
		call, _ = x.Tuple.(*ssa.Call)
		k = x.Index
	case *ssa.Call:
		call = x
	}
	if call == nil || !isIntType(v.Type()) {
		return nil
	}
	callee := call.Call.StaticCallee()
	if callee == nil || !inModule(callee) || callee.Blocks == nil || callee == p.fn || len(call.Call.Args) != len(callee.Params) {
		return nil
	}
	key := "resnn:" + t
	if c, ok := p.relCache[key]; ok {
		return c
	}
	p.relCache[key] = nil
	pc := ix.proverFor(callee)
	var hyp []constraint
	var intParams []int
	for i, par := range callee.Params {
		if isIntType(par.Type()) {
			hyp = append(hyp, leq(linConst(0), linTerm(pc.canon(par)), "assumed of the argument"))
			intParams = append(intParams, i)
		}
	}
	for _, ret := range returnsOf(callee) {
		rv := results(ret)
		if k >= len(rv) {
			return nil
		}
		if ok, _ := pc.prove(leq(linConst(0), pc.linOf(rv[k]), "result >= 0"), ret, hyp, 1); !ok {
			return nil
		}
	}
	for _, i := range intParams {
		if ok, _ := p.prove(leq(linConst(0), p.linOf(call.Call.Args[i]), "argument >= 0"), call, nil, 2); !ok {
			return nil
		}
	}
	out := []constraint{leq(linConst(0), linTerm(t), "every return of "+FuncName(callee)+" is >= 0 for non-negative arguments, and the arguments here are")}
	p.relCache[key] = out
	return out
}
