package main

import "testing"

func TestFM(t *testing.T) {
	i, n, m := linTerm("i"), linTerm("n"), linTerm("m")
	facts := []constraint{lt(i, n, ""), leq(n, m, "")}
	if !entails(facts, lt(i, m, "")) {
		t.Fatal("i<n, n<=m should give i<m")
	}
	if entails(facts, lt(m, i, "")) {
		t.Fatal("unsound")
	}
	if entails([]constraint{leq(i, n, "")}, lt(i, n, "")) {
		t.Fatal("i<=n does not give i<n")
	}
	// csvEscape: j <= 2i+1, i < n  =>  j < 2n+2 - 1... goal j+1 <= 2n+1
	j := linTerm("j")
	facts = []constraint{leq(j, i.scale(2).add(linConst(1)), ""), lt(i, n, "")}
	if !entails(facts, lt(j.add(linConst(1)), n.scale(2).add(linConst(2)), "")) {
		t.Fatal("bexp")
	}
	// integer tightening: 2x <= 1  => x <= 0
	x := linTerm("x")
	if !entails([]constraint{leq(x.scale(2), linConst(1), "")}, leq(x, linConst(0), "")) {
		t.Fatal("integer division")
	}
}
