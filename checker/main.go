package main

import (
	"fmt"
	"golang.org/x/tools/go/callgraph/cha"
	"golang.org/x/tools/go/callgraph/vta"
	"golang.org/x/tools/go/packages"
	"golang.org/x/tools/go/ssa"
	"golang.org/x/tools/go/ssa/ssautil"
)

func main() {
	cfg := &packages.Config{Mode: packages.LoadAllSyntax, Dir: "/repo"}
	pkgs, err := packages.Load(cfg, "./...")
	if err != nil {
		panic(err)
	}
	prog, spkgs := ssautil.AllPackages(pkgs, ssa.InstantiateGenerics)
	prog.Build()
	cg := vta.CallGraph(ssautil.AllFunctions(prog), cha.CallGraph(prog))
	fmt.Println(len(pkgs), len(spkgs), len(cg.Nodes))
}
