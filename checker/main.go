// tabverif: repository-specific static checker for PennockTech/tabular.
// It decides (structural necessary conditions of) the properties C01..C19 of
// /verif/properties.jsonl from the type-checked SSA form of /repo's working
// tree.  It never executes tabular code.  See /verif/DESIGN.md.
package main

import (
	"flag"
	"fmt"
	"go/types"
	"os"
	"runtime/debug"
	"sort"
	"strconv"
	"strings"
)

type propDef struct {
	run func(c *Ctx)
}

var props = map[string]propDef{}

func register(id string, run func(c *Ctx)) { props[id] = propDef{run} }

func main() {
	prop := flag.String("prop", "", "property id (C01..C19)")
	tier := flag.String("tier", "quick", "quick|thorough")
	repo := flag.String("repo", "/repo", "tabular source tree")
	out := flag.String("out", "", "evidence file to write")
	known := flag.String("known", "", "known-findings file")
	goarch := flag.String("goarch", "", "GOARCH for loading")
	tags := flag.String("tags", "", "build tags for loading")
	dump := flag.String("dump", "", "debug: dump obligations of this engine")
	cgKind := flag.String("cg", "vta", "call graph: vta (default) or cha (superset, for cross-checking)")
	flag.Parse()
	seed := 0
	if s := os.Getenv("VERIF_SEED"); s != "" {
		seed, _ = strconv.Atoi(s)
	}
	if *prop == "list" {
		ids := []string{}
		for id := range props {
			ids = append(ids, id)
		}
		sort.Strings(ids)
		for _, id := range ids {
			fmt.Println(id)
		}
		return
	}
	pd, ok := props[*prop]
	if !ok {
		fatalf("unknown property %q", *prop)
	}
	r := NewReport(*prop, *tier, seed)
	if *known != "" {
		r.LoadKnown(*known)
	}
	code := 2
	func() {
		defer func() {
			if e := recover(); e != nil {
				fmt.Fprintf(os.Stderr, "tabverif: internal panic: %v\n%s", e, debug.Stack())
				fmt.Printf("VIOLATION property=%s replay=%s\n", *prop, *out)
				code = 1
			}
		}()
		c := Load(*repo, *goarch, *tags)
		if *cgKind == "cha" {
			c.CG = c.CHA
		}
		c.CGKind = *cgKind
		c.R = r
		r.c = c
		c.Tier = *tier
		c.Dump = *dump
		c.indexFields()
		pd.run(c)
		code = r.Finish(*out)
	}()
	os.Exit(code)
}

// indexFields records, for every struct field of a module named type, "Type.field".
func (c *Ctx) indexFields() {
	c.fieldOwner = map[*types.Var]string{}
	for _, p := range c.All {
		if p.Types == nil || !(strings.HasPrefix(p.PkgPath, modPath) || strings.HasPrefix(p.PkgPath, "github.com/mattn/go-runewidth") || strings.HasPrefix(p.PkgPath, "github.com/rivo/uniseg")) {
			continue
		}
		sc := p.Types.Scope()
		for _, name := range sc.Names() {
			tn, ok := sc.Lookup(name).(*types.TypeName)
			if !ok {
				continue
			}
			st, ok := tn.Type().Underlying().(*types.Struct)
			if !ok {
				continue
			}
			for i := 0; i < st.NumFields(); i++ {
				c.fieldOwner[st.Field(i)] = tn.Name() + "." + st.Field(i).Name()
			}
		}
		// package-level vars of anonymous struct type (decoration.registry)
		for _, name := range sc.Names() {
			v, ok := sc.Lookup(name).(*types.Var)
			if !ok {
				continue
			}
			if st, ok := v.Type().(*types.Struct); ok {
				for i := 0; i < st.NumFields(); i++ {
					c.fieldOwner[st.Field(i)] = v.Name() + "." + st.Field(i).Name()
				}
			}
		}
	}
}
