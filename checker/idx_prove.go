package main

import (
	"fmt"
	"go/token"
	"go/types"
	"os"
	"sort"
	"strings"

	"golang.org/x/tools/go/ssa"
)

// ---- per-function prover -------------------------------------------------------

type prover struct {
	ix         *idxEngine
	fn         *ssa.Function
	ids        map[ssa.Value]int
	rep        map[ssa.Value]ssa.Value // load -> representative load proven equal (same memory version)
	fwd        map[ssa.Value]ssa.Value // load -> stored value it must equal (store->load forwarding)
	lbIn       map[string]bool         // recursion guard for lower bounds
	blockIdx   map[*ssa.BasicBlock]int
	reachCache map[[2]int]bool
	assume     []constraint // extra assumptions (tabled premises) for this function
	boolAssume map[string]bool
	quoGuard   map[string]int
	relCache   map[string][]constraint
}

func (ix *idxEngine) proverFor(fn *ssa.Function) *prover {
	if p, ok := ix.provers[fn]; ok {
		return p
	}
	p := &prover{ix: ix, fn: fn, ids: map[ssa.Value]int{}, rep: map[ssa.Value]ssa.Value{}, fwd: map[ssa.Value]ssa.Value{},
		lbIn: map[string]bool{}, blockIdx: map[*ssa.BasicBlock]int{}, reachCache: map[[2]int]bool{}, boolAssume: map[string]bool{}, quoGuard: map[string]int{}, relCache: map[string][]constraint{}}
	for i, b := range fn.Blocks {
		p.blockIdx[b] = i
	}
	n := 0
	for _, par := range fn.Params {
		p.ids[par] = n
		n++
	}
	for _, fv := range fn.FreeVars {
		p.ids[fv] = n
		n++
	}
	eachInstr(fn, func(in ssa.Instruction) {
		if v, ok := in.(ssa.Value); ok {
			p.ids[v] = n
			n++
		}
	})
	ix.provers[fn] = p
	p.computeMemory()
	return p
}

// blockReaches: is there a path of length >= 0 from a to b?
func (p *prover) blockReaches(a, b *ssa.BasicBlock) bool {
	key := [2]int{p.blockIdx[a], p.blockIdx[b]}
	if v, ok := p.reachCache[key]; ok {
		return v
	}
	r := blockReach(a, nil)[b]
	p.reachCache[key] = r
	return r
}

// between lists the instructions that can execute after `from` and before `to`
// on some path from `from` to `to` that does not pass through `from` again.
func (p *prover) between(from, to ssa.Instruction) []ssa.Instruction {
	var out []ssa.Instruction
	fb, tb := from.Block(), to.Block()
	fi, ti := instrIndex(from), instrIndex(to)
	if fb == tb && fi < ti {
		out = append(out, fb.Instrs[fi+1:ti]...)
		// plus a loop around through other blocks back to tb: requires passing `from` again (same block, from precedes to),
		// unless the loop re-enters the block... it re-enters at the top, passing `from` again.  So done.
		return out
	}
	out = append(out, fb.Instrs[fi+1:]...)
	// blocks strictly between: reachable from fb's successors without passing fb, and reaching tb
	seen := map[*ssa.BasicBlock]bool{}
	var walk func(b *ssa.BasicBlock)
	walk = func(b *ssa.BasicBlock) {
		if seen[b] || b == fb {
			return
		}
		seen[b] = true
		for _, s := range b.Succs {
			walk(s)
		}
	}
	for _, s := range fb.Succs {
		walk(s)
	}
	for b := range seen {
		if b == tb {
			continue
		}
		if p.blockReachesAvoiding(b, tb, fb) {
			out = append(out, b.Instrs...)
		}
	}
	if seen[tb] {
		// tb may also be traversed completely on a cycle back to itself before the final visit
		cyc := false
		for _, s := range tb.Succs {
			if s != fb && p.blockReachesAvoiding(s, tb, fb) {
				cyc = true
			}
		}
		if cyc {
			out = append(out, tb.Instrs...)
		} else {
			out = append(out, tb.Instrs[:ti]...)
		}
	}
	return out
}

func (p *prover) blockReachesAvoiding(a, b, avoid *ssa.BasicBlock) bool {
	seen := map[*ssa.BasicBlock]bool{}
	var walk func(x *ssa.BasicBlock) bool
	walk = func(x *ssa.BasicBlock) bool {
		if x == avoid || seen[x] {
			return false
		}
		if x == b {
			return true
		}
		seen[x] = true
		for _, s := range x.Succs {
			if walk(s) {
				return true
			}
		}
		return false
	}
	return walk(a)
}

// ---- memory: which loads are known equal to an earlier load or to a stored value ----

type memLoc struct {
	kind  string // "field" | "elem"
	base  string // canon of struct pointer / slice value
	field *types.Var
	index string // canon lin of the index for elem
}

func (p *prover) locOf(addr ssa.Value) (memLoc, bool) {
	switch a := addr.(type) {
	case *ssa.FieldAddr:
		return memLoc{kind: "field", base: p.canon(a.X), field: fieldOfFieldAddr(a)}, true
	case *ssa.IndexAddr:
		if _, isSlice := a.X.Type().Underlying().(*types.Slice); !isSlice {
			return memLoc{}, false
		}
		return memLoc{kind: "elem", base: p.canon(a.X), index: p.linOf(a.Index).String()}, true
	}
	return memLoc{}, false
}

// mayWrite: can instruction `in` change the contents of location loc (of element/field type t)?
func (p *prover) mayWrite(in ssa.Instruction, loc memLoc, t types.Type, localSlice ssa.Value) bool {
	switch x := in.(type) {
	case *ssa.Store:
		at, ok := x.Addr.Type().Underlying().(*types.Pointer)
		if !ok || !types.Identical(at.Elem(), t) {
			return false
		}
		if loc.kind == "field" {
			if fa, ok := x.Addr.(*ssa.FieldAddr); ok {
				return fieldOfFieldAddr(fa) == loc.field
			}
			if _, ok := x.Addr.(*ssa.IndexAddr); ok {
				return false // element of a slice/array, not a struct field
			}
			if _, ok := x.Addr.(*ssa.Alloc); ok {
				return false
			}
			return true // store through a pointer variable of matching type
		}
		// elem
		if ia, ok := x.Addr.(*ssa.IndexAddr); ok {
			_ = ia
			return true // some element of a slice of the same element type (possibly the same one)
		}
		if _, ok := x.Addr.(*ssa.FieldAddr); ok {
			return false
		}
		if _, ok := x.Addr.(*ssa.Alloc); ok {
			return false
		}
		return true
	case ssa.CallInstruction:
		cc := x.Common()
		if b, ok := cc.Value.(*ssa.Builtin); ok {
			switch b.Name() {
			case "copy":
				return loc.kind == "elem"
			case "append":
				return false // append writes beyond len only
			}
			return false
		}
		if loc.kind == "field" && p.ix.immutableField(loc.field) {
			return false
		}
		return p.ix.callMayWrite(p.fn, x, loc, localSlice)
	}
	return false
}

// computeMemory finds, for every load of a struct field or local-slice element, an equal earlier value.
func (p *prover) computeMemory() {
	type acc struct {
		in   ssa.Instruction
		loc  memLoc
		val  ssa.Value // loaded value or stored value
		isSt bool
		t    types.Type
		sl   ssa.Value
	}
	var accs []acc
	eachInstr(p.fn, func(in ssa.Instruction) {
		switch x := in.(type) {
		case *ssa.UnOp:
			if x.Op != token.MUL {
				return
			}
			if loc, ok := p.locOf(x.X); ok {
				var sl ssa.Value
				if ia, ok := x.X.(*ssa.IndexAddr); ok {
					sl = ia.X
				}
				accs = append(accs, acc{in, loc, x, false, x.Type(), sl})
			}
		case *ssa.Store:
			if loc, ok := p.locOf(x.Addr); ok {
				var sl ssa.Value
				if ia, ok := x.Addr.(*ssa.IndexAddr); ok {
					sl = ia.X
				}
				accs = append(accs, acc{in, loc, x.Val, true, x.Val.Type(), sl})
			}
		}
	})
	for i, l := range accs {
		if l.isSt {
			continue
		}
		nonLocal := l.loc.kind == "elem" && !p.localSliceOK(l.sl)
		// latest dominating access to the same location with nothing that may write it in between
		var best *acc
		for j := range accs {
			if j == i {
				continue
			}
			a := &accs[j]
			if a.loc != l.loc || !types.Identical(a.t, l.t) {
				continue
			}
			if nonLocal && a.isSt {
				continue // only load->load equality for slices this function did not make
			}
			if !instrDominates(a.in, l.in) {
				continue
			}
			clean := true
			for _, mid := range p.between(a.in, l.in) {
				if mid == a.in {
					continue
				}
				sl := l.sl
				if nonLocal {
					sl = nil
				}
				if p.mayWrite(mid, l.loc, l.t, sl) {
					// the same store re-executed is fine only if it is a itself
					clean = false
					break
				}
			}
			if !clean {
				continue
			}
			if best == nil || instrDominates(best.in, a.in) {
				best = a
			}
		}
		if best == nil {
			continue
		}
		if best.isSt {
			p.fwd[l.val] = best.val
		} else {
			p.rep[l.val] = best.val
		}
	}
}

// localSliceOK: the slice value's elements can only be written by this function's own stores
// (it is made here, or is a parameter/call result whose elements nobody else writes during the call:
// for forwarding we only accept slices made here and not handed to anyone).
func (p *prover) localSliceOK(sl ssa.Value) bool {
	if sl == nil {
		return false
	}
	if _, ok := sl.(*ssa.MakeSlice); !ok {
		return false
	}
	return true
}

func (p *prover) resolve(v ssa.Value) ssa.Value {
	for i := 0; i < 20; i++ {
		if r, ok := p.fwd[v]; ok {
			v = r
			continue
		}
		if r, ok := p.rep[v]; ok {
			v = r
			continue
		}
		// a load of a once-assigned variable (one that a closure captures, so that it lives in a cell) is the value
		// assigned, when that value belongs to this function
		if u, ok := v.(*ssa.UnOp); ok && u.Op == token.MUL {
			// (likewise a once-assigned field of a local struct that only groups values)
			if fv := localFieldValue(u); fv != nil {
				if ci, isI := fv.(ssa.Instruction); isI && ci.Parent() == p.fn {
					v = fv
					continue
				}
				if cp, isP := fv.(*ssa.Parameter); isP && cp.Parent() == p.fn {
					v = fv
					continue
				}
			}
			if al, isAl := u.X.(*ssa.Alloc); isAl {
				if cv := cellValue(al); cv != nil {
					if ci, isI := cv.(ssa.Instruction); isI && ci.Parent() == p.fn {
						v = cv
						continue
					}
					if cp, isP := cv.(*ssa.Parameter); isP && cp.Parent() == p.fn {
						v = cv
						continue
					}
				}
			}
		}
		break
	}
	return v
}

// ---- canonical names -----------------------------------------------------------

func (p *prover) canon(v ssa.Value) string {
	v = p.resolve(v)
	switch x := v.(type) {
	case *ssa.Const:
		if x.Value == nil {
			return "nil:" + shortType(x.Type())
		}
		return "k:" + x.Value.ExactString()
	case *ssa.Parameter:
		return "p:" + x.Name()
	case *ssa.FreeVar:
		return "fv:" + x.Name()
	case *ssa.Global:
		return "g:" + x.Pkg.Pkg.Path() + "." + x.Name()
	case *ssa.Field:
		return "fld(" + p.canon(x.X) + "." + fieldOfField(x).Name() + ")"
	case *ssa.ChangeType:
		return p.canon(x.X)
	case *ssa.Extract:
		return fmt.Sprintf("ext(%s,%d)", p.canon(x.Tuple), x.Index)
	case *ssa.UnOp:
		if x.Op == token.NOT {
			return "!(" + p.canon(x.X) + ")"
		}
		if x.Op == token.MUL {
			switch x.X.(type) {
			case *ssa.Alloc, *ssa.FreeVar:
				if cv := cellValue(x.X); cv != nil {
					if ci, ok := cv.(ssa.Instruction); ok && ci.Parent() == p.fn {
						return p.canon(cv)
					}
					if cp, ok := cv.(*ssa.Parameter); ok && cp.Parent() == p.fn {
						return p.canon(cv)
					}
					return "cap:" + x.X.Name() // a once-assigned variable of the enclosing function
				}
			}
			if g, ok := x.X.(*ssa.Global); ok && p.ix.c.immutableGlobalHeader(g) {
				return "gv:" + g.Pkg.Pkg.Path() + "." + g.Name() // every load of a never-reassigned variable is the same value
			}
			// field of a by-value parameter that go/ssa spilled into a local
			if fa, ok := x.X.(*ssa.FieldAddr); ok {
				if al, ok := fa.X.(*ssa.Alloc); ok {
					if par := p.spillOf(al); par != nil {
						return "fld(" + p.canon(par) + "." + fieldOfFieldAddr(fa).Name() + ")"
					}
				}
			}
		}
	case *ssa.BinOp:
		switch x.Op {
		case token.EQL, token.NEQ, token.LSS, token.LEQ, token.GTR, token.GEQ:
			return "(" + p.canon(x.X) + " " + x.Op.String() + " " + p.canon(x.Y) + ")"
		}
	case *ssa.Call:
		if b, ok := x.Call.Value.(*ssa.Builtin); ok && (b.Name() == "len" || b.Name() == "cap") {
			return b.Name() + "(" + p.canon(x.Call.Args[0]) + ")"
		}
	}
	if id, ok := p.ids[v]; ok {
		return fmt.Sprintf("v%d:%s", id, v.Name())
	}
	return fmt.Sprintf("x:%p", v)
}

// linOf expresses an integer SSA value as a linear expression over canonical terms.
func (p *prover) linOf(v ssa.Value) lin {
	v = p.resolve(v)
	switch x := v.(type) {
	case *ssa.Const:
		if k, ok := constInt(x); ok {
			return linConst(k)
		}
	case *ssa.BinOp:
		switch x.Op {
		case token.ADD:
			if isIntType(x.Type()) {
				return p.linOf(x.X).add(p.linOf(x.Y))
			}
		case token.SUB:
			return p.linOf(x.X).sub(p.linOf(x.Y))
		case token.MUL:
			if k, ok := constInt(x.X); ok {
				return p.linOf(x.Y).scale(k)
			}
			if k, ok := constInt(x.Y); ok {
				return p.linOf(x.X).scale(k)
			}
		}
	case *ssa.Convert:
		if isIntType(x.Type()) && isIntType(x.X.Type()) {
			return p.linOf(x.X)
		}
	case *ssa.ChangeType:
		return p.linOf(x.X)
	case *ssa.Call:
		if b, ok := x.Call.Value.(*ssa.Builtin); ok && b.Name() == "len" {
			return p.lenOf(x.Call.Args[0])
		}
	}
	return linTerm(p.canon(v))
}

func isIntType(t types.Type) bool {
	b, ok := t.Underlying().(*types.Basic)
	return ok && b.Info()&types.IsInteger != 0
}

// lenOf expresses len(v) for a slice/string/array value.
func (p *prover) lenOf(v ssa.Value) lin {
	v = p.resolve(v)
	switch t := v.Type().Underlying().(type) {
	case *types.Array:
		return linConst(t.Len())
	case *types.Pointer:
		if at, ok := t.Elem().Underlying().(*types.Array); ok {
			return linConst(at.Len())
		}
	}
	switch x := v.(type) {
	case *ssa.Const:
		if s, ok := constString(x); ok {
			return linConst(int64(len(s)))
		}
		if x.Value == nil {
			return linConst(0) // nil slice / zero string
		}
	case *ssa.MakeSlice:
		return p.linOf(x.Len)
	case *ssa.Slice:
		var hi lin
		if x.High != nil {
			hi = p.linOf(x.High)
		} else {
			hi = p.lenOf(x.X)
		}
		if x.Low != nil {
			return hi.sub(p.linOf(x.Low))
		}
		return hi
	case *ssa.ChangeType:
		return p.lenOf(x.X)
	case *ssa.Convert:
		// string <-> []byte keep the length; string(rune)/[]rune(string) do not
		if isByteSliceOrString(x.Type()) && isByteSliceOrString(x.X.Type()) {
			return p.lenOf(x.X)
		}
	case *ssa.Call:
		if b, ok := x.Call.Value.(*ssa.Builtin); ok && b.Name() == "append" {
			if len(x.Call.Args) == 2 {
				return p.lenOf(x.Call.Args[0]).add(p.lenOf(x.Call.Args[1]))
			}
			return p.lenOf(x.Call.Args[0])
		}
	}
	return linTerm("len(" + p.canon(v) + ")")
}

func isByteSliceOrString(t types.Type) bool {
	switch u := t.Underlying().(type) {
	case *types.Basic:
		return u.Kind() == types.String
	case *types.Slice:
		b, ok := u.Elem().Underlying().(*types.Basic)
		return ok && b.Kind() == types.Byte
	}
	return false
}

// ---- facts -----------------------------------------------------------------------

// condConstraints turns a branch condition known to be `val` into linear constraints.
func (p *prover) condConstraints(cond ssa.Value, val bool) []constraint {
	cond = p.resolve(cond)
	switch x := cond.(type) {
	case *ssa.UnOp:
		if x.Op == token.NOT {
			return p.condConstraints(x.X, !val)
		}
	case *ssa.BinOp:
		why := fmt.Sprintf("branch %s is %v", strings.TrimSpace(x.String()), val)
		op := x.Op
		if !val {
			switch op {
			case token.LSS:
				op = token.GEQ
			case token.LEQ:
				op = token.GTR
			case token.GTR:
				op = token.LEQ
			case token.GEQ:
				op = token.LSS
			case token.EQL:
				op = token.NEQ
			case token.NEQ:
				op = token.EQL
			default:
				return nil
			}
		}
		if isIntType(x.X.Type()) && isIntType(x.Y.Type()) {
			a, b := p.linOf(x.X), p.linOf(x.Y)
			switch op {
			case token.LSS:
				return []constraint{lt(a, b, why)}
			case token.LEQ:
				return []constraint{leq(a, b, why)}
			case token.GTR:
				return []constraint{lt(b, a, why)}
			case token.GEQ:
				return []constraint{leq(b, a, why)}
			case token.EQL:
				return []constraint{leq(a, b, why), leq(b, a, why)}
			case token.NEQ:
				// x != c where x >= c is known (a length, or a counter with that lower bound): x >= c+1
				d := a.sub(b)
				for _, sgn := range []int64{1, -1} {
					e := d.scale(sgn) // e != 0
					if len(e.coef) == 1 {
						for t, cf := range e.coef {
							if cf != 1 {
								continue
							}
							lbKnown := false
							var lb int64
							if strings.HasPrefix(t, "len(") {
								lbKnown, lb = true, 0
							} else if v, ok := p.termIndex().ints[t]; ok {
								if l, ok := p.lowerBoundInt(v, 0); ok && l < 1<<40 {
									lbKnown, lb = true, l
								}
							}
							if lbKnown && lb+e.k == 0 {
								return []constraint{leq(linConst(1), e, why+" (and the value is never below that)")}
							}
						}
					}
				}
			}
			return nil
		}
		// nil / "" comparisons give length facts
		lenFact := func(v, other ssa.Value) []constraint {
			isEmptyStr := false
			if s, ok := constString(other); ok && s == "" {
				isEmptyStr = true
			}
			if !isNil(other) && !isEmptyStr {
				return nil
			}
			switch v.Type().Underlying().(type) {
			case *types.Slice, *types.Basic:
			default:
				return nil
			}
			if b, ok := v.Type().Underlying().(*types.Basic); ok && b.Kind() != types.String {
				return nil
			}
			l := p.lenOf(v)
			switch op {
			case token.EQL:
				return []constraint{leq(l, linConst(0), why)}
			case token.NEQ:
				if isEmptyStr {
					return []constraint{leq(linConst(1), l, why)}
				}
			}
			return nil
		}
		if c := lenFact(x.X, x.Y); c != nil {
			return c
		}
		if c := lenFact(x.Y, x.X); c != nil {
			return c
		}
	}
	return nil
}

// edgeConds: the branch conditions known to hold when control goes pred -> succ.
func (p *prover) edgeConds(pred, succ *ssa.BasicBlock) []condFact {
	out := dominatingConds(pred)
	if iff, ok := pred.Instrs[len(pred.Instrs)-1].(*ssa.If); ok && pred.Succs[0] != pred.Succs[1] {
		if pred.Succs[0] == succ {
			out = append(out, condFact{iff.Cond, true, iff})
		} else if pred.Succs[1] == succ {
			out = append(out, condFact{iff.Cond, false, iff})
		}
	}
	return expandConds(out)
}

// lowerBound computes a constant c with term >= c by induction over phis (least fixpoint), if any.
func (p *prover) lowerBoundInt(v ssa.Value, depth int) (int64, bool) {
	v = p.resolve(v)
	if depth > 12 {
		return 0, false
	}
	key := p.canon(v)
	if p.lbIn[key] {
		return 1 << 40, true // neutral element for min: the phi's own previous value
	}
	switch x := v.(type) {
	case *ssa.Const:
		return constInt(x)
	case *ssa.Phi:
		p.lbIn[key] = true
		defer delete(p.lbIn, key)
		best := int64(1 << 40)
		for _, e := range x.Edges {
			lb, ok := p.lowerBoundInt(e, depth+1)
			if !ok {
				return 0, false
			}
			if lb < best {
				best = lb
			}
		}
		return best, true
	case *ssa.BinOp:
		switch x.Op {
		case token.ADD:
			a, ok1 := p.lowerBoundInt(x.X, depth+1)
			b, ok2 := p.lowerBoundInt(x.Y, depth+1)
			if ok1 && ok2 {
				if a >= 1<<40 || b >= 1<<40 {
					return 1 << 40, true
				}
				return a + b, true
			}
		case token.SUB:
			// x - k with constant k: only when x's bound is known
			if k, ok := constInt(x.Y); ok {
				if a, ok := p.lowerBoundInt(x.X, depth+1); ok {
					if a >= 1<<40 {
						return 0, false // a decreasing self-reference is not a lower-bound proof
					}
					return a - k, true
				}
			}
		case token.QUO:
			if k, ok := constInt(x.Y); ok && k > 0 {
				if a, ok := p.lowerBoundInt(x.X, depth+1); ok && a >= 0 && a < 1<<40 {
					return 0, true
				}
			}
		}
	case *ssa.Call:
		if b, ok := x.Call.Value.(*ssa.Builtin); ok && (b.Name() == "len" || b.Name() == "cap") {
			if lb, ok := p.lowerBoundLen(x.Call.Args[0], depth+1); ok {
				return lb, true
			}
			return 0, true
		}
		if lb, ok := p.ix.resultLowerBound(p.fn, x); ok {
			return lb, true
		}
	case *ssa.Extract:
		// index of a range over a slice/string: Next's key starts at 0
		if nx, ok := x.Tuple.(*ssa.Next); ok && x.Index == 1 {
			_ = nx
			return 0, true
		}
		// one of several results of a module function: non-negative when every return proves it so
		if call, ok := x.Tuple.(*ssa.Call); ok && isIntType(x.Type()) {
			if callees := p.ix.moduleCallees(p.fn, call); len(callees) > 0 {
				all := true
				for _, f := range callees {
					if !p.ix.funcResultNonNegIdx(f, x.Index) {
						all = false
					}
				}
				if all {
					return 0, true
				}
			}
		}
	case *ssa.UnOp:
		if x.Op == token.MUL {
			if f, _ := loadedField(x); f != nil {
				if lb, ok := p.ix.fieldLowerBound(f); ok {
					return lb, true
				}
			}
		}
	case *ssa.Field:
		if f := fieldOfField(x); f != nil {
			if lb, ok := p.ix.fieldLowerBound(f); ok {
				return lb, true
			}
		}
	case *ssa.Convert:
		if isIntType(x.Type()) && isIntType(x.X.Type()) {
			return p.lowerBoundInt(x.X, depth+1)
		}
	}
	return 0, false
}

// lowerBoundLen: constant lower bound of len(v).
func (p *prover) lowerBoundLen(v ssa.Value, depth int) (int64, bool) {
	v = p.resolve(v)
	if depth > 12 {
		return 0, true
	}
	key := "len:" + p.canon(v)
	if p.lbIn[key] {
		return 1 << 40, true
	}
	switch x := v.(type) {
	case *ssa.Const:
		if s, ok := constString(x); ok {
			return int64(len(s)), true
		}
		return 0, true
	case *ssa.Phi:
		p.lbIn[key] = true
		defer delete(p.lbIn, key)
		best := int64(1 << 40)
		for _, e := range x.Edges {
			lb, _ := p.lowerBoundLen(e, depth+1)
			if lb < best {
				best = lb
			}
		}
		if best == 1<<40 {
			return 0, true
		}
		return best, true
	case *ssa.MakeSlice:
		if lb, ok := p.lowerBoundInt(x.Len, depth+1); ok && lb < 1<<40 && lb > 0 {
			return lb, true
		}
		return 0, true
	case *ssa.Call:
		if b, ok := x.Call.Value.(*ssa.Builtin); ok && b.Name() == "append" {
			a, _ := p.lowerBoundLen(x.Call.Args[0], depth+1)
			if len(x.Call.Args) == 2 {
				b2, _ := p.lowerBoundLen(x.Call.Args[1], depth+1)
				if a >= 1<<40 {
					return a, true
				}
				return a + b2, true
			}
			return a, true
		}
		if f := x.Call.StaticCallee(); f != nil {
			if funcPkgPath(f) == "strings" && f.Name() == "Split" {
				if sep, ok := constString(x.Call.Args[1]); ok && sep != "" {
					return 1, true
				}
			}
		}
		if lb, ok := p.ix.resultLenLowerBound(x); ok {
			return lb, true
		}
	case *ssa.Slice:
		if at := arrayLenOfPtr(x.X.Type()); at >= 0 && x.Low == nil && x.High == nil {
			return at, true
		}
	}
	return 0, true
}

func arrayLenOfPtr(t types.Type) int64 {
	if pt, ok := t.Underlying().(*types.Pointer); ok {
		if at, ok := pt.Elem().Underlying().(*types.Array); ok {
			return at.Len()
		}
	}
	return -1
}

// valueOfTerm maps canonical term names back to SSA values seen while building expressions.
type termIndex struct {
	ints map[string]ssa.Value // term -> int value
	lens map[string]ssa.Value // "len(x)" term -> x
}

func (p *prover) indexTerms() *termIndex {
	ti := &termIndex{ints: map[string]ssa.Value{}, lens: map[string]ssa.Value{}}
	add := func(v ssa.Value) {
		if v == nil {
			return
		}
		rv := p.resolve(v)
		// a load of a once-assigned variable that a closure captures IS the value assigned (the canonical name says
		// so already): index the value itself, so that what is known about a call result or a parameter applies
		if u, ok := rv.(*ssa.UnOp); ok && u.Op == token.MUL {
			switch u.X.(type) {
			case *ssa.Alloc, *ssa.FreeVar:
				if cv := cellValue(u.X); cv != nil {
					if ci, ok := cv.(ssa.Instruction); ok && ci.Parent() == p.fn {
						rv = p.resolve(cv)
					} else if cp, ok := cv.(*ssa.Parameter); ok && cp.Parent() == p.fn {
						rv = cv
					}
				}
			}
		}
		if isIntType(rv.Type()) {
			if old, has := ti.ints[p.canon(rv)]; !has || isCellLoad(old) {
				ti.ints[p.canon(rv)] = rv
			}
		}
		switch rv.Type().Underlying().(type) {
		case *types.Slice, *types.Basic:
			if b, ok := rv.Type().Underlying().(*types.Basic); ok && b.Kind() != types.String {
				return
			}
			ti.lens["len("+p.canon(rv)+")"] = rv
		}
	}
	for _, par := range p.fn.Params {
		add(par)
	}
	eachInstr(p.fn, func(in ssa.Instruction) {
		if v, ok := in.(ssa.Value); ok {
			add(v)
		}
		for _, op := range in.Operands(nil) {
			if op != nil && *op != nil {
				add(*op)
			}
		}
	})
	return ti
}

// factsAt gathers the constraints that hold whenever `at` executes and that mention (transitively) the goal's terms.
func (p *prover) factsAt(at ssa.Instruction, goal constraint, extra []constraint) []constraint {
	var facts []constraint
	facts = append(facts, p.assume...)
	facts = append(facts, extra...)
	for _, cf := range expandConds(dominatingConds(at.Block())) {
		facts = append(facts, p.condConstraints(cf.Cond, cf.Val)...)
	}
	// conditions within the same block do not exist (one terminator per block)
	ti := p.termIndex()
	seen := map[string]bool{}
	for round := 0; round < 4; round++ {
		terms := map[string]bool{}
		for t := range goal.e.coef {
			terms[t] = true
		}
		for _, f := range facts {
			for t := range f.e.coef {
				terms[t] = true
			}
		}
		added := false
		names := make([]string, 0, len(terms))
		for t := range terms {
			names = append(names, t)
		}
		sort.Strings(names)
		for _, t := range names {
			if seen[t] {
				continue
			}
			seen[t] = true
			added = true
			if strings.HasPrefix(t, "cap:") {
				facts = append(facts, p.capturedFacts(t)...)
			}
			if v, ok := ti.lens[t]; ok {
				lb, _ := p.lowerBoundLen(v, 0)
				if lb >= 1<<40 {
					lb = 0
				}
				facts = append(facts, leq(linConst(lb), linTerm(t), "len >= "+fmt.Sprint(lb)))
				facts = append(facts, p.ix.lenFacts(p, v, t, at)...)
			} else if strings.HasPrefix(t, "len(") {
				facts = append(facts, leq(linConst(0), linTerm(t), "len >= 0"))
			}
			if v, ok := ti.ints[t]; ok {
				if lb, ok := p.lowerBoundInt(v, 0); ok && lb < 1<<40 {
					facts = append(facts, leq(linConst(lb), linTerm(t), "lower bound by induction"))
				}
				facts = append(facts, p.ix.intFacts(p, v, t, at)...)
			}
		}
		if !added {
			break
		}
	}
	return facts
}

func (p *prover) termIndex() *termIndex {
	if p.ix.tis[p.fn] == nil {
		p.ix.tis[p.fn] = p.indexTerms()
	}
	return p.ix.tis[p.fn]
}

// prove decides goal at instruction `at`, case-splitting on merge phis when needed.
func (p *prover) prove(goal constraint, at ssa.Instruction, extra []constraint, depth int) (bool, []constraint) {
	facts := p.factsAt(at, goal, extra)
	if entails(facts, goal) {
		return true, facts
	}
	if depth >= 3 {
		return false, facts
	}
	// case split on a merge phi whose term (or len term) occurs
	ti := p.termIndex()
	terms := map[string]bool{}
	for t := range goal.e.coef {
		terms[t] = true
	}
	for _, f := range facts {
		for t := range f.e.coef {
			terms[t] = true
		}
	}
	names := make([]string, 0, len(terms))
	for t := range terms {
		names = append(names, t)
	}
	sort.Strings(names)
	if os.Getenv("TABDBG") == "2" {
		fmt.Println("  split candidates", names, "depth", depth)
	}
	for _, t := range names {
		var phi *ssa.Phi
		isLen := false
		if v, ok := ti.ints[t]; ok {
			phi, _ = v.(*ssa.Phi)
		}
		if phi == nil {
			// (an explicit len(x) call shares its name with the length term of x)
			if v, ok := ti.lens[t]; ok {
				phi, _ = v.(*ssa.Phi)
				isLen = phi != nil
			}
		}
		if phi == nil || p.isLoopPhi(phi) {
			continue
		}
		if strings.Contains(fmt.Sprint(extra), "split:"+t) {
			continue
		}
		if os.Getenv("TABDBG") != "" {
			fmt.Println("  split on", t, "goal", goal.e.String(), "depth", depth)
		}
		all := true
		for i, e := range phi.Edges {
			pred := phi.Block().Preds[i]
			var ex []constraint
			ex = append(ex, extra...)
			var el lin
			if isLen {
				el = p.lenOf(e)
			} else {
				el = p.linOf(e)
			}
			ex = append(ex, leq(linTerm(t), el, "split:"+t), leq(el, linTerm(t), "split:"+t))
			for _, cf := range p.edgeConds(pred, phi.Block()) {
				ex = append(ex, p.condConstraints(cf.Cond, cf.Val)...)
			}
			if ok, _ := p.prove(goal, at, ex, depth+1); !ok {
				all = false
				break
			}
		}
		if all {
			return true, facts
		}
	}
	return false, facts
}

// isLoopPhi: some incoming edge comes from a block dominated by the phi's block (a back edge).
func (p *prover) isLoopPhi(phi *ssa.Phi) bool {
	for _, pred := range phi.Block().Preds {
		if phi.Block().Dominates(pred) {
			return true
		}
	}
	return false
}

// spillOf: al is a local that only ever holds the by-value parameter it was initialised from
// (one whole store of the parameter, no field stores, address not handed to any call).
func (p *prover) spillOf(al *ssa.Alloc) *ssa.Parameter {
	var par *ssa.Parameter
	for _, r := range referrersOf(al) {
		switch x := r.(type) {
		case *ssa.Store:
			if x.Addr != ssa.Value(al) {
				return nil
			}
			q, ok := x.Val.(*ssa.Parameter)
			if !ok || par != nil {
				return nil
			}
			par = q
		case *ssa.FieldAddr:
			for _, rr := range referrersOf(x) {
				switch y := rr.(type) {
				case *ssa.UnOp:
				case *ssa.Store:
					if y.Addr == ssa.Value(x) {
						return nil
					}
				case *ssa.FieldAddr, *ssa.IndexAddr:
					// nested read paths are fine; writes through them are not tracked: be conservative
					for _, r3 := range referrersOf(rr.(ssa.Value)) {
						if st, ok := r3.(*ssa.Store); ok && st.Addr == rr.(ssa.Value) {
							return nil
						}
					}
				case *ssa.DebugRef:
				default:
					return nil
				}
			}
		case *ssa.UnOp, *ssa.DebugRef:
		case *ssa.MakeClosure:
			// a closure that captures the copy may read it (whole or by field) but not write it
			if !closureOnlyReads(x, al, 0) {
				return nil
			}
		default:
			return nil
		}
	}
	return par
}

// closureOnlyReads: the closure made by mc uses the captured cell only through loads (of the whole value or of
// its fields/elements), itself or through closures it makes in turn.
func closureOnlyReads(mc *ssa.MakeClosure, cell ssa.Value, depth int) bool {
	g, _ := mc.Fn.(*ssa.Function)
	if g == nil || depth > 3 {
		return false
	}
	var readOnly func(v ssa.Value, d int) bool
	readOnly = func(v ssa.Value, d int) bool {
		if d > 4 {
			return false
		}
		for _, rr := range referrersOf(v) {
			switch y := rr.(type) {
			case *ssa.UnOp, *ssa.DebugRef:
			case *ssa.FieldAddr:
				if !readOnly(y, d+1) {
					return false
				}
			case *ssa.IndexAddr:
				if y.X != v || !readOnly(y, d+1) {
					return false
				}
			case *ssa.MakeClosure:
				if !closureOnlyReads(y, v, depth+1) {
					return false
				}
			default:
				return false
			}
		}
		return true
	}
	for i, b := range mc.Bindings {
		if b != cell {
			continue
		}
		if i >= len(g.FreeVars) || !readOnly(g.FreeVars[i], 0) {
			return false
		}
	}
	return true
}

func isCellLoad(v ssa.Value) bool {
	u, ok := v.(*ssa.UnOp)
	if !ok || u.Op != token.MUL {
		return false
	}
	switch u.X.(type) {
	case *ssa.Alloc, *ssa.FreeVar:
		return true
	}
	return false
}

// capturedFacts: what the enclosing function knows, where it makes this closure, about a once-assigned variable
// the closure captures (term "cap:<name>"): the variable never changes, so a bound proved there holds whenever the
// closure runs.
func (p *prover) capturedFacts(t string) []constraint {
	key := "capfacts:" + t
	if c, ok := p.relCache[key]; ok {
		return c
	}
	p.relCache[key] = nil
	parent := p.fn.Parent()
	if parent == nil {
		return nil
	}
	var fv *ssa.FreeVar
	for _, f := range p.fn.FreeVars {
		if "cap:"+f.Name() == t {
			fv = f
		}
	}
	if fv == nil {
		return nil
	}
	cv := cellValue(fv)
	if cv == nil || !isIntType(cv.Type()) {
		return nil
	}
	var site ssa.Instruction
	n := 0
	eachInstr(parent, func(in ssa.Instruction) {
		if mc, ok := in.(*ssa.MakeClosure); ok && mc.Fn == ssa.Value(p.fn) {
			site = in
			n++
		}
	})
	if n != 1 {
		return nil
	}
	ci, isI := cv.(ssa.Instruction)
	if (isI && ci.Parent() != parent) || (!isI && cv.Parent() != parent) {
		return nil // assigned further out: not followed
	}
	pp := p.ix.proverFor(parent)
	var out []constraint
	for _, k := range []int64{1, 0} {
		if ok, _ := pp.prove(leq(linConst(k), pp.linOf(cv), "bound of a captured variable"), site, nil, 1); ok {
			out = append(out, leq(linConst(k), linTerm(t), fmt.Sprintf("the captured variable is >= %d where the closure is made, and is never assigned again", k)))
			break
		}
	}
	p.relCache[key] = out
	return out
}
