package main

import (
	"fmt"
	"go/token"
	"go/types"
	"os"
	"strings"

	"golang.org/x/tools/go/ssa"
)

// Taint analysis: does text that comes out of a cell reach the destination writer without passing the
// renderer's quoter/escaper?  Sources are the accessors of tabular.Cell that hand out its content;
// sanitizers are recognised by the shape of what they do, not by their names.

type taintCtx struct {
	c          *Ctx
	pkg        string         // import path of the renderer package being analysed
	kind       string         // "csv" | "markdown" | "json"
	memo       map[string]int // 0 unknown, 1 clean, 2 tainted, 3 in progress
	queue      []taintJob
	done       map[string]bool
	sanitizers map[*ssa.Function]string // recognised sanitizer -> description
	rejected   map[*ssa.Function]string // string->string helpers that are NOT recognised
	fieldBusy  map[*types.Var]bool
}

type taintJob struct {
	fn   *ssa.Function
	mask string // per parameter: '1' tainted
}

func newTaint(c *Ctx, rel, kind string) *taintCtx {
	return &taintCtx{c: c, pkg: pkgPath(rel), kind: kind, memo: map[string]int{}, done: map[string]bool{}, sanitizers: map[*ssa.Function]string{}, rejected: map[*ssa.Function]string{}}
}

func isCellSource(f *ssa.Function) bool {
	if f == nil || f.Signature.Recv() == nil || funcPkgPath(f) != modPath {
		return false
	}
	if !isNamed(f.Signature.Recv().Type(), modPath, "Cell") {
		return false
	}
	switch f.Name() {
	case "String", "Item", "Lines", "GoString":
		return true
	}
	return false
}

func dataType(t types.Type) bool {
	switch u := t.Underlying().(type) {
	case *types.Basic:
		return u.Kind() == types.String || u.Kind() == types.UntypedString
	case *types.Slice, *types.Interface, *types.Array, *types.Pointer, *types.Struct, *types.Tuple:
		return true
	}
	return false
}

func (t *taintCtx) tainted(fn *ssa.Function, v ssa.Value, mask string) bool {
	if v == nil || !dataType(v.Type()) {
		return false
	}
	key := fmt.Sprintf("%p|%p|%s", fn, v, mask)
	switch t.memo[key] {
	case 1:
		return false
	case 2:
		return true
	case 3:
		return false // cycle: least fixpoint
	}
	t.memo[key] = 3
	res := t.taintedRaw(fn, v, mask)
	if res {
		t.memo[key] = 2
	} else {
		t.memo[key] = 1
	}
	return res
}

func (t *taintCtx) anyTainted(fn *ssa.Function, vs []ssa.Value, mask string) bool {
	for _, v := range vs {
		if t.tainted(fn, v, mask) {
			return true
		}
	}
	return false
}

func (t *taintCtx) taintedRaw(fn *ssa.Function, v ssa.Value, mask string) bool {
	switch x := v.(type) {
	case *ssa.Const, *ssa.Global, *ssa.Function, *ssa.Builtin:
		return false
	case *ssa.Parameter:
		for i, p := range fn.Params {
			if p == x {
				return i < len(mask) && mask[i] == '1'
			}
		}
		return false
	case *ssa.FreeVar:
		return true
	case *ssa.Phi:
		return t.anyTainted(fn, x.Edges, mask)
	case *ssa.BinOp:
		if x.Op == token.ADD {
			return t.tainted(fn, x.X, mask) || t.tainted(fn, x.Y, mask)
		}
		return false
	case *ssa.Convert:
		return t.tainted(fn, x.X, mask)
	case *ssa.ChangeType:
		return t.tainted(fn, x.X, mask)
	case *ssa.ChangeInterface:
		return t.tainted(fn, x.X, mask)
	case *ssa.MakeInterface:
		return t.tainted(fn, x.X, mask)
	case *ssa.TypeAssert:
		return t.tainted(fn, x.X, mask)
	case *ssa.Extract:
		if call, ok := x.Tuple.(*ssa.Call); ok {
			return t.callTaintedIdx(fn, call, mask, x.Index)
		}
		return t.tainted(fn, x.Tuple, mask)
	case *ssa.Slice:
		return t.tainted(fn, x.X, mask)
	case *ssa.Field:
		return t.tainted(fn, x.X, mask)
	case *ssa.Index:
		return t.tainted(fn, x.X, mask)
	case *ssa.Lookup:
		return t.tainted(fn, x.X, mask)
	case *ssa.MakeSlice, *ssa.MakeMap:
		return t.storesInto(fn, v, mask)
	case *ssa.Alloc:
		return t.storesInto(fn, v, mask)
	case *ssa.IndexAddr:
		return t.tainted(fn, x.X, mask)
	case *ssa.FieldAddr:
		return t.tainted(fn, x.X, mask)
	case *ssa.UnOp:
		if x.Op != token.MUL {
			return false
		}
		if f, _ := loadedField(x); f != nil {
			return t.fieldTainted(f)
		}
		return t.tainted(fn, x.X, mask)
	case *ssa.Call:
		return t.callTainted(fn, x, mask)
	}
	return true
}

// storesInto: anything tainted is stored into (an element/field of) the local object v.
func (t *taintCtx) storesInto(fn *ssa.Function, v ssa.Value, mask string) bool {
	seen := map[ssa.Value]bool{}
	var walk func(a ssa.Value) bool
	walk = func(a ssa.Value) bool {
		if seen[a] {
			return false
		}
		seen[a] = true
		for _, r := range referrersOf(a) {
			switch x := r.(type) {
			case *ssa.Store:
				if x.Addr == a && t.tainted(fn, x.Val, mask) {
					return true
				}
			case *ssa.IndexAddr:
				if x.X == a && walk(x) {
					return true
				}
			case *ssa.FieldAddr:
				if x.X == a && walk(x) {
					return true
				}
			case *ssa.Slice:
				if x.X == a && walk(x) {
					return true
				}
			case *ssa.MapUpdate:
				if x.Map == a && (t.tainted(fn, x.Value, mask) || t.tainted(fn, x.Key, mask)) {
					return true
				}
			}
		}
		return false
	}
	return walk(v)
}

// fieldTainted: a struct field is clean only if every store to it in the module stores a constant.
func (t *taintCtx) fieldTainted(f *types.Var) bool {
	if !dataType(f.Type()) {
		return false
	}
	if f.Exported() {
		return true // the caller can set it
	}
	if t.fieldBusy == nil {
		t.fieldBusy = map[*types.Var]bool{}
	}
	if t.fieldBusy[f] {
		return false // cycle: least fixpoint
	}
	t.fieldBusy[f] = true
	defer delete(t.fieldBusy, f)
	for _, fs := range t.c.StoresTo(f) {
		if _, ok := fs.St.Val.(*ssa.Const); ok {
			continue
		}
		// a copy of another field that is itself only ever given constants (the wrapper's separator handed on to a
		// per-render helper struct)
		if f2, _ := loadedField(unwrap(fs.St.Val, true)); f2 != nil && !t.fieldTainted(f2) {
			continue
		}
		// anything else: judged where it is stored, with every parameter of that function taken as cell text - but
		// only for records that live for one render. What is kept in the wrapper itself outlives the render: text
		// found there when writing may come from an earlier state of the table (a cache), so only constants count
		if !t.wrapperField(f) && !t.tainted(fs.Fn, fs.St.Val, strings.Repeat("1", len(fs.Fn.Params))) {
			continue
		}
		return true
	}
	return false
}

func (t *taintCtx) callTainted(fn *ssa.Function, call *ssa.Call, mask string) bool {
	return t.callTaintedIdx(fn, call, mask, -1)
}

// callTaintedIdx: is result idx of the call tainted (idx < 0: any result)?
func (t *taintCtx) callTaintedIdx(fn *ssa.Function, call *ssa.Call, mask string, idx int) bool {
	cc := &call.Call
	if b, ok := cc.Value.(*ssa.Builtin); ok {
		switch b.Name() {
		case "append":
			return t.anyTainted(fn, cc.Args, mask)
		}
		return false
	}
	callee := cc.StaticCallee()
	if callee == nil && !cc.IsInvoke() {
		// a function kept in a field of a per-render record (escape: ct.csvEscape): when every store into that
		// field stores the same function or bound method of this package and that one is a recognised
		// quoter/escaper, the call is a call of it
		if target := t.fieldFuncTarget(cc.Value); target != nil && funcPkgPath(target) == t.pkg && len(target.Blocks) > 0 {
			if desc := t.sanitizerShape(target); desc != "" {
				t.sanitizers[target] = desc
				return false
			}
		}
	}
	if callee == nil {
		// interface method on a value: tainted if the receiver or an argument is
		if cc.IsInvoke() && t.tainted(fn, cc.Value, mask) {
			return true
		}
		return t.anyTainted(fn, cc.Args, mask)
	}
	if isCellSource(callee) {
		return true
	}
	if funcPkgPath(callee) == "encoding/json" && callee.Name() == "Marshal" {
		return false
	}
	if funcPkgPath(callee) == t.pkg && len(callee.Blocks) > 0 {
		if desc := t.sanitizerShape(callee); desc != "" {
			t.sanitizers[callee] = desc
			return false
		}
		m := t.maskFor(fn, call, callee, mask)
		t.enqueue(callee, m)
		for _, ret := range returnsOf(callee) {
			for i, rv := range results(ret) {
				if idx >= 0 && i != idx {
					continue
				}
				if t.tainted(callee, rv, m) {
					return true
				}
			}
		}
		return false
	}
	return t.anyTainted(fn, cc.Args, mask)
}

func (t *taintCtx) maskFor(fn *ssa.Function, call ssa.CallInstruction, callee *ssa.Function, mask string) string {
	var sb strings.Builder
	args := call.Common().Args
	for i := range callee.Params {
		if i < len(args) && t.tainted(fn, args[i], mask) {
			sb.WriteByte('1')
		} else {
			sb.WriteByte('0')
		}
	}
	return sb.String()
}

func (t *taintCtx) enqueue(fn *ssa.Function, mask string) {
	k := fmt.Sprintf("%p|%s", fn, mask)
	if t.done[k] {
		return
	}
	t.done[k] = true
	t.queue = append(t.queue, taintJob{fn, mask})
}

// ---- sanitizer shapes ---------------------------------------------------------------

// sanitizerShape recognises what a string->string function of the renderer package does.
func (t *taintCtx) sanitizerShape(f *ssa.Function) string {
	sig := f.Signature
	if sig.Results().Len() != 1 || !isStringType(sig.Results().At(0).Type()) {
		return ""
	}
	var in *ssa.Parameter
	n := 0
	for _, p := range f.Params {
		if isStringType(p.Type()) {
			in = p
			n++
		}
	}
	if n != 1 {
		return ""
	}
	var desc string
	switch t.kind {
	case "csv":
		desc = csvQuoterShape(t.c, f, in)
	case "markdown":
		desc = mdEscaperShape(f, in)
	}
	if desc == "" {
		t.rejected[f] = "string->string helper whose body is not a recognised quoter/escaper"
	}
	if os.Getenv("TABDBG") == "quoter" {
		fmt.Fprintf(os.Stderr, "sanitizerShape %s -> %q\n", f.Name(), desc)
	}
	return desc
}

// csvQuoterShape: either  "\"" + Replace(in, "\"", "\"\"") + "\""  or the byte loop that opens with a quote,
// copies every input byte, doubles each quote byte, and closes with a quote.
func csvQuoterShape(c *Ctx, f *ssa.Function, in *ssa.Parameter) string {
	rets := returnsOf(f)
	if len(rets) != 1 {
		return ""
	}
	rv := results(rets[0])[0]
	// replace form
	if parts := concatParts(rv); len(parts) == 3 {
		a, okA := constString(parts[0])
		b, okB := constString(parts[2])
		if okA && okB && a == "\"" && b == "\"" {
			if call, ok := parts[1].(*ssa.Call); ok {
				if fn := call.Call.StaticCallee(); fn != nil && funcPkgPath(fn) == "strings" && (fn.Name() == "ReplaceAll" || fn.Name() == "Replace") {
					o, _ := constString(call.Call.Args[1])
					nw, _ := constString(call.Call.Args[2])
					all := fn.Name() == "ReplaceAll"
					if !all {
						k, ok := constInt(call.Call.Args[3])
						all = ok && k < 0
					}
					if call.Call.Args[0] == ssa.Value(in) && o == "\"" && nw == "\"\"" && all {
						return "quotes the field and doubles embedded quotes with strings.Replace"
					}
				}
			}
		}
		return ""
	}
	// builder form: q.WriteByte('"'); for each byte { q.WriteByte(b); if b == '"' { q.WriteByte('"') } }; q.WriteByte('"'); q.String()
	if d := csvQuoterEmitShape(c, f, in, rv); d != "" {
		return d
	}
	if d := csvQuoterBuilderShape(c, f, in, rv); d != "" {
		return d
	}
	// byte-loop form: result = string(b[:j+1])
	cv, ok := rv.(*ssa.Convert)
	if !ok {
		return ""
	}
	sl, ok := cv.X.(*ssa.Slice)
	if !ok {
		return ""
	}
	buf := sl.X
	var stores []*ssa.Store
	for _, r := range referrersOf(buf) {
		if ia, ok := r.(*ssa.IndexAddr); ok {
			for _, rr := range referrersOf(ia) {
				if st, ok := rr.(*ssa.Store); ok && st.Addr == ssa.Value(ia) {
					stores = append(stores, st)
				}
			}
		}
	}
	quote := func(v ssa.Value) bool { k, ok := constInt(v); return ok && k == '"' }
	inByte := func(v ssa.Value) bool {
		switch x := v.(type) {
		case *ssa.Lookup:
			return x.X == ssa.Value(in)
		case *ssa.Index:
			return x.X == ssa.Value(in)
		case *ssa.UnOp:
			if ia, ok := x.X.(*ssa.IndexAddr); ok {
				return ia.X == ssa.Value(in)
			}
		}
		return false
	}
	var open, copyAll, dbl, closeQ bool
	p := c.Idx().proverFor(f)
	for _, st := range stores {
		ia := st.Addr.(*ssa.IndexAddr)
		depth := loopDepth(st.Block())
		switch {
		case quote(st.Val) && depth == 0:
			if k, ok := constInt(ia.Index); ok && k == 0 {
				open = true
			} else {
				// closing quote: after the loop, at the running output index, which is the end of the returned slice
				if sl.High != nil && p.linOf(sl.High).String() == p.linOf(ia.Index).add(linConst(1)).String() {
					closeQ = true
				}
			}
		case inByte(st.Val) && depth == 1:
			// unconditional within the loop body
			conds := 0
			for _, cf := range dominatingConds(st.Block()) {
				hb := cf.If.Block()
				isHdr := false
				for _, pr := range hb.Preds {
					if hb.Dominates(pr) {
						isHdr = true
					}
				}
				if !isHdr {
					conds++
				}
			}
			copyAll = conds == 0
		case quote(st.Val) && depth == 1:
			only := true
			hit := false
			for _, cf := range dominatingConds(st.Block()) {
				hb := cf.If.Block()
				isHdr := false
				for _, pr := range hb.Preds {
					if hb.Dominates(pr) {
						isHdr = true
					}
				}
				if isHdr {
					continue
				}
				if b, ok := cf.Cond.(*ssa.BinOp); ok && b.Op == token.EQL && cf.Val {
					if (inByte(b.X) && quote(b.Y)) || (inByte(b.Y) && quote(b.X)) {
						hit = true
						continue
					}
				}
				only = false
			}
			dbl = hit && only
		default:
			return ""
		}
	}
	// the loop visits every input byte
	full := false
	eachInstr(f, func(x ssa.Instruction) {
		if iff, ok := x.(*ssa.If); ok {
			cs := p.condConstraints(iff.Cond, true)
			if len(cs) == 1 {
				for tname := range cs[0].e.coef {
					if tname == "len("+p.canon(in)+")" {
						full = true
					}
				}
			}
		}
	})
	if open && copyAll && dbl && closeQ && full && (sl.Low == nil) {
		return "byte loop: opening quote, every input byte copied, each quote byte doubled, closing quote"
	}
	return ""
}

// mdEscaperShape: Replace(Replace(html.EscapeString(in), "|", X), "\n", Y) in either order of the two
// replacements, with X and Y free of '|' and '\n', and escaping done BEFORE the replacements.
func mdEscaperShape(f *ssa.Function, in *ssa.Parameter) string {
	rets := returnsOf(f)
	if len(rets) != 1 {
		return ""
	}
	v := results(rets[0])[0]
	replaced := map[string]bool{}
	for i := 0; i < 4; i++ {
		call, ok := v.(*ssa.Call)
		if !ok {
			return ""
		}
		fn := call.Call.StaticCallee()
		if fn == nil {
			return ""
		}
		if funcPkgPath(fn) == "html" && fn.Name() == "EscapeString" {
			if call.Call.Args[0] != ssa.Value(in) {
				return ""
			}
			if replaced["|"] && replaced["\n"] {
				return "html.EscapeString first, then '|' and LF replaced by numeric entities"
			}
			return ""
		}
		if funcPkgPath(fn) != "strings" || (fn.Name() != "Replace" && fn.Name() != "ReplaceAll") {
			return ""
		}
		o, ok1 := constString(call.Call.Args[1])
		nw, ok2 := constString(call.Call.Args[2])
		if !ok1 || !ok2 || strings.ContainsAny(nw, "|\n<>&\"'") && !strings.HasPrefix(nw, "&#") {
			return ""
		}
		if strings.ContainsAny(nw, "|\n") {
			return ""
		}
		if fn.Name() == "Replace" {
			if k, ok := constInt(call.Call.Args[3]); !ok || k >= 0 {
				return ""
			}
		}
		replaced[o] = true
		v = call.Call.Args[0]
	}
	return ""
}

// concatParts flattens a left-nested string concatenation.
func concatParts(v ssa.Value) []ssa.Value {
	if b, ok := v.(*ssa.BinOp); ok && b.Op == token.ADD && isStringType(b.Type()) {
		return append(concatParts(b.X), concatParts(b.Y)...)
	}
	return []ssa.Value{v}
}

// sinkArgs: the data operands of a write site (everything handed over except the writer itself).
func sinkArgs(site *writeSite, wv map[ssa.Value]bool) []ssa.Value {
	cc := site.Call.Common()
	var out []ssa.Value
	for _, a := range cc.Args {
		if wv[a] {
			continue
		}
		out = append(out, a)
	}
	return out
}

// runTaint analyses every function of the package and reports tainted sink operands.
func (t *taintCtx) run(rule string) (sinks int, taintedSources int) {
	r := t.c.R
	for _, fn := range t.c.ModFuncs(relPkg(t.pkg)) {
		t.enqueue(fn, strings.Repeat("0", len(fn.Params)))
	}
	for len(t.queue) > 0 {
		job := t.queue[0]
		t.queue = t.queue[1:]
		fn := job.fn
		wv := writerValues(fn)
		if len(wv) == 0 {
			continue
		}
		for _, site := range writeSitesOf(fn, wv) {
			callee := site.Call.Common().StaticCallee()
			if callee != nil && funcPkgPath(callee) == t.pkg {
				// a package function that takes the writer: its own sites are analysed in its own job
				t.enqueue(callee, t.maskFor(fn, site.Call, callee, job.mask))
				continue
			}
			for i, a := range sinkArgs(site, wv) {
				sinks++
				bad := t.tainted(fn, a, job.mask)
				what := fmt.Sprintf("%s operand #%d", site.Desc, i+1)
				if job.mask != strings.Repeat("0", len(fn.Params)) {
					what += " [with tainted arguments " + job.mask + "]"
				}
				why := "constants, quoter output and clean padding only"
				if bad {
					why = "text taken from a cell (String/Item/Lines) reaches the writer without passing a recognised quoter/escaper of this package"
				}
				r.Check(rule, FuncName(fn), what, site.Call.Pos(), !bad, why)
			}
		}
	}
	// how many source calls exist (floor: the rule must have something to guard)
	for _, fn := range t.c.ModFuncs(relPkg(t.pkg)) {
		eachInstr(fn, func(in ssa.Instruction) {
			if isCellSource(staticCallee(in)) {
				taintedSources++
			}
		})
	}
	return sinks, taintedSources
}

// csvQuoterBuilderShape recognises the all-fields quoter written with a strings.Builder / bytes.Buffer.
func csvQuoterBuilderShape(c *Ctx, f *ssa.Function, in *ssa.Parameter, rv ssa.Value) string {
	sc, ok := rv.(*ssa.Call)
	if !ok || sc.Call.StaticCallee() == nil || sc.Call.StaticCallee().Name() != "String" || len(sc.Call.Args) != 1 {
		return ""
	}
	if pp := funcPkgPath(sc.Call.StaticCallee()); pp != "strings" && pp != "bytes" {
		return ""
	}
	q := sc.Call.Args[0] // the builder (address of a local)
	root, _ := addrPath(q)
	if _, isAl := root.(*ssa.Alloc); !isAl {
		return ""
	}
	isQuote := func(v ssa.Value) bool {
		if k, ok := constInt(v); ok && k == '"' {
			return true
		}
		s, ok := constString(v)
		return ok && s == "\""
	}
	// the bytes of the input, one by one: in[i], or element i of []byte(in)
	curByte := func(v ssa.Value) ssa.Value { // returns the index
		switch x := v.(type) {
		case *ssa.Lookup:
			if x.X == ssa.Value(in) {
				return x.Index
			}
		case *ssa.UnOp:
			if ia, ok := x.X.(*ssa.IndexAddr); ok {
				if cv, isCv := ia.X.(*ssa.Convert); isCv && cv.X == ssa.Value(in) {
					if sl, isSl := cv.Type().Underlying().(*types.Slice); isSl {
						if b, isB := sl.Elem().Underlying().(*types.Basic); isB && b.Kind() == types.Uint8 {
							return ia.Index
						}
					}
				}
			}
		}
		return nil
	}
	var open, closeQ, copyAll, dbl int
	other := false
	var idxV ssa.Value
	var bytesSlice ssa.Value
	for _, b := range f.Blocks {
		for _, inst := range b.Instrs {
			call, isCall := inst.(*ssa.Call)
			if !isCall || call.Call.StaticCallee() == nil || len(call.Call.Args) == 0 {
				continue
			}
			if r2, _ := addrPath(call.Call.Args[0]); r2 != root {
				continue
			}
			switch call.Call.StaticCallee().Name() {
			case "Grow", "String", "Len", "Cap":
				continue
			case "WriteByte", "WriteString", "WriteRune":
			default:
				other = true
				continue
			}
			arg := call.Call.Args[1]
			depth := loopDepth(b)
			switch {
			case depth == 0 && isQuote(arg):
				// before or after the loop
				reachesLoop := false
				for bb := range blockReach(b, nil) {
					if bb != b && loopDepth(bb) > 0 {
						reachesLoop = true
					}
				}
				if reachesLoop {
					open++
				} else {
					closeQ++
				}
			case depth == 1 && curByte(arg) != nil && call.Call.StaticCallee().Name() == "WriteByte":
				if condInsideLoop(b) {
					other = true
				}
				copyAll++
				idxV = curByte(arg)
				if u, isU := arg.(*ssa.UnOp); isU {
					bytesSlice = u.X.(*ssa.IndexAddr).X
				}
			case depth == 1 && isQuote(arg):
				// only under (current byte == '"')
				hit, only := false, true
				hdr := innermostLoopHeader(b)
				for _, cf := range dominatingConds(b) {
					if cf.If.Block() == hdr || !hdr.Dominates(cf.If.Block()) {
						continue
					}
					if bo, ok := cf.Cond.(*ssa.BinOp); ok && bo.Op == token.EQL && cf.Val && ((curByte(bo.X) != nil && isQuote(bo.Y)) || (curByte(bo.Y) != nil && isQuote(bo.X))) {
						hit = true
						continue
					}
					only = false
				}
				if hit && only {
					dbl++
				} else {
					other = true
				}
			default:
				other = true
			}
		}
	}
	if other || open != 1 || closeQ != 1 || copyAll != 1 || dbl != 1 || idxV == nil {
		return ""
	}
	// the loop visits every byte
	full := false
	if bytesSlice != nil {
		full = isFullRangeIndex(c, f, idxV, bytesSlice)
	} else {
		full = isFullRangeIndex(c, f, idxV, in)
	}
	if !full {
		return ""
	}
	return "builder: opening quote, every input byte copied, each quote byte doubled, closing quote"
}

// wrapperField: f is a field of a type of the renderer package that has a RenderTo method (the wrapper a caller
// keeps between renders).
func (t *taintCtx) wrapperField(f *types.Var) bool {
	p := t.c.Pkgs[t.pkg]
	if p == nil {
		return false
	}
	sc := p.Types.Scope()
	for _, nm := range sc.Names() {
		tn, ok := sc.Lookup(nm).(*types.TypeName)
		if !ok {
			continue
		}
		n, ok := tn.Type().(*types.Named)
		if !ok {
			continue
		}
		st, ok := n.Underlying().(*types.Struct)
		if !ok {
			continue
		}
		owns := false
		for i := 0; i < st.NumFields(); i++ {
			if st.Field(i) == f {
				owns = true
			}
		}
		if !owns {
			continue
		}
		for i := 0; i < n.NumMethods(); i++ {
			if n.Method(i).Name() == "RenderTo" {
				return true
			}
		}
	}
	return false
}

// fieldFuncTarget: v is the value of a function-typed struct field; every store into that field, anywhere in the
// module, stores one and the same function (or the same method, bound to some receiver): returns it.
func (t *taintCtx) fieldFuncTarget(v ssa.Value) *ssa.Function {
	v = unwrap(v, false)
	var f *types.Var
	if fl, _ := loadedField(v); fl != nil {
		f = fl
	} else if fv, ok := v.(*ssa.Field); ok {
		f = fieldOfField(fv)
	}
	if f == nil {
		return nil
	}
	if _, isSig := f.Type().Underlying().(*types.Signature); !isSig || f.Exported() {
		return nil
	}
	var target *ssa.Function
	stores := t.c.StoresTo(f)
	if len(stores) == 0 {
		return nil
	}
	for _, fs := range stores {
		var g *ssa.Function
		switch x := fs.St.Val.(type) {
		case *ssa.Function:
			g = x
		case *ssa.MakeClosure:
			w, _ := x.Fn.(*ssa.Function)
			if w != nil && strings.HasPrefix(w.Synthetic, "bound method wrapper") {
				eachInstr(w, func(in ssa.Instruction) {
					if c := staticCallee(in); c != nil && g == nil {
						g = c
					}
				})
			}
		}
		if g == nil || (target != nil && g != target) {
			return nil
		}
		target = g
	}
	return target
}
