package main

import (
	"fmt"

	"golang.org/x/tools/go/ssa"
)

func init() { register("DEBUG-effects", debugEffects) }

func debugEffects(c *Ctx) {
	e := c.Effects()
	for _, fn := range c.LibFuncs() {
		efs := e.EffectsOf(fn)
		if len(efs) == 0 {
			continue
		}
		fmt.Printf("%s\n", FuncName(fn))
		for _, ef := range efs {
			fmt.Printf("    %-45s %-12s %-28s at %s via %s\n", ef.Path, ef.What, ef.Org, c.Pos(ef.At.Pos()), ef.Via)
		}
	}
}

func init() { register("DEBUG-tables", debugTables) }

func debugTables(c *Ctx) {
	for _, path := range c.sortedPkgPaths() {
		sp := c.SSA[path]
		if sp == nil {
			continue
		}
		for _, name := range sortedMemberNames(sp) {
			if g, ok := sp.Members[name].(*ssa.Global); ok {
				if ct := c.constTableOf(g); ct != nil {
					fmt.Printf("%s.%s: %d rows %v\n", path, name, len(ct.Rows), ct.Rows)
				}
			}
		}
	}
}
