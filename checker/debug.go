package main

import "fmt"

func init() { register("DEBUG-effects", debugEffects) }

func debugEffects(c *Ctx) {
	e := c.Effects()
	for _, fn := range c.LibFuncs() {
		efs := e.EffectsOf(fn)
		if len(efs) == 0 {
			continue
		}
		fmt.Printf("%s\n", FuncName(fn))
		for _, ef := range efs {
			fmt.Printf("    %-45s %-12s %-28s at %s via %s\n", ef.Path, ef.What, ef.Org, c.Pos(ef.At.Pos()), ef.Via)
		}
	}
}
