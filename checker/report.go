package main

import (
	"bufio"
	"encoding/json"
	"fmt"
	"go/token"
	"os"
	"sort"
	"strings"
	"time"
)

// An Ob is one obligation: one rule instance at one construct.
type Ob struct {
	Rule      string `json:"rule"`
	Func      string `json:"func"`
	Construct string `json:"construct"`
	Pos       string `json:"pos"`
	Verdict   string `json:"verdict"` // discharged | VIOLATED | UNDECIDED | known-finding
	Detail    string `json:"detail,omitempty"`
	Trivial   bool   `json:"-"`
}

func (o *Ob) Key() string { return o.Rule + " / " + o.Func + " / " + o.Construct }

type floorRec struct {
	Rule     string `json:"rule"`
	What     string `json:"what"`
	Found    int    `json:"found"`
	Required int    `json:"required"`
}

type Report struct {
	Prop        string
	Tier        string
	Seed        int
	c           *Ctx
	Obs         []*Ob
	Floors      []floorRec
	Notes       []string
	Missing     []string
	Explanation string
	NotDecided  []string
	Assumptions []string
	Rules       map[string]string // rule id -> one-line statement
	known       map[string]string // key -> what fails (known: lines for this property)
	knownSeen   map[string]bool
	start       time.Time
	Extra       map[string]interface{}
}

func NewReport(prop, tier string, seed int) *Report {
	return &Report{Prop: prop, Tier: tier, Seed: seed, Rules: map[string]string{}, known: map[string]string{},
		knownSeen: map[string]bool{}, start: time.Now(), Extra: map[string]interface{}{}}
}

// Rule declares a rule (for the evidence file).
func (r *Report) Rule(id, statement string) { r.Rules[id] = statement }

// Check records an obligation with its verdict.
func (r *Report) Check(rule, fn, construct string, pos token.Pos, ok bool, detail string) *Ob {
	o := &Ob{Rule: rule, Func: fn, Construct: construct, Detail: detail}
	if r.c != nil {
		o.Pos = r.c.Pos(pos)
	}
	if ok {
		o.Verdict = "discharged"
		o.Detail = "" // the text passed to Check explains a failure; positive evidence goes through CheckHow
	} else {
		o.Verdict = "VIOLATED"
	}
	r.Obs = append(r.Obs, o)
	return o
}

// Shape records a shape rule: it is evaluated only when the idiom it compares is recognised in the code;
// an unrecognised shape is noted and never counts as a violation (DESIGN.md section 6).
func (r *Report) Shape(rule, fn, construct string, pos token.Pos, recognised, ok bool, detail string) *Ob {
	if !recognised {
		r.Note("shape-unrecognised %s: %s: %s (%s) - not evaluated", rule, fn, construct, detail)
		return nil
	}
	return r.Check(rule, fn, construct, pos, ok, detail)
}

// CheckHow records an obligation with separate texts for the discharged and the violated case.
func (r *Report) CheckHow(rule, fn, construct string, pos token.Pos, ok bool, how, why string) *Ob {
	o := r.Check(rule, fn, construct, pos, ok, why)
	if ok {
		o.Detail = how
	}
	return o
}

// Undecided records an obligation the analysis could not decide (counts as a violation).
func (r *Report) Undecided(rule, fn, construct string, pos token.Pos, detail string) *Ob {
	o := r.Check(rule, fn, construct, pos, false, detail)
	o.Verdict = "UNDECIDED"
	return o
}

// Floor requires that a rule matched at least `required` instances.
func (r *Report) Floor(rule, what string, found, required int) {
	r.Floors = append(r.Floors, floorRec{rule, what, found, required})
}

// Note records an observation that never affects the verdict.
func (r *Report) Note(format string, a ...interface{}) {
	r.Notes = append(r.Notes, fmt.Sprintf(format, a...))
}

// AnchorMissing records an unresolvable anchor (always a failure).
func (r *Report) AnchorMissing(what string) {
	for _, m := range r.Missing {
		if m == what {
			return
		}
	}
	r.Missing = append(r.Missing, what)
}

// LoadKnown reads known-findings.txt; only "known:" lines for this property suppress.
func (r *Report) LoadKnown(path string) {
	f, err := os.Open(path)
	if err != nil {
		return
	}
	defer f.Close()
	sc := bufio.NewScanner(f)
	for sc.Scan() {
		line := strings.TrimSpace(sc.Text())
		if !strings.HasPrefix(line, "known:") {
			continue
		}
		rest := strings.TrimSpace(strings.TrimPrefix(line, "known:"))
		if !strings.HasPrefix(rest, "property="+r.Prop+" ") {
			continue
		}
		rest = strings.TrimSpace(strings.TrimPrefix(rest, "property="+r.Prop))
		key, what := rest, ""
		if i := strings.Index(rest, " — "); i >= 0 {
			key, what = strings.TrimSpace(rest[:i]), strings.TrimSpace(rest[i+len(" — "):])
		}
		r.known[key] = what
	}
}

// Finish prints the verdict, writes the evidence file and returns the exit code.
func (r *Report) Finish(evidencePath string) int {
	viol := 0
	discharged := 0
	nontrivial := map[string]bool{}
	var lines []string
	for _, o := range r.Obs {
		switch o.Verdict {
		case "discharged":
			discharged++
		default:
			if what, ok := r.known[o.Key()]; ok {
				o.Verdict = "known-finding"
				if !r.knownSeen[o.Key()] {
					r.knownSeen[o.Key()] = true
					lines = append(lines, fmt.Sprintf("KNOWN-FINDING: property=%s %s %s", r.Prop, o.Key(), what))
				}
				continue
			}
			viol++
			lines = append(lines, fmt.Sprintf("  %s %s: [%s] %s: %s — %s", o.Verdict, o.Pos, o.Rule, o.Func, o.Construct, o.Detail))
		}
		if !o.Trivial {
			nontrivial[o.Rule+"/"+o.Func+"/"+o.Construct] = true
		}
	}
	for _, f := range r.Floors {
		if f.Found < f.Required {
			viol++
			lines = append(lines, fmt.Sprintf("  FLOOR [%s] %s: found %d, required >= %d (a rule matching too few sites passes vacuously)", f.Rule, f.What, f.Found, f.Required))
		}
	}
	for _, m := range r.Missing {
		viol++
		lines = append(lines, fmt.Sprintf("  ANCHOR not found: %s (the rule cannot be evaluated; failing closed)", m))
	}
	wall := time.Since(r.start).Seconds()

	// evidence
	samples := []interface{}{}
	perRule := map[string]int{}
	for _, o := range r.Obs {
		if perRule[o.Rule] < 3 || o.Verdict != "discharged" {
			perRule[o.Rule]++
			samples = append(samples, o)
		}
	}
	ruleIDs := []string{}
	for id := range r.Rules {
		ruleIDs = append(ruleIDs, id)
	}
	sort.Strings(ruleIDs)
	rulesOut := []map[string]interface{}{}
	for _, id := range ruleIDs {
		n, d := 0, 0
		for _, o := range r.Obs {
			if o.Rule == id {
				n++
				if o.Verdict == "discharged" {
					d++
				}
			}
		}
		rulesOut = append(rulesOut, map[string]interface{}{"id": id, "statement": r.Rules[id], "obligations": n, "discharged": d})
	}
	keys := make([]string, 0, len(r.Obs))
	for _, o := range r.Obs {
		keys = append(keys, o.Key()+" => "+o.Verdict)
	}
	sort.Strings(keys)
	cov := map[string]interface{}{
		"obligation_keys":     keys,
		"explanation":         r.Explanation,
		"obligations":         len(r.Obs),
		"discharged":          discharged,
		"evaluations":         len(r.Obs),
		"distinct_nontrivial": len(nontrivial),
		"rule": "obligations are enumerated from the type-checked SSA program of /repo's working tree: one per (rule, function, construct) instance; " +
			"an obligation is non-trivial when its verdict needed a fact about the surrounding code (dominance, dataflow, call graph), i.e. it is not a constant-only comparison; distinct = distinct (rule, function, construct) keys",
		"samples":                samples,
		"rules":                  rulesOut,
		"floors":                 r.Floors,
		"not_decided":            r.NotDecided,
		"notes":                  r.Notes,
		"anchors_missing":        r.Missing,
		"exhaustive":             true,
		"checker_cmd":            fmt.Sprintf("bin/tabverif -prop %s -tier %s", r.Prop, r.Tier),
		"known_findings_matched": len(r.knownSeen),
	}
	if r.c != nil {
		cov["packages"] = len(r.c.Pkgs)
		cov["functions_analysed"] = len(r.c.modFuncs)
		cov["call_graph_nodes"] = len(r.c.CG.Nodes)
		cov["goarch"] = r.c.GOARCH
		cov["build_tags"] = r.c.Tags
		cov["call_graph"] = r.c.CGKind
	}
	for k, v := range r.Extra {
		cov[k] = v
	}
	ev := map[string]interface{}{
		"property_id": r.Prop,
		"tier":        r.Tier,
		"seed":        r.Seed,
		"level":       "other",
		"coverage":    cov,
		"assumptions": r.Assumptions,
		"wall_s":      wall,
		"violations":  viol,
	}
	if evidencePath != "" {
		b, _ := json.MarshalIndent(ev, "", " ")
		if err := os.WriteFile(evidencePath, append(b, '\n'), 0o644); err != nil {
			fmt.Fprintf(os.Stderr, "tabverif: cannot write evidence: %v\n", err)
			return 2
		}
	}
	fmt.Printf("%s %s: %d obligations over %d rules, %d discharged, %d floors, %.1fs\n", r.Prop, r.Tier, len(r.Obs), len(r.Rules), discharged, len(r.Floors), wall)
	for _, n := range r.Notes {
		fmt.Println("  NOTE " + n)
	}
	for _, l := range lines {
		fmt.Println(l)
	}
	if viol > 0 {
		fmt.Printf("VIOLATION property=%s replay=%s\n", r.Prop, evidencePath)
		return 1
	}
	return 0
}

// importPremises runs `run` against a scratch report and re-states each obligation it produced (optionally
// filtered) under `rule` of the current report, so that a property whose guarantee rests on another property's
// rule carries that rule as its own premise.
var importDepth int

func importPremises(c *Ctx, rule, prefix, why string, keep func(o *Ob) bool, run func()) int {
	r := c.R
	if importDepth > 0 {
		return 0 // premises of premises are not restated (and two properties may rest on each other)
	}
	importDepth++
	sub := &Report{Rules: map[string]string{}, known: map[string]string{}, knownSeen: map[string]bool{}, Extra: map[string]interface{}{}, c: c}
	c.R = sub
	run()
	c.R = r
	importDepth--
	n := 0
	for _, o := range sub.Obs {
		if keep != nil && !keep(o) {
			continue
		}
		n++
		detail := o.Detail
		if detail == "" {
			detail = why
		}
		ob := r.Check(rule, o.Func, prefix+"["+o.Rule+"] "+o.Construct, 0, o.Verdict == "discharged", detail)
		ob.Pos = o.Pos
	}
	return n
}

// importCellText: renderers print Cell.String(); that this is the item's own text, for the item as supplied, is
// C01's business. Its text rules are restated as a premise of the renderer's content rule.
func importCellText(c *Ctx, rule string, withEmpty bool) {
	importPremises(c, rule, "cell-text premise ", "the renderer prints whatever text the cell holds", func(o *Ob) bool {
		switch o.Rule {
		case "R01.2", "R01.3", "R01.5":
			return true
		case "R01.4":
			return withEmpty
		}
		return false
	}, func() { runC01(c) })
}

// importWriteDiscipline: "whenever rendering succeeds the output is ..." presupposes that a failed write is
// never reported as success (C15's rule, for this renderer's functions) and that Render hands back exactly what
// this RenderTo wrote into a buffer of its own (C10's R10.3, for this renderer).
func importWriteDiscipline(c *Ctx, rule, rel string) {
	inPkg := func(o *Ob) bool {
		return strings.Contains(o.Func, rel+".") || strings.Contains(o.Func, "*"+rel+".")
	}
	importPremises(c, rule, "write-error premise ", "a write error that is dropped turns truncated output into a successful render", inPkg, func() { runC15(c) })
	importPremises(c, rule, "own-buffer premise ", "Render must return what this render wrote, nothing left over from another", func(o *Ob) bool { return o.Rule == "R10.3" && inPkg(o) }, func() { runC10(c) })
	importPremises(c, rule, "no-text-on-error premise ", "an error must not come with a partial document", func(o *Ob) bool { return o.Rule == "R09.R" && inPkg(o) && !strings.Contains(o.Construct, "premise") }, func() { runC09(c) })
	importFreshState(c, rule, rel)
}

// importFreshState: what is rendered is the table as it is NOW: nothing measured, resolved or formatted by an earlier
// render is kept on the wrapper or on the cells and used again (C14's rules, for the functions of renderer rel).
func importFreshState(c *Ctx, rule, rel string) {
	inPkg := func(o *Ob) bool {
		return strings.Contains(o.Func, rel+".") || strings.Contains(o.Func, "*"+rel+".")
	}
	importPremises(c, rule, "fresh-state premise ", "a render that keeps results of an earlier one (on the wrapper, on the cells) can show an earlier state of the table", func(o *Ob) bool {
		return (o.Rule == "R14.1" || o.Rule == "R14.3") && inPkg(o)
	}, func() { runC14(c) })
}

// importPropertyStore: a renderer that resolves a column setting (alignment, skipable) relies on a get returning
// the value most recently set for that key on that owner (C12's R12.1/R12.2 on the property chain).
func importPropertyStore(c *Ctx, rule string) {
	importPremises(c, rule, "property-store premise ", "a stale or lost setting changes how the column is rendered", func(o *Ob) bool {
		return o.Rule == "R12.1" || o.Rule == "R12.2" || o.Rule == "R12.3" || o.Rule == "R12.4" || o.Rule == "R12.5"
	}, func() { runC12(c) })
	// ... and on the column the setting was made on still being the table's column n when it is read back
	importPremises(c, rule, "column-bookkeeping premise ", "a growth step that loses, shifts or re-creates a column loses the settings made on it", func(o *Ob) bool {
		return o.Rule == "R02.3" && (strings.Contains(o.Construct, "olumn") || strings.Contains(o.Func, "resize"))
	}, func() { runC02(c) })
}
