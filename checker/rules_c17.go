package main

import (
	"fmt"
	"go/constant"
	"go/token"
	"go/types"
	"sort"
	"strings"

	"golang.org/x/tools/go/ssa"
)

func init() { register("C17", runC17) }

func runC17(c *Ctx) {
	r := c.R
	r.Explanation = "R17.1 is a forward must-analysis ('the registry mutex is held') over the CFG of every function of the module that touches the registry variable: every access to its data field happens with the lock held on all paths, every exit releases it (or a deferred release is pending), and the variable's address does not leave its package. " +
		"R17.2: the listing is a fresh slice filled from the map's keys under the lock and sorted after the last element store. R17.3: the D_* constants and the names registered by init functions are the same set and each registered value is non-zero. " +
		"R17.4 (fail closed): Named returns the lookup result or the empty decoration, nothing else; the empty decoration is never written; SetDecorationNamed stores the lookup result on every path and returns a non-nil error exactly on the ==EmptyDecoration edge; (*TextTable).RenderTo tests decor against EmptyDecoration before the callbacks and before any write, and that edge returns a non-nil error. " +
		"Decided: lock discipline on all paths and the fail-closed dataflow. Not decided: 'latest registration wins' (semantics of a Go map under a lock), and schedules are covered by the lock rule rather than enumerated."
	r.NotDecided = []string{"last-writer-wins semantics of the map", "enumeration of schedules (replaced by the lock-held proof)"}
	r.Assumptions = []string{"sync.Mutex provides mutual exclusion", "Go map iteration yields each key once"}
	r.Rule("R17.1", "every access to the registry's data happens with its mutex held on all paths; every exit releases it")
	r.Rule("R17.2", "RegisteredDecorationNames returns a fresh slice filled from the map keys and sorted after the last store")
	r.Rule("R17.3", "the D_* name constants and the init-time registrations are the same set; registered decorations are non-zero")
	r.Rule("R17.4", "unknown names fail closed: Named -> EmptyDecoration; SetDecorationNamed stores it and errors; RenderTo refuses it before any output")

	ggs := c.findGuardedGlobals()
	var reg *guardedGlobal
	for _, gg := range ggs {
		if gg.G.Pkg.Pkg.Path() == pkgPath("texttable/decoration") {
			reg = gg
		}
	}
	if reg == nil {
		r.AnchorMissing("a mutex-carrying package-level struct in texttable/decoration (the registry)")
		return
	}
	regName := reg.G.Name()

	// R17.1
	nacc := 0
	users := 0
	for _, fn := range c.LibFuncs() {
		uses := false
		eachInstr(fn, func(in ssa.Instruction) {
			for _, op := range in.Operands(nil) {
				if op != nil && *op == ssa.Value(reg.G) {
					uses = true
					// the variable's address may only be used to select a field
					if _, ok := in.(*ssa.FieldAddr); !ok {
						r.Check("R17.1", FuncName(fn), "use of &"+regName+" other than field selection", in.Pos(), false, "the registry's address escapes; its lock discipline can no longer be checked locally: "+in.String())
					}
				}
			}
		})
		if !uses {
			continue
		}
		if fn.Synthetic != "" && fn.Name() == "init" && fn.Parent() == nil {
			// the package initializer evaluating the variable's own initial value: it completes before any
			// function of the package can be called (Go spec, package initialization), so no lock is needed
			r.Check("R17.1", FuncName(fn), regName+" is given its initial value by the package initializer, before any access", fn.Pos(), true, "")
			continue
		}
		if funcPkgPath(fn) != reg.G.Pkg.Pkg.Path() {
			r.Check("R17.1", FuncName(fn), "access to "+regName+" from another package", fn.Pos(), false, "registry touched outside its package")
		}
		users++
		lr := analyseLock(fn, reg, false)
		perFn := map[string]int{}
		for _, a := range lr.Accesses {
			nacc++
			kind := accessKind(a.In)
			perFn[kind]++
			r.Check("R17.1", FuncName(fn), fmt.Sprintf("%s %s.%s #%d", kind, regName, "table", perFn[kind]), a.In.Pos(), a.Held, "lock held on all paths: "+fmt.Sprint(a.Held))
		}
		// uses of loaded map values after unlock: a value loaded under the lock and used (Lookup/MapUpdate/Range/len) later
		eachInstr(fn, func(in ssa.Instruction) {
			switch in.(type) {
			case *ssa.Lookup, *ssa.MapUpdate, *ssa.Range:
			default:
				if cc := callCommon(in); cc == nil {
					return
				} else if b, ok := cc.Value.(*ssa.Builtin); !ok || (b.Name() != "len" && b.Name() != "delete") {
					return
				}
			}
			for _, op := range in.Operands(nil) {
				if op == nil || *op == nil {
					continue
				}
				if f, base := loadedField(*op); f != nil && base == ssa.Value(reg.G) {
					held := heldAtInstr(fn, reg, in)
					kind := accessKind(in)
					perFn["use:"+kind]++
					nacc++
					r.Check("R17.1", FuncName(fn), fmt.Sprintf("%s on the loaded map #%d", kind, perFn["use:"+kind]), in.Pos(), held, "lock held when the map itself is touched: "+fmt.Sprint(held))
				}
			}
		})
		for i, ex := range lr.ExitsHeld {
			r.Check("R17.1", FuncName(fn), fmt.Sprintf("return #%d with the lock still held", i+1), ex.Pos(), false, "a path leaves the function holding the mutex with no deferred unlock: the next caller deadlocks")
		}
		for i, dl := range lr.DoubleLock {
			r.Check("R17.1", FuncName(fn), fmt.Sprintf("Lock #%d while already held", i+1), dl.Pos(), false, "self-deadlock")
		}
		if len(lr.ExitsHeld) == 0 && len(lr.DoubleLock) == 0 {
			r.Check("R17.1", FuncName(fn), "lock released on every exit", fn.Pos(), true, fmt.Sprintf("%d lock operations", lr.LockOps))
		}
	}
	r.Floor("R17.1", "guarded accesses", nacc, 5)
	r.Floor("R17.1", "functions touching the registry", users, 3)

	c17Listing(c, reg)
	c17Builtins(c)
	c17FailClosed(c, reg)
	// the chain starts where a style string names a decoration: the auto constructors hand every decoration
	// section of the style, as written and even when empty, to SetDecorationNamed (C19's R19.3) - a name that is
	// dropped on the way ("texttable." cut so that the empty name is never looked up) renders with the default
	// instead of refusing
	importPremises(c, "R17.4", "style-names-the-decoration premise ", "an unknown (or empty) name given in a style string would never reach the lookup", func(o *Ob) bool {
		return o.Rule == "R19.3" && !strings.Contains(o.Construct, "premise")
	}, func() { runC19(c) })
}

func accessKind(in ssa.Instruction) string {
	switch x := in.(type) {
	case *ssa.Store:
		return "store to"
	case *ssa.UnOp:
		return "load of"
	case *ssa.MapUpdate:
		return "map update"
	case *ssa.Lookup:
		return "lookup"
	case *ssa.Range:
		return "range"
	case *ssa.Call:
		if b, ok := x.Call.Value.(*ssa.Builtin); ok {
			return b.Name()
		}
	}
	return "use of"
}

// ---- R17.2 -------------------------------------------------------------------

func c17Listing(c *Ctx, reg *guardedGlobal) {
	r := c.R
	fn := c.Func("texttable/decoration", "RegisteredDecorationNames")
	if fn == nil {
		return
	}
	name := FuncName(fn)
	isRegMap := func(v ssa.Value) bool {
		f, base := loadedField(v)
		return f != nil && base == ssa.Value(reg.G)
	}
	// the listing may hand the registry's map to a helper that builds, sorts and returns the list: judge the helper
	if rs := returnsOf(fn); len(rs) > 0 {
		var h *ssa.Function
		hk := -1
		for _, ret := range rs {
			if len(ret.Results) != 1 {
				h = nil
				break
			}
			call, isCall := unwrap(results(ret)[0], true).(*ssa.Call)
			if !isCall {
				h = nil
				break
			}
			f := call.Call.StaticCallee()
			k := -1
			for i, a := range call.Call.Args {
				if isRegMap(a) {
					k = i
				}
			}
			if f == nil || f.Blocks == nil || !strings.HasPrefix(funcPkgPath(f), modPath) || k < 0 || (h != nil && (h != f || hk != k)) || len(call.Call.Args) != len(f.Params) {
				h = nil
				break
			}
			h, hk = f, k
		}
		if h != nil {
			par := h.Params[hk]
			// the helper only ranges over (or measures) the map it is given
			clean := true
			for _, rr := range referrersOf(par) {
				switch y := rr.(type) {
				case *ssa.Range, *ssa.DebugRef:
				case *ssa.Call:
					if b, isB := y.Call.Value.(*ssa.Builtin); !isB || b.Name() != "len" {
						clean = false
					}
				default:
					clean = false
				}
			}
			if clean {
				fn = h
				isRegMap = func(v ssa.Value) bool { return v == ssa.Value(par) }
			}
		}
	}
	rets := returnsOf(fn)
	var sortCalls []ssa.Instruction
	eachInstr(fn, func(in ssa.Instruction) {
		if isCallTo(in, "sort", "Strings") {
			sortCalls = append(sortCalls, in)
		}
		if f := staticCallee(in); f != nil && funcPkgPath(f) == "slices" && f.Name() == "Sort" {
			sortCalls = append(sortCalls, in)
		}
	})
	if len(sortCalls) == 0 {
		r.Check("R17.2", name, "result is sorted", fn.Pos(), false, "no call to sort.Strings / slices.Sort on the result")
		return
	}
	for i, ret := range rets {
		if len(ret.Results) != 1 {
			continue
		}
		rv := results(ret)[0]
		// the returned slice must be fresh and be the sorted one
		okSorted := false
		var sc ssa.Instruction
		for _, s := range sortCalls {
			arg := callCommon(s).Args[0]
			if sameSlice(arg, rv) && instrDominates(s, ret) {
				okSorted = true
				sc = s
			}
		}
		r.Check("R17.2", name, fmt.Sprintf("return #%d: sort call on the returned slice dominates the return", i+1), ret.Pos(), okSorted, "")
		fresh := true
		for _, v := range sliceRoots(rv) {
			switch v.(type) {
			case *ssa.MakeSlice:
			default:
				if isNil(v) {
					continue
				}
				fresh = false
			}
		}
		r.Check("R17.2", name, fmt.Sprintf("return #%d: the returned slice is freshly made here (not registry storage)", i+1), ret.Pos(), fresh, "")
		if sc != nil {
			// no element store / append to the slice reachable after the sort
			late := false
			after := instrsAfter(sc)
			for _, in := range after {
				if st, ok := in.(*ssa.Store); ok {
					if ia, ok := st.Addr.(*ssa.IndexAddr); ok && sameSlice(ia.X, rv) {
						late = true
					}
				}
				if call, ok := isBuiltinCall(valueOf(in), "append"); ok && sameSlice(call.Call.Args[0], rv) {
					late = true
				}
			}
			r.Check("R17.2", name, fmt.Sprintf("return #%d: no element is stored after the sort", i+1), sc.Pos(), !late, "")
		}
		// elements come from the registry map's keys
		fromKeys, nstores := true, 0
		eachInstr(fn, func(in ssa.Instruction) {
			var val ssa.Value
			if st, ok := in.(*ssa.Store); ok {
				if ia, ok := st.Addr.(*ssa.IndexAddr); ok && sameSlice(ia.X, rv) {
					val = st.Val
				}
			}
			if val == nil {
				return
			}
			nstores++
			ex, ok := val.(*ssa.Extract)
			if !ok || ex.Index != 1 {
				fromKeys = false
				return
			}
			nx, ok := ex.Tuple.(*ssa.Next)
			if !ok {
				fromKeys = false
				return
			}
			rg, ok := nx.Iter.(*ssa.Range)
			if !ok {
				fromKeys = false
				return
			}
			if !isRegMap(rg.X) {
				fromKeys = false
			}
		})
		if nstores > 0 {
			r.Check("R17.2", name, "every element stored is a key of a range over the registry map", fn.Pos(), fromKeys, fmt.Sprintf("%d element stores", nstores))
		} else {
			r.Note("shape-unrecognised R17.2: listing is not filled by indexed stores; key provenance not evaluated")
		}
	}
	r.Floor("R17.2", "returns of the listing", len(rets), 1)
}

func valueOf(in ssa.Instruction) ssa.Value {
	v, _ := in.(ssa.Value)
	return v
}

// sliceRoots: the underlying allocations a slice value may denote (through phi, reslice, append results).
func sliceRoots(v ssa.Value) []ssa.Value {
	seen := map[ssa.Value]bool{}
	var out []ssa.Value
	var walk func(ssa.Value)
	walk = func(x ssa.Value) {
		if seen[x] {
			return
		}
		seen[x] = true
		switch y := x.(type) {
		case *ssa.Phi:
			for _, e := range y.Edges {
				walk(e)
			}
		case *ssa.Slice:
			walk(y.X)
		case *ssa.Call:
			if b, ok := y.Call.Value.(*ssa.Builtin); ok && b.Name() == "append" {
				walk(y.Call.Args[0])
				return
			}
			out = append(out, x)
		default:
			out = append(out, x)
		}
	}
	walk(v)
	return out
}

func sameSlice(a, b ssa.Value) bool {
	ra, rb := sliceRoots(a), sliceRoots(b)
	for _, x := range ra {
		for _, y := range rb {
			if x == y && !isNil(x) {
				return true
			}
		}
	}
	return false
}

// instrsAfter: all instructions that may execute after `at`.
func instrsAfter(at ssa.Instruction) []ssa.Instruction {
	var out []ssa.Instruction
	b := at.Block()
	idx := instrIndex(at)
	out = append(out, b.Instrs[idx+1:]...)
	seen := map[*ssa.BasicBlock]bool{}
	var walk func(x *ssa.BasicBlock)
	walk = func(x *ssa.BasicBlock) {
		if seen[x] {
			return
		}
		seen[x] = true
		out = append(out, x.Instrs...)
		for _, s := range x.Succs {
			walk(s)
		}
	}
	for _, s := range b.Succs {
		walk(s)
	}
	return out
}

// ---- R17.3 -------------------------------------------------------------------

func c17Builtins(c *Ctx) {
	r := c.R
	tp := c.TPkg("texttable/decoration")
	if tp == nil {
		return
	}
	consts := map[string]string{} // value -> const name
	for _, n := range tp.Scope().Names() {
		k, ok := tp.Scope().Lookup(n).(*types.Const)
		if !ok || !k.Exported() || !strings.HasPrefix(n, "D_") || k.Val().Kind() != constant.String {
			continue
		}
		consts[constant.StringVal(k.Val())] = n
	}
	regFn := c.Func("texttable/decoration", "RegisterDecorationName")
	if regFn == nil {
		return
	}
	registered := map[string]ssa.Instruction{}
	iregs, unresolved := decorationInitRegistrations(c)
	for _, rg := range iregs {
		registered[rg.Name] = rg.At
		// value registered must be the result of a function whose result is a non-zero Decoration
		nz, why := false, "the registered value is not built by a function of the module"
		if rg.Builder != nil {
			nz, why = true, "built by "+FuncName(rg.Builder)
			for _, ret := range returnsOf(rg.Builder) {
				if ok, w := nonZeroDecoration(c, results(ret)[0], 1); !ok {
					nz, why = false, FuncName(rg.Builder)+": "+w
				}
			}
		} else if rg.Value != nil {
			nz, why = nonZeroDecoration(c, rg.Value, 0)
		}
		r.Check("R17.3", FuncName(rg.Fn), fmt.Sprintf("registration of %q is a non-empty decoration", rg.Name), rg.At.Pos(), nz, why)
	}
	for _, in := range unresolved {
		r.Check("R17.3", FuncName(in.Parent()), "init-time registration under a non-constant name", in.Pos(), false, "cannot match against the D_* constants")
	}
	var vals []string
	for v := range consts {
		vals = append(vals, v)
	}
	sort.Strings(vals)
	for _, v := range vals {
		_, ok := registered[v]
		r.Check("R17.3", "texttable/decoration", fmt.Sprintf("constant %s = %q is registered at init", consts[v], v), tp.Scope().Lookup(consts[v]).Pos(), ok, "")
	}
	var regs []string
	for v := range registered {
		regs = append(regs, v)
	}
	sort.Strings(regs)
	for _, v := range regs {
		if _, ok := consts[v]; !ok {
			r.Check("R17.3", "texttable/decoration", fmt.Sprintf("init registers %q which has no D_* constant", v), registered[v].Pos(), false, "built-in name not advertised as a constant")
		}
	}
	r.Floor("R17.3", "D_* constants", len(consts), 6)
	r.Floor("R17.3", "init-time registrations", len(registered), 6)
}

// nonZeroDecoration: v is (the result of a function that returns) a Decoration with at least one field set to a non-zero constant.
func nonZeroDecoration(c *Ctx, v ssa.Value, depth int) (bool, string) {
	if depth > 4 {
		return false, "too deep"
	}
	switch x := v.(type) {
	case *ssa.Call:
		f := x.Call.StaticCallee()
		if f == nil || !inModule(f) {
			return false, "not a call to a module function"
		}
		for _, ret := range returnsOf(f) {
			if ok, why := nonZeroDecoration(c, results(ret)[0], depth+1); !ok {
				return false, FuncName(f) + ": " + why
			}
		}
		return true, "built by " + FuncName(f)
	case *ssa.UnOp:
		if x.Op != token.MUL {
			return false, "unrecognised"
		}
		al, ok := x.X.(*ssa.Alloc)
		if !ok {
			return false, "loaded from non-local"
		}
		// some store into a field of al of a non-zero constant, or whole-struct store of a non-zero decoration
		found := false
		for _, ref := range referrersOf(al) {
			switch y := ref.(type) {
			case *ssa.FieldAddr:
				for _, rr := range referrersOf(y) {
					if st, ok := rr.(*ssa.Store); ok && st.Addr == ssa.Value(y) {
						if s, ok := constString(st.Val); ok && s != "" {
							found = true
						}
						if b, ok := constBool(st.Val); ok && b {
							found = true
						}
					}
				}
			case *ssa.Store:
				if y.Addr == ssa.Value(al) {
					if ok, _ := nonZeroDecoration(c, y.Val, depth+1); ok {
						found = true
					}
				}
			}
		}
		if found {
			return true, "has a non-zero field"
		}
		return false, "no field is set to a non-zero constant"
	}
	return false, "unrecognised construction " + v.String()
}

// ---- R17.4 -------------------------------------------------------------------

func c17FailClosed(c *Ctx, reg *guardedGlobal) {
	r := c.R
	empty := c.Global("texttable/decoration", "EmptyDecoration")
	named := c.Func("texttable/decoration", "Named")
	tt := c.Named("texttable", "TextTable")
	decor := c.Field(tt, "decor")
	setNamed := c.Method(tt, true, "SetDecorationNamed")
	renderTo := c.Method(tt, true, "RenderTo")
	if empty == nil || named == nil || decor == nil || setNamed == nil || renderTo == nil {
		return
	}
	// (a) Named
	for i, ret := range returnsOf(named) {
		ok := true
		why := ""
		for _, v := range phiClosure(results(ret)[0]) {
			if loadedGlobal(v) == empty {
				continue
			}
			if ex, isEx := v.(*ssa.Extract); isEx && ex.Index == 0 {
				if lk, isLk := ex.Tuple.(*ssa.Lookup); isLk {
					if f, base := loadedField(lk.X); f != nil && base == ssa.Value(reg.G) {
						continue
					}
				}
			}
			if lk, isLk := v.(*ssa.Lookup); isLk {
				if f, base := loadedField(lk.X); f != nil && base == ssa.Value(reg.G) {
					continue
				}
			}
			if c17LookupViaHelper(v, named, reg.G, 0) {
				continue
			}
			ok = false
			why = "returns " + v.String() + ", which is neither the registry lookup nor EmptyDecoration"
		}
		r.Check("R17.4", FuncName(named), fmt.Sprintf("return #%d is the lookup result or EmptyDecoration", i+1), ret.Pos(), ok, why)
	}
	// the name is looked up / stored exactly as given
	nlk := 0
	eachInstr(named, func(in ssa.Instruction) {
		if lk, ok := in.(*ssa.Lookup); ok {
			if f, base := loadedField(lk.X); f != nil && base == ssa.Value(reg.G) {
				nlk++
				r.Check("R17.4", FuncName(named), "the registry is consulted with the name exactly as given", in.Pos(), lk.Index == ssa.Value(named.Params[0]), "the key is transformed before the lookup: a name can be registered and listed yet never found, or an unregistered spelling can resolve")
			}
		}
		// ... or by a helper handed the name
		call, isCall := in.(*ssa.Call)
		if !isCall {
			return
		}
		h := call.Call.StaticCallee()
		if h == nil || h.Blocks == nil || !inModule(h) || len(call.Call.Args) != len(h.Params) {
			return
		}
		eachInstr(h, func(x ssa.Instruction) {
			lk, ok := x.(*ssa.Lookup)
			if !ok {
				return
			}
			if f, base := loadedField(lk.X); f == nil || base != ssa.Value(reg.G) {
				return
			}
			nlk++
			good := false
			for k, par := range h.Params {
				if lk.Index == ssa.Value(par) && call.Call.Args[k] == ssa.Value(named.Params[0]) {
					good = true
				}
			}
			r.Check("R17.4", FuncName(h), "the registry is consulted with the name exactly as given", x.Pos(), good, "the key is transformed before the lookup, or is not the name Named was given")
		})
	})
	r.Floor("R17.4", "registry lookups on behalf of Named", nlk, 1)
	if regFn := c.Func("texttable/decoration", "RegisterDecorationName"); regFn != nil {
		eachInstr(regFn, func(in ssa.Instruction) {
			if mu, ok := in.(*ssa.MapUpdate); ok {
				r.Check("R17.4", FuncName(regFn), "a decoration is stored under the name exactly as given", in.Pos(), mu.Key == ssa.Value(regFn.Params[0]) && mu.Value == ssa.Value(regFn.Params[1]), "")
			}
		})
	}
	// (b) EmptyDecoration is never stored to (not even at init: it is the zero value)
	nst := 0
	for _, fn := range c.LibFuncs() {
		eachInstr(fn, func(in ssa.Instruction) {
			if st, ok := in.(*ssa.Store); ok {
				root, _ := addrPath(st.Addr)
				if root == ssa.Value(empty) {
					nst++
					zero := false
					if k, ok := st.Val.(*ssa.Const); ok && k.Value == nil {
						zero = true
					}
					r.Check("R17.4", FuncName(fn), "store to EmptyDecoration", in.Pos(), zero && isPkgInit(fn), "the empty decoration must stay the zero value so that unknown names are recognisable")
				}
			}
		})
	}
	if nst == 0 {
		r.Check("R17.4", "texttable/decoration", "EmptyDecoration is never assigned (stays the zero Decoration)", empty.Pos(), true, "")
	}
	// (b2) a name is turned into a decoration in one place only: SetDecorationNamed, which stores whatever the lookup
	// gave - the empty decoration for an unknown name - so that rendering then refuses. A caller that looks names up
	// itself and skips the unknown ones renders with whatever decoration was there before.
	{
		nuse := 0
		for _, fn := range c.LibFuncs() {
			if funcPkgPath(fn) == pkgPath("texttable/decoration") {
				continue
			}
			eachInstr(fn, func(in ssa.Instruction) {
				if staticCallee(in) != named {
					return
				}
				nuse++
				r.Check("R17.4", FuncName(fn), "decoration.Named is called only by SetDecorationNamed", in.Pos(), fn == setNamed, "a name is resolved outside the fail-closed setter: an unknown name can be passed over instead of making the table refuse to render")
			})
		}
		r.Floor("R17.4", "uses of decoration.Named outside its package", nuse, 1)
	}
	// (c) SetDecorationNamed
	{
		fn := setNamed
		var namedCall ssa.Value
		eachInstr(fn, func(in ssa.Instruction) {
			if staticCallee(in) == named {
				namedCall = in.(ssa.Value)
			}
		})
		if namedCall == nil {
			r.Check("R17.4", FuncName(fn), "looks the name up with decoration.Named", fn.Pos(), false, "no call to Named")
		} else {
			if nc, isCall := namedCall.(*ssa.Call); isCall && len(nc.Call.Args) == 1 && len(fn.Params) >= 2 {
				r.Check("R17.4", FuncName(fn), "decoration.Named is asked for the name exactly as given", nc.Pos(), nc.Call.Args[0] == ssa.Value(fn.Params[1]),
					"the name is transformed before the lookup: a decoration registered (and listed) under another spelling can never be selected, or an unregistered spelling resolves")
			}
			var st *ssa.Store
			eachInstr(fn, func(in ssa.Instruction) {
				if s, ok := in.(*ssa.Store); ok {
					if f, _ := storeField(s.Addr); f == decor && s.Val == namedCall {
						st = s
					}
				}
			})
			allDom := st != nil
			for _, ret := range returnsOf(fn) {
				if st == nil || !instrDominates(st, ret) {
					allDom = false
				}
			}
			r.Check("R17.4", FuncName(fn), "the lookup result is stored into decor on every path (unknown name => EmptyDecoration is what gets stored)", fn.Pos(), allDom, "")
			// error iff == EmptyDecoration
			okErr, why := errIffEmpty(fn, namedCall, empty)
			r.Check("R17.4", FuncName(fn), "returns a non-nil error exactly on the lookup==EmptyDecoration edge", fn.Pos(), okErr, why)
		}
	}
	// (d) RenderTo refuses the empty decoration before anything happens
	{
		fn := renderTo
		var test *ssa.If
		eqSucc := 0
		eachInstr(fn, func(in ssa.Instruction) {
			iff, ok := in.(*ssa.If)
			if !ok {
				return
			}
			b, ok := iff.Cond.(*ssa.BinOp)
			if !ok || (b.Op != token.EQL && b.Op != token.NEQ) {
				return
			}
			isDecor := func(v ssa.Value) bool { f, _ := loadedField(v); return f == decor }
			isEmpty := func(v ssa.Value) bool { return loadedGlobal(v) == empty }
			if (isDecor(b.X) && isEmpty(b.Y)) || (isDecor(b.Y) && isEmpty(b.X)) {
				test = iff
				if b.Op == token.NEQ {
					eqSucc = 1
				}
			}
		})
		if test == nil {
			r.Check("R17.4", FuncName(fn), "tests decor == EmptyDecoration", fn.Pos(), false, "no such comparison: an unknown decoration would render with whatever the zero decoration draws")
			return
		}
		tb := test.Block()
		eq, ne := tb.Succs[eqSucc], tb.Succs[1-eqSucc]
		wv := writerValues(fn)
		sites := writeSitesOf(fn, wv)
		bad := ""
		for _, s := range sites {
			blk := s.Call.(ssa.Instruction).Block()
			if !edgeControls(tb, ne, blk) {
				bad = s.Desc + " is not dominated by the decor != EmptyDecoration edge"
			}
		}
		ncb := 0
		eachInstr(fn, func(in ssa.Instruction) {
			if m, _ := invokeMethod(in); m == "InvokeRenderCallbacks" {
				ncb++
				if !edgeControls(tb, ne, in.Block()) {
					bad = "InvokeRenderCallbacks is not dominated by the decor != EmptyDecoration edge"
				}
			}
		})
		r.Check("R17.4", FuncName(fn), "the EmptyDecoration test dominates the render callbacks and every write", test.Pos(), bad == "", bad)
		// eq edge returns non-nil error
		okRet := true
		why := ""
		for b := range blockReach(eq, nil) {
			if !edgeControls(tb, eq, b) {
				continue
			}
			for _, in := range b.Instrs {
				if ret, ok := in.(*ssa.Return); ok {
					ev := results(ret)[len(ret.Results)-1]
					if !definitelyNonNilErr(ev) {
						okRet, why = false, "the refusal edge returns a possibly-nil error"
					}
				}
			}
		}
		if !edgeControls(tb, eq, eq) {
			okRet, why = false, "the refusal edge merges with normal flow"
		}
		r.Check("R17.4", FuncName(fn), "the decor == EmptyDecoration edge returns a non-nil error", test.Pos(), okRet, why)
		r.Floor("R17.4", "write sites in texttable RenderTo", len(sites), 5)
	}
	// writers of decor
	nw := 0
	for _, fn := range c.LibFuncs() {
		eachInstr(fn, func(in ssa.Instruction) {
			if s, ok := in.(*ssa.Store); ok {
				if f, _ := storeField(s.Addr); f == decor {
					nw++
					ok := funcPkgPath(fn) == pkgPath("texttable")
					r.Check("R17.4", FuncName(fn), "store TextTable.decor", in.Pos(), ok, "decor is written only by texttable's constructor and setters")
					// what is stored is a decoration as it was handed in or looked up: nothing fills it in on the way
					// (an empty decoration that acquires default glyphs is no longer recognised as "unknown")
					v := s.Val
					asGiven := true
					why := ""
					if u, isU := v.(*ssa.UnOp); isU && u.Op == token.MUL {
						if al, isAl := u.X.(*ssa.Alloc); isAl {
							// a local holding the value: it may be written once (param spill or the lookup result)
							// and its address may not be handed to anything
							nst := 0
							for _, rr := range referrersOf(al) {
								switch y := rr.(type) {
								case *ssa.Store:
									if y.Addr == ssa.Value(al) {
										nst++
									}
								case *ssa.UnOp, *ssa.DebugRef:
								case *ssa.FieldAddr:
									for _, r2 := range referrersOf(y) {
										if st2, isSt := r2.(*ssa.Store); isSt && st2.Addr == ssa.Value(y) {
											asGiven, why = false, "a field of the decoration is assigned before it is installed"
										}
									}
								case ssa.CallInstruction:
									asGiven, why = false, "the decoration is handed to "+calleeDesc(y.Common())+" (which may fill it in) before it is installed"
								default:
									asGiven, why = false, "the decoration's address is used by "+rr.String()
								}
							}
							if nst > 1 {
								asGiven, why = false, "the decoration is re-assigned before it is installed"
							}
						}
					}
					r.Check("R17.4", FuncName(fn), "the decoration installed is the one given or looked up, untouched", in.Pos(), asGiven, why)
				}
			}
		})
	}
	r.Floor("R17.4", "writers of TextTable.decor", nw, 3)
}

// definitelyNonNilErr: the error value cannot be nil (result of a call, or MakeInterface of something).
func definitelyNonNilErr(v ssa.Value) bool {
	for _, x := range phiClosure(v) {
		switch y := x.(type) {
		case *ssa.Call:
			f := y.Call.StaticCallee()
			if f == nil {
				return false
			}
			pp := funcPkgPath(f)
			if !(pp == "errors" && f.Name() == "New") && !(pp == "fmt" && f.Name() == "Errorf") {
				return false
			}
		case *ssa.MakeInterface:
			// a concrete non-pointer value, or address: non-nil interface
		case *ssa.UnOp:
			// load of a package-level error variable initialised by errors.New: accept module Err* globals
			if g := loadedGlobal(y); g == nil || !strings.HasPrefix(g.Name(), "Err") {
				return false
			}
		default:
			return false
		}
	}
	return true
}

// errIffEmpty: in fn, every return under the (d == EmptyDecoration) edge has a non-nil error and every other return has nil.
func errIffEmpty(fn *ssa.Function, d ssa.Value, empty *ssa.Global) (bool, string) {
	var test *ssa.If
	eqSucc := 0
	eachInstr(fn, func(in ssa.Instruction) {
		iff, ok := in.(*ssa.If)
		if !ok {
			return
		}
		b, ok := iff.Cond.(*ssa.BinOp)
		if !ok || (b.Op != token.EQL && b.Op != token.NEQ) {
			return
		}
		// the lookup result itself, or a re-read of the field it has just been stored into
		isD := func(v ssa.Value) bool {
			if v == d {
				return true
			}
			f, base := loadedField(v)
			vi, _ := v.(ssa.Instruction)
			if f == nil || vi == nil {
				return false
			}
			same := false
			nstores := 0
			eachInstr(fn, func(x ssa.Instruction) {
				st, isSt := x.(*ssa.Store)
				if !isSt {
					return
				}
				if f2, b2 := storeField(st.Addr); f2 == f && b2 == base {
					nstores++
					if st.Val == d && instrDominates(st, vi) {
						same = true
					}
				}
			})
			return same && nstores == 1
		}
		if (isD(b.X) && loadedGlobal(b.Y) == empty) || (isD(b.Y) && loadedGlobal(b.X) == empty) {
			test = iff
			if b.Op == token.NEQ {
				eqSucc = 1
			}
		}
	})
	if test == nil {
		return false, "no comparison of the lookup result with EmptyDecoration"
	}
	tb := test.Block()
	eq, ne := tb.Succs[eqSucc], tb.Succs[1-eqSucc]
	for _, ret := range returnsOf(fn) {
		ev := results(ret)[len(ret.Results)-1]
		switch {
		case edgeControls(tb, eq, ret.Block()):
			if !definitelyNonNilErr(ev) {
				return false, "unknown-name path returns a possibly-nil error"
			}
		case edgeControls(tb, ne, ret.Block()):
			if !isNil(ev) {
				return false, "known-name path returns a non-nil error"
			}
		default:
			// one return for both outcomes: the error is a merge whose incoming values are decided by the test
			phi, isPhi := ev.(*ssa.Phi)
			if !isPhi {
				return false, "a return is not under either edge of the test"
			}
			for k, e := range phi.Edges {
				pred := phi.Block().Preds[k]
				switch {
				case edgeControls(tb, eq, pred) || (pred == tb && phi.Block() == eq):
					if !definitelyNonNilErr(e) {
						return false, "unknown-name path returns a possibly-nil error"
					}
				case edgeControls(tb, ne, pred) || (pred == tb && phi.Block() == ne):
					if !isNil(e) {
						return false, "known-name path returns a non-nil error"
					}
				default:
					return false, "a return is not under either edge of the test"
				}
			}
		}
	}
	return true, ""
}

// c17LookupViaHelper: v (in fn) is a result of a module helper whose every return hands back, in that position, the
// registry's own lookup result (value or comma-ok flag position 0 only).
func c17LookupViaHelper(v ssa.Value, fn *ssa.Function, g *ssa.Global, depth int) bool {
	if depth > 2 {
		return false
	}
	idx := 0
	var call *ssa.Call
	switch x := v.(type) {
	case *ssa.Extract:
		call, _ = x.Tuple.(*ssa.Call)
		idx = x.Index
	case *ssa.Call:
		call = x
	}
	if call == nil {
		return false
	}
	h := call.Call.StaticCallee()
	if h == nil || h.Blocks == nil || !inModule(h) {
		return false
	}
	rets := returnsOf(h)
	if len(rets) == 0 {
		return false
	}
	for _, ret := range rets {
		rv := results(ret)
		if idx >= len(rv) {
			return false
		}
		for _, e := range phiClosure(rv[idx]) {
			okE := false
			if ex, isEx := e.(*ssa.Extract); isEx && ex.Index == 0 {
				if lk, isLk := ex.Tuple.(*ssa.Lookup); isLk {
					if f, base := loadedField(lk.X); f != nil && base == ssa.Value(g) {
						okE = true
					}
				}
			}
			if lk, isLk := e.(*ssa.Lookup); isLk {
				if f, base := loadedField(lk.X); f != nil && base == ssa.Value(g) {
					okE = true
				}
			}
			if !okE && c17LookupViaHelper(e, h, g, depth+1) {
				okE = true
			}
			if !okE {
				return false
			}
		}
	}
	return true
}
