package main

import (
	"fmt"
	"go/types"
	"sort"
	"strings"

	"golang.org/x/tools/go/ssa"
)

func init() { register("C14", runC14) }

func runC14(c *Ctx) {
	r := c.R
	r.Explanation = "Repeatability needs every render pass to start from the same table state. The interprocedural effect analysis gives, for each RenderTo/Render, the set of struct fields that any reachable module function may store to (user callbacks excluded, as the statement allows). " +
		"R14.1: that mod-set is inside a short allowlist - the property chain of a CELL (measurements), the HTML wrapper's cached template, and the error list (only on the callback-failure path); in particular nothing writes rows, cells, column bookkeeping, a cell's text/size/location, a wrapper's decoration or separator. " +
		"R14.2: every property key written on a render path is a package-private pointer variable of an unexported type, so it cannot collide with a user key. " +
		"R14.3: the built-in measuring callbacks compute from the cell alone (they never read a property back) and store with SetProperty (replace, see C12), so k passes leave what one pass leaves. R14.4: they fail only when not handed a cell, which the invocation sites' static types exclude (C13). " +
		"Decided: the structural conditions for 'rendering leaves the table unchanged and starts from the same state'. Not decided: byte equality of successive outputs (follows from determinism of the renderers given unchanged state)."
	r.NotDecided = []string{"byte equality of successive renders", "effects of user-supplied callbacks, item methods and row-class generators"}
	r.Assumptions = []string{"html/template's Funcs/Execute do not modify tabular structures", "the effect analysis resolves interface calls with the VTA call graph plus dominating type assertions"}
	r.Rule("R14.1", "the set of fields a render may write is within the allowlist (cell measurements, cached template, error list)")
	r.Rule("R14.2", "measurement keys are package-private pointers of unexported types")
	r.Rule("R14.3", "built-in render callbacks recompute from the cell and never read back what a previous pass stored")
	r.Rule("R14.4", "built-in render callbacks fail only when not given a cell")

	e := c.Effects()
	allow := map[string]string{
		"Cell.propertyImpl." + anchorFieldName("", "propertyImpl", "properties") + "|store":      "measurements stored as properties of the cell under private keys (R14.2)",
		"HTMLTable." + anchorFieldName("html", "HTMLTable", "template") + "|store":               "parsed template cached on the wrapper itself",
		"ErrorContainer." + anchorFieldName("", "ErrorContainer", "errors_") + "|store":          "error list (only reached when a callback returns an error)",
		"elem of ErrorContainer." + anchorFieldName("", "ErrorContainer", "errors_") + "|append": "error list (only reached when a callback returns an error)",
		"Row.ErrorContainer|store":          "lazy creation of a row's error container (only reached when a callback returns an error)",
		"*(**tabular.ErrorContainer)|store": "the same lazy creation, done by a helper handed the address of the container field",
		"elem|append":                       "append to a slice that is not table state (result of a standard-library call)",
	}
	nfn := 0
	for _, rel := range []string{"csv", "html", "json", "markdown", "texttable", "auto"} {
		for _, fn := range c.ModFuncs(rel) {
			isEntry := (fn.Name() == "RenderTo" || fn.Name() == "Render") && fn.Parent() == nil && fn.Synthetic == ""
			if rel == "auto" && (fn.Name() == "Wrap" || fn.Name() == "New") && fn.Parent() == nil {
				isEntry = true // choosing the renderer by name is part of "rendering in any order of formats and decorations"
			}
			if !isEntry {
				continue
			}
			nfn++
			efs := e.EffectsOf(fn)
			seen := map[string]bool{}
			bad := 0
			var kept []string
			for _, ef := range efs {
				if strings.HasPrefix(ef.What, "opaque:") || ef.What == "go" {
					continue
				}
				k := ef.Path + "|" + ef.What
				if fn.Signature.Recv() == nil {
					// a package-level entry point wraps first: what it does to the wrapper (or to a table) it has just
					// made is not a change to anything the caller had; and wrapping registers the renderer's measuring
					// callback on the table, which is what wrapping is documented to do
					if strings.HasPrefix(fmt.Sprint(ef.Org), "heap") {
						continue
					}
					if ef.Fn != nil && ef.Fn.Name() == "RegisterPropertyCallback" {
						continue
					}
				}
				if seen[k] {
					continue
				}
				seen[k] = true
				if _, ok := allow[k]; ok {
					kept = append(kept, k)
					continue
				}
				bad++
				r.Check("R14.1", FuncName(fn), fmt.Sprintf("%s of %s", ef.What, ef.Path), ef.At.Pos(), false,
					fmt.Sprintf("rendering may modify this (in %s via %s): the next render, or the caller, sees a changed table", FuncName(ef.Fn), ef.Via))
			}
			for _, ef := range receiverStateHandedOut(c, fn) {
				bad++
				r.Check("R14.1", FuncName(fn), "part of the wrapper itself is handed to "+strings.TrimPrefix(ef.What, "opaque:"), ef.At.Pos(), false,
					"a callee outside the module may modify state that lives in the wrapper and survives the render")
			}
			if bad == 0 {
				sort.Strings(kept)
				r.Check("R14.1", FuncName(fn), "mod-set within the allowlist", fn.Pos(), true, strings.Join(kept, "; "))
			}
		}
	}
	r.Floor("R14.1", "render entry points", nfn, 10)

	// R14.2 keys
	nk := 0
	for _, fn := range c.LibFuncs() {
		if funcPkgPath(fn) == modPath {
			continue
		}
		eachInstr(fn, func(in ssa.Instruction) {
			cc := callCommon(in)
			if cc == nil {
				return
			}
			name := ""
			if cc.IsInvoke() {
				name = cc.Method.Name()
			} else if f := cc.StaticCallee(); f != nil {
				name = f.Name()
			}
			if name != "SetProperty" || len(cc.Args) < 2 {
				return
			}
			nk++
			key := unwrap(cc.Args[len(cc.Args)-2], true)
			gs, recognised := keyGlobalsOf(key)
			if !recognised {
				r.Note(fmt.Sprintf("shape-unrecognised R14.2: the key of the SetProperty call at %s is computed (%s); which variable it is was not determined", c.Pos(in.Pos()), key.String()))
				return
			}
			for _, g := range gs {
				ok, why := false, "key is not a package-level variable"
				if g != nil {
					pt, isPtr := g.Type().(*types.Pointer).Elem().(*types.Pointer)
					switch {
					case g.Object() != nil && g.Object().Exported():
						why = "key variable " + g.Name() + " is exported: a user can store under it"
					case !isPtr:
						why = "key variable is not a pointer (equal values of the same type would collide)"
					default:
						n := namedOf(pt)
						if n == nil || n.Obj().Exported() {
							why = "key type is exported"
						} else {
							ok, why = true, "private pointer key "+g.Name()
							// ... whose pointer is minted by the variable's own initializer, not borrowed from anywhere
							for _, gf := range c.LibFuncs() {
								eachInstr(gf, func(x ssa.Instruction) {
									st, isSt := x.(*ssa.Store)
									if !isSt || st.Addr != ssa.Value(g) {
										return
									}
									if al, isAl := st.Val.(*ssa.Alloc); !isAl || !al.Heap || !(gf.Synthetic != "" && gf.Name() == "init") {
										ok, why = false, "key variable "+g.Name()+" is assigned "+st.Val.String()+": a pointer it does not own (another renderer, or the user, can hold the same key and overwrite the measurement)"
									}
								})
							}
						}
					}
				}
				r.Check("R14.2", FuncName(fn), "key of SetProperty", in.Pos(), ok, why)
			}
		})
	}
	r.Floor("R14.2", "SetProperty calls in renderer packages", nk, 2)

	// R14.5 renderers never add to the error list themselves
	r.Rule("R14.5", "renderer packages report failures through their return value, never by adding to the table's error list")
	nadd := 0
	for _, fn := range c.LibFuncs() {
		if funcPkgPath(fn) == modPath {
			continue
		}
		eachInstr(fn, func(in ssa.Instruction) {
			cc := callCommon(in)
			if cc == nil {
				return
			}
			name := ""
			if cc.IsInvoke() {
				name = cc.Method.Name()
			} else if f := cc.StaticCallee(); f != nil {
				name = f.Name()
			}
			if name == "AddError" || name == "AddErrorList" {
				nadd++
				r.Check("R14.5", FuncName(fn), "call to "+name, in.Pos(), false, "a render grows the table's error list: the list differs after every render")
			}
		})
	}
	if nadd == 0 {
		r.Check("R14.5", "renderer packages", "no call to AddError/AddErrorList", 0, true, "")
	}

	// a render shows the table the wrapper holds NOW: whatever a renderer keeps between renders (the HTML wrapper's
	// parsed template) is re-bound to the current wrapper and table before it is used (C06's R06.3), so the bytes do
	// not depend on which wrapper value, or which table, was rendered first
	r.Rule("R14.6", "state a renderer keeps between renders is re-bound to the current table before each use")
	importPremises(c, "R14.6", "kept-state premise ", "the output would depend on what was rendered before", func(o *Ob) bool {
		return o.Rule == "R06.3" && (strings.Contains(o.Construct, "rebound") || strings.Contains(o.Construct, "own template"))
	}, func() { runC06(c) })

	// R14.3 / R14.4 built-in callbacks
	ncb := 0
	for _, fn := range c.LibFuncs() {
		if fn.Name() != "UpdateProperties" || fn.Signature.Recv() == nil || funcPkgPath(fn) == modPath {
			continue
		}
		ncb++
		reads := false
		setsOnPo := true
		eachInstr(fn, func(in ssa.Instruction) {
			cc := callCommon(in)
			if cc == nil {
				return
			}
			name := ""
			if cc.IsInvoke() {
				name = cc.Method.Name()
			} else if f := cc.StaticCallee(); f != nil {
				name = f.Name()
			}
			if name == "GetProperty" || strings.HasPrefix(name, "CellPropertyExtract") {
				reads = true
			}
			if name == "SetProperty" {
				var recv ssa.Value
				if cc.IsInvoke() {
					recv = cc.Value
				} else {
					recv = cc.Args[0]
				}
				// the object itself, the concrete value obtained from it by a type assertion, or an embedded
				// part of that (promoted SetProperty)
				for {
					if fa, isFA := recv.(*ssa.FieldAddr); isFA {
						recv = fa.X
						continue
					}
					break
				}
				if ex, isEx := recv.(*ssa.Extract); isEx {
					recv = ex.Tuple
				}
				if ta, isTA := recv.(*ssa.TypeAssert); isTA {
					recv = ta.X
				}
				if recv != ssa.Value(fn.Params[1]) {
					setsOnPo = false
				}
			}
		})
		r.Check("R14.3", FuncName(fn), "does not read back properties and sets only on the object it was given", fn.Pos(), !reads && setsOnPo, fmt.Sprintf("reads properties: %v; sets on its own target: %v", reads, setsOnPo))
		// fails only when not given a cell
		okErr := true
		for _, ret := range returnsOf(fn) {
			ev := results(ret)[0]
			if isNil(ev) {
				continue
			}
			under := false
			for _, cf := range dominatingConds(ret.Block()) {
				if ex, ok := cf.Cond.(*ssa.Extract); ok && !cf.Val {
					if ta, ok := ex.Tuple.(*ssa.TypeAssert); ok && ta.X == ssa.Value(fn.Params[1]) && isNamed(ta.AssertedType, modPath, "Cell") {
						under = true
					}
				}
			}
			if !under {
				okErr = false
			}
		}
		r.Check("R14.4", FuncName(fn), "returns an error only when its target is not a *Cell", fn.Pos(), okErr, "")
	}
	r.Floor("R14.3", "built-in render callbacks", ncb, 2)
	// premise of R14.3: SetProperty really replaces one key and keeps every other key of the owner (C12's rules on
	// the property chain), otherwise the measuring pass of the next render wipes properties the user set in between
	{
		sub := &Report{Rules: map[string]string{}, known: map[string]string{}, knownSeen: map[string]bool{}, Extra: map[string]interface{}{}, c: c}
		saved := c.R
		c.R = sub
		importDepth++
		runC12(c)
		importDepth--
		c.R = saved
		n := 0
		for _, o := range sub.Obs {
			if o.Rule != "R12.1" && o.Rule != "R12.2" {
				continue
			}
			n++
			ob := r.Check("R14.3", o.Func, "property-store premise ("+o.Rule+"): "+o.Construct, 0, o.Verdict == "discharged", "re-measuring a cell on the next render would disturb the owner's other properties: "+o.Detail)
			ob.Pos = o.Pos
		}
		r.Floor("R14.3", "property-store premises", n, 8)
	}
}

// keyGlobalsOf: the package-level variables a property key value can be: a load of one, a constant-free merge of
// such loads, or a field of an element of a local table every entry of which stores such a load in that field.
// ok=false when the value is computed some other way (not a violation by itself: the rule then says nothing).
func keyGlobalsOf(v ssa.Value) ([]*ssa.Global, bool) {
	var out []*ssa.Global
	for _, x := range phiClosure(v) {
		x = unwrap(x, true)
		if g := loadedGlobal(x); g != nil {
			out = append(out, g)
			continue
		}
		if _, isParam := x.(*ssa.Parameter); isParam {
			return nil, false
		}
		if _, isConst := x.(*ssa.Const); isConst {
			out = append(out, nil) // a literal key: recognised, and not a package-level variable
			continue
		}
		// field f of an element of a local table
		fieldIdx := -1
		cur := x
		var root *ssa.Alloc
		for i := 0; i < 8 && root == nil; i++ {
			switch y := cur.(type) {
			case *ssa.Field:
				if fieldIdx < 0 {
					fieldIdx = y.Field
				}
				cur = y.X
			case *ssa.Index:
				cur = y.X
			case *ssa.UnOp:
				cur = y.X
			case *ssa.FieldAddr:
				if fieldIdx < 0 {
					fieldIdx = y.Field
				}
				cur = y.X
			case *ssa.IndexAddr:
				cur = y.X
			case *ssa.Alloc:
				// a local that merely holds a copy of a table element: follow its single store
				var only *ssa.Store
				n := 0
				for _, rr := range referrersOf(y) {
					if st, ok := rr.(*ssa.Store); ok && st.Addr == ssa.Value(y) {
						only = st
						n++
					}
				}
				if n == 1 {
					cur = only.Val
				} else {
					root = y
				}
			default:
				return nil, false
			}
		}
		if root == nil || fieldIdx < 0 {
			return nil, false
		}
		found := 0
		okAll := true
		var visit func(a ssa.Value, depth int)
		visit = func(a ssa.Value, depth int) {
			if depth > 4 {
				return
			}
			for _, rr := range referrersOf(a) {
				switch y := rr.(type) {
				case *ssa.IndexAddr:
					visit(y, depth+1)
				case *ssa.FieldAddr:
					if y.Field != fieldIdx {
						continue
					}
					for _, r2 := range referrersOf(y) {
						if st, ok := r2.(*ssa.Store); ok && st.Addr == ssa.Value(y) {
							found++
							if g := loadedGlobal(unwrap(st.Val, true)); g != nil {
								out = append(out, g)
							} else {
								okAll = false
							}
						}
					}
				}
			}
		}
		visit(root, 0)
		if found == 0 || !okAll {
			return nil, false
		}
	}
	return out, len(out) > 0
}

// receiverStateHandedOut: the effects of fn in which an unanalysed, possibly mutating callee receives a pointer
// INTO the receiver object itself (the address of one of its fields - as opposed to a pointer merely stored in it).
func receiverStateHandedOut(c *Ctx, fn *ssa.Function) []effect {
	var out []effect
	seen := map[string]bool{}
	for _, ef := range c.Effects().EffectsOf(fn) {
		if !strings.HasPrefix(ef.What, "opaque:") || pureOpaque(ef.What) {
			continue
		}
		if ef.Org.Kind != orgParam || ef.Org.Idx != 0 || ef.Org.Deep {
			continue
		}
		k := ef.What + "|" + c.Pos(ef.At.Pos())
		if seen[k] {
			continue
		}
		seen[k] = true
		out = append(out, ef)
	}
	return out
}
