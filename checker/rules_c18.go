package main

import (
	"fmt"
	"go/token"
	"go/types"
	"strings"

	"golang.org/x/tools/go/ssa"
)

func init() { register("C18", runC18) }

func runC18(c *Ctx) {
	r := c.R
	r.Explanation = "The numeric clauses (runes <= bytes, cells <= 2*runes, the max-of-lines identities for all strings) range over string contents and are NOT decided by static analysis. Decided are the structural conditions that keep the metrics and the two passes of the text renderer in step: " +
		"R18.1 the three LongestLine* functions are siblings: each splits with Lines, measures only with its own String* measure (fast path and loop), returns 0 for no lines, the single line's measure, or a running maximum that is updated only under 'greater than' over a loop visiting every line. " +
		"R18.2 one splitter and one cell measure: strings.Split on the newline occurs only in length.Lines; Cell.Lines and every LongestLine* go through it; a cell's default width is LongestLineCells of its text; the emit pass measures each line with the same leaf measure as the layout pass; the height formula in Cell.Update and the line count of Lines use the same separator and the same trailing-newline rule (shape rule). " +
		"R18.3 the layout/emit agreement cannot turn into a panic: the index obligations of the measuring callback are discharged (array sized by max(declared height, line count))."
	r.NotDecided = []string{"runes <= bytes and cells <= 2*runes per line (properties of utf8 and go-runewidth)", "that Lines loses nothing but line breaks (semantics of strings.Split)", "numeric equality height == len(Lines) for all strings (only the agreement of the two formulas' shape is checked)"}
	r.Assumptions = []string{"strings.Split/Count/HasSuffix behave as documented"}
	r.Rule("R18.1", "LongestLineX = max over Lines(s) of StringX(line), for X in Bytes/Runes/Cells, with identical structure")
	r.Rule("R18.2", "one splitter, one cell measure, shared by Cell, layout and emit; height and Lines agree on separator and trailing rule")
	r.Rule("R18.3", "disagreement between declared/derived height and line count cannot panic")

	lines := c.Func("length", "Lines")
	if lines == nil {
		return
	}
	// ---- R18.1
	c18LongestAll(c, lines, []string{"Bytes", "Runes", "Cells"})
	// the three per-line measures are what their dependency says, with nothing added: bytes = len, runes = the rune
	// count, cells = the width library's measure of the same string. ("cells <= 2*runes" and "runes <= bytes" are
	// properties of those measures; a correction term on top - tab stops, margins - takes them away.)
	for _, m := range []struct{ name, what string }{{"StringBytes", "len"}, {"StringRunes", "unicode/utf8"}, {"StringCells", "github.com/mattn/go-runewidth"}} {
		f := c.FuncOpt("length", m.name)
		if f == nil || len(f.Params) != 1 {
			continue
		}
		for i, ret := range returnsOf(f) {
			for _, v := range phiClosure(results(ret)[0]) {
				ok, why := false, "the result is computed ("+v.String()+"), not the measure itself"
				if call, isCall := v.(*ssa.Call); isCall {
					argOK := false
					for _, a := range call.Call.Args {
						if a == ssa.Value(f.Params[0]) {
							argOK = true
						}
					}
					if b, isB := call.Call.Value.(*ssa.Builtin); isB {
						ok = m.what == "len" && b.Name() == "len" && argOK
					} else if g := call.Call.StaticCallee(); g != nil {
						ok = strings.HasPrefix(funcPkgPath(g), m.what) && argOK
						if !argOK {
							why = "the measure is applied to something other than the string given"
						}
					}
				}
				r.Check("R18.1", FuncName(f), fmt.Sprintf("return #%d is the %s measure of the argument itself", i+1, m.what), ret.Pos(), ok, why)
			}
		}
	}

	// ---- R18.2
	nsplit := 0
	for _, fn := range c.LibFuncs() {
		eachInstr(fn, func(in ssa.Instruction) {
			if isCallTo(in, "strings", "Split") || isCallTo(in, "strings", "SplitN") || isCallTo(in, "strings", "SplitAfter") || isCallTo(in, "strings", "FieldsFunc") {
				if sep, ok := constString(callCommon(in).Args[1]); ok && sep == "\n" {
					nsplit++
					r.Check("R18.2", FuncName(fn), "splitting on newline", in.Pos(), fn == lines, "a second line splitter can disagree with length.Lines")
				}
			}
		})
	}
	// the splitter is built only from operations that lose nothing of the text but the separator: which standard
	// library functions length.Lines (and what it calls in the module) may use is a closed list; the well-known
	// line-oriented conveniences that DO alter the text are violations, anything else is left undecided (NOTE)
	{
		lossless := map[string]bool{"strings.Split": true, "strings.SplitN": true, "strings.Index": true, "strings.IndexByte": true, "strings.IndexRune": true,
			"strings.LastIndex": true, "strings.LastIndexByte": true, "strings.Count": true, "strings.HasSuffix": true, "strings.HasPrefix": true, "strings.TrimSuffix": true, "strings.Cut": true}
		altering := map[string]string{
			"bufio":                 "a bufio.Scanner drops a carriage return before each line break and gives up on long lines",
			"strings.Fields":        "Fields drops empty lines and surrounding white space",
			"strings.FieldsFunc":    "FieldsFunc drops empty lines",
			"strings.TrimSpace":     "TrimSpace removes more than one trailing newline",
			"strings.Trim":          "Trim removes more than one trailing newline",
			"strings.TrimRight":     "TrimRight removes every trailing newline, not one",
			"strings.TrimLeft":      "TrimLeft removes leading text",
			"strings.TrimFunc":      "TrimFunc removes text",
			"strings.Replace":       "the text is rewritten before it is split",
			"strings.ReplaceAll":    "the text is rewritten before it is split",
			"strings.NewReplacer":   "the text is rewritten before it is split",
			"strings.Map":           "the text is rewritten before it is split",
			"strings.ToLower":       "the text is rewritten",
			"strings.ToUpper":       "the text is rewritten",
			"strings.ToValidUTF8":   "the text is rewritten",
			"strings.SplitAfter":    "the lines keep their line break",
			"strings.SplitAfterN":   "the lines keep their line break",
			"strings.EqualFold":     "",
			"unicode/utf8":          "",
			"bytes.Fields":          "Fields drops empty lines and surrounding white space",
			"bytes.TrimSpace":       "TrimSpace removes more than one trailing newline",
			"regexp":                "a regular-expression split is not decided here and commonly eats carriage returns or blank lines",
			"text/scanner":          "a token scanner is not a line splitter",
			"strings.NewReader":     "",
			"strings.Lines":         "",
			"strings.SplitSeq":      "",
			"strings.FieldsSeq":     "FieldsSeq drops empty lines",
			"strings.FieldsFuncSeq": "FieldsFuncSeq drops empty lines",
		}
		nuse := 0
		for _, fn := range pkgReach(lines, 2) {
			eachInstr(fn, func(in ssa.Instruction) {
				callee := staticCallee(in)
				if callee == nil || inModule(callee) || callee.Pkg == nil {
					return
				}
				pp := funcPkgPath(callee)
				name := pp + "." + callee.Name()
				if callee.Signature.Recv() != nil {
					name = pp // methods of a library type: judged by the package
				}
				nuse++
				switch {
				case lossless[name]:
					if callee.Name() == "SplitN" {
						k, isK := constInt(callCommon(in).Args[2])
						r.Check("R18.2", FuncName(fn), "the splitter places no limit on the number of lines", in.Pos(), isK && k < 0, "SplitN with a limit leaves the remaining line breaks inside the last line")
					} else if callee.Name() == "TrimSuffix" {
						sfx, isS := constString(callCommon(in).Args[1])
						r.Check("R18.2", FuncName(fn), "at most one trailing newline is removed", in.Pos(), isS && sfx == "\n", "something other than one final newline is trimmed")
					} else {
						r.Check("R18.2", FuncName(fn), "the splitter uses "+name+", which loses nothing but the separator", in.Pos(), true, "")
					}
				default:
					why, bad := altering[name]
					if !bad {
						why, bad = altering[pp]
					}
					if bad && why != "" {
						r.Check("R18.2", FuncName(fn), "the splitter loses nothing but line breaks", in.Pos(), false, "uses "+name+": "+why)
					} else {
						r.Note("shape-unrecognised R18.2: %s calls %s, which the lossless-splitter rule does not know; whether the split loses text is not decided", FuncName(fn), name)
					}
				}
			})
		}
		r.Floor("R18.2", "library calls of the line splitter that were judged", nuse, 1)
	}
	cell := c.Named("", "Cell")
	if cl := c.Method(cell, false, "Lines"); cl != nil {
		ok := false
		for _, ret := range returnsOf(cl) {
			if call, isCall := results(ret)[0].(*ssa.Call); isCall && call.Call.StaticCallee() == lines {
				if inner, isCall := call.Call.Args[0].(*ssa.Call); isCall && inner.Call.StaticCallee() != nil && inner.Call.StaticCallee().Name() == "String" {
					ok = true
				}
			}
		}
		// ... handed on as it is: no element of the split is rewritten on the way out
		eachInstr(cl, func(in ssa.Instruction) {
			if st, isSt := in.(*ssa.Store); isSt {
				if _, isIA := st.Addr.(*ssa.IndexAddr); isIA {
					ok = false
				}
			}
		})
		r.Check("R18.2", FuncName(cl), "is length.Lines of the cell's text", cl.Pos(), ok, "the lines handed to the renderers are not (or not only) the split of the text the cell was measured from")
	}
	update := c.Method(cell, true, "Update")
	width, str, height := c.Field(cell, "width"), c.Field(cell, "str"), c.Field(cell, "height")
	llc := c.Func("length", "LongestLineCells")
	if update != nil && width != nil && str != nil && llc != nil && height != nil {
		found := false
		unit := updateUnitOf(c, update)
		for _, fs := range c.StoresTo(width) {
			if !unit[fs.Fn] {
				continue
			}
			if call, ok := fs.St.Val.(*ssa.Call); ok && call.Call.StaticCallee() == llc {
				if f, b := loadedField(call.Call.Args[0]); f == str && b == ssa.Value(fs.Fn.Params[0]) {
					found = true
				}
			}
		}
		r.Check("R18.2", FuncName(update), "the default width is LongestLineCells of the cell's text", update.Pos(), found, "")
		c18WidthStores(c, "R18.2")
		dropsTrailing := c18HeightShape(c, update, lines, str, height)
		c18MetricsAssigned(c, update, width, height, dropsTrailing)
	}
	checkEmitWidth(c, "R18.2")
	// the emit pass prints, for every cell, exactly the lines the layout pass measured (C04's slot wiring)
	importFreshState(c, "R18.2", "texttable")
	importPremises(c, "R18.2", "emit-pass premise ", "a line that is altered or dropped between measuring and printing makes the two passes disagree", func(o *Ob) bool { return o.Rule == "R04.2" }, func() { runC04(c) })

	// ---- R18.3
	ix := c.Idx()
	ix.Run()
	n := 0
	measuring := map[*ssa.Function]bool{}
	for _, f := range c.ModFuncs("texttable") {
		if f.Name() == "UpdateProperties" {
			for _, h := range pkgReach(f, 1) {
				measuring[h] = true
			}
		}
	}
	for _, o := range ix.Obls {
		if measuring[o.Fn] {
			n++
			r.CheckHow("R18.3", FuncName(o.Fn), o.Kind+" "+o.What, o.In.Pos(), o.OK, o.How, o.How)
		}
	}
	r.Floor("R18.3", "index obligations in the measuring callback", n, 1)
}

// isDeclaredWidth: v is (a field of a local struct filled from) cell.TerminalCellWidth().
func isDeclaredWidth(v ssa.Value) bool {
	switch x := v.(type) {
	case *ssa.Call:
		return x.Call.StaticCallee() != nil && x.Call.StaticCallee().Name() == "TerminalCellWidth"
	case *ssa.UnOp:
		if fa, ok := x.X.(*ssa.FieldAddr); ok {
			// a field of a by-value struct parameter: the same field of the struct the (only) caller passes
			if al, isAl := fa.X.(*ssa.Alloc); isAl && gCtx != nil {
				var par *ssa.Parameter
				nst := 0
				for _, rr := range referrersOf(al) {
					if st, isSt := rr.(*ssa.Store); isSt && st.Addr == ssa.Value(al) {
						nst++
						par, _ = st.Val.(*ssa.Parameter)
					}
				}
				if nst == 1 && par != nil {
					if a := uniqueActual(gCtx, par); a != nil {
						if ld, isLd := a.(*ssa.UnOp); isLd {
							if cal, isCal := ld.X.(*ssa.Alloc); isCal {
								for _, rr := range referrersOf(cal) {
									if fa2, ok := rr.(*ssa.FieldAddr); ok && fa2.Field == fa.Field {
										for _, r3 := range referrersOf(fa2) {
											if st, ok := r3.(*ssa.Store); ok && st.Addr == ssa.Value(fa2) {
												return isDeclaredWidth(st.Val)
											}
										}
									}
								}
							}
						}
					}
				}
			}
			for _, rr := range referrersOf(fa.X) {
				if fa2, ok := rr.(*ssa.FieldAddr); ok && fa2.Field == fa.Field {
					for _, r3 := range referrersOf(fa2) {
						if st, ok := r3.(*ssa.Store); ok && st.Addr == ssa.Value(fa2) {
							return isDeclaredWidth(st.Val)
						}
					}
				}
			}
		}
	case *ssa.Field:
		return true
	}
	return false
}

// sectionOfAny: v is sl[idx]; returns sl and the index value.
func sectionOfAny(v ssa.Value) (ssa.Value, ssa.Value) {
	u, ok := v.(*ssa.UnOp)
	if !ok || u.Op != token.MUL {
		return nil, nil
	}
	ia, ok := u.X.(*ssa.IndexAddr)
	if !ok {
		return nil, nil
	}
	return ia.X, ia.Index
}

// isFullRangeIndex: idx is the index of a loop that runs over 0..len(sl)-1 in steps of one.
func isFullRangeIndex(c *Ctx, fn *ssa.Function, idx ssa.Value, sl ssa.Value) bool {
	if idx == nil || sl == nil {
		return false
	}
	p := c.Idx().proverFor(fn)
	// rotated range loop: idx = phi + 1 with phi = (-1, idx); header test idx < len(sl)
	// or plain: idx = phi(0, idx+1); header test idx < len(sl)
	var phi *ssa.Phi
	off := int64(0)
	switch x := idx.(type) {
	case *ssa.Phi:
		phi = x
	case *ssa.BinOp:
		if q, ok := x.X.(*ssa.Phi); ok && x.Op == token.ADD {
			if k, ok := constInt(x.Y); ok {
				phi, off = q, k
			}
		}
	}
	if phi == nil || !p.isLoopPhi(phi) {
		return false
	}
	hdr := phi.Block()
	if off == 0 && isCountDownOver(p, phi, sl) {
		return true
	}
	for k, pred := range hdr.Preds {
		if hdr.Dominates(pred) {
			e := p.linOf(phi.Edges[k]).sub(linTerm(p.canon(phi)))
			if !e.isConst() || e.k != 1 {
				return false
			}
		} else if k0, ok := constInt(phi.Edges[k]); !ok || k0+off != 0 {
			return false
		}
	}
	iff, ok := hdr.Instrs[len(hdr.Instrs)-1].(*ssa.If)
	if !ok {
		return false
	}
	cs := p.condConstraints(iff.Cond, true)
	want := lt(p.linOf(idx), p.lenOf(sl), "")
	return len(cs) == 1 && cs[0].e.String() == want.e.String()
}

// c18HeightShape: shape rule comparing the height formula of Cell.Update with the line count of length.Lines.
func c18HeightShape(c *Ctx, update, lines *ssa.Function, str, height interface{}) (dropsTrailing bool) {
	r := c.R
	// Lines: separator and whether exactly one trailing empty segment is dropped
	lsep, ldrop := "", false
	ldropUnknown := false
	eachInstr(lines, func(in ssa.Instruction) {
		if isCallTo(in, "strings", "Split") {
			lsep, _ = constString(callCommon(in).Args[1])
		}
		if sl, ok := in.(*ssa.Slice); ok && sl.High != nil {
			// ss[:len(ss)-1] under ss[len(ss)-1] == ""   (spelled == or !=, either way round)
			found := false
			for _, cf := range expandConds(dominatingConds(in.Block())) {
				if b, isB := cf.Cond.(*ssa.BinOp); isB && ((b.Op == token.EQL && cf.Val) || (b.Op == token.NEQ && !cf.Val)) {
					for _, side := range []ssa.Value{b.X, b.Y} {
						if s, isS := constString(side); isS && s == "" {
							ldrop, found = true, true
						}
					}
				}
			}
			if !found {
				ldropUnknown = true
			}
		}
	})
	// Update: height = len(Lines(str))  -- or --  1 + Count(str, sep) with a decrement under HasSuffix(str, sep)
	usesLines, usep, hasCount, hasSuffixDec := false, "", false, false
	for _, uf := range sortedFuncs(updateUnitOf(c, update)) {
		update := uf
		eachInstr(update, func(in ssa.Instruction) {
			if staticCallee(in) == lines {
				usesLines = true
			}
			if isCallTo(in, "strings", "Count") {
				usep, _ = constString(callCommon(in).Args[1])
				hasCount = true
			}
			if isCallTo(in, "strings", "HasSuffix") {
				s, _ := constString(callCommon(in).Args[1])
				// a decrement of height guarded by it
				v := in.(ssa.Value)
				for _, b := range update.Blocks {
					for _, cf := range dominatingConds(b) {
						if cf.Cond == v && cf.Val {
							for _, x := range b.Instrs {
								if st, ok := x.(*ssa.Store); ok {
									if bo, ok := st.Val.(*ssa.BinOp); ok && bo.Op == token.SUB {
										if k, ok := constInt(bo.Y); ok && k == 1 && s == usep {
											hasSuffixDec = true
										}
									}
								}
							}
						}
					}
				}
			}
		})
	}
	dropsTrailing = ldrop && !ldropUnknown
	switch {
	case usesLines && !hasCount:
		r.Check("R18.2", FuncName(update), "height is derived from length.Lines itself", update.Pos(), true, "")
	case hasCount && lsep == "":
		r.Note("shape-unrecognised R18.2: length.Lines does not split with strings.Split; agreement of the height formula with it is not evaluated")
	case hasCount && ldropUnknown:
		r.Note("shape-unrecognised R18.2: length.Lines shortens its result under a condition that was not recognised; agreement of the height formula with it is not evaluated")
	case hasCount:
		ok := lsep != "" && usep == lsep && hasSuffixDec == ldrop
		r.Check("R18.2", FuncName(update), "height formula and Lines agree on the separator and on dropping one trailing empty line", update.Pos(), ok,
			fmt.Sprintf("Lines: sep %q, drops trailing empty: %v; height: sep %q, decrements on trailing separator: %v", lsep, ldrop, usep, hasSuffixDec))
	default:
		r.Note("shape-unrecognised R18.2: the height computation in Cell.Update is neither len(Lines(..)) nor 1+Count(..); agreement not evaluated")
	}
	return dropsTrailing
}

// checkEmitWidth: every construction of WidthString.W is StringCells of the same text (or 0, or the declared
// width of a single-line item): the emit pass measures with the leaf of the layout measure.
func checkEmitWidth(c *Ctx, rule string) {
	r := c.R
	// emit measure = layout leaf measure
	sc := c.Func("length", "StringCells")
	ws := c.Named("texttable/decoration", "WidthString")
	if sc != nil && ws != nil {
		w := c.Field(ws, "W")
		s := c.Field(ws, "S")
		n := 0
		for _, fs := range c.StoresTo(w) {
			n++
			ok, why := false, ""
			// the S stored alongside
			var sv ssa.Value
			for _, ss := range c.StoresTo(s) {
				if ss.Fn == fs.Fn && ss.Base == fs.Base {
					sv = ss.St.Val
				}
			}
			for _, v := range phiClosure(fs.St.Val) {
				if call, isCall := v.(*ssa.Call); isCall && call.Call.StaticCallee() == sc && (call.Call.Args[0] == sv || sameRangeElem(call.Call.Args[0], sv)) {
					ok = true
					continue
				}
				if k, isK := constInt(v); isK && k == 0 {
					ok = true
					continue
				}
				// the declared width of a single-line item (C04 R04.4), possibly handed to a fill helper
				if isDeclaredWidth(v) {
					continue
				}
				if par, isPar := v.(*ssa.Parameter); isPar {
					if a := uniqueActual(c, par); a != nil && isDeclaredWidth(a) {
						continue
					}
				}
				ok, why = false, "W is computed by something other than StringCells of the same text: "+v.String()
				break
			}
			r.Check(rule, FuncName(fs.Fn), "emit width of a line is StringCells of that line (the leaf of the layout measure)", fs.St.Pos(), ok, why)
		}
		r.Floor(rule, "constructions of WidthString.W", n, 1)
		// layout leaf: LongestLineCells measures with StringCells (R18.1) and StringCells is the only user of the width dependency
	}

}

// delegatesWithMeasure: fn's body is `return H(s, m)` for a module function H; returns H and the index of the
// parameter that receives the measure function.
func delegatesWithMeasure(fn, m *ssa.Function) (*ssa.Function, int) {
	h, k, _ := delegatesWithMeasureSplit(fn, m, nil)
	return h, k
}

// delegatesWithMeasureSplit: as delegatesWithMeasure; the helper may be handed the text itself (splitIdx -1: it
// splits) or, when `lines` is given, the result of lines(text) - the split made here, once (splitIdx: which
// argument).
func delegatesWithMeasureSplit(fn, m, lines *ssa.Function) (*ssa.Function, int, int) {
	h, k, sp := delegatesWithMeasureImpl(fn, m, lines)
	return h, k, sp
}

func delegatesWithMeasureImpl(fn, m, lines *ssa.Function) (*ssa.Function, int, int) {
	rets := returnsOf(fn)
	if len(rets) != 1 || len(fn.Blocks) != 1 {
		return nil, -1, -1
	}
	splitIdx := -1
	{
		call, ok := results(rets[0])[0].(*ssa.Call)
		if ok && lines != nil {
			nsplit := 0
			eachInstr(fn, func(in ssa.Instruction) {
				if staticCallee(in) == lines {
					nsplit++
				}
			})
			for i, a := range call.Call.Args {
				if sc, isC := a.(*ssa.Call); isC && sc.Call.StaticCallee() == lines && len(sc.Call.Args) == 1 && len(fn.Params) > 0 && sc.Call.Args[0] == ssa.Value(fn.Params[len(fn.Params)-1]) && nsplit == 1 {
					splitIdx = i
				}
			}
		}
	}
	h, k := delegatesWithMeasureCore(fn, m, splitIdx)
	return h, k, splitIdx
}

func delegatesWithMeasureCore(fn, m *ssa.Function, splitIdx int) (*ssa.Function, int) {
	rets := returnsOf(fn)
	if len(rets) != 1 || len(fn.Blocks) != 1 {
		return nil, -1
	}
	call, ok := results(rets[0])[0].(*ssa.Call)
	if !ok {
		return nil, -1
	}
	h := call.Call.StaticCallee()
	if h == nil || !inModule(h) || len(h.Blocks) == 0 {
		return nil, -1
	}
	k := -1
	sOK := false
	for i, a := range call.Call.Args {
		// the measure handed over as it is, or converted to a named function type (a method receiver, say)
		if f, isF := unwrap(a, true).(*ssa.Function); isF && f == m {
			k = i
		}
		if ct, isCT := a.(*ssa.ChangeType); isCT {
			if f, isF := ct.X.(*ssa.Function); isF && f == m {
				k = i
			}
		}
		if a == ssa.Value(fn.Params[0]) || i == splitIdx {
			sOK = true
		}
	}
	if k < 0 || !sOK {
		return nil, -1
	}
	return h, k
}

// c18LongestLine checks one longest-line function: split once with Lines, measure only with `isMeasure` calls on
// elements of the split, return 0 / a line's measure / a running maximum guarded by '>' over every line.
func c18LongestLine(c *Ctx, ll, lines *ssa.Function, measureName string, isMeasure func(*ssa.Call) bool, isOtherMeasure func(*ssa.Call) bool, splitPar ...*ssa.Parameter) {
	r := c.R
	name := FuncName(ll)
	var split ssa.Value
	var splitCall *ssa.Call
	nsplit := 0
	if len(splitPar) == 1 && splitPar[0] != nil {
		split = splitPar[0] // the lines arrive already split (once, by each caller: checked there)
	}
	var measures []*ssa.Call
	wrong := ""
	eachInstr(ll, func(in ssa.Instruction) {
		call, ok := in.(*ssa.Call)
		if !ok {
			return
		}
		if call.Call.StaticCallee() == lines {
			split, splitCall = call, call
			nsplit++
			return
		}
		if isMeasure(call) {
			measures = append(measures, call)
		} else if isOtherMeasure(call) {
			wrong = calleeDesc(&call.Call)
			measures = append(measures, call)
		}
	})
	argIsParam := false
	if len(splitPar) == 1 && splitPar[0] != nil && nsplit == 0 {
		nsplit, argIsParam = 1, true
	} else if splitCall != nil {
		// the string handed to the function (its only string parameter, wherever a receiver or a measure puts it)
		if par, isPar := splitCall.Call.Args[0].(*ssa.Parameter); isPar && par.Parent() == ll && isStringType(par.Type()) {
			nstr := 0
			for _, q := range ll.Params {
				if isStringType(q.Type()) {
					nstr++
				}
			}
			argIsParam = nstr == 1
		}
	}
	r.Check("R18.1", name, "splits its argument with Lines exactly once", ll.Pos(), nsplit == 1 && split != nil && argIsParam, "")
	r.Check("R18.1", name, "measures only with "+measureName, ll.Pos(), wrong == "" && len(measures) >= 1, "also uses "+wrong)
	okArgs := true
	for _, mc := range measures {
		args := mc.Call.Args
		if len(args) == 0 {
			okArgs = false
			continue
		}
		sec, _ := sectionOfAny(args[len(args)-1])
		if split == nil || sec != split {
			okArgs = false
		}
	}
	r.Check("R18.1", name, "every measured string is an element of the split", ll.Pos(), okArgs, "")
	for i, ret := range returnsOf(ll) {
		ok, why := false, ""
		for _, v := range phiClosure(results(ret)[0]) {
			switch y := v.(type) {
			case *ssa.Const:
				k, isK := constInt(y)
				ok = isK && k == 0
				why = "constant other than 0"
			case *ssa.Call:
				ok = isMeasure(y)
				why = "not a result of " + measureName
			default:
				ok, why = false, "unexpected result "+v.String()
			}
			if !ok {
				break
			}
		}
		r.Check("R18.1", name, fmt.Sprintf("return #%d is 0, a line's measure, or the running maximum of line measures", i+1), ret.Pos(), ok, why)
	}
	okMax, whyMax := false, "no running maximum found"
	single := true // a function with only the single fast path has no loop: then the maximum is not applicable
	pr := c.Idx().proverFor(ll)
	eachInstr(ll, func(in ssa.Instruction) {
		phi, ok := in.(*ssa.Phi)
		if !ok || okMax || !pr.isLoopPhi(phi) || !isIntType(phi.Type()) {
			return
		}
		// the values that can flow into the loop variable, through merge points inside the body
		type leaf struct {
			v          ssa.Value
			pred, succ *ssa.BasicBlock
		}
		var leaves []leaf
		seen := map[*ssa.Phi]bool{phi: true}
		var flat func(q *ssa.Phi)
		flat = func(q *ssa.Phi) {
			for k, e := range q.Edges {
				if sub, isPhi := e.(*ssa.Phi); isPhi && sub != phi {
					if !seen[sub] {
						seen[sub] = true
						flat(sub)
					}
					continue
				}
				leaves = append(leaves, leaf{e, q.Block().Preds[k], q.Block()})
			}
		}
		flat(phi)
		hasMeasure := false
		for _, lf := range leaves {
			if lf.v == ssa.Value(phi) {
				continue
			}
			if k, isK := constInt(lf.v); isK && k == 0 {
				continue
			}
			if call, isCall := lf.v.(*ssa.Call); isCall && isMeasure(call) {
				hasMeasure = true
				continue
			}
			return
		}
		if !hasMeasure {
			return
		}
		single = false
		okMax, whyMax = true, ""
		for _, lf := range leaves {
			call, isCall := lf.v.(*ssa.Call)
			if !isCall {
				continue
			}
			guarded := false
			for _, cf := range pr.edgeConds(lf.pred, lf.succ) {
				b, isB := cf.Cond.(*ssa.BinOp)
				if !isB {
					continue
				}
				if (b.Op == token.GTR && b.X == ssa.Value(call) && b.Y == ssa.Value(phi) && cf.Val) || (b.Op == token.LSS && b.Y == ssa.Value(call) && b.X == ssa.Value(phi) && cf.Val) ||
					(b.Op == token.LEQ && b.X == ssa.Value(call) && b.Y == ssa.Value(phi) && !cf.Val) || (b.Op == token.GEQ && b.Y == ssa.Value(call) && b.X == ssa.Value(phi) && !cf.Val) {
					guarded = true
				}
			}
			if !guarded {
				okMax, whyMax = false, "the update of the maximum is not guarded by 'this line's measure > current maximum'"
			}
			args := call.Call.Args
			_, idx := sectionOfAny(args[len(args)-1])
			if okMax && !isFullRangeIndex(c, ll, idx, split) {
				okMax, whyMax = false, "the loop does not visit every line"
			}
		}
	})
	_ = single
	r.Check("R18.1", name, "the maximum is taken over every line", ll.Pos(), okMax, whyMax)
}

// c18LongestAll applies the longest-line rule to length.LongestLine<X> for each X given.
func c18LongestAll(c *Ctx, lines *ssa.Function, kinds []string) {
	r := c.R
	analysed := map[*ssa.Function]bool{}
	for _, x := range kinds {
		ll := c.Func("length", "LongestLine"+x)
		m := c.Func("length", "String"+x)
		if ll == nil || m == nil {
			continue
		}
		// delegation to a shared helper that is handed this function's own measure
		if h, k, sp := delegatesWithMeasureSplit(ll, m, lines); h != nil {
			r.Check("R18.1", FuncName(ll), "delegates to a shared helper, handing it String"+x+" as the measure", ll.Pos(), true, "")
			if !analysed[h] {
				analysed[h] = true
				par := h.Params[k]
				var spar *ssa.Parameter
				if sp >= 0 && sp < len(h.Params) {
					spar = h.Params[sp]
				}
				c18LongestLine(c, h, lines, "the measure it is given", func(call *ssa.Call) bool { return call.Call.Value == ssa.Value(par) }, func(call *ssa.Call) bool { return false }, spar)
			}
			continue
		}
		c18LongestLine(c, ll, lines, "String"+x, func(call *ssa.Call) bool { return sameMeasure(call, m) },
			func(call *ssa.Call) bool {
				f := call.Call.StaticCallee()
				return f != nil && f != m && funcPkgPath(f) == pkgPath("length") && strings.HasPrefix(f.Name(), "String")
			})
	}
}

// c18WidthStores: every value Update stores as the cell's width is one of: 0, LongestLineCells of the cell's own
// text, what the item's TerminalCellWidth() returned, or the width of the nested cell. No other measure (a
// whole-string measure, a rune count, a cached value) may stand in for the widest line.
func c18WidthStores(c *Ctx, rule string) {
	r := c.R
	cell := c.Named("", "Cell")
	update := c.Method(cell, true, "Update")
	width, str := c.Field(cell, "width"), c.Field(cell, "str")
	llc := c.Func("length", "LongestLineCells")
	if update == nil || width == nil || str == nil || llc == nil {
		return
	}
	n := 0
	unit := updateUnitOf(c, update)
	for _, fs := range c.StoresTo(width) {
		// a second place that fills in a cell's metrics (a fast-path constructor, say) is held to the same rule
		outside := !unit[fs.Fn]
		for _, v := range phiClosure(fs.St.Val) {
			n++
			ok, why := false, "stored value: "+v.String()
			switch x := v.(type) {
			case *ssa.Const:
				k, isK := constInt(x)
				ok = isK && k == 0
			case *ssa.Call:
				if x.Call.StaticCallee() == llc {
					f, b := loadedField(x.Call.Args[0])
					ok = f == str && len(fs.Fn.Params) > 0 && b == ssa.Value(fs.Fn.Params[0])
					if outside {
						// ... of the text this same function stores into the same cell
						ok = f == str && b == fs.Base
						for _, fs2 := range c.StoresTo(str) {
							if fs2.Fn == fs.Fn && fs2.Base == fs.Base && fs2.St.Val == x.Call.Args[0] {
								ok = true
							}
						}
					}
					why = "LongestLineCells of something other than the cell's text"
				} else if x.Call.IsInvoke() && x.Call.Method.Name() == "TerminalCellWidth" {
					ok = true
				} else {
					why = "the width is measured by " + calleeDesc(&x.Call) + ", not as the widest line of the text"
				}
			case *ssa.UnOp, *ssa.Field:
				f := (*types.Var)(nil)
				if fl, isF := x.(*ssa.Field); isF {
					f = fieldOfField(fl)
				} else {
					f, _ = loadedField(x)
				}
				ok = f == width
			}
			r.Check(rule, FuncName(fs.Fn), fmt.Sprintf("width store #%d is 0, the widest line of the text, the item's declared width or the nested cell's width", n), fs.St.Pos(), ok, why)
		}
	}
	r.Floor(rule, "values stored as a cell's width", n, 3)
}

// isCountDownOver: phi runs len(sl)-1, len(sl)-2, .., 0:  for i := len(sl)-1; i >= 0; i--
func isCountDownOver(p *prover, phi *ssa.Phi, sl ssa.Value) bool {
	hdr := phi.Block()
	for k, pred := range hdr.Preds {
		if hdr.Dominates(pred) {
			e := p.linOf(phi.Edges[k]).sub(linTerm(p.canon(phi)))
			if !e.isConst() || e.k != -1 {
				return false
			}
		} else {
			e := p.linOf(phi.Edges[k]).sub(p.lenOf(sl))
			if !e.isConst() || e.k != -1 {
				return false
			}
		}
	}
	iff, ok := hdr.Instrs[len(hdr.Instrs)-1].(*ssa.If)
	if !ok {
		return false
	}
	cs := p.condConstraints(iff.Cond, true)
	want := leq(linConst(0), linTerm(p.canon(phi)), "")
	return len(cs) == 1 && cs[0].e.String() == want.e.String()
}

// sameMeasure: call computes what the one-line measure function m computes: it is a call of m, or of the very
// function (or builtin) m's body applies to its argument (m inlined by hand).
func sameMeasure(call *ssa.Call, m *ssa.Function) bool {
	if call.Call.StaticCallee() == m {
		return true
	}
	rets := returnsOf(m)
	if len(rets) != 1 || len(m.Params) != 1 {
		return false
	}
	body, ok := results(rets[0])[0].(*ssa.Call)
	if !ok || len(body.Call.Args) != 1 || body.Call.Args[0] != ssa.Value(m.Params[0]) || len(call.Call.Args) != 1 {
		return false
	}
	if bb, isB := body.Call.Value.(*ssa.Builtin); isB {
		cb, isB2 := call.Call.Value.(*ssa.Builtin)
		return isB2 && cb.Name() == bb.Name() && isStringType(call.Call.Args[0].Type())
	}
	return body.Call.StaticCallee() != nil && body.Call.StaticCallee() == call.Call.StaticCallee()
}

// c18MetricsAssigned: every path through Update assigns both the width and the height before it returns, so the
// metrics never outlive the text they were measured from (a cell is re-Updated when its item changes). Paths are
// enumerated with boolean flags evaluated where they are phis of constants (the "text is empty" flag idiom) and
// repeated tests of one condition value decided consistently.
func c18MetricsAssigned(c *Ctx, update *ssa.Function, width, height *types.Var, linesDropsTrailing bool) {
	r := c.R
	strF := c.FieldOpt(c.Named("", "Cell"), "str")
	unit := updateUnitOf(c, update)
	if unitHasLoop(unit) {
		r.Note("shape-unrecognised R18.2: Update contains a loop; assignment of the metrics on every path is not evaluated")
		return
	}
	type out struct {
		ret *ssa.Return
		st  string
	}
	var outs []out
	w := &pathWalker{unit: unit}
	w.onStore = func(fn *ssa.Function, x *ssa.Store, st string) string {
		f, base := storeField(x.Addr)
		if len(fn.Params) == 0 || base != ssa.Value(fn.Params[0]) {
			return st
		}
		b := []byte(st)
		if f == width {
			b[0] = 'y'
			b[2] = 'v'
			if k, isK := constInt(x.Val); isK && k == 0 {
				b[2] = 'z'
			}
		}
		if f == height {
			b[1] = 'y'
			// how: by the count formula (1 + Count(text, sep) ...), by an adjustment of what is there, or otherwise
			fromCount, fromSelf := false, false
			seen := map[ssa.Value]bool{}
			var look func(v ssa.Value, d int)
			look = func(v ssa.Value, d int) {
				if v == nil || seen[v] || d > 8 {
					return
				}
				seen[v] = true
				switch y := v.(type) {
				case *ssa.BinOp:
					look(y.X, d+1)
					look(y.Y, d+1)
				case *ssa.Phi:
					for _, e := range y.Edges {
						look(e, d+1)
					}
				case *ssa.Call:
					if isFunc(y.Call.StaticCallee(), "strings", "Count") {
						fromCount = true
					}
				case *ssa.UnOp:
					if f2, _ := loadedField(y); f2 == height {
						fromSelf = true
					}
				}
			}
			look(x.Val, 0)
			switch {
			case fromCount:
				b[4] = 'c'
			case fromSelf:
			default:
				b[4] = 'o'
			}
		}
		if strF != nil && f == strF {
			b[3] = 'n'
			if s0, isS := constString(x.Val); isS && s0 == "" {
				b[3] = 'e'
			}
		}
		return string(b)
	}
	// what a path knows about the text being empty: tests of the text itself count, tests of something derived from
	// it (trimmed, lower-cased) do not
	w.onIf = func(fn *ssa.Function, cond ssa.Value, st string) (string, string) {
		if strF == nil || len(fn.Params) == 0 {
			return st, st
		}
		isText := func(v ssa.Value) bool {
			f, base := loadedField(v)
			return f == strF && base == ssa.Value(fn.Params[0])
		}
		mark := func(e bool) string {
			b := []byte(st)
			if e {
				b[3] = 'e'
			} else {
				b[3] = 'x' // known not to be empty
			}
			return string(b)
		}
		switch {
		case emptinessTest(cond, true, isText):
			return mark(true), mark(false)
		case emptinessTest(cond, false, isText):
			return mark(false), mark(true)
		}
		return st, st
	}
	w.onReturn = func(ret *ssa.Return, st string) { outs = append(outs, out{ret, st}) }
	w.run(update, "nnnnn")
	bad := map[*ssa.Return]string{}
	zeroBad := map[*ssa.Return]bool{}
	countBad := map[*ssa.Return]bool{}
	for _, o := range outs {
		if o.st[:2] != "yy" {
			bad[o.ret] = fmt.Sprintf("a path returns without assigning width: %v, height: %v", o.st[0] != 'y', o.st[1] != 'y')
		}
		if o.st[2] == 'z' && o.st[3] != 'e' {
			zeroBad[o.ret] = true
		}
		if o.st[4] == 'c' && o.st[3] != 'x' {
			countBad[o.ret] = true
		}
	}
	if linesDropsTrailing {
		for i, ret := range returnsOf(update) {
			r.Check("R18.2", FuncName(update), fmt.Sprintf("return #%d: the count formula gives the height only of a text known not to be empty", i+1), ret.Pos(), !countBad[ret],
				"1 + Count(text, sep) is 1 for the empty text, for which the splitter yields no line at all (its one empty piece is the trailing one it drops): height and number of lines disagree")
		}
	}
	for i, ret := range returnsOf(update) {
		r.Check("R18.2", FuncName(update), fmt.Sprintf("return #%d: a width of 0 is recorded only for a text known to be empty", i+1), ret.Pos(), !zeroBad[ret],
			"a path leaves the cell 0 wide without having found its text empty (a test of something derived from the text - trimmed, say - is not that): text that is printed takes no room in the layout")
	}
	for i, ret := range returnsOf(update) {
		why, isBad := bad[ret]
		r.Check("R18.2", FuncName(update), fmt.Sprintf("return #%d: width and height are both assigned on every path", i+1), ret.Pos(), !isBad, why+": the metrics of the previous text survive a re-Update")
	}
	r.Floor("R18.2", "paths through Update examined for metric assignment", w.npaths, 5)
}

// uniqueActual: the value passed for parameter par at the only static call of its function in the module.
func uniqueActual(c *Ctx, par *ssa.Parameter) ssa.Value {
	fn := par.Parent()
	idx := -1
	for i, q := range fn.Params {
		if q == par {
			idx = i
		}
	}
	var out ssa.Value
	n := 0
	for _, g := range c.LibFuncs() {
		eachInstr(g, func(in ssa.Instruction) {
			if staticCallee(in) == fn && idx >= 0 && idx < len(callCommon(in).Args) {
				out = callCommon(in).Args[idx]
				n++
			}
		})
	}
	if n != 1 {
		return nil
	}
	return out
}

// sameRangeElem: a and b are loads of the same element (same slice, same index value).
func sameRangeElem(a, b ssa.Value) bool {
	if a == nil || b == nil {
		return false
	}
	sa, ia := sectionOfAny(a)
	sb, ib := sectionOfAny(b)
	return sa != nil && sa == sb && ia == ib
}
