package main

import (
	"fmt"
	"go/constant"
	"go/token"
	"go/types"
	"sort"
	"strings"

	"golang.org/x/tools/go/ssa"
)

func init() { register("C13", runC13) }

type cbConsts struct {
	times   map[string]int64 // ADD PRE RENDER POST
	targets map[string]int64 // ITSELF CELL ROW
}

func loadCbConsts(c *Ctx) *cbConsts {
	tp := c.TPkg("")
	if tp == nil {
		return nil
	}
	get := func(name string) (int64, bool) {
		k, ok := tp.Scope().Lookup(name).(*types.Const)
		if !ok {
			c.R.AnchorMissing("const tabular." + name)
			return 0, false
		}
		v, _ := constant.Int64Val(k.Val())
		return v, true
	}
	cc := &cbConsts{times: map[string]int64{}, targets: map[string]int64{}}
	ok := true
	for short, name := range map[string]string{"ADD": "CB_AT_ADD", "PRE": "CB_AT_RENDER_PRECELL", "RENDER": "CB_AT_RENDER", "POST": "CB_AT_RENDER_POSTCELL"} {
		v, good := get(name)
		cc.times[short] = v
		ok = ok && good
	}
	for short, name := range map[string]string{"ITSELF": "CB_ON_ITSELF", "CELL": "CB_ON_CELL", "ROW": "CB_ON_ROW"} {
		v, good := get(name)
		cc.targets[short] = v
		ok = ok && good
	}
	if !ok {
		return nil
	}
	return cc
}

func (cc *cbConsts) timeName(k int64) string {
	for n, v := range cc.times {
		if v == k {
			return n
		}
	}
	return fmt.Sprint(k)
}

// regOutcome: what RegisterPropertyCallback does for one (owner type, target, time).
type regOutcome struct {
	accepted bool
	setField *types.Var // the callbackSet field selected
	setOwner string     // "ATable.tableCellCallbacks"
	listIdx  int        // field index inside callbackSet
	selfCall bool       // delegates to a registration on the receiver table itself
}

func runC13(c *Ctx) {
	r := c.R
	r.Explanation = "Callbacks are stored by one registration function and fired by one invoker from a fixed set of call sites; the property is the agreement of three tables that the code already contains. " +
		"R13.1 the registration function is executed symbolically for every (owner type x target x time): the accepted combinations are exactly the documented ones, unsupported ones return an error before anything is appended, a renderer wrapper as owner resolves to the table it wraps. " +
		"R13.2 the time->list mapping used when registering equals the one used when invoking. R13.3 every call of the invoker is classified by (role of the callback set, time, loop depth) and, per function, the sequence in execution order must equal the documented add-time events and the documented render nesting (table, columns, then per row: row, per cell pre[table,column,row] render[table,cell] post[row,column,table], row, then columns, table), each exactly once; the static type of the target handed over matches the role. " +
		"R13.4 the target handed to a callback is a pointer into the table's own structure (receiver, element address of the row/cell/column lists), never the address of a local copy. R13.5 each RenderTo triggers the render callbacks exactly once, outside any loop, before it measures or writes anything. " +
		"Decided: which callbacks fire where, how often per pass, in what order and on which object, for every table shape. Not decided: column-level callbacks on header cells (the header row is not linked back to the table; the statement does not settle it)."
	r.NotDecided = []string{"whether header cells count as targets of column-level cell callbacks"}
	r.Assumptions = []string{"callbacks themselves do not re-enter the table-building API"}
	r.Rule("R13.1", "registration accepts exactly the documented owner/target combinations and refuses the rest with an error")
	r.Rule("R13.2", "registration and invocation map each time constant to the same list")
	r.Rule("R13.3", "the invocation sites realise the documented add-time events and render order, once each")
	r.Rule("R13.4", "the object handed to a callback is the live table/column/row/cell")
	r.Rule("R13.5", "one render-callback pass per RenderTo, before measuring and writing")

	cc := loadCbConsts(c)
	at := c.Named("", "ATable")
	reg := c.Method(at, true, "RegisterPropertyCallback")
	invoke := c.Func("", "invokePropertyCallbacks")
	cbs := c.Named("", "callbackSet")
	if cc == nil || reg == nil || invoke == nil || cbs == nil {
		return
	}
	cbsStruct := cbs.Underlying().(*types.Struct)

	ownerTypes := map[string]types.Type{}
	for _, n := range []string{"ATable", "column", "Row", "Cell"} {
		if nt := c.Named("", n); nt != nil {
			ownerTypes[n] = types.NewPointer(nt)
		}
	}
	wrappers := map[string]types.Type{}
	for _, w := range []struct{ pkg, typ string }{{"csv", "CSVTable"}, {"html", "HTMLTable"}, {"json", "JSONTable"}, {"markdown", "MarkdownTable"}, {"texttable", "TextTable"}} {
		if nt := c.Named(w.pkg, w.typ); nt != nil {
			wrappers[w.typ] = types.NewPointer(nt)
		}
	}

	run := func(owner types.Type, target, when int64) (regOutcome, string) {
		return symRegister(c, reg, owner, target, when)
	}

	// documented matrix: owner kind x target -> accepted
	want := map[string]map[string]bool{
		"ATable": {"ITSELF": true, "CELL": true, "ROW": true},
		"column": {"ITSELF": true, "CELL": true, "ROW": false},
		"Row":    {"ITSELF": true, "CELL": true, "ROW": true},
		"Cell":   {"ITSELF": true, "CELL": true, "ROW": false},
	}
	// role of each callback-set field: owner kind + kind of target it is registered for
	fieldRole := map[*types.Var]string{}
	targetType := map[string]string{"CELL": "Cell", "ROW": "Row"}
	nreg := 0
	timeToList := map[int64]int{}
	for _, on := range []string{"ATable", "column", "Row", "Cell"} {
		ot := ownerTypes[on]
		if ot == nil {
			continue
		}
		for _, tn := range []string{"ITSELF", "CELL", "ROW"} {
			for _, wn := range []string{"ADD", "PRE", "RENDER", "POST"} {
				nreg++
				out, why := run(ot, cc.targets[tn], cc.times[wn])
				okk := why == "" && out.accepted == want[on][tn] && !out.selfCall
				if why == "" && out.accepted != want[on][tn] {
					why = fmt.Sprintf("accepted=%v, documented=%v", out.accepted, want[on][tn])
				}
				r.Check("R13.1", FuncName(reg), fmt.Sprintf("register(owner *%s, target %s, time %s)", on, tn, wn), reg.Pos(), okk, why)
				if !out.accepted || out.setField == nil {
					continue
				}
				tt := on
				if x, ok := targetType[tn]; ok {
					tt = x
				}
				role := strings.ToLower(on[:1]) + on[1:] + "/" + tt
				if on == "ATable" {
					role = "table/" + tt
				}
				role = strings.ToLower(role[:1]) + role[1:]
				if prev, ok := fieldRole[out.setField]; ok && prev != role {
					r.Check("R13.1", FuncName(reg), "callback set "+out.setOwner+" serves one kind of target", reg.Pos(), false, prev+" and "+role)
				}
				fieldRole[out.setField] = role
				if prev, ok := timeToList[cc.times[wn]]; ok && prev != out.listIdx {
					r.Check("R13.2", FuncName(reg), "time "+wn+" always selects the same list", reg.Pos(), false, "")
				}
				timeToList[cc.times[wn]] = out.listIdx
			}
		}
	}
	r.Floor("R13.1", "registration combinations executed symbolically", nreg, 48)
	// distinct (owner,target) pairs use distinct sets except the documented aliases
	{
		roles := map[string][]string{}
		for f, role := range fieldRole {
			roles[role] = append(roles[role], c.ownerOf(f))
		}
		for role, fs := range roles {
			sort.Strings(fs)
			r.Check("R13.1", FuncName(reg), "role "+role+" is stored in exactly one callback set", reg.Pos(), len(fs) == 1, strings.Join(fs, ","))
		}
		r.Floor("R13.1", "callback-set roles", len(roles), 8)
	}
	// wrappers as owner resolve to the table itself
	var wnames []string
	for n := range wrappers {
		wnames = append(wnames, n)
	}
	sort.Strings(wnames)
	for _, wn := range wnames {
		out, why := run(wrappers[wn], cc.targets["CELL"], cc.times["RENDER"])
		r.Check("R13.1", FuncName(reg), "register(owner *"+wn+" wrapper) is registered on the wrapped table", reg.Pos(), why == "" && out.selfCall, why)
	}
	// an unknown owner type is refused
	{
		out, why := run(types.Typ[types.Int], cc.targets["CELL"], cc.times["RENDER"])
		r.Check("R13.1", FuncName(reg), "register(owner of an unknown type) is refused with an error", reg.Pos(), why == "" && !out.accepted && !out.selfCall, why)
		out, why = run(ownerTypes["ATable"], cc.targets["CELL"], 99)
		r.Check("R13.1", FuncName(reg), "register(unknown time) is refused with an error", reg.Pos(), why == "" && !out.accepted, why)
	}

	// ---- R13.4 (handles): what Cells()/Headers() hand out is the row's own cell storage, so &row.Cells()[i] is
	// the table's cell: a callback registered on it is registered on the cell that will be rendered
	{
		rowT := c.Named("", "Row")
		cellsF := c.Field(rowT, "cells")
		if fn := c.Method(rowT, true, "Cells"); fn != nil && cellsF != nil {
			for i, ret := range returnsOf(fn) {
				ok := true
				for _, v := range phiClosure(results(ret)[0]) {
					if isNil(v) {
						continue
					}
					if f, b := loadedField(v); f != cellsF || b != ssa.Value(fn.Params[0]) {
						ok = false
					}
				}
				r.Check("R13.4", FuncName(fn), fmt.Sprintf("return #%d is the row's own cell list (handles into it address the live cells)", i+1), ret.Pos(), ok,
					"a copy is handed out: a callback registered on &Cells()[i] or &Headers()[i] is accepted and never fires")
			}
		}
		if fn := c.Method(at, true, "Headers"); fn != nil {
			for i, ret := range returnsOf(fn) {
				ok := true
				for _, v := range phiClosure(results(ret)[0]) {
					if isNil(v) {
						continue
					}
					call, isCall := v.(*ssa.Call)
					if isCall && call.Call.StaticCallee() != nil && call.Call.StaticCallee().Name() == "Cells" {
						continue
					}
					if f, _ := loadedField(v); f != nil && f == cellsF {
						continue
					}
					ok = false
				}
				r.Check("R13.4", FuncName(fn), fmt.Sprintf("return #%d is the header row's own cell list", i+1), ret.Pos(), ok, "a copy is handed out")
			}
		}
	}

	// ---- R13.7 the invoker runs every callback of the selected list
	r.Rule("R13.7", "the invoker calls every callback of the list it selected: one call per element, no early exit")
	c13InvokesAll(c, "R13.7")

	// ---- R13.8 the library fills a row before it installs it
	r.Rule("R13.8", "rows the library builds from items are filled while detached and installed afterwards, so table- and column-level add-time callbacks see every cell")
	c13FillThenInstall(c)

	// ---- R13.6 registration never appends into spare capacity of a list that copies of a cell may share
	r.Rule("R13.6", "callback lists, which by-value copies of a cell share, are extended by copy, never in place")
	{
		p := c.Idx().proverFor(reg)
		napp := 0
		eachInstr(reg, func(in ssa.Instruction) {
			st, ok := in.(*ssa.Store)
			if !ok {
				return
			}
			call, isApp := isBuiltinCall(st.Val, "append")
			if !isApp {
				return
			}
			sl, isSl := st.Val.Type().Underlying().(*types.Slice)
			if !isSl || !isNamed(sl.Elem(), modPath, "PropertyCallback") {
				return
			}
			napp++
			arg0 := call.Call.Args[0]
			okc, why := false, "the new callback is appended into the list's spare capacity, which other copies of the same cell share"
			if s3, is3 := arg0.(*ssa.Slice); is3 && s3.Max != nil {
				hi := p.lenOf(s3.X)
				if s3.High != nil {
					hi = p.linOf(s3.High)
				}
				if p.linOf(s3.Max).String() == hi.String() && s3.Low == nil {
					okc, why = true, ""
				}
			}
			if p.lenOf(arg0).String() == "0" {
				if _, isConst := arg0.(*ssa.Const); isConst {
					okc, why = true, ""
				}
			}
			r.Check("R13.6", FuncName(reg), "append to a callback list starts from a capacity-clamped slice (forces a private copy)", in.Pos(), okc, why)
		})
		r.Floor("R13.6", "appends to callback lists", napp, 1)
	}

	// ---- R13.2 invoker's mapping
	{
		tP := invoke.Params[1]
		n := 0
		for _, wn := range []string{"ADD", "PRE", "RENDER", "POST"} {
			k := cc.times[wn]
			paths := symExec(invoke, map[ssa.Value]absVal{tP: {kind: "int", k: k}}, func(in ssa.Instruction) bool {
				_, ok := in.(*ssa.Phi)
				return ok
			})
			// the list iterated: on each path, the slice whose elements are invoked was loaded from set.<list i>
			idx := -1
			ok := len(paths) > 0
			for _, p := range paths {
				if p.panicked {
					ok = false
					continue
				}
				got := -1
				for _, b := range invoke.Blocks {
					for _, in := range b.Instrs {
						var sl ssa.Value
						switch x := in.(type) {
						case *ssa.IndexAddr:
							sl = x.X
						case *ssa.Range:
							sl = x.X
						case *ssa.Index:
							sl = x.X
						}
						if sl == nil {
							continue
						}
						if st, isSl := sl.Type().Underlying().(*types.Slice); !isSl || !isNamed(st.Elem(), modPath, "PropertyCallback") {
							continue
						}
						if a, okA := p.resolve(sl); okA && a.kind == "load" && len(a.path) >= 1 {
							got = a.path[len(a.path)-1]
						}
					}
				}
				if idx >= 0 && got != idx {
					ok = false
				}
				idx = got
			}
			n++
			want, known := timeToList[k]
			name := "?"
			if idx >= 0 && idx < cbsStruct.NumFields() {
				name = cbsStruct.Field(idx).Name()
			}
			r.Check("R13.2", FuncName(invoke), "time "+wn+" reads the list that registration appends to", invoke.Pos(), ok && known && idx == want, "invoker reads "+name)
		}
		r.Floor("R13.2", "time constants", n, 4)
		// injective
		seen := map[int]bool{}
		inj := true
		for _, v := range timeToList {
			if seen[v] {
				inj = false
			}
			seen[v] = true
		}
		r.Check("R13.2", FuncName(reg), "the four times select four different lists", reg.Pos(), inj && len(timeToList) == 4, "")
	}

	// ---- R13.3 / R13.4 sites
	type site struct {
		fn    *ssa.Function
		in    ssa.Instruction
		role  string
		time  string
		depth int
		order int
		owner ssa.Value
	}
	var sites []site
	rowRender := c.MethodOpt(c.Named("", "Row"), true, "invokeRenderCallbacks")
	if rowRender == nil {
		// by its role: the function InvokeRenderCallbacks calls, inside its loop over the table's rows, with the row
		if irc := c.MethodOpt(c.Named("", "ATable"), true, "InvokeRenderCallbacks"); irc != nil {
			rowsF := c.FieldOpt(c.Named("", "ATable"), "rows")
			eachInstr(irc, func(in ssa.Instruction) {
				call, ok := in.(*ssa.Call)
				if !ok || loopDepth(in.Block()) == 0 {
					return
				}
				g := call.Call.StaticCallee()
				if g == nil || !inModule(g) || g.Blocks == nil {
					return
				}
				for _, a := range call.Call.Args {
					if u, isU := a.(*ssa.UnOp); isU && u.Op == token.MUL {
						if ia, isIA := u.X.(*ssa.IndexAddr); isIA {
							if f, _ := loadedField(ia.X); f == rowsF && rowsF != nil {
								rowRender = g
							}
						}
					}
				}
			})
			if rowRender != nil {
				c.noteRenamed("func tabular.Row.invokeRenderCallbacks -> " + FuncName(rowRender) + " (by its role in InvokeRenderCallbacks)")
			}
		}
		if rowRender == nil {
			c.R.AnchorMissing("method Row.invokeRenderCallbacks")
		}
	}
	invW := invokeWrappers(c, invoke)
	for _, fn := range c.LibFuncs() {
		if _, isW := invW[fn]; isW {
			continue // a thin wrapper around the invoker: its call sites are the invocation sites
		}
		rpo := rpoOrder(fn)
		eachInstr(fn, func(in ssa.Instruction) {
			callee := staticCallee(in)
			if la, isInv := logicalInvoke(in, invoke, invW); isInv {
				cc2 := struct{ Args [4]ssa.Value }{la}
				s := site{fn: fn, in: in, depth: loopDepth(in.Block()), order: rpo[in.Block()]*10000 + instrIndex(in), owner: cc2.Args[2]}
				if f, _ := loadedField(cc2.Args[0]); f != nil {
					s.role = fieldRole[f]
					if s.role == "" {
						s.role = "unregistrable:" + c.ownerOf(f)
					}
				} else {
					s.role = "unknown-set"
				}
				if k, ok := constInt(cc2.Args[1]); ok {
					s.time = cc.timeName(k)
				} else {
					s.time = "non-constant"
				}
				sites = append(sites, s)
			} else if callee != nil && callee == rowRender {
				sites = append(sites, site{fn: fn, in: in, role: "rows", time: "-", depth: loopDepth(in.Block()), order: rpo[in.Block()]*10000 + instrIndex(in)})
			}
		})
	}
	r.Floor("R13.3", "invocation sites", len(sites), 22)
	// The documented events are stated for the exported operations; helpers they call are flattened into them
	// (a helper's invocations count at the call's loop depth, its time parameter bound to the constant passed).
	siteAt := map[ssa.Instruction]site{}
	for _, s := range sites {
		siteAt[s.in] = s
	}
	var flatten func(fn *ssa.Function, env map[*ssa.Parameter]int64, base int, depth int, seen map[*ssa.Function]bool) []string
	flatten = func(fn *ssa.Function, env map[*ssa.Parameter]int64, base int, depth int, seen map[*ssa.Function]bool) []string {
		if depth > 4 || seen[fn] {
			return nil
		}
		seen[fn] = true
		defer delete(seen, fn)
		rpo := rpoOrder(fn)
		type ev struct {
			order int
			items []string
		}
		var evs []ev
		eachInstr(fn, func(in ssa.Instruction) {
			callee := staticCallee(in)
			if callee == nil {
				return
			}
			ord := rpo[in.Block()]*10000 + instrIndex(in)
			d := base + loopDepth(in.Block())
			if la, isInv := logicalInvoke(in, invoke, invW); isInv {
				s := siteAt[in]
				tm := s.time
				if tm == "non-constant" {
					if par, ok := la[1].(*ssa.Parameter); ok {
						if k, ok := env[par]; ok {
							tm = cc.timeName(k)
						}
					}
				}
				evs = append(evs, ev{ord, []string{fmt.Sprintf("%s %s %d", s.role, tm, d)}})
				return
			}
			if !inModule(callee) || len(callee.Blocks) == 0 || callee == reg {
				return
			}
			cenv := map[*ssa.Parameter]int64{}
			for i, par := range callee.Params {
				if i < len(callCommon(in).Args) {
					a := callCommon(in).Args[i]
					if k, ok := constInt(a); ok {
						cenv[par] = k
					} else if p2, ok := a.(*ssa.Parameter); ok {
						if k, ok := env[p2]; ok {
							cenv[par] = k
						}
					}
				}
			}
			if sub := flatten(callee, cenv, d, depth+1, seen); len(sub) > 0 {
				evs = append(evs, ev{ord, sub})
			}
		})
		sort.Slice(evs, func(i, j int) bool { return evs[i].order < evs[j].order })
		var out []string
		for _, e := range evs {
			out = append(out, e.items...)
		}
		return out
	}
	rowBlock := func(d int) []string {
		return []string{
			fmt.Sprintf("row/Row PRE %d", d), fmt.Sprintf("table/Cell PRE %d", d+1), fmt.Sprintf("column/Cell PRE %d", d+1), fmt.Sprintf("row/Cell PRE %d", d+1),
			fmt.Sprintf("table/Cell RENDER %d", d+1), fmt.Sprintf("cell/Cell RENDER %d", d+1),
			fmt.Sprintf("row/Cell POST %d", d+1), fmt.Sprintf("column/Cell POST %d", d+1), fmt.Sprintf("table/Cell POST %d", d+1), fmt.Sprintf("row/Row POST %d", d)}
	}
	render := []string{"table/ATable PRE 0", "column/column PRE 1"}
	render = append(render, rowBlock(0)...) // the header row, when there is one
	render = append(render, rowBlock(1)...) // every row of the table, in order
	render = append(render, "column/column POST 1", "table/ATable POST 0")
	rowT := c.Named("", "Row")
	roots := []struct {
		fn   *ssa.Function
		want []string
	}{
		{c.Method(at, true, "InvokeRenderCallbacks"), render},
		{c.Method(rowT, true, "Add"), []string{"row/Cell ADD 0"}},
		{c.Method(at, true, "AddRow"), []string{"row/Row ADD 0", "table/Row ADD 0", "column/Cell ADD 1", "table/Cell ADD 1"}},
		{c.Method(at, true, "AddHeaders"), []string{"row/Cell ADD 1", "table/Row ADD 0", "column/Cell ADD 1", "table/Cell ADD 1"}},
	}
	covered := map[*ssa.Function]bool{}
	var mark func(fn *ssa.Function, depth int)
	mark = func(fn *ssa.Function, depth int) {
		if fn == nil || covered[fn] || depth > 5 {
			return
		}
		covered[fn] = true
		eachInstr(fn, func(in ssa.Instruction) {
			if f := staticCallee(in); f != nil && inModule(f) {
				mark(f, depth+1)
			}
		})
	}
	for _, rt := range roots {
		if rt.fn == nil {
			continue
		}
		mark(rt.fn, 0)
		got := flatten(rt.fn, nil, 0, 0, map[*ssa.Function]bool{})
		r.Check("R13.3", FuncName(rt.fn), "sequence of callback invocations (helpers flattened) equals the documented one", rt.fn.Pos(), strings.Join(got, "; ") == strings.Join(rt.want, "; "),
			"got ["+strings.Join(got, "; ")+"] want ["+strings.Join(rt.want, "; ")+"]")
	}
	// the column whose cell callbacks fire for a cell is looked up from where the cell IS, every time: any function
	// of the package that yields a *column for a cell hands back the table's own list entry at the cell's column
	// number (a remembered pointer goes stale when the cell is copied into another row, column or table)
	{
		cellT := c.Named("", "Cell")
		colsF := c.FieldOpt(at, "columns")
		colNumF := c.FieldOpt(cellT, "columnNum")
		nlook := 0
		for _, fn := range c.ModFuncs("") {
			if fn.Signature.Recv() == nil || namedOf(fn.Signature.Recv().Type()) != cellT || fn.Synthetic != "" || fn.Signature.Results().Len() != 1 {
				continue
			}
			pt, isP := fn.Signature.Results().At(0).Type().(*types.Pointer)
			if !isP || namedOf(pt.Elem()) == nil || namedOf(pt.Elem()).Obj().Name() != "column" {
				continue
			}
			for i, ret := range returnsOf(fn) {
				for _, v := range phiClosure(results(ret)[0]) {
					if isNil(v) {
						continue
					}
					nlook++
					ok, why := false, "the column is not read from the table's list: "+v.String()
					if u, isU := v.(*ssa.UnOp); isU && u.Op == token.MUL {
						if ia, isIA := u.X.(*ssa.IndexAddr); isIA {
							if f, _ := loadedField(ia.X); f == colsF && colsF != nil {
								if f2, _ := loadedField(unwrap(ia.Index, true)); f2 == colNumF && colNumF != nil {
									ok, why = true, ""
								} else {
									why = "the list is not indexed by the cell's own column number"
								}
							}
						}
						if f, _ := loadedField(v); f != nil && c.ownerOf(f) == "Cell" {
							why = "the column is taken from a field remembered in the cell (" + f.Name() + "): a copy of the cell placed elsewhere keeps the old column"
						}
					}
					r.Check("R13.3", FuncName(fn), fmt.Sprintf("return #%d: a cell's column is the table's list entry at the cell's column number, looked up afresh", i+1), ret.Pos(), ok, why)
				}
			}
		}
		r.Floor("R13.3", "column look-ups for a cell", nlook, 1)
	}
	// every exported operation that puts a cell-bearing row into a table announces it exactly as AddRow does (a
	// shortcut that links the row in by hand skips the add-time callbacks registered for rows and cells)
	{
		rowsF := c.FieldOpt(at, "rows")
		cellsF := c.FieldOpt(rowT, "cells")
		var addRowWant []string
		for _, rt := range roots {
			if rt.fn != nil && rt.fn.Name() == "AddRow" {
				addRowWant = rt.want
			}
		}
		// a separator: a row built without a cell list
		isSeparator := func(v ssa.Value) bool {
			call, ok := unwrap(v, true).(*ssa.Call)
			if !ok {
				return false
			}
			f := call.Call.StaticCallee()
			if f == nil || !inModule(f) || f.Blocks == nil {
				return false
			}
			sep := true
			eachInstr(f, func(in ssa.Instruction) {
				if st, isSt := in.(*ssa.Store); isSt {
					if fl, _ := storeField(st.Addr); fl == cellsF && !isNil(st.Val) {
						sep = false
					}
				}
				if cl, isCall := in.(ssa.CallInstruction); isCall && cl.Common().StaticCallee() != nil && inModule(cl.Common().StaticCallee()) {
					sep = false // built by something else: not judged a separator
				}
			})
			return sep
		}
		attachers := map[*ssa.Function]bool{}
		if rowsF != nil && cellsF != nil {
			for _, fs := range c.StoresTo(rowsF) {
				if fs.Fresh {
					continue
				}
				_, elems, ok := appendedElems(fs.St.Val)
				if !ok {
					continue
				}
				for _, e := range elems {
					// the appended row may be the function's parameter: then its callers decide what it is
					if par, isPar := unwrap(e, true).(*ssa.Parameter); isPar {
						allSep := true
						n := 0
						for _, site := range c.Idx().callSitesOf(fs.Fn) {
							n++
							for k, p2 := range fs.Fn.Params {
								if p2 == par && k < len(site.Call.Common().Args) && !isSeparator(site.Call.Common().Args[k]) {
									allSep = false
								}
							}
						}
						if n == 0 || !allSep {
							attachers[fs.Fn] = true
						}
						continue
					}
					if !isSeparator(e) {
						attachers[fs.Fn] = true
					}
				}
			}
		}
		nops := 0
		if len(addRowWant) > 0 && len(attachers) > 0 {
			wantS := strings.Join(addRowWant, "; ")
			for _, g := range c.ModFuncs("") {
				if g.Object() == nil || !g.Object().Exported() || g.Synthetic != "" || g.Parent() != nil {
					continue
				}
				if g.Name() == "AddSeparator" || g.Name() == "AddHeaders" {
					continue
				}
				reaches := false
				for _, f := range pkgReach(g, 3) {
					if attachers[f] {
						reaches = true
					}
				}
				if !reaches {
					continue
				}
				// a row handed over by the caller (AddRow(row)) or one the operation builds itself: either way the
				// announcement must be there
				got := strings.Join(flatten(g, nil, 0, 0, map[*ssa.Function]bool{}), "; ")
				nops++
				r.Check("R13.3", FuncName(g), "adding a row to the table fires the documented add-time callbacks (as AddRow does)", g.Pos(), strings.Contains(got, wantS),
					"this operation links a row into the table without announcing it: got ["+got+"], AddRow fires ["+wantS+"]")
			}
		}
		r.Floor("R13.3", "exported operations that add a row", nops, 2)
	}
	// callbacks fired from anywhere else have no documented event
	for _, s := range sites {
		if !covered[s.fn] {
			r.Check("R13.3", FuncName(s.fn), "invokes callbacks outside the documented operations", s.in.Pos(), false, s.role+" "+s.time)
		}
	}
	// per site: fired unconditionally (apart from loops and the nil test of the object holding the callback set)
	for _, s := range sites {
		var holder ssa.Value
		if s.role == "rows" {
			holder = rowArgOf(callCommon(s.in))
		} else if la, isInv := logicalInvoke(s.in, invoke, invW); !isInv {
			continue
		} else if _, b := loadedField(la[0]); b != nil {
			holder = b
		}
		for _, cf := range dominatingConds(s.in.Block()) {
			hb := cf.If.Block()
			isHdr := false
			for _, p := range hb.Preds {
				if hb.Dominates(p) {
					isHdr = true
				}
			}
			if isHdr {
				continue
			}
			if e, nn, ok := nilTest(cf.Cond); ok && (nn == 0) == cf.Val && holder != nil {
				if e == holder || capturedLoad(e) == capturedLoad(holder) {
					continue
				}
				// equal reloads of the same field (t.headerRow tested, then loaded again)
				f1, b1 := loadedField(e)
				f2, b2 := loadedField(holder)
				if f1 != nil && f1 == f2 && b1 == b2 {
					continue
				}
			}
			// an early exit of the whole operation (misuse reported, nothing installed) is not a skipped target
			other := hb.Succs[0]
			if cf.Val {
				other = hb.Succs[1]
			}
			if !blockReach(other, nil)[s.in.Block()] {
				leavesOnly := true
				reports := false
				for ob := range blockReach(other, nil) {
					for _, oin := range ob.Instrs {
						if staticCallee(oin) == invoke {
							leavesOnly = false
						}
						if f := staticCallee(oin); f != nil && f.Name() == "AddError" {
							reports = true
						}
					}
				}
				// only a refusal that is reported as an error counts; a silent early return skips targets
				leavesOnly = leavesOnly && reports
				if leavesOnly {
					continue
				}
			}
			r.Check("R13.3", FuncName(s.fn), fmt.Sprintf("%s %s is fired unconditionally for its target", s.role, s.time), s.in.Pos(), false, "guarded by "+cf.Cond.String()+": some targets would be skipped")
		}
	}
	// per site inside a loop at render time: the loop visits EVERY column / row / cell (the defaults column 0 is a
	// column like any other: callbacks registered on it fire too)
	{
		at := c.Named("", "ATable")
		rowT := c.Named("", "Row")
		lists := map[string]*types.Var{"column": c.FieldOpt(at, "columns"), "Row": c.FieldOpt(at, "rows"), "Cell": c.FieldOpt(rowT, "cells")}
		colAcc := c.MethodOpt(at, true, "Column")
		ncolAcc := c.MethodOpt(at, true, "NColumns")
		renderFns := map[*ssa.Function]bool{}
		if irc := c.MethodOpt(at, true, "InvokeRenderCallbacks"); irc != nil {
			for _, f := range pkgReach(irc, 3) {
				renderFns[f] = true
			}
		}
		nloops := 0
		for _, s := range sites {
			if !renderFns[s.fn] || s.depth == 0 {
				continue
			}
			var target ssa.Value
			kind := ""
			switch {
			case s.role == "rows":
				if call, ok := s.in.(*ssa.Call); ok && len(call.Call.Args) > 0 {
					target, kind = rowArgOf(&call.Call), "Row"
				}
			case strings.HasSuffix(s.role, "/column") && strings.HasPrefix(s.role, "column/"):
				target, kind = s.owner, "column"
			case strings.HasSuffix(s.role, "/Cell") && strings.HasPrefix(s.role, "cell/"):
				target, kind = s.owner, "Cell"
			}
			if target == nil || lists[kind] == nil {
				continue
			}
			rec, full, why := elemOfFullLoop(c, s.fn, target, lists[kind], colAcc, ncolAcc)
			if !rec {
				continue
			}
			nloops++
			r.Check("R13.3", FuncName(s.fn), fmt.Sprintf("the loop around the %s %s invocation visits every %s of the list (index 0 included)", s.role, s.time, kind), s.in.Pos(), full, why)
		}
		r.Floor("R13.3", "render-time loops whose coverage is decided", nloops, 1)
	}
	// per site: target type matches the role; live object
	for _, s := range sites {
		if s.role == "rows" {
			continue
		}
		cnt := fmt.Sprintf("%s %s", s.role, s.time)
		inner := unwrap(s.owner, true)
		pt, isPtr := inner.Type().(*types.Pointer)
		tname := ""
		if isPtr {
			if n := namedOf(pt.Elem()); n != nil {
				tname = n.Obj().Name()
			}
		}
		wantT := s.role[strings.Index(s.role, "/")+1:]
		r.Check("R13.3", FuncName(s.fn), "target of "+cnt+" has the type the callbacks were registered for", s.in.Pos(), tname == wantT, "target is *"+tname+", registered for "+wantT)
		root, steps := addrPath(inner)
		isLocal := false
		throughPointer := false
		for _, stp := range steps {
			if stp.Deref {
				throughPointer = true // the path leaves the local through a pointer it holds: what is reached is not part of the copy
			}
		}
		if al, isAl := root.(*ssa.Alloc); isAl && !throughPointer {
			// a local that holds a COPY of an existing object (whole-value store of something loaded/ranged),
			// as opposed to an object built here by a composite literal
			for _, rr := range referrersOf(al) {
				if st, isSt := rr.(*ssa.Store); isSt && st.Addr == ssa.Value(al) {
					if _, isConst := st.Val.(*ssa.Const); !isConst {
						isLocal = true
					}
				}
			}
		}
		if ia, ok := inner.(*ssa.IndexAddr); ok {
			// element of a list loaded from a struct field
			f, _ := loadedField(ia.X)
			isLocal = f == nil
		}
		r.Check("R13.4", FuncName(s.fn), "target of "+cnt+" is the live object", s.in.Pos(), !isLocal, "the callback is handed the address of a local copy: properties it sets are lost")
	}

	// ---- R13.5
	nrt := 0
	for _, rel := range []string{"csv", "html", "json", "markdown", "texttable"} {
		for _, fn := range c.ModFuncs(rel) {
			if fn.Name() != "RenderTo" || fn.Signature.Recv() == nil {
				continue
			}
			nrt++
			var calls []ssa.Instruction
			eachInstr(fn, func(in ssa.Instruction) {
				if m, _ := invokeMethod(in); m == "InvokeRenderCallbacks" {
					calls = append(calls, in)
				}
			})
			ok := len(calls) == 1 && loopDepth(calls[0].Block()) == 0
			why := fmt.Sprintf("%d call(s)", len(calls))
			if ok {
				wv := writerValues(fn)
				for _, s := range writeSitesOf(fn, wv) {
					if !instrDominates(calls[0], s.Call.(ssa.Instruction)) {
						ok, why = false, "a write is not preceded by the callback pass"
					}
				}
				eachInstr(fn, func(in ssa.Instruction) {
					if f := staticCallee(in); f != nil && strings.HasPrefix(f.Name(), "CellPropertyExtract") {
						if !instrDominates(calls[0], in) {
							ok, why = false, "a measurement is read before the callback pass"
						}
					}
					if f := staticCallee(in); f != nil && f.Name() == "RowToLinesOfWidthStrings" {
						if !instrDominates(calls[0], in) {
							ok, why = false, "lines are laid out before the callback pass"
						}
					}
				})
			}
			r.Check("R13.5", FuncName(fn), "exactly one render-callback pass, outside loops, before measuring and writing", fn.Pos(), ok, why)
		}
	}
	r.Floor("R13.5", "RenderTo methods", nrt, 5)
}

// symRegister executes RegisterPropertyCallback symbolically for one (owner type, target, time).
func symRegister(c *Ctx, reg *ssa.Function, owner types.Type, target, when int64) (regOutcome, string) {
	ownerP, whenP, targetP := reg.Params[1], reg.Params[2], reg.Params[3]
	_ = fmt.Sprint
	env := map[ssa.Value]absVal{
		ownerP:        {kind: "type", t: owner},
		whenP:         {kind: "int", k: when},
		targetP:       {kind: "int", k: target},
		reg.Params[0]: {kind: "nonnil", v: reg.Params[0]},
	}
	paths := symExec(reg, env, func(in ssa.Instruction) bool {
		switch x := in.(type) {
		case *ssa.Store:
			return true
		case *ssa.Call:
			return x.Call.StaticCallee() == reg
		}
		return false
	})
	if len(paths) == 0 {
		return regOutcome{}, "no path to a return"
	}
	if len(paths) > 1 {
		// branches the inputs do not decide (e.g. 'is the list still nil'): every such path must agree
		var first regOutcome
		for i, pp := range paths {
			o, why := regOutcomeOf(c, reg, pp)
			if why != "" {
				return o, why
			}
			if i == 0 {
				first = o
			} else if o.accepted != first.accepted || o.selfCall != first.selfCall || o.setField != first.setField || o.listIdx != first.listIdx {
				return o, fmt.Sprintf("%d paths with different outcomes for the same inputs", len(paths))
			}
		}
		return first, ""
	}
	return regOutcomeOf(c, reg, paths[0])
}

// regOutcomeOf reads the outcome of one symbolic path through RegisterPropertyCallback.
func regOutcomeOf(c *Ctx, reg *ssa.Function, p *symPath) (regOutcome, string) {
	whenP, targetP := reg.Params[2], reg.Params[3]
	res := results(p.ret)
	errV := res[len(res)-1]
	out := regOutcome{listIdx: -1}
	// delegation to the receiver table
	if ex, ok := errV.(*ssa.Call); ok && ex.Call.StaticCallee() == reg {
		if mi, ok := ex.Call.Args[1].(*ssa.MakeInterface); ok && mi.X == ssa.Value(reg.Params[0]) && ex.Call.Args[0] == ssa.Value(reg.Params[0]) &&
			ex.Call.Args[2] == ssa.Value(whenP) && ex.Call.Args[3] == ssa.Value(targetP) {
			out.selfCall = true
			return out, ""
		}
		return out, "delegates to a registration with different arguments"
	}
	out.accepted = isNil(errV)
	// the append store: *(&set.list) = append(...); its address resolves, on this path, to
	// <owner object>.<callback set field>.<list field>
	for _, in := range p.trace {
		st, ok := in.(*ssa.Store)
		if !ok {
			continue
		}
		if _, isApp := isBuiltinCall(st.Val, "append"); !isApp {
			continue
		}
		if sl, isSl := st.Val.Type().Underlying().(*types.Slice); !isSl || !isNamed(sl.Elem(), modPath, "PropertyCallback") {
			continue
		}
		a, ok := p.resolve(st.Addr)
		if !ok || a.kind != "addr" || len(a.path) < 2 || a.v == nil {
			continue
		}
		out.listIdx = a.path[len(a.path)-1]
		// the set field: second to last step, a field of the root's struct (possibly through embedded structs)
		var t types.Type = a.v.Type()
		if pa, ok := p.resolve(a.v); ok && pa.t != nil {
			t = pa.t
		}
		if pt, isP := t.Underlying().(*types.Pointer); isP {
			t = pt.Elem()
		}
		var fld *types.Var
		for _, idx := range a.path[:len(a.path)-1] {
			st2, isS := t.Underlying().(*types.Struct)
			if !isS || idx >= st2.NumFields() {
				fld = nil
				break
			}
			fld = st2.Field(idx)
			t = fld.Type()
		}
		if fld != nil {
			out.setField = fld
			out.setOwner = c.ownerOf(fld)
		}
	}
	if out.accepted && out.setField == nil {
		return out, "returns nil without appending to a callback list"
	}
	if !out.accepted && out.listIdx >= 0 {
		return out, "appends and then returns an error"
	}
	return out, ""
}

// c13InvokesAll: in invokePropertyCallbacks, UpdateProperties is called on element i of the selected list for every
// i (a full-range loop), unconditionally within the iteration, and nothing leaves the loop but its own test: a
// failing callback must not keep the later ones (among them the renderers' own measuring callbacks) from running.
func c13InvokesAll(c *Ctx, rule string) {
	r := c.R
	invoke := c.Func("", "invokePropertyCallbacks")
	if invoke == nil {
		return
	}
	n := 0
	eachInstr(invoke, func(in ssa.Instruction) {
		if m, _ := invokeMethod(in); m != "UpdateProperties" {
			return
		}
		n++
		cc := callCommon(in)
		sl, idx := sectionOfAny(cc.Value)
		full := sl != nil && isFullRangeIndex(c, invoke, idx, sl)
		r.Check(rule, FuncName(invoke), fmt.Sprintf("callback call #%d is made for every element of the selected list", n), in.Pos(), full && !condInsideLoop(in.Block()), "the call is not on element i of a loop over the whole list, or is conditional within the iteration")
		hdr := innermostLoopHeader(in.Block())
		if hdr == nil {
			return
		}
		bad := ""
		for _, b := range invoke.Blocks {
			if b == hdr || !hdr.Dominates(b) || !blockReach(b, nil)[hdr] {
				continue
			}
			for _, s := range b.Succs {
				if !hdr.Dominates(s) || !(s == hdr || blockReach(s, nil)[hdr]) {
					bad = c.Pos(b.Instrs[len(b.Instrs)-1].Pos())
				}
			}
		}
		r.Check(rule, FuncName(invoke), fmt.Sprintf("nothing but exhaustion of the list ends the loop around callback call #%d", n), in.Pos(), bad == "", "the loop is left early at "+bad+": callbacks registered later (a renderer's own, say) are skipped after an earlier one fails")
	})
	r.Floor(rule, "callback invocations in the invoker", n, 1)
}

// c13FillThenInstall: every call of (*Row).Add made by the core package is on a row that is not in a table yet:
// the receiver comes from a constructor that neither installs the row nor sets its inTable, and no AddRow of that
// row precedes the Add. (Table- and column-level add-time cell callbacks fire from AddRow, over the cells the row
// has at that moment.)
func c13FillThenInstall(c *Ctx) {
	r := c.R
	row := c.Named("", "Row")
	add := c.Method(row, true, "Add")
	inTable := c.Field(row, "inTable")
	at := c.Named("", "ATable")
	addRow := c.Method(at, true, "AddRow")
	if add == nil || inTable == nil || addRow == nil {
		return
	}
	var detachedCtor func(f *ssa.Function, depth int) bool
	detachedCtor = func(f *ssa.Function, depth int) bool {
		if f == nil || f.Blocks == nil || depth > 3 {
			return false
		}
		ok := true
		eachInstr(f, func(in ssa.Instruction) {
			if cal := staticCallee(in); cal != nil {
				if cal == addRow {
					ok = false
				} else if inModule(cal) && cal != f {
					// a helper: must itself be free of installation
					sub := true
					eachInstr(cal, func(in2 ssa.Instruction) {
						if staticCallee(in2) == addRow {
							sub = false
						}
					})
					if !sub {
						ok = false
					}
				}
			} else if m, _ := invokeMethod(in); m == "AddRow" {
				ok = false
			}
			if st, isSt := in.(*ssa.Store); isSt {
				if fl, _ := storeField(st.Addr); fl == inTable && !isNil(st.Val) {
					ok = false
				}
			}
		})
		if !ok {
			return false
		}
		for _, ret := range returnsOf(f) {
			for _, v := range phiClosure(results(ret)[0]) {
				switch x := v.(type) {
				case *ssa.Alloc:
				case *ssa.Call:
					if !detachedCtor(x.Call.StaticCallee(), depth+1) {
						return false
					}
				default:
					return false
				}
			}
		}
		return true
	}
	n := 0
	for _, fn := range c.ModFuncs("") {
		if fn == add {
			continue
		}
		eachInstr(fn, func(in ssa.Instruction) {
			if staticCallee(in) != add {
				return
			}
			n++
			recv := callCommon(in).Args[0]
			ok, why := true, ""
			for _, v := range phiClosure(recv) {
				switch x := v.(type) {
				case *ssa.Alloc:
				case *ssa.Call:
					if x.Call.StaticCallee() == add {
						continue // chained r.Add(..).Add(..)
					}
					if !detachedCtor(x.Call.StaticCallee(), 0) {
						ok, why = false, "the row comes from "+calleeDesc(&x.Call)+", which installs it in the table (or may): cells added afterwards are never shown to the table- and column-level add-time callbacks"
					}
				case *ssa.Parameter:
					// an unexported helper that fills the row it is given: every caller must hand it a detached row
					okP := x.Parent() == fn && fn.Object() != nil && !fn.Object().Exported()
					idx := -1
					for i, q := range fn.Params {
						if q == x {
							idx = i
						}
					}
					nsites := 0
					if okP && idx >= 0 {
						for _, g := range c.ModFuncs("") {
							eachInstr(g, func(ci ssa.Instruction) {
								if staticCallee(ci) != fn || len(callCommon(ci).Args) <= idx {
									return
								}
								nsites++
								for _, av := range phiClosure(callCommon(ci).Args[idx]) {
									switch y := av.(type) {
									case *ssa.Alloc:
									case *ssa.Call:
										if !detachedCtor(y.Call.StaticCallee(), 0) {
											okP = false
										}
									default:
										okP = false
									}
								}
								// and not installed before the helper runs
								eachInstr(g, func(in2 ssa.Instruction) {
									cal := staticCallee(in2)
									m, _ := invokeMethod(in2)
									if cal != addRow && m != "AddRow" {
										return
									}
									cc2 := callCommon(in2)
									if sameValueSet(cc2.Args[len(cc2.Args)-1], callCommon(ci).Args[idx]) && instrDominates(in2, ci) {
										okP = false
									}
								})
							})
						}
					}
					if !okP || nsites == 0 {
						ok, why = false, "the row is a parameter: it may already be in a table"
					}
				default:
					ok, why = false, "origin of the row not recognised: "+v.String()
				}
			}
			// no installation of that row before the Add
			eachInstr(fn, func(in2 ssa.Instruction) {
				cal := staticCallee(in2)
				m, _ := invokeMethod(in2)
				if cal != addRow && m != "AddRow" {
					return
				}
				cc := callCommon(in2)
				arg := cc.Args[len(cc.Args)-1]
				if sameValueSet(arg, recv) && !instrDominates(in, in2) && blockReach(in2.Block(), nil)[in.Block()] {
					ok, why = false, "the row is installed with AddRow before this cell is added"
				}
			})
			r.Check("R13.8", FuncName(fn), fmt.Sprintf("Row.Add call #%d is made on a row not yet in a table", n), in.Pos(), ok, why)
		})
	}
	if n == 0 {
		r.Note("R13.8: the core package makes no Row.Add call of its own; nothing to check")
	}
}

func sameValueSet(a, b ssa.Value) bool {
	for _, x := range phiClosure(a) {
		for _, y := range phiClosure(b) {
			if x == y {
				return true
			}
		}
	}
	return false
}

// invokeWrappers: functions (local closures or helpers) whose whole effect is one unconditional call of the
// callback invoker with each of its four arguments taken from their own parameters or a constant. A call of such
// a wrapper IS an invocation: the site rules look at its call sites with the arguments mapped through.
// The value is, per invoker argument, the index of the wrapper parameter supplying it, or -1 for a constant.
type invokeWrapper struct {
	param [4]int
	konst [4]ssa.Value
}

func invokeWrappers(c *Ctx, invoke *ssa.Function) map[*ssa.Function]invokeWrapper {
	out := map[*ssa.Function]invokeWrapper{}
	for _, fn := range c.LibFuncs() {
		if fn == invoke || len(fn.Blocks) != 1 || len(fn.FreeVars) != 0 {
			continue
		}
		var call ssa.CallInstruction
		n := 0
		other := false
		for _, in := range fn.Blocks[0].Instrs {
			switch x := in.(type) {
			case ssa.CallInstruction:
				if x.Common().StaticCallee() == invoke {
					call = x
					n++
				} else {
					other = true
				}
			case *ssa.Store, *ssa.MapUpdate, *ssa.Send, *ssa.Go, *ssa.Defer:
				other = true
			}
		}
		if n != 1 || other {
			continue
		}
		args := call.Common().Args
		if len(args) != 4 {
			continue
		}
		var w invokeWrapper
		ok := true
		for k, a := range args {
			w.param[k] = -1
			if _, isK := a.(*ssa.Const); isK {
				w.konst[k] = a
				continue
			}
			found := false
			for i, par := range fn.Params {
				if unwrap(a, true) == ssa.Value(par) || a == ssa.Value(par) {
					w.param[k] = i
					found = true
				}
			}
			if !found {
				ok = false
			}
		}
		if ok {
			out[fn] = w
		}
	}
	return out
}

// logicalInvoke: the four arguments (set, time, target, error receiver) of an invocation made at `in`, directly
// or through a thin wrapper.
func logicalInvoke(in ssa.Instruction, invoke *ssa.Function, ws map[*ssa.Function]invokeWrapper) ([4]ssa.Value, bool) {
	var out [4]ssa.Value
	callee := staticCallee(in)
	if callee == nil {
		return out, false
	}
	args := callCommon(in).Args
	if callee == invoke && len(args) == 4 {
		copy(out[:], args)
		return out, true
	}
	w, ok := ws[callee]
	if !ok || len(args) != len(callee.Params) {
		return out, false
	}
	for k := 0; k < 4; k++ {
		if w.param[k] >= 0 {
			out[k] = args[w.param[k]]
		} else {
			out[k] = w.konst[k]
		}
	}
	return out, true
}

// elemOfFullLoop: v is the element, at the loop's index, of the slice field `list` - and that index covers the
// whole list. Recognised forms: list[i] / &list[i] with list loaded from the field in this function, and (for
// columns) the accessor Column(n) with n running from 0 up to and including NColumns().
func elemOfFullLoop(c *Ctx, fn *ssa.Function, v ssa.Value, list *types.Var, colAcc, ncolAcc *ssa.Function) (recognised, full bool, why string) {
	v = unwrap(v, true)
	var ia *ssa.IndexAddr
	switch x := v.(type) {
	case *ssa.UnOp:
		if x.Op == token.MUL {
			ia, _ = x.X.(*ssa.IndexAddr)
		}
	case *ssa.IndexAddr:
		ia = x
	case *ssa.Call:
		if colAcc == nil || x.Call.StaticCallee() != colAcc || len(x.Call.Args) != 2 {
			return false, false, ""
		}
		// Column(n): n = 0, 1, .., NColumns()
		p := c.Idx().proverFor(fn)
		n := p.resolve(x.Call.Args[1])
		phi, isPhi := n.(*ssa.Phi)
		if !isPhi || !p.isLoopPhi(phi) {
			return true, false, "the column number is not the loop's counter"
		}
		hdr := phi.Block()
		for k, pred := range hdr.Preds {
			if hdr.Dominates(pred) {
				e := p.linOf(phi.Edges[k]).sub(linTerm(p.canon(phi)))
				if !e.isConst() || e.k != 1 {
					return true, false, "the column number does not step by one"
				}
			} else if k0, ok := constInt(phi.Edges[k]); !ok || k0 != 0 {
				return true, false, "the loop over Column(n) does not start at column 0, the defaults column: callbacks registered on it are never invoked"
			}
		}
		iff, ok := hdr.Instrs[len(hdr.Instrs)-1].(*ssa.If)
		if !ok {
			return true, false, "the loop has no header test"
		}
		b, isB := iff.Cond.(*ssa.BinOp)
		if !isB {
			return true, false, "the loop bound is not a comparison with NColumns()"
		}
		isNC := func(y ssa.Value) bool {
			cl, ok := y.(*ssa.Call)
			return ok && ncolAcc != nil && cl.Call.StaticCallee() == ncolAcc
		}
		switch {
		case b.Op == token.LEQ && b.X == ssa.Value(phi) && isNC(b.Y):
			return true, true, ""
		case b.Op == token.GEQ && b.Y == ssa.Value(phi) && isNC(b.X):
			return true, true, ""
		}
		return true, false, "the loop over Column(n) does not run up to and including NColumns()"
	}
	if ia == nil {
		return false, false, ""
	}
	f, _ := loadedField(ia.X)
	if f != list {
		return false, false, ""
	}
	if isFullRangeIndex(c, fn, ia.Index, ia.X) && !condInsideLoopSkipping(ia.Block()) {
		return true, true, ""
	}
	// the bound may come from another load of the same field of the same object (for i := range t.columns { t.columns[i] }),
	// nothing in this function writing the field
	p := c.Idx().proverFor(fn)
	_, base := loadedField(ia.X)
	written := false
	var loads []ssa.Value
	eachInstr(fn, func(in ssa.Instruction) {
		if st, ok := in.(*ssa.Store); ok {
			if f2, _ := storeField(st.Addr); f2 == list {
				written = true
			}
		}
		if u, ok := in.(*ssa.UnOp); ok {
			if f2, b2 := loadedField(u); f2 == list && base != nil && b2 != nil && p.canon(b2) == p.canon(base) {
				loads = append(loads, u)
			}
		}
	})
	if !written {
		for _, l := range loads {
			if isFullRangeIndex(c, fn, ia.Index, l) {
				return true, true, ""
			}
		}
	}
	return true, false, "the index does not run over the whole list: some entries are never visited"
}

// condInsideLoopSkipping: placeholder for loops whose body is entered conditionally; the unconditional-firing rule
// above already reports guarded invocations, so nothing more is required here.
func condInsideLoopSkipping(b *ssa.BasicBlock) bool { return false }

// rowArgOf: the *Row handed to the per-row render function (its receiver, or an argument when the function hangs
// on something else).
func rowArgOf(cc *ssa.CallCommon) ssa.Value {
	for _, a := range cc.Args {
		if pt, ok := a.Type().(*types.Pointer); ok && isNamed(pt.Elem(), modPath, "Row") {
			return a
		}
	}
	if len(cc.Args) > 0 {
		return cc.Args[0]
	}
	return nil
}
