package main

import (
	"fmt"
	"go/token"
	"go/types"
	"os"
	"strings"

	"golang.org/x/tools/go/ssa"
)

func init() { register("C12", runC12) }

func runC12(c *Ctx) {
	r := c.R
	r.Explanation = "An owner's properties are the head of a chain of key/value links. Cells are copied by value (Row.Add(c Cell), Cells(), assignments), so copies share links; an owner behaves as an independent map exactly if links are never modified after construction. " +
		"R12.1 every store to a field of a chain link initialises a link allocated in the same function (links are immutable). R12.2 SetProperty installs either the remainder returned by the strip of the CURRENT chain for the SAME key (value nil) or a fresh link on top of that remainder; the strip returns, for a found key, the link's tail, recurses on the tail with the same key, rebuilds the links above a removed one from their own key/value and leaves the chain untouched when the key is absent. " +
		"R12.3 lookup compares keys with interface equality (type and value), returns the first match, else continues down the chain; an owner without a chain yields nil. R12.4 the chain head of an owner is written only by SetProperty through its own receiver. " +
		"R12.5 no address of an element of the table's column list escapes (handles are the stored pointers, stable under growth). From R12.1-4 the map semantics (get returns the latest set; copies are independent; repeated sets do not grow the chain) follow by induction over set/get sequences. " +
		"Decided: immutability, strip/push structure, lookup structure, handle stability. Not decided: the induction itself is argued, not mechanised."
	r.NotDecided = []string{"the inductive argument from R12.1-R12.4 to the map semantics (prose)", "behaviour with non-comparable keys (panics by design: T4 in C09)"}
	r.Assumptions = []string{"interface == compares dynamic type and value (Go semantics)"}
	r.Rule("R12.1", "chain links are never modified after construction")
	r.Rule("R12.2", "set = strip the key from the current chain, then (unless clearing) push a fresh link on the remainder")
	r.Rule("R12.3", "lookup returns the first link whose key is == the key, else nil")
	r.Rule("R12.4", "an owner's chain head is written only by its own SetProperty")
	r.Rule("R12.5", "column handles stay valid as the table grows")

	vp := c.Named("", "valueProperty")
	pi := c.Named("", "propertyImpl")
	at := c.Named("", "ATable")
	props := c.Field(pi, "properties")
	chain, key, val := c.Field(vp, "chain"), c.Field(vp, "key"), c.Field(vp, "val")
	cols := c.Field(at, "columns")
	set := c.Method(pi, true, "SetProperty")
	get := c.Method(pi, true, "GetProperty")
	value := c.Method(vp, true, "Value")
	strip := c.Func("", "stripReturnValue")
	withValue := c.Func("", "withValue")
	if props == nil || chain == nil || key == nil || val == nil || set == nil || get == nil || value == nil || strip == nil || withValue == nil || cols == nil {
		return
	}

	// ---- R12.1
	n := 0
	for _, f := range []*types.Var{chain, key, val} {
		for _, fs := range c.StoresTo(f) {
			n++
			r.Check("R12.1", FuncName(fs.Fn), "store valueProperty."+f.Name(), fs.St.Pos(), fs.Fresh, "an existing link is edited in place: every copy of the owner that shares this link sees the change")
		}
	}
	r.Floor("R12.1", "stores to chain link fields (all at construction)", n, 3)
	// whole-struct overwrite of a link
	for _, fn := range c.LibFuncs() {
		eachInstr(fn, func(in ssa.Instruction) {
			if st, ok := in.(*ssa.Store); ok {
				if nn := namedOf(st.Val.Type()); nn == vp {
					if _, isPtr := st.Val.Type().(*types.Pointer); !isPtr {
						if _, isAlloc := st.Addr.(*ssa.Alloc); !isAlloc {
							r.Check("R12.1", FuncName(fn), "whole-link overwrite", st.Pos(), false, "a link is overwritten through a pointer")
						}
					}
				}
			}
		})
	}

	// ---- R12.4
	np := 0
	for _, fs := range c.StoresTo(props) {
		np++
		ok := fs.Fn == set && fs.Base == ssa.Value(set.Params[0])
		r.Check("R12.4", FuncName(fs.Fn), "store propertyImpl.properties", fs.St.Pos(), ok, "an owner's chain is written by something other than its own SetProperty")
	}
	r.Floor("R12.4", "writers of the chain head", np, 1)
	// ... nor is an owner's property holder ever assigned as a whole (a new column that starts out with another
	// owner's chain reports that owner's settings as its own)
	pimpl := namedOf(set.Params[0].Type().(*types.Pointer).Elem())
	nwhole := 0
	for _, fn := range c.LibFuncs() {
		eachInstr(fn, func(in ssa.Instruction) {
			st, ok := in.(*ssa.Store)
			if !ok || pimpl == nil || namedOf(st.Val.Type()) != pimpl {
				return
			}
			nwhole++
			zero := false
			if k, isK := st.Val.(*ssa.Const); isK && k.Value == nil {
				zero = true
			}
			r.Check("R12.4", FuncName(fn), fmt.Sprintf("whole property holder assigned #%d", nwhole), st.Pos(), zero, "an owner is given another owner's property chain: what was set on one shows as set on the other")
		})
	}
	// ... nor is an owner that lives behind a pointer (a column, a row, the table) overwritten as a whole: everything
	// set on it would be replaced at a stroke. (Cells are values by design: copies of a cell are made everywhere.)
	if pimpl != nil {
		embedsHolder := func(t types.Type) bool {
			n := namedOf(t)
			if n == nil || !inModuleType(n) || n.Obj().Name() == "Cell" {
				return false
			}
			if _, isPtr := t.(*types.Pointer); isPtr {
				return false
			}
			stt, isS := n.Underlying().(*types.Struct)
			if !isS {
				return false
			}
			for i := 0; i < stt.NumFields(); i++ {
				if stt.Field(i).Embedded() && namedOf(stt.Field(i).Type()) == pimpl {
					if _, viaPtr := stt.Field(i).Type().(*types.Pointer); !viaPtr {
						return true
					}
				}
			}
			return false
		}
		for _, fn := range c.LibFuncs() {
			eachInstr(fn, func(in ssa.Instruction) {
				st, ok := in.(*ssa.Store)
				if ok && os.Getenv("TABDBG") == "whole" && namedOf(st.Val.Type()) != nil {
					fmt.Fprintf(os.Stderr, "store %s val type %s embeds=%v pimpl=%v\n", st, st.Val.Type(), embedsHolder(st.Val.Type()), pimpl)
				}
				if !ok || !embedsHolder(st.Val.Type()) {
					return
				}
				if al, isAl := st.Addr.(*ssa.Alloc); isAl {
					// a local being built - unless it is a NEW owner (its address outlives the function) started as a
					// copy of an existing one: it would begin life with that owner's property chain and callbacks
					if u, isU := st.Val.(*ssa.UnOp); isU && u.Op == token.MUL && al.Heap {
						if _, fromLocal := u.X.(*ssa.Alloc); !fromLocal {
							r.Check("R12.4", FuncName(fn), "a new "+namedOf(st.Val.Type()).Obj().Name()+" is not started as a copy of an existing one", st.Pos(), false, "the copy shares the original's property chain at that moment: settings made on the original show on the new owner, and later changes to the original do not")
						}
					}
					return
				}
				// (a composite literal assigned through a pointer is compiled as "zero the target, then set the listed
				// fields": the zeroing store is the overwrite)
				r.Check("R12.4", FuncName(fn), "an existing "+namedOf(st.Val.Type()).Obj().Name()+" is overwritten as a whole", st.Pos(), false, "everything set on that owner (its properties, its callbacks) is replaced by what the new value carries")
			})
		}
	}
	// every owner answers gets and sets with the one implementation (promoted from the embedded holder): an owner
	// type that declares its own GetProperty/SetProperty can answer with something other than what was set on it
	if pimpl != nil {
		for _, name := range []string{"GetProperty", "SetProperty"} {
			for _, fn := range c.LibFuncs() {
				if fn.Name() != name || fn.Signature.Recv() == nil || fn.Synthetic != "" {
					continue
				}
				rt := fn.Signature.Recv().Type()
				if pt, isP := rt.(*types.Pointer); isP {
					rt = pt.Elem()
				}
				n := namedOf(rt)
				if n == nil || !inModuleType(n) || n == pimpl {
					continue
				}
				// renderer wrappers embed the Table interface and forward: only types that embed the holder matter
				if stt, isS := n.Underlying().(*types.Struct); isS {
					embeds := false
					for i := 0; i < stt.NumFields(); i++ {
						if stt.Field(i).Embedded() && namedOf(stt.Field(i).Type()) == pimpl {
							embeds = true
						}
					}
					if embeds {
						r.Check("R12.3", FuncName(fn), "owner type declares its own "+name, fn.Pos(), false, "gets and sets on this owner no longer go through the shared implementation: a get can report a value that was never set on this owner")
					}
				}
			}
		}
	}

	// ---- R12.2 SetProperty
	{
		keyP, valP := set.Params[1], set.Params[2]
		var stripCall *ssa.Call
		eachInstr(set, func(in ssa.Instruction) {
			if staticCallee(in) == strip {
				stripCall = in.(*ssa.Call)
			}
		})
		if stripCall == nil {
			r.Check("R12.2", FuncName(set), "strips the key from the current chain", set.Pos(), false, "no call to the strip function")
		} else {
			f, b := loadedField(stripCall.Call.Args[0])
			r.Check("R12.2", FuncName(set), "the strip is applied to the owner's current chain with the key being set", stripCall.Pos(),
				f == props && b == ssa.Value(set.Params[0]) && stripCall.Call.Args[1] == ssa.Value(keyP), "")
			okAll, whyAll := mustStoreBeforeLeaving(stripCall.Block(), func(in ssa.Instruction) bool {
				st, is := in.(*ssa.Store)
				if !is {
					return false
				}
				f, b := storeField(st.Addr)
				return f == props && b == ssa.Value(set.Params[0])
			})
			r.Check("R12.2", FuncName(set), "every path after the strip installs a new chain head", stripCall.Pos(), okAll, whyAll)
			var remainder ssa.Value
			for _, rr := range referrersOf(stripCall) {
				if ex, ok := rr.(*ssa.Extract); ok && ex.Index == 1 {
					remainder = ex
				}
			}
			for _, fs := range c.StoresTo(props) {
				if fs.Fn != set {
					continue
				}
				// the stored chain, case by case: where several assignments merge (a phi) each incoming value is judged
				// under the conditions of its own edge
				type cand struct {
					v     ssa.Value
					conds []condFact
				}
				var cands []cand
				var flat func(v ssa.Value, conds []condFact, depth int)
				flat = func(v ssa.Value, conds []condFact, depth int) {
					if phi, isPhi := v.(*ssa.Phi); isPhi && depth < 4 {
						for k, e := range phi.Edges {
							pred := phi.Block().Preds[k]
							ec := append(append([]condFact{}, dominatingConds(pred)...), edgeCondOf(pred, phi.Block())...)
							flat(e, ec, depth+1)
						}
						return
					}
					cands = append(cands, cand{v, conds})
				}
				flat(fs.St.Val, dominatingConds(fs.St.Block()), 0)
				ok, why := true, ""
				for _, cd := range cands {
					valNil := func(want int) bool {
						for _, cf := range cd.conds {
							e, nn, isT := nilTest(cf.Cond)
							if isT && e == ssa.Value(valP) && (nn == want) == cf.Val {
								return true
							}
						}
						return false
					}
					if cd.v == remainder {
						if !valNil(1) {
							ok, why = false, "the bare remainder is installed only when the value is nil"
						}
					} else if call, isCall := cd.v.(*ssa.Call); isCall && call.Call.StaticCallee() == withValue {
						a := call.Call.Args
						if !(a[0] == remainder && a[1] == ssa.Value(keyP) && a[2] == ssa.Value(valP)) || !valNil(0) {
							ok, why = false, "push must be withValue(remainder, key, value), and only for a non-nil value"
						}
					} else {
						ok, why = false, "the new chain is neither the stripped remainder nor a push onto it"
					}
				}
				r.Check("R12.2", FuncName(set), "new chain head is built on the stripped remainder", fs.St.Pos(), ok, why)
			}
		}
	}
	// withValue builds a fresh link (parent, key, val)
	{
		ok := false
		for _, ret := range returnsOf(withValue) {
			v := results(ret)[0]
			if mi, isMI := v.(*ssa.MakeInterface); isMI {
				if al, isAl := mi.X.(*ssa.Alloc); isAl {
					got := map[*types.Var]ssa.Value{}
					for _, fs := range c.StoresTo(chain) {
						if fs.Base == ssa.Value(al) {
							got[chain] = fs.St.Val
						}
					}
					for _, fs := range c.StoresTo(key) {
						if fs.Base == ssa.Value(al) {
							got[key] = fs.St.Val
						}
					}
					for _, fs := range c.StoresTo(val) {
						if fs.Base == ssa.Value(al) {
							got[val] = fs.St.Val
						}
					}
					ok = got[chain] == ssa.Value(withValue.Params[0]) && got[key] == ssa.Value(withValue.Params[1]) && got[val] == ssa.Value(withValue.Params[2])
				}
			}
		}
		r.Check("R12.2", FuncName(withValue), "returns a fresh link {parent, key, value}", withValue.Pos(), ok, "")
	}
	c12Strip(c, strip, chain, key, val)

	// ---- R12.3
	{
		keyP := value.Params[1]
		nret := 0
		p0 := c.Idx().proverFor(value)
		// the link being looked at: the receiver, or - when the walk down the chain is a loop instead of a recursion -
		// a loop variable that starts as the receiver and moves to the current link's parent (asserted to be a link)
		cur := map[ssa.Value]bool{ssa.Value(value.Params[0]): true}
		for changed := true; changed; {
			changed = false
			eachInstr(value, func(in ssa.Instruction) {
				phi, isPhi := in.(*ssa.Phi)
				if !isPhi || cur[phi] {
					return
				}
				all := true
				for _, e := range phi.Edges {
					e = unwrap(e, true)
					if cur[e] || e == ssa.Value(phi) {
						continue
					}
					// the parent of a current link, asserted to be a link itself
					okEdge := false
					if ex, isEx := e.(*ssa.Extract); isEx && ex.Index == 0 {
						e = ex.Tuple
					}
					if ta, isTA := e.(*ssa.TypeAssert); isTA {
						if f, b := loadedField(ta.X); f == chain && (cur[b] || b == ssa.Value(phi)) {
							okEdge = true
						}
					}
					if !okEdge {
						all = false
					}
				}
				if all {
					cur[phi] = true
					changed = true
				}
			})
		}
		keyTestOn := func(cond ssa.Value) ssa.Value { // cond is <link>.key == key: returns the link
			bo, isB := cond.(*ssa.BinOp)
			if !isB || bo.Op != token.EQL {
				return nil
			}
			fx, bx := loadedField(bo.X)
			fy, by := loadedField(bo.Y)
			switch {
			case fx == key && bo.Y == ssa.Value(keyP):
				return bx
			case fy == key && bo.X == ssa.Value(keyP):
				return by
			}
			return nil
		}
		// a loop may only move on from a link whose key it has compared and found different
		for v := range cur {
			phi, isPhi := v.(*ssa.Phi)
			if !isPhi {
				continue
			}
			for k, pred := range phi.Block().Preds {
				if !phi.Block().Dominates(pred) {
					continue
				}
				_ = k
				tested := false
				for _, cf := range expandConds(p0.edgeConds(pred, phi.Block())) {
					if l := keyTestOn(cf.Cond); l != nil && !cf.Val && (l == ssa.Value(phi)) {
						tested = true
					}
				}
				r.Check("R12.3", FuncName(value), "the walk moves on from a link only after comparing that link's key", phi.Pos(), tested, "a link can be passed over without its key having been compared: a value set on the owner is not found")
			}
		}
		for i, ret := range returnsOf(value) {
			nret++
			v := results(ret)[0]
			ok, why := false, ""
			switch {
			case isNil(v):
				// "not found" only after the link at hand has been compared and found different
				for _, cf := range expandConds(dominatingConds(ret.Block())) {
					if l := keyTestOn(cf.Cond); l != nil && !cf.Val && cur[l] {
						ok = true
					}
				}
				why = "nil is returned without the current link's key having been compared"
			default:
				if f, b := loadedField(v); f == val && cur[b] {
					for _, cf := range expandConds(dominatingConds(ret.Block())) {
						if l := keyTestOn(cf.Cond); l != nil && cf.Val && l == b {
							ok = true
						}
					}
					why = "the link's value is returned without a dominating key == comparison on that same link"
				} else if call, isCall := v.(*ssa.Call); isCall && call.Call.IsInvoke() && call.Call.Method.Name() == "Value" {
					f, b := loadedField(call.Call.Value)
					ok = f == chain && cur[b] && call.Call.Args[0] == ssa.Value(keyP)
					why = "delegation must be chain.Value(key)"
				} else if f, b := loadedField(v); false && f == val && b == ssa.Value(value.Params[0]) {
					// under v.key == key
					for _, cf := range dominatingConds(ret.Block()) {
						if bo, isB := cf.Cond.(*ssa.BinOp); isB && bo.Op == token.EQL && cf.Val {
							fx, _ := loadedField(bo.X)
							fy, _ := loadedField(bo.Y)
							if (fx == key && bo.Y == ssa.Value(keyP)) || (fy == key && bo.X == ssa.Value(keyP)) {
								ok = true
							}
						}
					}
					why = "the link's value is returned without a dominating key == comparison"
				} else if call, isCall := v.(*ssa.Call); isCall && call.Call.IsInvoke() && call.Call.Method.Name() == "Value" {
					f, b := loadedField(call.Call.Value)
					ok = f == chain && b == ssa.Value(value.Params[0]) && call.Call.Args[0] == ssa.Value(keyP)
					why = "delegation must be chain.Value(key)"
				} else {
					why = "unexpected result " + v.String()
				}
			}
			r.Check("R12.3", FuncName(value), fmt.Sprintf("return #%d: own value under key==, else the tail's answer, else nil", i+1), ret.Pos(), ok, why)
		}
		r.Floor("R12.3", "returns of Value", nret, 3)
		for i, ret := range returnsOf(get) {
			v := results(ret)[0]
			ok := isNil(v)
			if call, isCall := v.(*ssa.Call); isCall && call.Call.IsInvoke() && call.Call.Method.Name() == "Value" {
				f, b := loadedField(call.Call.Value)
				ok = f == props && b == ssa.Value(get.Params[0]) && call.Call.Args[0] == ssa.Value(get.Params[1])
			}
			r.Check("R12.3", FuncName(get), fmt.Sprintf("return #%d: nil, or the chain's answer for the same key", i+1), ret.Pos(), ok, "")
		}
	}

	// ---- R12.5
	nesc, nuse := 0, 0
	for _, fn := range c.LibFuncs() {
		eachInstr(fn, func(in ssa.Instruction) {
			ia, ok := in.(*ssa.IndexAddr)
			if !ok {
				return
			}
			if f, _ := loadedField(ia.X); f != cols {
				return
			}
			nuse++
			for _, rr := range referrersOf(ia) {
				switch x := rr.(type) {
				case *ssa.UnOp:
				case *ssa.Store:
					if x.Addr != ssa.Value(ia) {
						nesc++
						r.Check("R12.5", FuncName(fn), "address of a columns element stored", rr.Pos(), false, "a pointer into the column slice outlives the next growth (re-allocation)")
					} else {
						// a slot of the table's own list is (re)filled: only while the table is being constructed
						_, base := loadedField(ia.X)
						_, fresh := unwrap(base, true).(*ssa.Alloc)
						r.Check("R12.5", FuncName(fn), "a slot of the column list is filled only in the table's constructor", rr.Pos(), fresh, "an existing column is replaced by a new one: what was set on it is gone and handles obtained earlier address a column the table no longer uses")
					}
				case *ssa.FieldAddr:
					// &t.columns[i].f : transient unless that address itself escapes
					for _, r3 := range referrersOf(x) {
						switch y := r3.(type) {
						case *ssa.UnOp, *ssa.DebugRef, *ssa.FieldAddr, *ssa.IndexAddr:
						case *ssa.Store:
							if y.Addr != ssa.Value(x) {
								nesc++
								r.Check("R12.5", FuncName(fn), "address into a columns element stored", r3.Pos(), false, "a pointer into the column slice outlives the next growth (re-allocation)")
							}
						case ssa.CallInstruction:
							// handed to a callee for the duration of the call: transient
						default:
							nesc++
							r.Check("R12.5", FuncName(fn), "address into a columns element escapes", r3.Pos(), false, "a pointer into the column slice outlives the next growth (re-allocation)")
						}
					}
				case *ssa.DebugRef:
				default:
					nesc++
					r.Check("R12.5", FuncName(fn), "address of a columns element escapes", rr.Pos(), false, "a pointer into the column slice outlives the next growth (re-allocation)")
				}
			}
		})
	}
	if column := c.Method(at, true, "Column"); column != nil {
		for i, ret := range returnsOf(column) {
			v := results(ret)[0]
			if isNil(v) {
				continue
			}
			ok := false
			switch x := v.(type) {
			case *ssa.UnOp:
				if ia, isIA := x.X.(*ssa.IndexAddr); isIA {
					f, _ := loadedField(ia.X)
					ok = f == cols
				}
			}
			r.Check("R12.5", FuncName(column), fmt.Sprintf("return #%d is the stored column pointer itself (not a copy, not an address into the slice)", i+1), ret.Pos(), ok, v.String())
		}
	}
	if nesc == 0 {
		_, isPtr := cols.Type().Underlying().(*types.Slice).Elem().(*types.Pointer)
		r.Check("R12.5", "tabular.ATable", "no address of a columns element escapes; elements are pointers", cols.Pos(), isPtr, fmt.Sprintf("%d element accesses examined", nuse))
	}
	r.Floor("R12.5", "accesses to elements of ATable.columns", nuse, 3)
	// the list of column pointers is only ever extended: a growth step stores append(<the table's current list>, ...)
	// so every column already handed out stays the table's column
	for _, fs := range c.StoresTo(cols) {
		if fs.Fresh {
			continue
		}
		keeps := false
		v := fs.St.Val
		for depth := 0; depth < 6 && !keeps; depth++ {
			base, _, ok := appendedElems(v)
			if !ok {
				break
			}
			if f, b := loadedField(base); f == cols && b == fs.Base {
				keeps = true
			}
			v = base
		}
		r.Check("R12.5", FuncName(fs.Fn), "growth extends the table's own list of column pointers (append to the current list), keeping every existing column", fs.St.Pos(), keeps,
			"the list is rebuilt: columns are re-created or copied, and handles obtained earlier no longer address the table's columns")
	}
	// premise: growth keeps every existing column where it was (the count/slice bookkeeping of C02's R02.3)
	importPremises(c, "R12.5", "column-bookkeeping premise ", "a growth step that loses or shifts a slot replaces a column by a fresh one: its properties vanish and earlier handles go stale", func(o *Ob) bool {
		return o.Rule == "R02.3" && (strings.Contains(o.Construct, "olumn") || strings.Contains(o.Func, "resize"))
	}, func() { runC02(c) })
}

// c12Strip checks the shape of the (recursive) strip function.
func c12Strip(c *Ctx, strip *ssa.Function, chain, key, val *types.Var) {
	r := c.R
	name := FuncName(strip)
	ps, keyP := strip.Params[0], strip.Params[1]
	// top := ps.(*valueProperty)
	var top ssa.Value
	eachInstr(strip, func(in ssa.Instruction) {
		if ta, ok := in.(*ssa.TypeAssert); ok && ta.X == ssa.Value(ps) && ta.CommaOk {
			for _, rr := range referrersOf(ta) {
				if ex, ok := rr.(*ssa.Extract); ok && ex.Index == 0 {
					top = ex
				}
			}
		}
	})
	c12StripRebuilds(c, strip)
	if top == nil {
		r.Note("shape-unrecognised R12.2: strip does not start with a comma-ok assertion of its chain argument; only R12.1, the rebuilding rule and the SetProperty wiring are evaluated")
		return
	}
	isTopField := func(v ssa.Value, f *types.Var) bool {
		fl, b := loadedField(v)
		return fl == f && b == top
	}
	var rec *ssa.Call
	eachInstr(strip, func(in ssa.Instruction) {
		if staticCallee(in) == strip {
			rec = in.(*ssa.Call)
		}
	})
	// whatever its shape: a chain returned with a freshly built head must keep the input's head link
	// (stripping a key from below the head never removes or replaces the head)
	for i, ret := range returnsOf(strip) {
		v1 := results(ret)[1]
		mi, isMI := v1.(*ssa.MakeInterface)
		if !isMI {
			continue
		}
		al, isAl := mi.X.(*ssa.Alloc)
		if !isAl {
			continue
		}
		got := map[*types.Var]ssa.Value{}
		for _, f := range []*types.Var{key, val} {
			for _, fs := range c.StoresTo(f) {
				if fs.Base == ssa.Value(al) {
					got[f] = fs.St.Val
				}
			}
		}
		r.Check("R12.2", name, fmt.Sprintf("return #%d: a rebuilt chain still starts with the input chain's own head (its key and value)", i+1), ret.Pos(),
			isTopField(got[key], key) && isTopField(got[val], val), "links above the removed key are dropped: other keys of the owner disappear")
	}
	if rec == nil {
		r.Note("shape-unrecognised R12.2: the strip function is not recursive; its result pairs are not evaluated further (R12.1 immutability, head preservation and the SetProperty wiring still are)")
		return
	}
	recOK := rec != nil && isTopField(rec.Call.Args[0], chain) && rec.Call.Args[1] == ssa.Value(keyP)
	r.Check("R12.2", name, "the search continues on the tail with the same key", strip.Pos(), recOK, "a key further down the chain would never be found (or a different key would be stripped)")
	var recVal, recRest ssa.Value
	if rec != nil {
		for _, rr := range referrersOf(rec) {
			if ex, ok := rr.(*ssa.Extract); ok {
				if ex.Index == 0 {
					recVal = ex
				} else {
					recRest = ex
				}
			}
		}
	}
	nret := 0
	for i, ret := range returnsOf(strip) {
		nret++
		rv := results(ret)
		v0, v1 := rv[0], rv[1]
		ok, why := false, "unrecognised result pair"
		switch {
		case isNil(v0) && v1 == ssa.Value(ps):
			ok, why = true, "not found: chain returned untouched"
		case isTopField(v0, val) && isTopField(v1, chain):
			// under top.key == key
			for _, cf := range dominatingConds(ret.Block()) {
				if bo, isB := cf.Cond.(*ssa.BinOp); isB && bo.Op == token.EQL && cf.Val {
					if (isTopField(bo.X, key) && bo.Y == ssa.Value(keyP)) || (isTopField(bo.Y, key) && bo.X == ssa.Value(keyP)) {
						ok, why = true, "found at the top: its value and its tail"
					}
				}
			}
			if !ok {
				why = "returns the top link's value and tail without a dominating key == comparison"
			}
		case v0 == recVal && recVal != nil:
			// rebuilt link above the removed one
			if mi, isMI := v1.(*ssa.MakeInterface); isMI {
				if al, isAl := mi.X.(*ssa.Alloc); isAl {
					got := map[*types.Var]ssa.Value{}
					for _, f := range []*types.Var{chain, key, val} {
						for _, fs := range c.StoresTo(f) {
							if fs.Base == ssa.Value(al) {
								got[f] = fs.St.Val
							}
						}
					}
					if got[chain] == recRest && isTopField(got[key], key) && isTopField(got[val], val) {
						ok, why = true, "found below: a fresh copy of this link on top of the stripped tail"
					} else {
						why = "the rebuilt link does not carry this link's key/value on the stripped tail"
					}
				}
			}
		}
		r.Check("R12.2", name, fmt.Sprintf("return #%d", i+1), ret.Pos(), ok, why)
	}
	r.Floor("R12.2", "returns of the strip function", nret, 4)
}

// c12StripRebuilds: removing a key from below the top of a chain must re-create EVERY link above it (links are
// immutable, so none can be re-pointed). However strip is written, a result chain whose head is a link allocated
// by strip itself can carry all of those links only if the allocation can happen an unbounded number of times:
// strip is recursive (one link per level on the way back up) or the allocation sits inside a loop. A single
// allocation on a straight path rebuilds one link and silently drops the others.
func c12StripRebuilds(c *Ctx, strip *ssa.Function) {
	r := c.R
	recursive := false
	eachInstr(strip, func(in ssa.Instruction) {
		if staticCallee(in) == strip {
			recursive = true
		}
	})
	n := 0
	for i, ret := range returnsOf(strip) {
		rv := results(ret)
		if len(rv) < 2 {
			continue
		}
		for _, v := range phiClosure(rv[1]) {
			mi, isMI := v.(*ssa.MakeInterface)
			if !isMI {
				continue
			}
			for _, x := range phiClosure(mi.X) {
				al, isAl := x.(*ssa.Alloc)
				if !isAl {
					continue
				}
				n++
				ok := recursive || loopDepth(al.Block()) > 0
				if ok && !recursive {
					// in a rebuilding loop every new link must hang on the chain built so far
					chainF := fieldNamed(al, "chain")
					for _, fs := range c.StoresTo(chainF) {
						if fs.Base != ssa.Value(al) {
							continue
						}
						h := innermostLoopHeader(al.Block())
						if h != nil && !carriedInto(fs.St.Val, h, map[ssa.Value]bool{}) {
							r.Check("R12.2", FuncName(strip), fmt.Sprintf("return #%d: each re-created link is hung on the chain rebuilt so far", i+1), fs.St.Pos(), false,
								"every new link is hung on the same tail: only the last one survives, the links in between are dropped")
						}
					}
				}
				r.Check("R12.2", FuncName(strip), fmt.Sprintf("return #%d: the links above the removed key can all be re-created (new links are made recursively or in a loop)", i+1), al.Pos(), ok,
					"only a bounded number of links is rebuilt: with more links above the removed key, the others (the owner's other properties) are dropped")
			}
		}
	}
	if n == 0 {
		r.Note("R12.2: strip never returns a chain headed by a link it allocated")
	}
}

func inModuleType(n *types.Named) bool {
	return n.Obj().Pkg() != nil && (n.Obj().Pkg().Path() == modPath || strings.HasPrefix(n.Obj().Pkg().Path(), modPath+"/"))
}

// fieldNamed: the field called name of the struct al allocates.
func fieldNamed(al *ssa.Alloc, name string) *types.Var {
	st, ok := al.Type().(*types.Pointer).Elem().Underlying().(*types.Struct)
	if !ok {
		return nil
	}
	for i := 0; i < st.NumFields(); i++ {
		if st.Field(i).Name() == name {
			return st.Field(i)
		}
	}
	return nil
}
