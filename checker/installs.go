package main

import (
	"go/types"

	"golang.org/x/tools/go/ssa"
)

// An installEvent: function Fn puts row Row into table Table (its row list or its header slot), either by a
// store of its own or by calling an unexported helper that does (the event is then lifted to the call site,
// with the helper's parameters replaced by the actual arguments).
type installEvent struct {
	Fn     *ssa.Function
	At     ssa.Instruction // the store, or the call to the helper
	Row    ssa.Value
	Table  ssa.Value
	What   string
	Lifted bool // obligations for this event were handed to the callers (Fn is a helper)
	Via    string
}

func (c *Ctx) installEvents(rows, hdr *types.Var) []installEvent {
	var evs []installEvent
	for _, fs := range c.StoresTo(rows) {
		if fs.Fresh {
			continue
		}
		if _, elems, ok := appendedElems(fs.St.Val); ok && len(elems) == 1 {
			evs = append(evs, installEvent{Fn: fs.Fn, At: fs.St, Row: capturedLoad(elems[0]), Table: capturedLoad(fs.Base), What: "installs a row in the row list"})
		}
	}
	for _, fs := range c.StoresTo(hdr) {
		if !fs.Fresh {
			evs = append(evs, installEvent{Fn: fs.Fn, At: fs.St, Row: capturedLoad(fs.St.Val), Table: capturedLoad(fs.Base), What: "installs the header row"})
		}
	}
	ix := c.Idx()
	// lift events of unexported helpers whose row and table are parameters to their call sites
	for round := 0; round < 3; round++ {
		var more []installEvent
		for i := range evs {
			e := &evs[i]
			if e.Lifted || ix.isEntry(e.Fn) {
				continue
			}
			rp, okR := e.Row.(*ssa.Parameter)
			tp, okT := e.Table.(*ssa.Parameter)
			if !okR || !okT {
				continue
			}
			ri, ti := paramIndex(e.Fn, rp), paramIndex(e.Fn, tp)
			sites := ix.callSitesOf(e.Fn)
			if ri < 0 || ti < 0 || len(sites) == 0 {
				continue
			}
			e.Lifted = true
			for _, s := range sites {
				args := s.Call.Common().Args
				if ri >= len(args) || ti >= len(args) {
					continue
				}
				more = append(more, installEvent{Fn: s.Fn, At: s.Call.(ssa.Instruction), Row: capturedLoad(args[ri]), Table: capturedLoad(args[ti]), What: e.What + " (through " + FuncName(e.Fn) + ")", Via: FuncName(e.Fn)})
			}
		}
		if len(more) == 0 {
			break
		}
		evs = append(evs, more...)
	}
	return evs
}

func paramIndex(fn *ssa.Function, p *ssa.Parameter) int {
	for i, q := range fn.Params {
		if q == p {
			return i
		}
	}
	return -1
}
