package main

import (
	"fmt"
	"go/token"
	"go/types"
	"sort"
	"strings"

	"golang.org/x/tools/go/callgraph"
	"golang.org/x/tools/go/ssa"
)

// ---- origins -------------------------------------------------------------------

type orgKind int

const (
	orgLocal  orgKind = iota // object allocated in this function (never an effect)
	orgParam                 // reachable from parameter #Idx (receiver is #0)
	orgFree                  // reachable from free variable #Idx of a closure
	orgGlobal                // reachable from package-level variable Glob
	orgHeap                  // some other heap object (call result, unknown)
)

type origin struct {
	Kind orgKind
	Idx  int
	Glob *ssa.Global
	Deep bool // reached through at least one pointer load (not the object itself)
}

func (o origin) String() string {
	d := ""
	if o.Deep {
		d = "*"
	}
	switch o.Kind {
	case orgLocal:
		return "local" + d
	case orgParam:
		return fmt.Sprintf("param#%d%s", o.Idx, d)
	case orgFree:
		return fmt.Sprintf("free#%d%s", o.Idx, d)
	case orgGlobal:
		return "global:" + relPkg(o.Glob.Pkg.Pkg.Path()) + "." + o.Glob.Name() + d
	}
	return "heap"
}

type orgSet map[origin]bool

func (s orgSet) add(o origin) { s[o] = true }
func (s orgSet) union(t orgSet) {
	for o := range t {
		s[o] = true
	}
}
func (s orgSet) deep() orgSet {
	out := orgSet{}
	for o := range s {
		if o.Kind == orgLocal && !o.Deep {
			// a pointer loaded out of a local variable: see originOf (handled there)
		}
		o.Deep = true
		out[o] = true
	}
	return out
}

// An effect is a write to memory that outlives the call, described by the
// access path from the object it is reached from.
type effect struct {
	Path    string // e.g. "Cell.propertyImpl.properties", "elem", "map", "elem of ATable.rows"
	What    string // store | mapupdate | append | copy | go | opaque:<callee> | delete
	Org     origin
	At      ssa.Instruction // the original instruction
	Fn      *ssa.Function   // function containing At
	Via     string          // call chain from the summarised function, for diagnostics
	Fields  []*types.Var    // field path (outermost first) when Path is a field path
	ValDesc string
}

func (e effect) key() string { return e.Path + "|" + e.What + "|" + e.Org.String() }

type summary struct {
	Effects      map[string]effect
	Escapes      map[int]bool          // parameter index whose pointer may be retained beyond the call
	Fresh        map[int]bool          // result index whose value is always an object allocated during the call
	RetParams    map[int][]int         // result index whose value is always fresh or (an object handed in as) one of these parameters
	RetGlobals   map[int][]*ssa.Global // result index that may be (reachable from) one of these package-level variables
	CallsUnknown bool                  // may run code outside the analysed set through an interface or function value
}

// Effects is the whole-program (module + runewidth/uniseg + synthetic wrappers) effect analysis.
type Effects struct {
	c        *Ctx
	sums     map[*ssa.Function]*summary
	funcs    []*ssa.Function
	cg       *callgraph.Graph
	orgCache map[*ssa.Function]map[ssa.Value]orgSet
}

func analysable(fn *ssa.Function) bool {
	if fn == nil || len(fn.Blocks) == 0 {
		return false
	}
	pp := funcPkgPath(fn)
	if pp == modPath || strings.HasPrefix(pp, modPath+"/") || strings.HasPrefix(pp, "github.com/mattn/go-runewidth") || strings.HasPrefix(pp, "github.com/rivo/uniseg") {
		return true
	}
	if fn.Synthetic != "" && fn.Signature.Recv() != nil {
		if n := namedOf(fn.Signature.Recv().Type()); n != nil && n.Obj().Pkg() != nil && strings.HasPrefix(n.Obj().Pkg().Path(), modPath) {
			return true
		}
	}
	return false
}

func (c *Ctx) Effects() *Effects {
	if c.eff != nil {
		return c.eff
	}
	e := &Effects{c: c, sums: map[*ssa.Function]*summary{}, cg: c.CG, orgCache: map[*ssa.Function]map[ssa.Value]orgSet{}}
	for fn := range c.allFuncSet {
		if analysable(fn) {
			e.funcs = append(e.funcs, fn)
			e.sums[fn] = &summary{Effects: map[string]effect{}, Escapes: map[int]bool{}, Fresh: map[int]bool{}, RetParams: map[int][]int{}, RetGlobals: map[int][]*ssa.Global{}}
		}
	}
	sortFuncs(e.funcs)
	for round := 0; ; round++ {
		changed := false
		for _, fn := range e.funcs {
			if e.summarise(fn) {
				changed = true
			}
		}
		if !changed || round > 50 {
			break
		}
	}
	c.eff = e
	return e
}

func (e *Effects) Summary(fn *ssa.Function) *summary { return e.sums[fn] }

func pointerLike(t types.Type) bool {
	switch t.Underlying().(type) {
	case *types.Pointer, *types.Slice, *types.Map, *types.Interface, *types.Chan, *types.Signature:
		return true
	case *types.Struct, *types.Array:
		return true // may contain pointers; conservative
	}
	return false
}

// originOf computes where the object addressed/denoted by v comes from.
func (e *Effects) originOf(fn *ssa.Function, v ssa.Value) orgSet {
	cache := e.orgCache[fn]
	if cache == nil {
		cache = map[ssa.Value]orgSet{}
		e.orgCache[fn] = cache
	}
	return e.originRec(fn, v, cache, map[ssa.Value]bool{})
}

func (e *Effects) originRec(fn *ssa.Function, v ssa.Value, cache map[ssa.Value]orgSet, onstack map[ssa.Value]bool) orgSet {
	if s, ok := cache[v]; ok {
		return s
	}
	if onstack[v] {
		return orgSet{}
	}
	onstack[v] = true
	defer delete(onstack, v)
	out := orgSet{}
	rec := func(x ssa.Value) orgSet { return e.originRec(fn, x, cache, onstack) }
	switch x := v.(type) {
	case *ssa.Parameter:
		for i, p := range fn.Params {
			if p == x {
				out.add(origin{Kind: orgParam, Idx: i})
			}
		}
	case *ssa.FreeVar:
		for i, p := range fn.FreeVars {
			if p == x {
				out.add(origin{Kind: orgFree, Idx: i})
			}
		}
	case *ssa.Global:
		out.add(origin{Kind: orgGlobal, Glob: x})
	case *ssa.Alloc:
		out.add(origin{Kind: orgLocal})
	case *ssa.MakeSlice, *ssa.MakeMap, *ssa.MakeChan:
		out.add(origin{Kind: orgLocal})
	case *ssa.Const, *ssa.Function, *ssa.Builtin:
		// nothing
	case *ssa.FieldAddr:
		out.union(rec(x.X))
	case *ssa.IndexAddr:
		out.union(rec(x.X))
	case *ssa.Field:
		out.union(rec(x.X))
	case *ssa.Index:
		out.union(rec(x.X))
	case *ssa.Slice:
		out.union(rec(x.X))
	case *ssa.Phi:
		for _, ed := range x.Edges {
			out.union(rec(ed))
		}
	case *ssa.ChangeType:
		out.union(rec(x.X))
	case *ssa.ChangeInterface:
		out.union(rec(x.X))
	case *ssa.MakeInterface:
		out.union(rec(x.X))
	case *ssa.Convert:
		out.union(rec(x.X))
	case *ssa.SliceToArrayPointer:
		out.union(rec(x.X))
	case *ssa.TypeAssert:
		out.union(rec(x.X))
	case *ssa.Extract:
		if call, ok := x.Tuple.(*ssa.Call); ok {
			if f := call.Call.StaticCallee(); f != nil {
				if cs := e.sums[f]; cs != nil && cs.Fresh[x.Index] {
					out.add(origin{Kind: orgLocal})
					break
				}
				if cs := e.sums[f]; cs != nil && len(cs.RetParams[x.Index]) > 0 && len(call.Call.Args) == len(f.Params) {
					out.add(origin{Kind: orgLocal})
					for _, k := range cs.RetParams[x.Index] {
						out.union(rec(call.Call.Args[k]))
					}
					break
				}
			}
		}
		out.union(rec(x.Tuple))
	case *ssa.Lookup:
		out.union(rec(x.X).deep())
	case *ssa.Next:
		out.union(rec(x.Iter).deep())
	case *ssa.Range:
		out.union(rec(x.X))
	case *ssa.MakeClosure:
		for _, b := range x.Bindings {
			out.union(rec(b))
		}
	case *ssa.BinOp:
		// string concatenation etc: values, not objects
	case *ssa.UnOp:
		if x.Op == token.MUL {
			// a load: the loaded pointer denotes an object reached through x.X
			if !pointerLike(x.Type()) {
				break
			}
			src := rec(x.X)
			for o := range src {
				if o.Kind == orgLocal && !o.Deep {
					// loading out of a local variable/array: what was stored there
					root, _ := addrPath(x.X)
					if al, ok := root.(*ssa.Alloc); ok {
						out.union(e.storedInto(fn, al, cache, onstack))
						continue
					}
					// loading out of an object a callee has just made: besides what the callee allocated, the object may
					// hold whatever arguments the callee keeps (a wrapper made by Wrap(t) holds t)
					if call, ok := root.(*ssa.Call); ok {
						if f := call.Call.StaticCallee(); f != nil {
							if cs := e.sums[f]; cs != nil && len(call.Call.Args) == len(f.Params) {
								for k := range f.Params {
									if cs.Escapes[k] && pointerLike(call.Call.Args[k].Type()) {
										out.union(rec(call.Call.Args[k]).deep())
									}
								}
							}
						}
					}
					o.Deep = true
					out.add(o)
					continue
				}
				o.Deep = true
				out.add(o)
			}
		} else if x.Op == token.ARROW {
			out.add(origin{Kind: orgHeap})
		}
	case *ssa.Call:
		if b, ok := x.Call.Value.(*ssa.Builtin); ok {
			switch b.Name() {
			case "append":
				// result aliases the first argument's backing array, or is fresh
				out.union(rec(x.Call.Args[0]))
				out.add(origin{Kind: orgLocal})
			}
			break
		}
		if f := x.Call.StaticCallee(); f != nil {
			if cs := e.sums[f]; cs != nil {
				for _, gs := range cs.RetGlobals {
					for _, g := range gs {
						out.add(origin{Kind: orgGlobal, Glob: g, Deep: true})
					}
				}
			}
		}
		if f := x.Call.StaticCallee(); f != nil && !isTuple(x.Type()) {
			if cs := e.sums[f]; cs != nil && cs.Fresh[0] {
				out.add(origin{Kind: orgLocal})
				break
			}
			if cs := e.sums[f]; cs != nil && len(cs.RetParams[0]) > 0 && len(x.Call.Args) == len(f.Params) {
				out.add(origin{Kind: orgLocal})
				for _, k := range cs.RetParams[0] {
					out.union(rec(x.Call.Args[k]))
				}
				break
			}
		}
		if pointerLike(x.Type()) || isTuple(x.Type()) {
			out.add(origin{Kind: orgHeap})
		}
	default:
		if pointerLike(v.Type()) {
			out.add(origin{Kind: orgHeap})
		}
	}
	cache[v] = out
	return out
}

func isTuple(t types.Type) bool { _, ok := t.(*types.Tuple); return ok }

// storedInto: the origins of every pointer-like value stored anywhere into a local Alloc.
func (e *Effects) storedInto(fn *ssa.Function, al *ssa.Alloc, cache map[ssa.Value]orgSet, onstack map[ssa.Value]bool) orgSet {
	out := orgSet{}
	seen := map[ssa.Value]bool{}
	var walk func(a ssa.Value)
	walk = func(a ssa.Value) {
		if seen[a] {
			return
		}
		seen[a] = true
		for _, r := range referrersOf(a) {
			switch x := r.(type) {
			case *ssa.Store:
				if x.Addr == a && pointerLike(x.Val.Type()) {
					out.union(e.originRec(fn, x.Val, cache, onstack))
				}
			case *ssa.FieldAddr:
				if x.X == a {
					walk(x)
				}
			case *ssa.IndexAddr:
				if x.X == a {
					walk(x)
				}
			case *ssa.Slice:
				if x.X == a {
					walk(x)
				}
			}
		}
	}
	walk(al)
	if len(out) == 0 {
		out.add(origin{Kind: orgLocal, Deep: true})
	}
	return out
}

// fieldPathOf gives the chain of field steps (outermost first) of an address back to the nearest load/root,
// and whether an index step occurs after the last field.
func fieldPathOf(addr ssa.Value) (fields []*types.Var, elem bool, base ssa.Value) {
	v := addr
	for {
		switch x := v.(type) {
		case *ssa.FieldAddr:
			fields = append([]*types.Var{fieldOfFieldAddr(x)}, fields...)
			v = x.X
		case *ssa.IndexAddr:
			if len(fields) == 0 {
				elem = true
			}
			// index into an array field continues the path; into a slice value ends it
			if _, isPtrToArray := x.X.Type().Underlying().(*types.Pointer); isPtrToArray {
				v = x.X
				continue
			}
			return fields, elem, x.X
		case *ssa.ChangeType:
			v = x.X
		default:
			return fields, elem, v
		}
	}
}

func (e *Effects) pathString(fields []*types.Var) string {
	if len(fields) == 0 {
		return ""
	}
	var parts []string
	for i, f := range fields {
		if i == 0 {
			parts = append(parts, e.c.ownerOf(f))
		} else {
			parts = append(parts, f.Name())
		}
	}
	return strings.Join(parts, ".")
}

// sliceSource names the field a slice/map value was loaded from, if it was.
func (e *Effects) sliceSource(v ssa.Value) string {
	for _, x := range phiClosure(v) {
		if sl, ok := x.(*ssa.Slice); ok {
			x = sl.X
		}
		if f, _ := loadedField(x); f != nil {
			return e.c.ownerOf(f)
		}
		if g := loadedGlobal(x); g != nil {
			return "var " + g.Name()
		}
	}
	return ""
}

func (e *Effects) addEffect(s *summary, ef effect) bool {
	if ef.Org.Kind == orgLocal {
		return false
	}
	k := ef.key()
	if _, ok := s.Effects[k]; ok {
		return false
	}
	s.Effects[k] = ef
	return true
}

// summarise recomputes fn's summary from its body and its callees' summaries; reports change.
func (e *Effects) summarise(fn *ssa.Function) bool {
	s := e.sums[fn]
	changed := false
	emit := func(path, what string, orgs orgSet, at ssa.Instruction, atFn *ssa.Function, via string, fields []*types.Var) {
		for o := range orgs {
			if e.addEffect(s, effect{Path: path, What: what, Org: o, At: at, Fn: atFn, Via: via, Fields: fields}) {
				changed = true
			}
		}
	}
	escape := func(v ssa.Value) {
		for o := range e.originOf(fn, v) {
			if o.Kind == orgParam && !s.Escapes[o.Idx] {
				s.Escapes[o.Idx] = true
				changed = true
			}
		}
	}
	eachInstr(fn, func(in ssa.Instruction) {
		switch x := in.(type) {
		case *ssa.Store:
			fields, elem, base := fieldPathOf(x.Addr)
			orgs := e.originOf(fn, x.Addr)
			path := e.pathString(fields)
			if path == "" {
				if elem {
					path = "elem"
					if src := e.sliceSource(base); src != "" {
						path = "elem of " + src
					}
				} else if g, ok := x.Addr.(*ssa.Global); ok {
					path = "var " + g.Name()
				} else {
					path = "*(" + shortType(x.Addr.Type()) + ")"
				}
			} else if elem {
				path += "[]"
			}
			// a shallow store into a field reached directly from the root keeps the root's depth;
			// if the base of the field chain is itself a loaded pointer the origin is already deep.
			emit(path, "store", orgs, in, fn, "", fields)
			if pointerLike(x.Val.Type()) {
				// storing a pointer somewhere non-local lets it escape
				nonLocal := false
				for o := range orgs {
					if o.Kind != orgLocal {
						nonLocal = true
					}
				}
				if nonLocal {
					escape(x.Val)
				}
			}
		case *ssa.MapUpdate:
			orgs := e.originOf(fn, x.Map).deep()
			path := "map"
			if src := e.sliceSource(x.Map); src != "" {
				path = "map " + src
			}
			emit(path, "mapupdate", orgs, in, fn, "", nil)
		case *ssa.Go:
			emit("goroutine", "go", orgSet{origin{Kind: orgHeap}: true}, in, fn, "", nil)
		case *ssa.Return:
			for _, rv := range results(x) {
				if pointerLike(rv.Type()) {
					escape(rv)
				}
			}
		case *ssa.MakeInterface:
			// conservatively: putting a pointer into an interface is not by itself an escape
		}
		ci, ok := in.(ssa.CallInstruction)
		if !ok {
			return
		}
		cc := ci.Common()
		if b, ok := cc.Value.(*ssa.Builtin); ok {
			switch b.Name() {
			case "copy":
				orgs := e.originOf(fn, cc.Args[0]).deep()
				path := "elem"
				if src := e.sliceSource(cc.Args[0]); src != "" {
					path = "elem of " + src
				}
				emit(path, "copy", orgs, in, fn, "", nil)
			case "append":
				orgs := e.originOf(fn, cc.Args[0]).deep()
				path := "elem"
				if src := e.sliceSource(cc.Args[0]); src != "" {
					path = "elem of " + src
				}
				emit(path, "append", orgs, in, fn, "", nil)
			case "delete":
				orgs := e.originOf(fn, cc.Args[0]).deep()
				emit("map", "delete", orgs, in, fn, "", nil)
			case "clear":
				orgs := e.originOf(fn, cc.Args[0]).deep()
				emit("elem", "clear", orgs, in, fn, "", nil)
			}
			return
		}
		if !s.CallsUnknown && e.siteCallsUnknown(fn, ci) {
			s.CallsUnknown = true
			changed = true
		}
		// actuals, receiver first
		var actuals []ssa.Value
		if cc.IsInvoke() {
			actuals = append(actuals, cc.Value)
		}
		actuals = append(actuals, cc.Args...)
		callees := e.calleesAt(fn, ci)
		if mc, ok := cc.Value.(*ssa.MakeClosure); ok {
			_ = mc // static callee handles it
		}
		known := false
		for _, callee := range callees {
			cs := e.sums[callee]
			if cs == nil {
				continue
			}
			known = true
			if cs.CallsUnknown && !s.CallsUnknown {
				s.CallsUnknown = true
				changed = true
			}
			bindings := []ssa.Value(nil)
			if mc, ok := cc.Value.(*ssa.MakeClosure); ok {
				bindings = mc.Bindings
			}
			if e.instantiate(fn, s, callee, cs, actuals, bindings, in) {
				changed = true
			}
			for k := range cs.Escapes {
				if k < len(actuals) {
					escape(actuals[k])
				}
			}
		}
		if !known || len(callees) == 0 || e.hasOpaqueCallee(fn, ci) {
			// opaque callee: record which non-local objects are handed to it
			name := calleeDesc(cc)
			for i, a := range actuals {
				if !pointerLike(a.Type()) {
					continue
				}
				orgs := e.originOf(fn, a)
				for o := range orgs {
					if o.Kind == orgLocal {
						continue
					}
					if e.addEffect(s, effect{Path: fmt.Sprintf("arg#%d", i), What: "opaque:" + name, Org: o, At: in, Fn: fn}) {
						changed = true
					}
				}
			}
		}
	})
	// result freshness: every value returned at index i is an object allocated during the call
	if rets := returnsOf(fn); len(rets) > 0 {
		for i := 0; i < fn.Signature.Results().Len(); i++ {
			if !pointerLike(fn.Signature.Results().At(i).Type()) {
				continue
			}
			fresh := true
			for _, r := range rets {
				orgs := e.originOf(fn, results(r)[i])
				if len(orgs) == 0 && !isNil(results(r)[i]) {
					fresh = false
				}
				for o := range orgs {
					if o.Kind != orgLocal || o.Deep {
						fresh = false
					}
				}
			}
			// fresh, or one of the objects handed in (append-style helpers that return the slice they extend)
			viaParams := map[int]bool{}
			okVia := true
			for _, r := range rets {
				orgs := e.originOf(fn, results(r)[i])
				if len(orgs) == 0 && !isNil(results(r)[i]) {
					okVia = false
				}
				for o := range orgs {
					switch {
					case o.Kind == orgLocal && !o.Deep:
					case o.Kind == orgParam && !o.Deep:
						viaParams[o.Idx] = true
					default:
						okVia = false
					}
				}
			}
			// package-level state that can come back as this result
			globs := map[*ssa.Global]bool{}
			for _, r := range rets {
				for o := range e.originOf(fn, results(r)[i]) {
					if o.Kind == orgGlobal && o.Glob != nil {
						globs[o.Glob] = true
					}
				}
			}
			var gl []*ssa.Global
			for g := range globs {
				gl = append(gl, g)
			}
			sort.Slice(gl, func(a, b int) bool { return gl[a].Name() < gl[b].Name() })
			if fmt.Sprint(gl) != fmt.Sprint(s.RetGlobals[i]) {
				s.RetGlobals[i] = gl
				changed = true
				e.orgCache = map[*ssa.Function]map[ssa.Value]orgSet{}
			}
			var via []int
			if okVia && len(viaParams) > 0 {
				for k := range viaParams {
					via = append(via, k)
				}
				sort.Ints(via)
			}
			if fmt.Sprint(via) != fmt.Sprint(s.RetParams[i]) {
				s.RetParams[i] = via
				changed = true
				e.orgCache = map[*ssa.Function]map[ssa.Value]orgSet{}
			}
			if fresh != s.Fresh[i] {
				// freshness can only be gained as callee summaries improve; origins are cached, so
				// drop the cache when it changes
				s.Fresh[i] = fresh
				changed = true
				e.orgCache = map[*ssa.Function]map[ssa.Value]orgSet{}
			}
		}
	}
	// closures created here may be called later by anyone: include their effects
	eachInstr(fn, func(in ssa.Instruction) {
		mc, ok := in.(*ssa.MakeClosure)
		if !ok {
			return
		}
		cf := mc.Fn.(*ssa.Function)
		cs := e.sums[cf]
		if cs == nil {
			return
		}
		if e.instantiate(fn, s, cf, cs, nil, mc.Bindings, in) {
			changed = true
		}
	})
	return changed
}

// calleesAt resolves a call site through the (VTA) call graph.
func (e *Effects) calleesAt(fn *ssa.Function, ci ssa.CallInstruction) []*ssa.Function {
	if f := ci.Common().StaticCallee(); f != nil {
		return []*ssa.Function{f}
	}
	n := e.cg.Nodes[fn]
	if n == nil {
		return nil
	}
	var out []*ssa.Function
	for _, ed := range n.Out {
		if ed.Site == ci {
			out = append(out, ed.Callee.Func)
		}
	}
	// refinement: an interface value whose dynamic type was established by a dominating
	// successful comma-ok type assertion can only dispatch to that type's method.
	if cc := ci.Common(); cc.IsInvoke() {
		if t := assertedConcreteType(cc.Value, ci.(ssa.Instruction)); t != nil {
			var keep []*ssa.Function
			for _, f := range out {
				if r := f.Signature.Recv(); r != nil && types.Identical(r.Type(), t) {
					keep = append(keep, f)
				}
			}
			if len(keep) > 0 {
				out = keep
			}
		}
	}
	sortFuncs(out)
	return out
}

// assertedConcreteType: if every path to `at` passed the ok-edge of `_, ok := v.(T)` for a concrete T, return T.
func assertedConcreteType(v ssa.Value, at ssa.Instruction) types.Type {
	for _, r := range referrersOf(v) {
		ta, ok := r.(*ssa.TypeAssert)
		if !ok || !ta.CommaOk || ta.X != v {
			continue
		}
		if _, isIface := ta.AssertedType.Underlying().(*types.Interface); isIface {
			continue
		}
		for _, rr := range referrersOf(ta) {
			ex, ok := rr.(*ssa.Extract)
			if !ok || ex.Index != 1 {
				continue
			}
			for _, cf := range dominatingConds(at.Block()) {
				if cf.Cond == ex && cf.Val {
					return ta.AssertedType
				}
			}
		}
	}
	return nil
}

func (e *Effects) hasOpaqueCallee(fn *ssa.Function, ci ssa.CallInstruction) bool {
	for _, f := range e.calleesAt(fn, ci) {
		if e.sums[f] == nil {
			return true
		}
	}
	return false
}

// instantiate maps callee effects into the caller at one call site.
func (e *Effects) instantiate(fn *ssa.Function, s *summary, callee *ssa.Function, cs *summary, actuals, bindings []ssa.Value, at ssa.Instruction) bool {
	changed := false
	keys := make([]string, 0, len(cs.Effects))
	for k := range cs.Effects {
		keys = append(keys, k)
	}
	sort.Strings(keys)
	for _, k := range keys {
		ef := cs.Effects[k]
		var act ssa.Value
		switch ef.Org.Kind {
		case orgParam:
			if ef.Org.Idx >= len(actuals) {
				// closure created but not called here: parameters are unknown heap
				ne := ef
				ne.Org = origin{Kind: orgHeap}
				ne.Via = FuncName(callee) + " <- " + ef.Via
				if e.addEffect(s, ne) {
					changed = true
				}
				continue
			}
			act = actuals[ef.Org.Idx]
		case orgFree:
			if ef.Org.Idx >= len(bindings) {
				ne := ef
				ne.Org = origin{Kind: orgHeap}
				if e.addEffect(s, ne) {
					changed = true
				}
				continue
			}
			act = bindings[ef.Org.Idx]
		default:
			ne := ef
			ne.Via = FuncName(callee) + " <- " + ef.Via
			if e.addEffect(s, ne) {
				changed = true
			}
			continue
		}
		orgs := e.originOf(fn, act)
		if ef.Org.Deep {
			// what is reached THROUGH an object a callee has just made includes the arguments that callee keeps in it
			// (the wrapper made by Wrap(t) holds t: an effect deep below the wrapper may be an effect on t)
			extra := e.heldByFresh(fn, act)
			if len(extra) > 0 {
				merged := orgSet{}
				merged.union(orgs)
				merged.union(extra)
				orgs = merged
			}
		}
		// extend the field path when the actual is a field address of its root
		pre, _, _ := fieldPathOf(act)
		for o := range orgs {
			ne := ef
			ne.Via = FuncName(callee) + " <- " + ef.Via
			if ef.Org.Deep {
				o.Deep = true
			} else if len(pre) > 0 && len(ef.Fields) > 0 {
				ne.Fields = append(append([]*types.Var{}, pre...), ef.Fields...)
				ne.Path = e.pathString(ne.Fields)
				if strings.HasSuffix(ef.Path, "[]") {
					ne.Path += "[]"
				}
			}
			if ef.Org.Kind == orgFree {
				// captured variables are captured by reference: the binding is the variable's address
				// and the closure's effect is on what it holds
				if _, isAlloc := act.(*ssa.Alloc); isAlloc && !ef.Org.Deep {
					// a store to the captured variable itself: local to the creator
					continue
				}
			}
			ne.Org = o
			if e.addEffect(s, ne) {
				changed = true
			}
		}
	}
	return changed
}

// EffectsOf returns the sorted effects of fn's summary.
func (e *Effects) EffectsOf(fn *ssa.Function) []effect {
	s := e.sums[fn]
	if s == nil {
		return nil
	}
	keys := make([]string, 0, len(s.Effects))
	for k := range s.Effects {
		keys = append(keys, k)
	}
	sort.Strings(keys)
	out := make([]effect, 0, len(keys))
	for _, k := range keys {
		out = append(out, s.Effects[k])
	}
	return out
}

// trustedIface: interfaces of the module all of whose implementations are module types
// (wrappers embedding a Table, the four property owners, the error containers, the alignment values).
func trustedIface(t types.Type) bool {
	n, ok := t.(*types.Named)
	if !ok || n.Obj().Pkg() == nil || !strings.HasPrefix(n.Obj().Pkg().Path(), modPath) {
		return false
	}
	switch n.Obj().Name() {
	case "Table", "RenderTable", "PropertyOwner", "ErrorReceiver", "ErrorSource", "propertySet", "Alignment":
		return true
	}
	return false
}

// siteCallsUnknown: the call may run user-supplied code (a callback, a method of a stored item, a function value).
func (e *Effects) siteCallsUnknown(fn *ssa.Function, ci ssa.CallInstruction) bool {
	cc := ci.Common()
	if _, ok := cc.Value.(*ssa.Builtin); ok {
		return false
	}
	if cc.StaticCallee() != nil {
		return false
	}
	if cc.IsInvoke() {
		if trustedIface(cc.Value.Type()) {
			return false
		}
		if assertedConcreteType(cc.Value, ci.(ssa.Instruction)) != nil {
			return false
		}
		return true
	}
	return true // call of a function value
}

// heldByFresh: v is (a phi of) the result of calls whose callee keeps some of its arguments in the object it
// returns: the deep origins of those arguments.
func (e *Effects) heldByFresh(fn *ssa.Function, v ssa.Value) orgSet {
	out := orgSet{}
	for _, x := range phiClosure(v) {
		call, ok := x.(*ssa.Call)
		if !ok {
			continue
		}
		f := call.Call.StaticCallee()
		if f == nil {
			continue
		}
		cs := e.sums[f]
		if cs == nil || len(call.Call.Args) != len(f.Params) {
			continue
		}
		for k := range f.Params {
			if cs.Escapes[k] && pointerLike(call.Call.Args[k].Type()) {
				out.union(e.originOf(fn, call.Call.Args[k]).deep())
			}
		}
	}
	return out
}
