package main

import (
	"fmt"
	"sort"
	"strings"
)

// A lin is an integer linear expression  sum(coef[t] * t) + k  over canonical terms.
type lin struct {
	coef map[string]int64
	k    int64
}

func linConst(k int64) lin { return lin{coef: map[string]int64{}, k: k} }
func linTerm(t string) lin { return lin{coef: map[string]int64{t: 1}} }

func (a lin) clone() lin {
	c := lin{coef: make(map[string]int64, len(a.coef)), k: a.k}
	for t, v := range a.coef {
		c.coef[t] = v
	}
	return c
}

func (a lin) add(b lin) lin {
	c := a.clone()
	for t, v := range b.coef {
		c.coef[t] += v
		if c.coef[t] == 0 {
			delete(c.coef, t)
		}
	}
	c.k += b.k
	return c
}

func (a lin) scale(m int64) lin {
	c := lin{coef: map[string]int64{}, k: a.k * m}
	if m == 0 {
		return c
	}
	for t, v := range a.coef {
		c.coef[t] = v * m
	}
	return c
}

func (a lin) sub(b lin) lin { return a.add(b.scale(-1)) }

func (a lin) isConst() bool { return len(a.coef) == 0 }

func (a lin) terms() []string {
	var out []string
	for t := range a.coef {
		out = append(out, t)
	}
	sort.Strings(out)
	return out
}

func (a lin) String() string {
	var parts []string
	for _, t := range a.terms() {
		v := a.coef[t]
		switch v {
		case 1:
			parts = append(parts, "+"+t)
		case -1:
			parts = append(parts, "-"+t)
		default:
			parts = append(parts, fmt.Sprintf("%+d*%s", v, t))
		}
	}
	if a.k != 0 || len(parts) == 0 {
		parts = append(parts, fmt.Sprintf("%+d", a.k))
	}
	return strings.TrimPrefix(strings.Join(parts, " "), "+")
}

// A constraint is  e <= 0.
type constraint struct {
	e   lin
	why string
}

func leq(a, b lin, why string) constraint { return constraint{a.sub(b), why} }                  // a <= b
func lt(a, b lin, why string) constraint  { return constraint{a.sub(b).add(linConst(1)), why} } // a < b  (integers)

// infeasible decides by Fourier-Motzkin elimination whether the conjunction of the
// constraints has no rational solution (hence no integer one).  ok=false means the
// elimination was abandoned (too large / overflow): treat as "not proved".
func infeasible(cs []constraint) (unsat bool, ok bool) {
	type row struct {
		coef map[string]int64
		k    int64
	}
	rows := make([]row, 0, len(cs))
	norm := func(r row) (row, bool) {
		var g int64
		for _, v := range r.coef {
			g = gcd(g, abs64(v))
		}
		if g > 1 {
			for t := range r.coef {
				r.coef[t] /= g
			}
			// floor division of the constant keeps integer soundness: sum <= -k  =>  sum/g <= floor(-k/g)
			r.k = ceilDiv(r.k, g)
		}
		for _, v := range r.coef {
			if abs64(v) > 1<<40 {
				return r, false
			}
		}
		if abs64(r.k) > 1<<50 {
			return r, false
		}
		return r, true
	}
	for _, c := range cs {
		r := row{coef: map[string]int64{}, k: c.e.k}
		for t, v := range c.e.coef {
			if v != 0 {
				r.coef[t] = v
			}
		}
		r, good := norm(r)
		if !good {
			return false, false
		}
		rows = append(rows, r)
	}
	for iter := 0; iter < 200; iter++ {
		// constant rows
		vars := map[string][2]int{}
		for _, r := range rows {
			if len(r.coef) == 0 && r.k > 0 {
				return true, true
			}
			for t, v := range r.coef {
				pn := vars[t]
				if v > 0 {
					pn[0]++
				} else {
					pn[1]++
				}
				vars[t] = pn
			}
		}
		if len(vars) == 0 {
			return false, true
		}
		// pick the variable with the fewest products
		best, bestCost := "", int(^uint(0)>>1)
		names := make([]string, 0, len(vars))
		for t := range vars {
			names = append(names, t)
		}
		sort.Strings(names)
		for _, t := range names {
			pn := vars[t]
			cost := pn[0]*pn[1] - pn[0] - pn[1]
			if cost < bestCost {
				best, bestCost = t, cost
			}
		}
		var pos, neg, rest []row
		for _, r := range rows {
			switch v := r.coef[best]; {
			case v > 0:
				pos = append(pos, r)
			case v < 0:
				neg = append(neg, r)
			default:
				rest = append(rest, r)
			}
		}
		if len(pos)*len(neg)+len(rest) > 4000 {
			return false, false
		}
		for _, p := range pos {
			for _, n := range neg {
				a, b := p.coef[best], -n.coef[best]
				l := a / gcd(a, b) * b
				mp, mn := l/a, l/b
				nr := row{coef: map[string]int64{}, k: p.k*mp + n.k*mn}
				for t, v := range p.coef {
					nr.coef[t] += v * mp
				}
				for t, v := range n.coef {
					nr.coef[t] += v * mn
				}
				for t, v := range nr.coef {
					if v == 0 {
						delete(nr.coef, t)
					}
				}
				nr, good := norm(nr)
				if !good {
					return false, false
				}
				rest = append(rest, nr)
			}
		}
		// dedupe
		seen := map[string]bool{}
		rows = rows[:0]
		for _, r := range rest {
			key := lin{coef: r.coef, k: r.k}.String()
			if !seen[key] {
				seen[key] = true
				rows = append(rows, r)
			}
		}
	}
	return false, false
}

func gcd(a, b int64) int64 {
	for b != 0 {
		a, b = b, a%b
	}
	if a < 0 {
		return -a
	}
	return a
}

func abs64(a int64) int64 {
	if a < 0 {
		return -a
	}
	return a
}

// ceilDiv(a, g) for g > 0.
func ceilDiv(a, g int64) int64 {
	q := a / g
	if a%g != 0 && a > 0 {
		q++
	}
	return q
}

// entails: do the facts imply goal (goal.e <= 0)?  Proved when facts ∧ (goal.e >= 1) is infeasible.
func entails(facts []constraint, goal constraint) bool {
	neg := constraint{e: goal.e.scale(-1).add(linConst(1)), why: "negated goal"}
	cs := append(append([]constraint{}, facts...), neg)
	unsat, ok := infeasible(cs)
	return ok && unsat
}
