package main

import (
	"go/token"
	"go/types"

	"golang.org/x/tools/go/ssa"
)

// A package-level table that drives a dispatch: rows of {name constant, function}.
//
//	var plainStyles = []struct{ name string; wrap func(tabular.Table) RenderTable }{ {"csv", func..}, ... }
//	for i := range plainStyles { if plainStyles[i].name == kind { return plainStyles[i].wrap(t) } }
type dispatchTable struct {
	G         *ssa.Global
	NameField int
	FnField   int
	Names     []string
	Fns       []*ssa.Function
}

// tableColumnOf: the value stored in field #f of every row of the array literal rooted at `root` (an Alloc of array
// type, or a package-level array), in row order; nil if any row is not a plain literal row.
func tableColumnOf(root ssa.Value, n int64, f int) []ssa.Value {
	rows := make([]ssa.Value, n)
	fieldStoredIn := func(base ssa.Value) ssa.Value {
		var out ssa.Value
		cnt := 0
		for _, r2 := range referrersOf(base) {
			fa, isFA := r2.(*ssa.FieldAddr)
			if !isFA || fa.Field != f {
				continue
			}
			for _, r3 := range referrersOf(fa) {
				if st, isSt := r3.(*ssa.Store); isSt && st.Addr == ssa.Value(fa) {
					out = st.Val
					cnt++
				}
			}
		}
		if cnt != 1 {
			return nil
		}
		return out
	}
	var refs []ssa.Instruction
	if g, isG := root.(*ssa.Global); isG {
		// referrers of a global are not tracked: scan its package initializer
		if g.Pkg != nil {
			if init := g.Pkg.Func("init"); init != nil {
				eachInstr(init, func(in ssa.Instruction) {
					if ia, ok := in.(*ssa.IndexAddr); ok && ia.X == root {
						refs = append(refs, ia)
					}
				})
			}
		}
	} else {
		refs = referrersOf(root)
	}
	for _, rr := range refs {
		ia, isIA := rr.(*ssa.IndexAddr)
		if !isIA {
			continue
		}
		k, isK := constInt(ia.Index)
		if !isK || k < 0 || k >= n || rows[k] != nil {
			return nil
		}
		if fv := fieldStoredIn(ia); fv != nil {
			rows[k] = fv
			continue
		}
		for _, r2 := range referrersOf(ia) {
			st, isSt := r2.(*ssa.Store)
			if !isSt || st.Addr != ssa.Value(ia) {
				continue
			}
			if u, isU := st.Val.(*ssa.UnOp); isU && u.Op == token.MUL {
				if lit, isAl := u.X.(*ssa.Alloc); isAl {
					rows[k] = fieldStoredIn(lit)
				}
			}
		}
	}
	for _, rv := range rows {
		if rv == nil {
			return nil
		}
	}
	return rows
}

// dispatchTablesOf: the immutable package-level {name, function} tables of a package.
func (c *Ctx) dispatchTablesOf(rel string) []dispatchTable {
	sp := c.SSA[pkgPath(rel)]
	if sp == nil {
		return nil
	}
	init := sp.Func("init")
	var out []dispatchTable
	for _, name := range sortedMemberNames(sp) {
		g, ok := sp.Members[name].(*ssa.Global)
		if !ok || !c.immutableGlobalHeader(g) {
			continue
		}
		var elem types.Type
		var root ssa.Value
		var n int64
		switch t := g.Type().(*types.Pointer).Elem().Underlying().(type) {
		case *types.Slice:
			elem = t.Elem()
			// the one store of the initializer: g = slice of a fresh array literal
			if init == nil {
				continue
			}
			eachInstr(init, func(in ssa.Instruction) {
				st, isSt := in.(*ssa.Store)
				if !isSt || st.Addr != ssa.Value(g) {
					return
				}
				if sl, isSl := st.Val.(*ssa.Slice); isSl && sl.Low == nil && sl.High == nil {
					if al, isAl := sl.X.(*ssa.Alloc); isAl {
						if at, isArr := al.Type().(*types.Pointer).Elem().Underlying().(*types.Array); isArr {
							root, n = al, at.Len()
						}
					}
				}
			})
		case *types.Array:
			elem, root, n = t.Elem(), g, t.Len()
		}
		if root == nil || elem == nil {
			continue
		}
		st, isSt := elem.Underlying().(*types.Struct)
		if !isSt {
			continue
		}
		nf, ff := -1, -1
		for i := 0; i < st.NumFields(); i++ {
			switch ft := st.Field(i).Type().Underlying().(type) {
			case *types.Basic:
				if ft.Info()&types.IsString != 0 && nf < 0 {
					nf = i
				}
			case *types.Signature:
				if ff < 0 {
					ff = i
				}
			}
		}
		if nf < 0 || ff < 0 {
			continue
		}
		names := tableColumnOf(root, n, nf)
		fns := tableColumnOf(root, n, ff)
		if names == nil || fns == nil {
			continue
		}
		dt := dispatchTable{G: g, NameField: nf, FnField: ff}
		good := true
		for k := range names {
			s, isS := constString(names[k])
			var f *ssa.Function
			switch v := unwrap(fns[k], true).(type) {
			case *ssa.MakeClosure:
				f, _ = v.Fn.(*ssa.Function)
			case *ssa.Function:
				f = v
			}
			if !isS || f == nil {
				good = false
				break
			}
			dt.Names = append(dt.Names, s)
			dt.Fns = append(dt.Fns, f)
		}
		if good {
			out = append(out, dt)
		}
	}
	return out
}

// tableElemFieldLoad: v is <table>[idx].<field #f> read from the immutable table g; returns idx.
func tableElemFieldLoad(v ssa.Value, g *ssa.Global, f int) (ssa.Value, bool) {
	switch x := v.(type) {
	case *ssa.UnOp:
		if x.Op != token.MUL {
			return nil, false
		}
		fa, ok := x.X.(*ssa.FieldAddr)
		if !ok || fa.Field != f {
			return nil, false
		}
		ia, ok := fa.X.(*ssa.IndexAddr)
		if !ok {
			return nil, false
		}
		if ia.X == ssa.Value(g) {
			return ia.Index, true
		}
		if ld, isLd := ia.X.(*ssa.UnOp); isLd && ld.Op == token.MUL && ld.X == ssa.Value(g) {
			return ia.Index, true
		}
	case *ssa.Field:
		// a copy of the element: e := table[i]; e.name
		if x.Field != f {
			return nil, false
		}
		if ld, isLd := x.X.(*ssa.UnOp); isLd && ld.Op == token.MUL {
			if ia, isIA := ld.X.(*ssa.IndexAddr); isIA {
				if ia.X == ssa.Value(g) {
					return ia.Index, true
				}
				if l2, is2 := ia.X.(*ssa.UnOp); is2 && l2.Op == token.MUL && l2.X == ssa.Value(g) {
					return ia.Index, true
				}
			}
		}
	}
	return nil, false
}
