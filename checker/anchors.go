package main

import (
	"fmt"
	"go/ast"
	"go/types"
	"os"
	"sort"
	"strings"

	"golang.org/x/tools/go/ssa"
)

// Renamed anchors.  The rules name some forty unexported fields and functions of the library.  Renaming
// one of them is a behaviour-preserving edit, so a name that is gone is looked for once more by what it
// is: frozenFields / frozenFuncs (anchors_frozen.go, generated from the pinned tree by -prop DEBUG-anchors)
// give the type every field and function had when the rules were confirmed by reading; a field (function)
// of the same struct (package and receiver) with exactly that type (signature) whose name did not exist
// then is the renamed anchor, provided there is exactly one.  Anything else stays an unresolved anchor,
// which fails the check.

func relQualifier(p *types.Package) string { return relPkg(p.Path()) }

func structKey(n *types.Named) string {
	return relPkg(n.Obj().Pkg().Path()) + "." + n.Obj().Name()
}

func (c *Ctx) renamedField(n *types.Named, name string) *types.Var {
	if n == nil || n.Obj().Pkg() == nil {
		return nil
	}
	frozen := frozenFields[structKey(n)]
	want, ok := frozen[name]
	if !ok {
		return nil
	}
	st, _ := n.Underlying().(*types.Struct)
	if st == nil {
		return nil
	}
	var cands []*types.Var
	for i := 0; i < st.NumFields(); i++ {
		f := st.Field(i)
		if _, existed := frozen[f.Name()]; existed {
			continue
		}
		if normTypeString(f.Type()) == want {
			cands = append(cands, f)
		}
	}
	if len(cands) == 1 {
		c.noteRenamed("field " + structKey(n) + "." + name + " -> " + cands[0].Name())
		return cands[0]
	}
	if len(cands) > 1 {
		return nil
	}
	// ... or the field has moved, with others that travel together, into a small struct of the same package that a
	// new field of this struct holds
	var nested []*types.Var
	via := ""
	for i := 0; i < st.NumFields(); i++ {
		f := st.Field(i)
		if _, existed := frozen[f.Name()]; existed {
			continue
		}
		inner := namedOf(f.Type())
		if inner == nil || inner.Obj().Pkg() != n.Obj().Pkg() {
			continue
		}
		if _, known := frozenFields[structKey(inner)]; known {
			continue // a type that already existed: not a grouping introduced by the refactoring
		}
		ist, _ := inner.Underlying().(*types.Struct)
		if ist == nil {
			continue
		}
		for j := 0; j < ist.NumFields(); j++ {
			if normTypeString(ist.Field(j).Type()) == want {
				nested = append(nested, ist.Field(j))
				via = f.Name()
			}
		}
	}
	if len(nested) != 1 {
		return nil
	}
	c.noteRenamed("field " + structKey(n) + "." + name + " -> " + via + "." + nested[0].Name())
	return nested[0]
}

// normTypeString: the type, with parameter and result names of a function type dropped (they are not part of it).
func normTypeString(t types.Type) string {
	if sig, ok := t.(*types.Signature); ok {
		return types.TypeString(types.NewSignatureType(nil, nil, nil, anonTuple(sig.Params()), anonTuple(sig.Results()), sig.Variadic()), relQualifier)
	}
	return types.TypeString(t, relQualifier)
}

func (c *Ctx) noteRenamed(s string) {
	for _, m := range c.renamed {
		if m == s {
			return
		}
	}
	c.renamed = append(c.renamed, s)
	if c.R != nil {
		c.R.Note("anchor resolved by type after a rename: %s", s)
	}
}

func funcKey(pkg, recv, name string) string {
	if recv != "" {
		return pkg + "." + recv + "." + name
	}
	return pkg + "." + name
}

func sigString(f *types.Func) string {
	sig := f.Type().(*types.Signature)
	// the signature without the receiver, parameter names dropped
	return types.TypeString(types.NewSignatureType(nil, nil, nil, anonTuple(sig.Params()), anonTuple(sig.Results()), sig.Variadic()), relQualifier)
}

func anonTuple(t *types.Tuple) *types.Tuple {
	var vs []*types.Var
	for i := 0; i < t.Len(); i++ {
		vs = append(vs, types.NewVar(0, nil, "", t.At(i).Type()))
	}
	return types.NewTuple(vs...)
}

func recvName(f *types.Func) string {
	r := f.Type().(*types.Signature).Recv()
	if r == nil {
		return ""
	}
	t := r.Type()
	if p, ok := t.(*types.Pointer); ok {
		t = p.Elem()
	}
	if n, ok := t.(*types.Named); ok {
		return n.Obj().Name()
	}
	return "?"
}

// pkgFuncObjs lists every function and method declared in a module package.
func (c *Ctx) pkgFuncObjs(path string) []*types.Func {
	p := c.Pkgs[path]
	if p == nil {
		return nil
	}
	var out []*types.Func
	sc := p.Types.Scope()
	for _, nm := range sc.Names() {
		switch o := sc.Lookup(nm).(type) {
		case *types.Func:
			out = append(out, o)
		case *types.TypeName:
			if n, ok := o.Type().(*types.Named); ok {
				for i := 0; i < n.NumMethods(); i++ {
					out = append(out, n.Method(i))
				}
			}
		}
	}
	return out
}

// renamedFunc: recv "" for package-level functions.
func (c *Ctx) renamedFunc(rel, recv, name string) *ssa.Function {
	if name == "" || !(name[0] >= 'a' && name[0] <= 'z') {
		return nil // exported names are API: a rename there is not behaviour-preserving
	}
	pk := relPkg(pkgPath(rel))
	want, ok := frozenFuncs[funcKey(pk, recv, name)]
	if !ok {
		return nil
	}
	// some anchors are known by the part they play: the function that stable, exported entry points delegate to
	if via, has := anchorRoles[funcKey(pk, recv, name)]; has && !c.inRole {
		c.inRole = true
		defer func() { c.inRole = false }()
		if p := c.Pkgs[pkgPath(rel)]; p != nil {
			if tn, _ := p.Types.Scope().Lookup(recv).(*types.TypeName); tn != nil {
				if n, _ := tn.Type().(*types.Named); n != nil {
					var found *ssa.Function
					agree := true
					for _, entry := range via {
						var ef *ssa.Function
						for _, ptr := range []bool{false, true} {
							if ef == nil {
								ef = c.MethodOpt(n, ptr, entry)
							}
						}
						if ef == nil {
							agree = false
							continue
						}
						var callee *ssa.Function
						ncal := 0
						eachInstr(ef, func(in ssa.Instruction) {
							g := staticCallee(in)
							if g == nil || g.Signature.Recv() == nil || namedOf(g.Signature.Recv().Type()) != n || g.Object() == nil || g.Object().Exported() {
								return
							}
							if callee != g {
								callee = g
								ncal++
							}
						})
						if ncal != 1 || (found != nil && found != callee) {
							agree = false
							continue
						}
						found = callee
					}
					if agree && found != nil {
						c.noteRenamed("func " + funcKey(pk, recv, name) + " -> " + found.Name() + " (the method " + strings.Join(via, ", ") + " delegate to)")
						return found
					}
				}
			}
		}
	}
	var cands []*types.Func
	for _, f := range c.pkgFuncObjs(pkgPath(rel)) {
		if recvName(f) != recv {
			continue
		}
		if _, existed := frozenFuncs[funcKey(pk, recv, f.Name())]; existed {
			continue
		}
		if sigString(f) == want {
			cands = append(cands, f)
		}
	}
	if len(cands) != 1 {
		return nil
	}
	fn := c.Prog.FuncValue(cands[0])
	if fn != nil {
		c.noteRenamed("func " + funcKey(pk, recv, name) + " -> " + cands[0].Name())
	}
	return fn
}

func init() { register("DEBUG-anchors", debugAnchors) }

// debugAnchors prints anchors_frozen.go for the tree it is run on.
func debugAnchors(c *Ctx) {
	fmt.Println("package main")
	fmt.Println()
	fmt.Println("// Code generated by `tabverif -prop DEBUG-anchors` on the pinned tree; DO NOT EDIT by hand.")
	fmt.Println("// The type of every struct field and the signature of every function of the module when the")
	fmt.Println("// rules were confirmed by reading; used only to recognise a renamed anchor (anchors.go).")
	fmt.Println()
	fmt.Println("var frozenFields = map[string]map[string]string{")
	for _, path := range c.sortedPkgPaths() {
		p := c.Pkgs[path]
		if p == nil {
			continue
		}
		sc := p.Types.Scope()
		for _, nm := range sc.Names() {
			tn, _ := sc.Lookup(nm).(*types.TypeName)
			if tn == nil {
				continue
			}
			n, _ := tn.Type().(*types.Named)
			if n == nil {
				continue
			}
			st, _ := n.Underlying().(*types.Struct)
			if st == nil || st.NumFields() == 0 {
				continue
			}
			fmt.Printf("\t%q: {", structKey(n))
			for i := 0; i < st.NumFields(); i++ {
				fmt.Printf("%q: %q, ", st.Field(i).Name(), normTypeString(st.Field(i).Type()))
			}
			fmt.Println("},")
		}
	}
	fmt.Println("}")
	fmt.Println()
	fmt.Println("var frozenFuncs = map[string]string{")
	for _, path := range c.sortedPkgPaths() {
		var lines []string
		for _, f := range c.pkgFuncObjs(path) {
			lines = append(lines, fmt.Sprintf("\t%q: %q,", funcKey(relPkg(path), recvName(f), f.Name()), sigString(f)))
		}
		sort.Strings(lines)
		if len(lines) > 0 {
			fmt.Println(strings.Join(lines, "\n"))
		}
	}
	fmt.Println("}")
}

// isAnchorFn: fn is the named anchor function (recv "" for package level), found by name or, renamed, by signature.
func isAnchorFn(fn *ssa.Function, rel, recv, name string) bool {
	c := gCtx
	if c == nil || fn == nil {
		return false
	}
	var a *ssa.Function
	if recv == "" {
		a = c.FuncOpt(rel, name)
	} else if p := c.Pkgs[pkgPath(rel)]; p != nil {
		if tn, _ := p.Types.Scope().Lookup(recv).(*types.TypeName); tn != nil {
			if n, _ := tn.Type().(*types.Named); n != nil {
				if a = c.MethodOpt(n, false, name); a == nil {
					a = c.MethodOpt(n, true, name)
				}
			}
		}
	}
	return a != nil && (fn == a || fn.Origin() == a)
}

// anchorFieldName: today's name of an anchored field (its own name unless renamed).
func anchorFieldName(rel, typ, name string) string {
	c := gCtx
	if c == nil {
		return name
	}
	if p := c.Pkgs[pkgPath(rel)]; p != nil {
		if tn, _ := p.Types.Scope().Lookup(typ).(*types.TypeName); tn != nil {
			if n, _ := tn.Type().(*types.Named); n != nil {
				if f := c.FieldOpt(n, name); f != nil {
					return f.Name()
				}
			}
		}
	}
	return name
}

func init() { register("DEBUG-rename", debugRename) }

// debugRename rewrites, IN PLACE in the tree given by -repo (a scratch copy), every identifier that denotes
// the field or function named by -dump "<pkg>.<Type>.<field>=<new>" or "<pkg>.<func>=<new>" /
// "<pkg>.<Recv>.<method>=<new>" (pkg relative, "tabular" for the root).  Used to produce rename refactorings
// for the regression corpus (load with TABVERIF_TESTS=1 so that test files are renamed too).
func debugRename(c *Ctx) {
	eq := strings.Index(c.Dump, "=")
	if eq < 0 {
		fatalf("usage: -dump pkg.Type.field=new")
	}
	target, newName := c.Dump[:eq], c.Dump[eq+1:]
	var declPos string
	for _, path := range c.sortedPkgPaths() {
		p := c.Pkgs[path]
		if p == nil {
			continue
		}
		sc := p.Types.Scope()
		for _, nm := range sc.Names() {
			switch o := sc.Lookup(nm).(type) {
			case *types.Func:
				if funcKey(relPkg(path), "", o.Name()) == target {
					declPos = c.Fset.Position(o.Pos()).String()
				}
			case *types.TypeName:
				n, _ := o.Type().(*types.Named)
				if n == nil {
					continue
				}
				for i := 0; i < n.NumMethods(); i++ {
					if funcKey(relPkg(path), n.Obj().Name(), n.Method(i).Name()) == target {
						declPos = c.Fset.Position(n.Method(i).Pos()).String()
					}
				}
				if st, _ := n.Underlying().(*types.Struct); st != nil {
					for i := 0; i < st.NumFields(); i++ {
						if structKey(n)+"."+st.Field(i).Name() == target {
							declPos = c.Fset.Position(st.Field(i).Pos()).String()
						}
					}
				}
			}
		}
	}
	if declPos == "" {
		fatalf("rename: %s not found", target)
	}
	type edit struct{ off, n int }
	edits := map[string][]edit{}
	seen := map[string]bool{}
	for _, p := range c.All {
		if p.TypesInfo == nil {
			continue
		}
		visit := func(id *ast.Ident, o types.Object) {
			if o == nil || !o.Pos().IsValid() || c.Fset.Position(o.Pos()).String() != declPos {
				return
			}
			pos := c.Fset.Position(id.Pos())
			k := pos.String()
			if seen[k] {
				return
			}
			seen[k] = true
			edits[pos.Filename] = append(edits[pos.Filename], edit{pos.Offset, len(id.Name)})
		}
		for id, o := range p.TypesInfo.Defs {
			visit(id, o)
		}
		for id, o := range p.TypesInfo.Uses {
			visit(id, o)
		}
	}
	total := 0
	for file, es := range edits {
		sort.Slice(es, func(i, j int) bool { return es[i].off > es[j].off })
		b, err := os.ReadFile(file)
		if err != nil {
			fatalf("%v", err)
		}
		for _, e := range es {
			b = append(b[:e.off:e.off], append([]byte(newName), b[e.off+e.n:]...)...)
			total++
		}
		if err := os.WriteFile(file, b, 0o644); err != nil {
			fatalf("%v", err)
		}
	}
	fmt.Printf("renamed %s -> %s: %d identifiers in %d files\n", target, newName, total, len(edits))
}

// anchorRoles: unexported methods identified by the exported methods of the same type that delegate to them (each
// of those must call exactly one unexported method of the type, and all must agree).
var anchorRoles = map[string][]string{
	"texttable/decoration.emitter.commonTemplateLine": {"LineBottom", "LineSeparator", "LineHeaderTop"},
	"texttable/decoration.emitter.commonRenderedLine": {"BodyLineRendered", "HeaderLineRendered"},
}
