package main

import (
	"fmt"
	"go/constant"
	"go/token"
	"go/types"
	"sort"
	"strings"

	"golang.org/x/tools/go/ssa"
)

func init() { register("C19", runC19); register("C10", runC10) }

// styleSwitch describes the string switch in auto.Wrap.
type styleArm struct {
	Const string
	Entry *ssa.BasicBlock
	If    *ssa.If
}

func autoSwitch(c *Ctx, wrap *ssa.Function) (arms []styleArm, tag ssa.Value, deflt *ssa.BasicBlock) {
	var cur *ssa.BasicBlock
	if len(wrap.Blocks) > 0 {
		cur = wrap.Blocks[0]
	}
	seen := map[*ssa.BasicBlock]bool{}
	for cur != nil && !seen[cur] {
		seen[cur] = true
		iff, ok := cur.Instrs[len(cur.Instrs)-1].(*ssa.If)
		if !ok {
			break
		}
		b, ok := iff.Cond.(*ssa.BinOp)
		if !ok || b.Op != token.EQL {
			break
		}
		k, isK := constString(b.Y)
		v := b.X
		if !isK {
			k, isK = constString(b.X)
			v = b.Y
		}
		if !isK || (tag != nil && v != tag) {
			break
		}
		tag = v
		arms = append(arms, styleArm{k, cur.Succs[0], iff})
		cur = cur.Succs[1]
	}
	return arms, tag, cur
}

func runC19(c *Ctx) {
	r := c.R
	r.Explanation = "Which names the registry holds at run time is not decidable statically; what is decided is the agreement between the places that spell style names. " +
		"R19.1 every constant that ListStyles adds is a key of auto.Wrap's dispatch (switch cases or a dispatch map), every renderer sub-package other than texttable is listed, the list starts from the registry's own (fresh) listing and is sorted after the last addition. " +
		"R19.2 the dispatch key is strings.ToLower of section 0 of the style (sections by strings.Split or strings.Cut on '.'); each renderer sub-package name is a lower-case key whose entry returns that package's Wrap(t). " +
		"R19.3 every decoration name handed to SetDecorationNamed is the UN-lowered section 0 or section 1 of the style (never the rest of the string, never lower-cased); section 1 is used only under the 'texttable' key and only where a second section is known to exist. " +
		"R19.4 no built-in decoration name contains a dot or collides (case-insensitively) with a dispatch key, so every built-in name reaches the text-table path. Unknown names fail at render time: C17's R17.4. " +
		"Decided: the static agreement. Not decided: names an application registers at run time."
	r.NotDecided = []string{"run-time contents of the decoration registry", "that every listed name renders without error (needs the registry's contents)"}
	r.Assumptions = []string{"strings.Split/Cut/ToLower and sort behave as documented"}
	r.Rule("R19.1", "the listing adds exactly the non-text sub-package keys to the registered names and sorts")
	r.Rule("R19.2", "sub-package names dispatch case-insensitively on section 0 to the package of that name")
	r.Rule("R19.3", "'texttable.NAME' and bare 'NAME' select the same decoration, named as written")
	r.Rule("R19.4", "built-in decoration names reach the text-table path")

	wrap := c.Func("auto", "Wrap")
	list := c.Func("auto", "ListStyles")
	tt := c.Named("texttable", "TextTable")
	setNamed := c.Method(tt, true, "SetDecorationNamed")
	if wrap == nil || list == nil || setNamed == nil {
		return
	}
	style := wrap.Params[1]
	// renderer sub-packages: packages of the module that have a Wrap function
	rendererPkgs := map[string]bool{}
	for _, path := range c.sortedPkgPaths() {
		if sp := c.SSA[path]; sp != nil && sp.Func("Wrap") != nil && path != pkgPath("auto") {
			rendererPkgs[sp.Pkg.Name()] = true
		}
	}
	// ---- dispatch pairs: key constant -> package whose Wrap(t) the entry returns
	type pair struct {
		pkg string
		pos token.Pos
		ok  bool
		why string
	}
	pairs := map[string]pair{}
	var tags []ssa.Value
	arms, tag, _ := autoSwitch(c, wrap)
	if tag != nil {
		tags = append(tags, tag)
	}
	var wrapsPkg func(fn *ssa.Function, entry *ssa.BasicBlock, tparam ssa.Value) (string, bool, string)
	wrapsPkg = func(fn *ssa.Function, entry *ssa.BasicBlock, tparam ssa.Value) (string, bool, string) {
		var wcall *ssa.Call
		for _, b := range fn.Blocks {
			if entry != nil && !entry.Dominates(b) {
				continue
			}
			for _, in := range b.Instrs {
				if call, isCall := in.(*ssa.Call); isCall {
					if f := call.Call.StaticCallee(); f != nil && f.Name() == "Wrap" && inModule(f) && f.Pkg != nil && f.Pkg.Pkg.Path() != pkgPath("auto") {
						wcall = call
					}
				}
			}
		}
		if wcall == nil {
			// every return may delegate to a helper of this package that does the wrapping
			pkH, n := "", 0
			for _, b := range fn.Blocks {
				if entry != nil && !entry.Dominates(b) {
					continue
				}
				for _, in := range b.Instrs {
					ret, isRet := in.(*ssa.Return)
					if !isRet {
						continue
					}
					hc, isCall := unwrap(results(ret)[0], true).(*ssa.Call)
					if !isCall {
						return "", false, "does not return <package>.Wrap(t)"
					}
					h := hc.Call.StaticCallee()
					if h == nil || h.Blocks == nil || funcPkgPath(h) != pkgPath("auto") || h == fn || len(hc.Call.Args) != len(h.Params) {
						return "", false, "does not return <package>.Wrap(t)"
					}
					okH := false
					for k, a := range hc.Call.Args {
						if a == tparam {
							if hp, hok, _ := wrapsPkg(h, nil, h.Params[k]); hok && (pkH == "" || pkH == hp) {
								pkH, okH = hp, true
							}
						}
					}
					if !okH {
						return "", false, "does not return <package>.Wrap(t)"
					}
					n++
				}
			}
			if n == 0 {
				return "", false, "does not return <package>.Wrap(t)"
			}
			return pkH, true, ""
		}
		pk := wcall.Call.StaticCallee().Pkg.Pkg.Name()
		if wcall.Call.Args[0] != tparam {
			return pk, false, "wraps something other than the table it was given"
		}
		for _, b := range fn.Blocks {
			if entry != nil && !entry.Dominates(b) {
				continue
			}
			for _, in := range b.Instrs {
				if ret, isRet := in.(*ssa.Return); isRet {
					rv := unwrap(results(ret)[0], true)
					if rv == ssa.Value(wcall) {
						continue
					}
					// a helper of this package that builds the same kind of wrapper around the same table
					if hc, isCall := rv.(*ssa.Call); isCall {
						if h := hc.Call.StaticCallee(); h != nil && h.Blocks != nil && funcPkgPath(h) == pkgPath("auto") && h != fn && len(hc.Call.Args) == len(h.Params) {
							okH := false
							for k, a := range hc.Call.Args {
								if a == tparam {
									if hp, hok, _ := wrapsPkg(h, nil, h.Params[k]); hok && hp == pk {
										okH = true
									}
								}
							}
							if okH {
								continue
							}
						}
					}
					return pk, false, "returns something other than the wrapper it built"
				}
			}
		}
		return pk, true, ""
	}
	for _, a := range arms {
		pk, ok, why := wrapsPkg(wrap, a.Entry, wrap.Params[0])
		pairs[a.Const] = pair{pk, a.If.Pos(), ok, why}
	}
	// a dispatch map: constant keys mapped to functions, looked up with the tag
	for _, fn := range c.ModFuncs("auto") {
		eachInstr(fn, func(in ssa.Instruction) {
			mu, ok := in.(*ssa.MapUpdate)
			if !ok {
				return
			}
			k, isK := constString(mu.Key)
			if !isK {
				return
			}
			var f *ssa.Function
			switch v := unwrap(mu.Value, true).(type) {
			case *ssa.MakeClosure:
				f, _ = v.Fn.(*ssa.Function)
			case *ssa.Function:
				f = v
			}
			if f == nil || len(f.Params) == 0 {
				return
			}
			pk, okp, why := wrapsPkg(f, nil, f.Params[0])
			pairs[k] = pair{pk, in.Pos(), okp, why}
		})
	}
	eachInstr(wrap, func(in ssa.Instruction) {
		if lk, ok := in.(*ssa.Lookup); ok {
			if _, isMap := lk.X.Type().Underlying().(*types.Map); isMap {
				tags = append(tags, lk.Index)
			}
		}
	})
	// a dispatch table: rows of {name constant, function}; Wrap visits every row, compares the row's name with the
	// tag and returns what the SAME row's function makes of the table it was given
	dispTables := c.dispatchTablesOf("auto")
	for _, dt := range dispTables {
		var cmpIdx, tagV ssa.Value
		var cmpAt *ssa.BinOp
		eachInstr(wrap, func(in ssa.Instruction) {
			b, ok := in.(*ssa.BinOp)
			if !ok || b.Op != token.EQL {
				return
			}
			if idx, isT := tableElemFieldLoad(b.X, dt.G, dt.NameField); isT {
				cmpIdx, tagV, cmpAt = idx, b.Y, b
			} else if idx, isT := tableElemFieldLoad(b.Y, dt.G, dt.NameField); isT {
				cmpIdx, tagV, cmpAt = idx, b.X, b
			}
		})
		if cmpAt == nil {
			continue
		}
		tags = append(tags, tagV)
		// the loop over the table is complete, and the matching row's own function is what is called and returned
		var tableLen ssa.Value = dt.G
		if ia := indexAddrOfLoad(cmpAt, dt.G); ia != nil {
			tableLen = ia.X
		}
		full := isFullRangeIndex(c, wrap, cmpIdx, tableLen)
		sameRow, returned := false, false
		eachInstr(wrap, func(in ssa.Instruction) {
			call, ok := in.(*ssa.Call)
			if !ok || call.Call.IsInvoke() || call.Call.StaticCallee() != nil {
				return
			}
			idx, isT := tableElemFieldLoad(call.Call.Value, dt.G, dt.FnField)
			if !isT {
				return
			}
			if idx == cmpIdx && len(call.Call.Args) >= 1 && call.Call.Args[0] == ssa.Value(wrap.Params[0]) {
				for _, cf := range expandConds(dominatingConds(call.Block())) {
					if cf.Cond == ssa.Value(cmpAt) && cf.Val {
						sameRow = true
					}
				}
			}
			for _, ret := range returnsOf(wrap) {
				if ret.Block() == call.Block() && unwrap(results(ret)[0], true) == ssa.Value(call) {
					returned = true
				}
			}
		})
		for k, nm := range dt.Names {
			f := dt.Fns[k]
			if len(f.Params) == 0 {
				continue
			}
			pk, okp, why := wrapsPkg(f, nil, f.Params[0])
			switch {
			case !full:
				okp, why = false, "the loop over the dispatch table does not visit every row"
			case !sameRow:
				okp, why = false, "the function called is not the one of the row whose name matched, applied to the table given"
			case !returned:
				okp, why = false, "what the row's function returns is not what Wrap returns"
			}
			pairs[nm] = pair{pk, cmpAt.Pos(), okp, why}
		}
	}
	if len(pairs) == 0 {
		r.Note("shape-unrecognised R19.2: auto.Wrap dispatches neither by a switch on constants nor through a map with constant keys; the dispatch rules are not evaluated")
	} else {
		var rp []string
		for k := range rendererPkgs {
			rp = append(rp, k)
		}
		sort.Strings(rp)
		for _, k := range rp {
			pr, ok := pairs[k]
			if !ok && k == "texttable" {
				// texttable may be the fall-through path rather than a key of its own
				continue
			}
			r.Check("R19.2", FuncName(wrap), fmt.Sprintf("renderer sub-package %q has a dispatch key", k), wrap.Pos(), ok, "the sub-package cannot be selected by name")
			if ok {
				r.Check("R19.2", FuncName(wrap), fmt.Sprintf("key %q returns %s.Wrap(t)", k, k), pr.pos, pr.ok && pr.pkg == k, fmt.Sprintf("entry wraps with package %s: %s", pr.pkg, pr.why))
			}
		}
		// the key is the lower-cased section 0
		for i, tg := range tags {
			ok, why := false, "the dispatch key is not strings.ToLower(...)"
			if call, isCall := tg.(*ssa.Call); isCall && isFunc(call.Call.StaticCallee(), "strings", "ToLower") {
				k, rest, lowered, okS := sectionExpr(call.Call.Args[0], style, 0)
				ok = okS && k == 0 && !rest && !lowered
				why = "the dispatch key is not the lower-cased first section of the style"
			}
			r.Check("R19.2", FuncName(wrap), fmt.Sprintf("dispatch key #%d is ToLower(section 0 of the style)", i+1), wrap.Pos(), ok, why)
		}
		r.Floor("R19.2", "dispatch keys", len(pairs), 4)
	}

	// ---- R19.3: names handed to SetDecorationNamed
	ttWrap := c.Func("texttable", "Wrap")
	nset := 0
	p := c.Idx().proverFor(wrap)
	// the places where Wrap names a decoration: a direct SetDecorationNamed, or a call of a helper of the package
	// that passes one of its parameters on to SetDecorationNamed
	type nameEvent struct {
		at     *ssa.Call // the call in Wrap
		name   ssa.Value // the name, as a value of Wrap
		recvOK bool
		// when the helper takes the name out of a list of sections it is handed (refinements[0] of sections[1:]):
		// the section number, whether the helper has made sure that element exists, and the row name under which a
		// dispatch table selects the helper ("" when Wrap calls it directly)
		viaList   bool
		listK     int
		listOK    bool
		listExist bool
		rowName   string
	}
	var events []nameEvent
	splitOfStyle := func(v ssa.Value) bool {
		call, ok := v.(*ssa.Call)
		if !ok || !isFunc(call.Call.StaticCallee(), "strings", "Split") {
			return false
		}
		sep, _ := constString(call.Call.Args[1])
		return call.Call.Args[0] == style && sep == "."
	}
	// helperEvents: the places in helper `callee`, called at `call` with `args`, where a decoration is named
	helperEvents := func(call *ssa.Call, callee *ssa.Function, args []ssa.Value, rowName string) {
		if callee == nil || callee.Blocks == nil || len(args) != len(callee.Params) {
			return
		}
		ph := c.Idx().proverFor(callee)
		eachInstr(callee, func(in2 ssa.Instruction) {
			c2, ok2 := in2.(*ssa.Call)
			if !ok2 || c2.Call.StaticCallee() != setNamed {
				return
			}
			actual := func(v ssa.Value) ssa.Value {
				for k, par := range callee.Params {
					if v == ssa.Value(par) {
						return args[k]
					}
				}
				return nil
			}
			rc, isCall := c2.Call.Args[0].(*ssa.Call)
			recvOK := isCall && rc.Call.StaticCallee() == ttWrap && actual(rc.Call.Args[0]) == ssa.Value(wrap.Params[0])
			nmV := c2.Call.Args[1]
			if nm := actual(nmV); nm != nil {
				events = append(events, nameEvent{at: call, name: nm, recvOK: recvOK, rowName: rowName})
				return
			}
			// refinements[k] of a parameter that is handed sections[lo:hi]
			if sl, k := sectionOf(nmV); sl != nil {
				if act := actual(sl); act != nil {
					ev := nameEvent{at: call, name: nmV, recvOK: recvOK, viaList: true, rowName: rowName}
					if s2, isSl := act.(*ssa.Slice); isSl && splitOfStyle(s2.X) {
						lo := int64(0)
						okLo := true
						if s2.Low != nil {
							lo, okLo = constInt(s2.Low)
						}
						if okLo {
							ev.listK, ev.listOK = int(lo)+k, true
						}
					} else if splitOfStyle(act) {
						ev.listK, ev.listOK = k, true
					}
					if ni, isI := nmV.(ssa.Instruction); isI {
						ev.listExist, _ = ph.prove(lt(linConst(int64(k)), ph.lenOf(sl), "the section exists"), ni, nil, 0)
					}
					events = append(events, ev)
					return
				}
			}
			events = append(events, nameEvent{at: call, name: nmV, recvOK: recvOK, rowName: rowName}) // judged as it stands (a constant, say)
		})
	}
	eachInstr(wrap, func(in ssa.Instruction) {
		call, ok := in.(*ssa.Call)
		if !ok {
			return
		}
		callee := call.Call.StaticCallee()
		if callee == setNamed {
			rc, isCall := call.Call.Args[0].(*ssa.Call)
			events = append(events, nameEvent{at: call, name: call.Call.Args[1], recvOK: isCall && rc.Call.StaticCallee() == ttWrap && rc.Call.Args[0] == ssa.Value(wrap.Params[0])})
			return
		}
		if callee == nil && !call.Call.IsInvoke() {
			// the function of the matching row of a dispatch table: each row's function is a possible callee, under
			// that row's name
			for _, dt := range c.dispatchTablesOf("auto") {
				if _, isT := tableElemFieldLoad(call.Call.Value, dt.G, dt.FnField); !isT {
					continue
				}
				for k, f := range dt.Fns {
					if k < len(dt.Names) {
						helperEvents(call, f, call.Call.Args, dt.Names[k])
					}
				}
			}
			return
		}
		if callee == nil || callee.Blocks == nil || funcPkgPath(callee) != pkgPath("auto") || len(call.Call.Args) != len(callee.Params) {
			return
		}
		helperEvents(call, callee, call.Call.Args, "")
	})
	for _, ev := range events {
		call := ev.at
		nset++
		r.Check("R19.3", FuncName(wrap), fmt.Sprintf("decoration #%d is set on texttable.Wrap(t)", nset), call.Pos(), ev.recvOK, "")
		if ev.viaList {
			switch {
			case !ev.listOK:
				r.Check("R19.3", FuncName(wrap), fmt.Sprintf("decoration name #%d is a section of the style", nset), call.Pos(), false, "the helper takes the name from a list that is not the style's sections")
			case ev.listK == 0:
				r.Check("R19.3", FuncName(wrap), fmt.Sprintf("decoration name #%d: bare NAME is section 0 as written", nset), call.Pos(), ev.rowName == "", "section 0 is the package name when a row of the dispatch table was selected")
			case ev.listK == 1:
				underTT := ev.rowName == "texttable"
				if !underTT {
					for _, cf := range expandConds(dominatingConds(call.Block())) {
						if b, isB := cf.Cond.(*ssa.BinOp); isB && (b.Op == token.EQL && cf.Val || b.Op == token.NEQ && !cf.Val) {
							for _, side := range []ssa.Value{b.X, b.Y} {
								if s1, isS := constString(side); isS && s1 == "texttable" {
									underTT = true
								}
							}
						}
					}
				}
				r.Check("R19.3", FuncName(wrap), fmt.Sprintf("decoration name #%d: section 1 is used only for 'texttable.NAME' and only when it exists", nset), call.Pos(), underTT && ev.listExist,
					fmt.Sprintf("under the texttable key: %v; second section known to exist: %v", underTT, ev.listExist))
			default:
				r.Check("R19.3", FuncName(wrap), fmt.Sprintf("decoration name #%d is section 0 or 1", nset), call.Pos(), false, fmt.Sprintf("section %d", ev.listK))
			}
			continue
		}
		for _, v := range phiClosure(ev.name) {
			k, rest, lowered, okS := sectionExpr(v, style, 0)
			// the sections may be cut out by a helper of the package: splitStyle(style) (first, second string, haveSecond bool)
			viaHelper, flagIdx := (*ssa.Call)(nil), -1
			if ex, isEx := v.(*ssa.Extract); isEx && !okS {
				if hc, isCall := ex.Tuple.(*ssa.Call); isCall {
					if h := hc.Call.StaticCallee(); h != nil && h.Blocks != nil && funcPkgPath(h) == pkgPath("auto") && len(hc.Call.Args) == 1 && hc.Call.Args[0] == style {
						if k2, rest2, low2, fl, ok2 := splitterResult(c.Idx(), h, ex.Index); ok2 {
							k, rest, lowered, okS, viaHelper, flagIdx = k2, rest2, low2, true, hc, fl
						}
					}
				}
			}
			switch {
			case !okS:
				r.Check("R19.3", FuncName(wrap), fmt.Sprintf("decoration name #%d is a section of the style", nset), call.Pos(), false, "the name is "+v.String())
			case lowered:
				r.Check("R19.3", FuncName(wrap), fmt.Sprintf("decoration name #%d is used as written", nset), call.Pos(), false, "the name is lower-cased: a decoration registered with capitals can be listed but never selected")
			case rest:
				r.Check("R19.3", FuncName(wrap), fmt.Sprintf("decoration name #%d is one section", nset), call.Pos(), false, fmt.Sprintf("the name is everything after section %d, trailing sections included", k-1))
			case k == 0:
				r.Check("R19.3", FuncName(wrap), fmt.Sprintf("decoration name #%d: bare NAME is section 0 as written", nset), call.Pos(), true, "")
			case k == 1:
				// only under the texttable key, and only where a second section exists
				vi, _ := v.(ssa.Instruction)
				underTT, exists := false, false
				blk := call.Block()
				if vi != nil {
					blk = vi.Block()
				}
				for _, cf := range dominatingConds(blk) {
					if b, isB := cf.Cond.(*ssa.BinOp); isB && (b.Op == token.EQL && cf.Val || b.Op == token.NEQ && !cf.Val) {
						if s1, isS := constString(b.Y); isS && s1 == "texttable" {
							underTT = true
						}
						if s1, isS := constString(b.X); isS && s1 == "texttable" {
							underTT = true
						}
					}
				}
				exists = sectionExists(p, v, style, blk)
				if viaHelper != nil {
					// the helper vouches for the section on the returns where its flag is true (or on all of them)
					exists = flagIdx < 0
					for _, cf := range expandConds(dominatingConds(call.Block())) {
						if fx, isF := cf.Cond.(*ssa.Extract); isF && fx.Tuple == ssa.Value(viaHelper) && fx.Index == flagIdx && cf.Val {
							exists = true
						}
					}
					for _, cf := range expandConds(dominatingConds(call.Block())) {
						if b, isB := cf.Cond.(*ssa.BinOp); isB && (b.Op == token.EQL && cf.Val || b.Op == token.NEQ && !cf.Val) {
							for _, side := range []ssa.Value{b.X, b.Y} {
								if s1, isS := constString(side); isS && s1 == "texttable" {
									underTT = true
								}
							}
						}
					}
				}
				r.Check("R19.3", FuncName(wrap), fmt.Sprintf("decoration name #%d: section 1 is used only for 'texttable.NAME' and only when it exists", nset), call.Pos(), underTT && exists,
					fmt.Sprintf("under the texttable key: %v; second section known to exist: %v", underTT, exists))
			default:
				r.Check("R19.3", FuncName(wrap), fmt.Sprintf("decoration name #%d is section 0 or 1", nset), call.Pos(), false, fmt.Sprintf("section %d", k))
			}
		}
	}
	r.Floor("R19.3", "decoration names set from the style", nset, 1)

	// ---- R19.1
	{
		var added []string
		var base ssa.Value
		rets := returnsOf(list)
		for _, ret := range rets {
			for _, root := range sliceRoots(results(ret)[0]) {
				base = root
			}
		}
		eachInstr(list, func(in ssa.Instruction) {
			call, ok := isBuiltinCall(valueOf(in), "append")
			if !ok {
				return
			}
			if _, elems, ok := appendedElems(call); ok && elems != nil {
				for _, e := range elems {
					if s1, isS := constString(e); isS {
						added = append(added, s1)
					} else {
						r.Check("R19.1", FuncName(list), "appends a non-constant style", in.Pos(), false, "")
					}
				}
				return
			}
			// append(x, <package-level array or slice of constants>...)
			if len(call.Call.Args) == 2 {
				if g := globalRoot(call.Call.Args[1]); g != nil {
					added = append(added, globalStringElems(c, g)...)
				}
				// append(x, <a local slice holding the name of every row of the dispatch table>...)
				if ms, isMS := unwrap(call.Call.Args[1], true).(*ssa.MakeSlice); isMS {
					for _, dt := range dispTables {
						if rec, complete := namesOfTableCopied(c, list, ms, dt); rec {
							r.Check("R19.1", FuncName(list), "the names added are those of every row of the dispatch table", in.Pos(), complete, "the copy of the table's names skips rows or is not as long as the table: a constructible style is not listed, or an empty name is")
							if complete {
								added = append(added, dt.Names...)
							}
						}
					}
				}
			}
			// append(x, table[i].name) in a loop over the whole dispatch table
			if _, elems, ok := appendedElems(call); ok && len(elems) == 1 {
				for _, dt := range dispTables {
					if idx, isT := tableElemFieldLoad(elems[0], dt.G, dt.NameField); isT {
						var tl ssa.Value = dt.G
						if ia := indexAddrOfLoad(elems[0], dt.G); ia != nil {
							tl = ia.X
						}
						complete := isFullRangeIndex(c, list, idx, tl) && !condInsideLoop(in.Block())
						r.Check("R19.1", FuncName(list), "the names added are those of every row of the dispatch table", in.Pos(), complete, "the loop over the table skips rows: a constructible style is not listed")
						if complete {
							added = append(added, dt.Names...)
						}
					}
				}
			}
		})
		sort.Strings(added)
		if len(added) == 0 {
			r.Note("shape-unrecognised R19.1: ListStyles adds no recognisable constants; listing rules are not evaluated")
		} else {
			for _, s1 := range added {
				_, ok := pairs[s1]
				if len(pairs) > 0 {
					r.Check("R19.1", FuncName(list), fmt.Sprintf("listed %q is a dispatch key", s1), list.Pos(), ok, "advertised but not constructible")
				}
			}
			var nt []string
			for k := range rendererPkgs {
				if k != "texttable" {
					nt = append(nt, k)
				}
			}
			sort.Strings(nt)
			for _, k := range nt {
				found := false
				for _, s1 := range added {
					if s1 == k {
						found = true
					}
				}
				r.Check("R19.1", FuncName(list), fmt.Sprintf("sub-package %q is listed", k), list.Pos(), found, "a renderer exists that the listing omits")
			}
		}
		isReg := false
		if call, ok := base.(*ssa.Call); ok && call.Call.StaticCallee() != nil && call.Call.StaticCallee().Name() == "RegisteredDecorationNames" {
			isReg = true
		}
		r.Check("R19.1", FuncName(list), "the list starts from the registry's names (including application-registered ones)", list.Pos(), isReg, "")
		for i, ret := range rets {
			sorted := false
			eachInstr(list, func(in ssa.Instruction) {
				if !isSortCall(in) {
					return
				}
				arg := unwrap(callCommon(in).Args[0], true)
				if cv, isCv := arg.(*ssa.ChangeType); isCv {
					arg = cv.X
				}
				if sameSlice(arg, results(ret)[0]) && instrDominates(in, ret) {
					late := false
					for _, x := range instrsAfter(in) {
						if _, ok := isBuiltinCall(valueOf(x), "append"); ok {
							late = true
						}
					}
					sorted = !late
				}
			})
			r.Check("R19.1", FuncName(list), fmt.Sprintf("return #%d is sorted after the last addition", i+1), ret.Pos(), sorted, "")
		}
	}
	// premise of R19.1: the registry's listing is a fresh slice (ListStyles appends to it and sorts it in place)
	for _, gg := range c.findGuardedGlobals() {
		if gg.G.Pkg.Pkg.Path() == pkgPath("texttable/decoration") {
			sub := &Report{Rules: map[string]string{}, known: map[string]string{}, knownSeen: map[string]bool{}, Extra: map[string]interface{}{}, c: c}
			saved := c.R
			c.R = sub
			c17Listing(c, gg)
			c.R = saved
			for _, o := range sub.Obs {
				ob := r.Check("R19.1", o.Func, "registry listing premise: "+o.Construct, 0, o.Verdict == "discharged", "ListStyles extends and sorts the slice it is handed: it must be the caller's own copy")
				ob.Pos = o.Pos
			}
		}
	}

	// premises of R19.3: a name resolves by exactly the spelling that was registered and listed, and
	// texttable.Wrap hands back a new wrapper (so 'texttable' alone means the default decoration, whatever t already is)
	for _, gg := range c.findGuardedGlobals() {
		if gg.G.Pkg.Pkg.Path() == pkgPath("texttable/decoration") {
			sub := &Report{Rules: map[string]string{}, known: map[string]string{}, knownSeen: map[string]bool{}, Extra: map[string]interface{}{}, c: c}
			saved := c.R
			c.R = sub
			c17FailClosed(c, gg)
			c.R = saved
			for _, o := range sub.Obs {
				// the whole fail-closed chain: a name is refused exactly when the registry does not know it (a test that
				// refuses more - some registered decorations - makes a listed name unrenderable)
				if o.Rule != "R17.4" {
					continue
				}
				ob := r.Check("R19.3", o.Func, "name-resolution premise: "+o.Construct, 0, o.Verdict == "discharged", "a listed name must select the decoration registered under that spelling")
				ob.Pos = o.Pos
			}
		}
	}
	if ttWrap != nil {
		sum := c.Effects().sums[ttWrap]
		r.Check("R19.3", FuncName(ttWrap), "returns a wrapper allocated by the call (the default decoration, not whatever t carried)", ttWrap.Pos(), sum != nil && sum.Fresh[0], "a result that can be an existing wrapper makes the selected decoration depend on the table's history")
		// ... whose decoration is set here, to a default - never taken over from the table it is given
		if tt != nil {
			decorF := c.Field(tt, "decor")
			for i, ret := range returnsOf(ttWrap) {
				okD, whyD := false, "the returned wrapper's decoration is not assigned in Wrap"
				for _, v := range phiClosure(results(ret)[0]) {
					al, isAl := v.(*ssa.Alloc)
					if !isAl {
						continue
					}
					wholeCopy := false
					for _, rr := range referrersOf(al) {
						if st, isSt := rr.(*ssa.Store); isSt && st.Addr == ssa.Value(al) {
							wholeCopy = true // *dup = *already: every field, the decoration included, comes from the argument
						}
					}
					if wholeCopy {
						okD, whyD = false, "the wrapper is a copy of an existing one: it carries that one's decoration"
						break
					}
					for _, fs := range c.StoresTo(decorF) {
						if fs.Fn == ttWrap && fs.Base == ssa.Value(al) && !derivesFrom(fs.St.Val, ttWrap.Params[0], 0) {
							okD, whyD = true, ""
						}
					}
				}
				r.Check("R19.3", FuncName(ttWrap), fmt.Sprintf("return #%d: the new wrapper's decoration is a default chosen here", i+1), ret.Pos(), okD, whyD)
			}
		}
	}

	// R19.4
	if tp := c.TPkg("texttable/decoration"); tp != nil {
		n := 0
		for _, name := range tp.Scope().Names() {
			k, ok := tp.Scope().Lookup(name).(*types.Const)
			if !ok || !strings.HasPrefix(name, "D_") || k.Val().Kind() != constant.String {
				continue
			}
			n++
			v := constant.StringVal(k.Val())
			_, clash := pairs[strings.ToLower(v)]
			r.Check("R19.4", "texttable/decoration", fmt.Sprintf("built-in %q has no dot and is not a sub-package name", v), k.Pos(), !strings.Contains(v, ".") && !clash && !rendererPkgs[strings.ToLower(v)], "")
		}
		r.Floor("R19.4", "built-in decoration names", n, 6)
	}
}

// isSortCall: sort.Strings(x), sort.Sort(sort.StringSlice(x)), sort.Stable(...), slices.Sort(x).
func isSortCall(in ssa.Instruction) bool {
	f := staticCallee(in)
	if f == nil {
		return false
	}
	switch funcPkgPath(f) + "." + f.Name() {
	case "sort.Strings", "sort.Sort", "sort.Stable", "slices.Sort":
		return true
	}
	return false
}

func globalRoot(v ssa.Value) *ssa.Global {
	for i := 0; i < 6; i++ {
		switch x := v.(type) {
		case *ssa.Slice:
			v = x.X
		case *ssa.UnOp:
			v = x.X
		case *ssa.Global:
			return x
		default:
			return nil
		}
	}
	return nil
}

// globalStringElems: the string constants a package-level array/slice variable is initialised with.
func globalStringElems(c *Ctx, g *ssa.Global) []string {
	var out []string
	initFn := g.Pkg.Func("init")
	if initFn == nil {
		return nil
	}
	eachInstr(initFn, func(in ssa.Instruction) {
		st, ok := in.(*ssa.Store)
		if !ok {
			return
		}
		root, _ := addrPath(st.Addr)
		if root != ssa.Value(g) {
			// slices: the backing array is a separate allocation stored into the global; accept constants stored
			// into any array whose slice is stored to g
			return
		}
		if s, isS := constString(st.Val); isS {
			out = append(out, s)
		}
	})
	return out
}

// sectionExpr: v denotes a dot-separated section of the style parameter:
//
//	strings.Split(style, ".")[k]              -> section k
//	before, after, found := strings.Cut(x, ".") with x = style or the rest after section j
//	strings.ToLower(section)                  -> lowered
//
// Returns (k, isRest, lowered, ok); isRest means "everything after section k-1".
func sectionExpr(v ssa.Value, style ssa.Value, depth int) (int, bool, bool, bool) {
	if depth > 6 {
		return 0, false, false, false
	}
	if v == style {
		return 0, true, false, true // the whole style = the rest starting at section 0
	}
	switch x := v.(type) {
	case *ssa.UnOp:
		if sl, idx := sectionOfAny(x); sl != nil {
			if call, ok := sl.(*ssa.Call); ok && isFunc(call.Call.StaticCallee(), "strings", "Split") {
				sep, _ := constString(call.Call.Args[1])
				k, isK := constInt(idx)
				if call.Call.Args[0] == style && sep == "." && isK {
					return int(k), false, false, true
				}
			}
		}
	case *ssa.Extract:
		call, ok := x.Tuple.(*ssa.Call)
		if ok && gCtx != nil {
			// a helper of the package that cuts the style into sections (unconditionally for this result)
			if h := call.Call.StaticCallee(); h != nil && h.Blocks != nil && funcPkgPath(h) == pkgPath("auto") && len(call.Call.Args) == 1 {
				k0, rest0, low0, okS := sectionExpr(call.Call.Args[0], style, depth+1)
				if okS && k0 == 0 && rest0 && !low0 {
					if k, rest, low, flagIdx, okH := splitterResult(gCtx.Idx(), h, x.Index); okH && flagIdx < 0 {
						return k, rest, low, true
					}
				}
				return 0, false, false, false
			}
		}
		if !ok || !isFunc(call.Call.StaticCallee(), "strings", "Cut") {
			return 0, false, false, false
		}
		if sep, _ := constString(call.Call.Args[1]); sep != "." {
			return 0, false, false, false
		}
		k, rest, low, okS := sectionExpr(call.Call.Args[0], style, depth+1)
		if !okS || !rest || low {
			return 0, false, false, false
		}
		switch x.Index {
		case 0:
			return k, false, false, true
		case 1:
			return k + 1, true, false, true
		}
	case *ssa.Call:
		if isFunc(x.Call.StaticCallee(), "strings", "ToLower") {
			k, rest, _, okS := sectionExpr(x.Call.Args[0], style, depth+1)
			return k, rest, true, okS
		}
	}
	return 0, false, false, false
}

// sectionExists: where v (section k >= 1) is evaluated, the style is known to have that section:
// len(Split(..)) > k, or the found flag of the Cut that produced the rest is true.
func sectionExists(p *prover, v ssa.Value, style ssa.Value, blk *ssa.BasicBlock) bool {
	switch x := v.(type) {
	case *ssa.UnOp:
		if sl, idx := sectionOfAny(x); sl != nil {
			in, _ := v.(ssa.Instruction)
			if in == nil {
				return false
			}
			ok, _ := p.prove(lt(p.linOf(idx), p.lenOf(sl), "section exists"), in, nil, 0)
			return ok
		}
	case *ssa.Extract:
		call, ok := x.Tuple.(*ssa.Call)
		if !ok {
			return false
		}
		// v = before-part of Cut(rest): the rest exists iff the Cut that produced `rest` found a separator
		restV, isEx := call.Call.Args[0].(*ssa.Extract)
		if !isEx {
			return false
		}
		for _, cf := range dominatingConds(blk) {
			if fx, isF := cf.Cond.(*ssa.Extract); isF && fx.Tuple == restV.Tuple && fx.Index == 2 && cf.Val {
				return true
			}
		}
	}
	return false
}

// sectionOf: v is sections[idx] for a constant idx; returns the slice value and idx.
func sectionOf(v ssa.Value) (ssa.Value, int) {
	u, ok := v.(*ssa.UnOp)
	if !ok || u.Op != token.MUL {
		return nil, -1
	}
	ia, ok := u.X.(*ssa.IndexAddr)
	if !ok {
		return nil, -1
	}
	k, ok := constInt(ia.Index)
	if !ok {
		return nil, -1
	}
	return ia.X, int(k)
}

// ---- C10 ---------------------------------------------------------------------------

func runC10(c *Ctx) {
	r := c.R
	r.Explanation = "Byte identity of outputs across creation paths and nestings is not decided. Decided are the structural reasons it holds: " +
		"R10.1 at every call of RegisterPropertyCallback made by the module, every dynamic type the owner argument can have (the concrete type, or any Table implementer when the argument is a Table handed in by the caller) is either registered on the core table or the returned error is checked: the registration function is executed symbolically for each such type, and must have an interface arm that catches foreign Table implementations. " +
		"R10.2 each package-level Render/RenderTo/New and auto.Render/RenderTo/New is a pure delegation: Wrap(its parameters unchanged) followed by the same-named method. R10.3 each Render method runs its own RenderTo exactly once into a fresh bytes.Buffer and returns that buffer's contents. " +
		"R10.4 no wrapper type declares a method of the Table interface itself (all table operations are promoted unchanged to the wrapped table, however deep the nesting), and renderer code never type-asserts a Table to a concrete table type."
	r.NotDecided = []string{"byte-for-byte equality of outputs across creation paths (depends on all of the rendering code being a function of the table's observable state, which R10.4 makes wrapper-independent)"}
	r.Assumptions = []string{"method promotion through an embedded interface forwards the call unchanged (Go semantics)"}
	r.Rule("R10.1", "callback registration made by a wrapper reaches the core table for every possible owner type, or its error is checked")
	r.Rule("R10.2", "package-level Render/RenderTo/New are pure delegations to Wrap and the wrapper's method")
	r.Rule("R10.3", "Render is RenderTo into a fresh buffer")
	r.Rule("R10.4", "wrappers do not override table operations; renderers do not depend on the concrete table type")

	at := c.Named("", "ATable")
	reg := c.Method(at, true, "RegisterPropertyCallback")
	table := c.Named("", "Table")
	cc := loadCbConsts(c)
	if reg == nil || table == nil || cc == nil {
		return
	}
	tableIface := table.Underlying().(*types.Interface)
	// implementers of Table in the module
	var impls []types.Type
	var wrapperTypes []*types.Named
	for _, path := range c.sortedPkgPaths() {
		if path == pkgPath("examples") {
			continue
		}
		sc := c.Pkgs[path].Types.Scope()
		for _, n := range sc.Names() {
			tn, ok := sc.Lookup(n).(*types.TypeName)
			if !ok {
				continue
			}
			nt, ok := tn.Type().(*types.Named)
			if !ok {
				continue
			}
			if _, isI := nt.Underlying().(*types.Interface); isI {
				continue
			}
			pt := types.NewPointer(nt)
			if types.Implements(pt, tableIface) {
				impls = append(impls, pt)
				if nt != at {
					wrapperTypes = append(wrapperTypes, nt)
				}
			}
		}
	}
	r.Floor("R10.4", "Table implementers in the module", len(impls), 6)
	// wrappers of different kinds keep their per-cell measurements side by side in the cells' property store: one
	// kind's set must leave the other kind's value alone (C12's R12.1/R12.2)
	r.Rule("R10.5", "per-cell measurements of differently wrapped renderers coexist in the property store")
	importFreshState(c, "R10.5", "texttable")
	importFreshState(c, "R10.5", "markdown")
	importPremises(c, "R10.5", "property-store premise ", "nesting or re-wrapping would drop the other wrapper's measurements", func(o *Ob) bool { return o.Rule == "R12.1" || o.Rule == "R12.2" }, func() { runC12(c) })
	// every render measures afresh: the render-callback pass is made, in full, by every RenderTo (C13's R13.3/R13.5),
	// so a wrapper kept from earlier and a wrapper made just now lay the same table out the same way
	importPremises(c, "R10.5", "render-pass premise ", "a render that skips or shortens the callback pass works from whatever an earlier render (through whichever wrapper) left behind", func(o *Ob) bool {
		return o.Rule == "R13.5" || (o.Rule == "R13.3" && strings.Contains(o.Func, "InvokeRenderCallbacks"))
	}, func() { runC13(c) })
	// the auto package hands the style string's sections on as written (C19's R19.2/R19.3)
	importPremises(c, "R10.2", "style-resolution premise ", "auto.* and the sub-package's own functions would select different renderers or decorations for the same name", func(o *Ob) bool {
		return (o.Rule == "R19.2" || o.Rule == "R19.3") && !strings.Contains(o.Construct, "premise")
	}, func() { runC19(c) })

	// R10.1
	nsites := 0
	hasIfaceArm := false
	eachInstr(reg, func(in ssa.Instruction) {
		if ta, ok := in.(*ssa.TypeAssert); ok && ta.X == ssa.Value(reg.Params[1]) {
			if it, isI := ta.AssertedType.Underlying().(*types.Interface); isI && types.Implements(table, it) {
				hasIfaceArm = true
			}
		}
	})
	for _, fn := range c.LibFuncs() {
		if fn == reg {
			continue
		}
		cnt := 0
		eachInstr(fn, func(in ssa.Instruction) {
			call, ok := in.(*ssa.Call)
			if !ok {
				return
			}
			name := ""
			if call.Call.IsInvoke() {
				name = call.Call.Method.Name()
			} else if f := call.Call.StaticCallee(); f != nil {
				name = f.Name()
			}
			if name != "RegisterPropertyCallback" {
				return
			}
			if fn.Name() == "RegisterPropertyCallback" {
				return // promoted wrappers
			}
			nsites++
			cnt++
			args := call.Call.Args
			ownerArg := args[len(args)-4]
			var target, when int64 = -1, -1
			if k, ok := constInt(args[len(args)-2]); ok {
				target = k
			}
			if k, ok := constInt(args[len(args)-3]); ok {
				when = k
			}
			// a renderer's own measuring callback runs in the RENDER slot of each cell: after every pre-cell callback
			// (which may still change what the cell shows) and before every post-cell one (which may read the
			// measurements); all renderers agree on that, so a table measures the same however it was wrapped
			if pp := funcPkgPath(fn); pp != modPath && pp != pkgPath("examples") && strings.HasPrefix(pp, modPath) {
				okSlot := when == cc.times["RENDER"] && target == cc.targets["CELL"]
				r.Check("R10.1", FuncName(fn), fmt.Sprintf("RegisterPropertyCallback call #%d: the renderer's measuring callback is registered for the RENDER slot of each cell", cnt), call.Pos(), okSlot,
					fmt.Sprintf("registered for time %d, target %d: measurements would be taken before pre-cell callbacks have run (or not per cell), so the layout depends on which callbacks were registered before the wrapper was made", when, target))
			}
			checked := errorChecked(call)
			inner := unwrap(ownerArg, true)
			var types_ []types.Type
			foreign := false
			if _, isI := inner.Type().Underlying().(*types.Interface); isI {
				types_ = impls
				foreign = true // the value arrives from the caller: it may be any implementation
			} else {
				types_ = []types.Type{inner.Type()}
			}
			ok2, why := true, ""
			if target < 0 || when < 0 {
				ok2, why = false, "target/time are not constants"
			}
			for _, t := range types_ {
				if !ok2 {
					break
				}
				out, w := symRegister(c, reg, t, target, when)
				if w != "" || !(out.accepted || out.selfCall) {
					ok2, why = false, fmt.Sprintf("an owner of type %s is refused (%s) and the error is not looked at: the callback silently never runs", shortType(t), w)
				}
			}
			if ok2 && foreign && !hasIfaceArm {
				ok2, why = false, "a Table implemented outside the module would be refused: the registration switch has no interface arm"
			}
			if checked {
				ok2, why = true, "the returned error is checked"
			}
			if ok2 && why == "" {
				why = fmt.Sprintf("%d possible owner type(s), all registered on the core table", len(types_))
			}
			r.Check("R10.1", FuncName(fn), fmt.Sprintf("RegisterPropertyCallback call #%d: owner accepted for every possible type", cnt), call.Pos(), ok2, why)
		})
	}
	r.Floor("R10.1", "registration calls made by the module", nsites, 2)

	// R10.2
	nd := 0
	for _, rel := range []string{"csv", "html", "json", "markdown", "texttable", "auto"} {
		wrapFn := c.FuncOpt(rel, "Wrap")
		for _, name := range []string{"Render", "RenderTo", "New"} {
			fn := c.FuncOpt(rel, name)
			if fn == nil {
				continue
			}
			nd++
			ok, why := delegates(c, fn, wrapFn, name)
			r.Check("R10.2", FuncName(fn), "is Wrap(parameters) followed by the same-named method", fn.Pos(), ok, why)
		}
	}
	r.Floor("R10.2", "package-level delegating functions", nd, 15)

	// R10.3
	nr := 0
	for _, w := range wrapperTypes {
		fn := c.MethodOpt(w, true, "Render")
		if fn == nil {
			continue
		}
		nr++
		ok, why := renderViaBuffer(fn)
		r.Check("R10.3", FuncName(fn), "runs its own RenderTo once into a fresh buffer and returns the buffer's text", fn.Pos(), ok, why)
	}
	r.Floor("R10.3", "Render methods", nr, 5)

	// R10.4
	for _, w := range wrapperTypes {
		var clash []string
		for _, ptr := range []bool{false, true} {
			var t types.Type = w
			if ptr {
				t = types.NewPointer(w)
			}
			ms := c.Prog.MethodSets.MethodSet(t)
			for i := 0; i < ms.Len(); i++ {
				sel := ms.At(i)
				if len(sel.Index()) != 1 {
					continue // promoted
				}
				for j := 0; j < tableIface.NumMethods(); j++ {
					if tableIface.Method(j).Name() == sel.Obj().Name() {
						clash = append(clash, sel.Obj().Name())
					}
				}
			}
		}
		r.Check("R10.4", shortType(w), "declares no method of the Table interface itself", w.Obj().Pos(), len(clash) == 0, "overrides "+strings.Join(clash, ","))
		// embeds the interface, not a concrete table
		st, _ := w.Underlying().(*types.Struct)
		emb := false
		if st != nil {
			for i := 0; i < st.NumFields(); i++ {
				if st.Field(i).Embedded() && types.Identical(st.Field(i).Type(), table) {
					emb = true
				}
			}
		}
		r.Check("R10.4", shortType(w), "embeds the Table interface (any table, any nesting)", w.Obj().Pos(), emb, "")
	}
	nta := 0
	for _, fn := range c.LibFuncs() {
		if funcPkgPath(fn) == modPath {
			continue
		}
		eachInstr(fn, func(in ssa.Instruction) {
			ta, ok := in.(*ssa.TypeAssert)
			if !ok {
				return
			}
			if !types.Implements(ta.X.Type(), tableIface) {
				if _, isI := ta.X.Type().Underlying().(*types.Interface); !isI || !types.Identical(ta.X.Type(), table) {
					return
				}
			}
			if _, isI := ta.AssertedType.Underlying().(*types.Interface); isI {
				return
			}
			nta++
			r.Check("R10.4", FuncName(fn), "type assertion from Table to "+shortType(ta.AssertedType), in.Pos(), false, "rendering depends on which concrete type holds the table")
		})
	}
	if nta == 0 {
		r.Check("R10.4", "renderers", "no renderer asserts a Table to a concrete table type", 0, true, "")
	}
}

// errorChecked: the error result of call is tested against nil somewhere.
func errorChecked(call *ssa.Call) bool {
	var e ssa.Value = call
	if isTuple(call.Type()) {
		e = nil
		tl := call.Type().(*types.Tuple).Len()
		for _, rr := range referrersOf(call) {
			if ex, ok := rr.(*ssa.Extract); ok && ex.Index == tl-1 {
				e = ex
			}
		}
	}
	if e == nil {
		return false
	}
	for _, rr := range referrersOf(e) {
		switch x := rr.(type) {
		case *ssa.BinOp:
			if isNil(x.X) || isNil(x.Y) {
				return true
			}
		case *ssa.Return:
			return true
		}
	}
	return false
}

// delegates: fn(params...) = Wrap(leading params...).Name(remaining params...)   (New: Wrap(tabular.New()[, style]))
func delegates(c *Ctx, fn, wrapFn *ssa.Function, name string) (bool, string) {
	if wrapFn == nil {
		return false, "package has no Wrap"
	}
	var calls []*ssa.Call
	eachInstr(fn, func(in ssa.Instruction) {
		if call, ok := in.(*ssa.Call); ok {
			calls = append(calls, call)
		}
	})
	rets := returnsOf(fn)
	if len(rets) != 1 || len(fn.Blocks) != 1 {
		return false, "more than one path"
	}
	newFn := c.Func("", "New")
	if name == "New" {
		// Wrap(tabular.New() [, style])
		if len(calls) != 2 || calls[0].Call.StaticCallee() != newFn || calls[1].Call.StaticCallee() != wrapFn {
			return false, "is not Wrap(tabular.New(), ...)"
		}
		w := calls[1]
		if unwrap(w.Call.Args[0], true) != ssa.Value(calls[0]) {
			return false, "wraps something other than the new table"
		}
		for i, a := range w.Call.Args[1:] {
			if i >= len(fn.Params) || a != ssa.Value(fn.Params[i]) {
				return false, "style argument is not passed through"
			}
		}
		rv := unwrap(results(rets[0])[0], true)
		if rv != ssa.Value(w) {
			return false, "does not return the wrapper"
		}
		return true, ""
	}
	if len(calls) != 2 || calls[0].Call.StaticCallee() != wrapFn {
		return false, fmt.Sprintf("%d calls; first is not Wrap", len(calls))
	}
	w, m := calls[0], calls[1]
	mname := ""
	var recv ssa.Value
	margs := m.Call.Args
	if m.Call.IsInvoke() {
		mname, recv = m.Call.Method.Name(), m.Call.Value
	} else if f := m.Call.StaticCallee(); f != nil {
		mname = f.Name()
		if len(margs) > 0 {
			recv, margs = margs[0], margs[1:]
		}
	}
	if mname != name || recv != ssa.Value(w) {
		return false, "second call is not " + name + " on the wrapper"
	}
	// all parameters are used exactly once, unchanged, by one of the two calls
	used := map[ssa.Value]int{}
	for _, a := range w.Call.Args {
		used[a]++
	}
	for _, a := range margs {
		used[a]++
	}
	for _, p := range fn.Params {
		if used[p] != 1 {
			return false, "parameter " + p.Name() + " is not passed through exactly once"
		}
	}
	if len(w.Call.Args)+len(margs) != len(fn.Params) {
		return false, "extra arguments"
	}
	// results forwarded
	rv := results(rets[0])
	if len(rv) == 1 {
		if rv[0] != ssa.Value(m) {
			return false, "result is not forwarded"
		}
	} else {
		for i, v := range rv {
			ex, ok := v.(*ssa.Extract)
			if !ok || ex.Tuple != ssa.Value(m) || ex.Index != i {
				return false, "results are not forwarded"
			}
		}
	}
	return true, ""
}

// renderViaBuffer: b := &bytes.Buffer{}; err := recv.RenderTo(b); ... return b.String(), nil
func renderViaBuffer(fn *ssa.Function) (bool, string) {
	var buf *ssa.Alloc
	eachInstr(fn, func(in ssa.Instruction) {
		if al, ok := in.(*ssa.Alloc); ok && (isNamed(al.Type().(*types.Pointer).Elem(), "bytes", "Buffer") || isNamed(al.Type().(*types.Pointer).Elem(), "strings", "Builder")) {
			buf = al
		}
	})
	if buf == nil {
		return false, "no fresh buffer (bytes.Buffer / strings.Builder) allocated here"
	}
	nrt := 0
	okRecv := false
	var others []string
	for _, rr := range referrersOf(buf) {
		switch x := rr.(type) {
		case *ssa.MakeInterface:
			for _, r2 := range referrersOf(x) {
				if call, ok := r2.(*ssa.Call); ok {
					f := call.Call.StaticCallee()
					if f != nil && f.Name() == "RenderTo" && len(call.Call.Args) == 2 && call.Call.Args[0] == ssa.Value(fn.Params[0]) {
						nrt++
						okRecv = true
					} else {
						others = append(others, calleeDesc(&call.Call))
					}
				}
			}
		case *ssa.Call:
			if f := x.Call.StaticCallee(); f != nil && (funcPkgPath(f) == "bytes" || funcPkgPath(f) == "strings") && f.Name() == "String" {
				continue
			}
			others = append(others, calleeDesc(&x.Call))
		case *ssa.DebugRef:
		default:
			others = append(others, rr.String())
		}
	}
	if nrt != 1 || !okRecv {
		return false, fmt.Sprintf("RenderTo on the receiver with the buffer is called %d times", nrt)
	}
	if len(others) > 0 {
		return false, "the buffer is also used by " + strings.Join(others, ", ")
	}
	for _, ret := range returnsOf(fn) {
		rv := results(ret)
		if isNil(rv[1]) {
			call, ok := rv[0].(*ssa.Call)
			if !ok || call.Call.StaticCallee() == nil || call.Call.StaticCallee().Name() != "String" || call.Call.Args[0] != ssa.Value(buf) {
				return false, "the success return is not the buffer's String()"
			}
		}
	}
	return true, ""
}

// splitterResult: result #idx of h(style) is section k of its parameter on every return where it is meant to be
// used. Returns where it is something else (the zero value of a named result, say) must all hand back false in one
// boolean result - flagIdx - which the caller then has to test. flagIdx < 0: the result is the section on every return.
func splitterResult(ix *idxEngine, h *ssa.Function, idx int) (k int, rest, lowered bool, flagIdx int, ok bool) {
	flagIdx = -1
	if len(h.Params) != 1 || !isStringType(h.Params[0].Type()) || idx >= h.Signature.Results().Len() {
		return
	}
	style := ssa.Value(h.Params[0])
	p := ix.proverFor(h)
	nres := h.Signature.Results().Len()
	type oneCase struct {
		v     ssa.Value
		flags map[int]bool // boolean results known constant in this case
		blk   *ssa.BasicBlock
	}
	var cases []oneCase
	for _, ret := range returnsOf(h) {
		rv := results(ret)
		if len(rv) != nres {
			return
		}
		phi, isPhi := rv[idx].(*ssa.Phi)
		if !isPhi {
			c := oneCase{v: rv[idx], flags: map[int]bool{}, blk: ret.Block()}
			for j := 0; j < nres; j++ {
				if b, isB := constBool(rv[j]); isB {
					c.flags[j] = b
				}
			}
			cases = append(cases, c)
			continue
		}
		for e := range phi.Edges {
			c := oneCase{v: phi.Edges[e], flags: map[int]bool{}, blk: phi.Block().Preds[e]}
			for j := 0; j < nres; j++ {
				if b, isB := constBool(rv[j]); isB {
					c.flags[j] = b
				} else if fp, isFP := rv[j].(*ssa.Phi); isFP && fp.Block() == phi.Block() {
					if b, isB := constBool(fp.Edges[e]); isB {
						c.flags[j] = b
					}
				}
			}
			cases = append(cases, c)
		}
	}
	first := true
	var void []oneCase
	for _, c := range cases {
		k2, rest2, low2, okS := sectionExpr(c.v, style, 0)
		if okS && k2 >= 1 && !rest2 {
			blk := c.blk
			if vi, isI := c.v.(ssa.Instruction); isI {
				blk = vi.Block()
			}
			okS = sectionExists(p, c.v, style, blk)
		}
		if !okS {
			void = append(void, c)
			continue
		}
		if !first && (k2 != k || rest2 != rest || low2 != lowered) {
			return 0, false, false, -1, false
		}
		k, rest, lowered, first = k2, rest2, low2, false
	}
	if first {
		return 0, false, false, -1, false
	}
	if len(void) == 0 {
		return k, rest, lowered, -1, true
	}
	for j := 0; j < nres; j++ {
		if !isBoolType(h.Signature.Results().At(j).Type()) {
			continue
		}
		good := true
		for _, c := range void {
			if b, has := c.flags[j]; !has || b {
				good = false
			}
		}
		if good {
			return k, rest, lowered, j, true
		}
	}
	return 0, false, false, -1, false
}

func isBoolType(t types.Type) bool {
	b, ok := t.Underlying().(*types.Basic)
	return ok && b.Info()&types.IsBoolean != 0
}

// indexAddrOfLoad: the IndexAddr on table g underneath a (compared or called) element field load.
func indexAddrOfLoad(v ssa.Value, g *ssa.Global) *ssa.IndexAddr {
	var found *ssa.IndexAddr
	var walk func(x ssa.Value, d int)
	walk = func(x ssa.Value, d int) {
		if d > 6 || found != nil || x == nil {
			return
		}
		switch y := x.(type) {
		case *ssa.BinOp:
			walk(y.X, d+1)
			walk(y.Y, d+1)
		case *ssa.UnOp:
			walk(y.X, d+1)
		case *ssa.Field:
			walk(y.X, d+1)
		case *ssa.FieldAddr:
			walk(y.X, d+1)
		case *ssa.IndexAddr:
			if y.X == ssa.Value(g) {
				found = y
				return
			}
			if ld, ok := y.X.(*ssa.UnOp); ok && ld.X == ssa.Value(g) {
				found = y
			}
		}
	}
	walk(v, 0)
	return found
}

// namesOfTableCopied: ms is make([]string, len(table)) and is filled, in a loop over the whole table, with
// ms[i] = table[i].name (nothing else is stored into it).
func namesOfTableCopied(c *Ctx, fn *ssa.Function, ms *ssa.MakeSlice, dt dispatchTable) (recognised, complete bool) {
	p := c.Idx().proverFor(fn)
	var st *ssa.Store
	n := 0
	for _, r := range referrersOf(ms) {
		if ia, ok := r.(*ssa.IndexAddr); ok {
			for _, rr := range referrersOf(ia) {
				if s, isSt := rr.(*ssa.Store); isSt && s.Addr == ssa.Value(ia) {
					st = s
					n++
				}
			}
		}
	}
	if n != 1 {
		return false, false
	}
	ia := st.Addr.(*ssa.IndexAddr)
	idx, isT := tableElemFieldLoad(st.Val, dt.G, dt.NameField)
	if !isT {
		return false, false
	}
	if p.resolve(idx) != p.resolve(ia.Index) {
		return true, false
	}
	var tl ssa.Value = dt.G
	if tia := indexAddrOfLoad(st.Val, dt.G); tia != nil {
		tl = tia.X
	}
	if !isFullRangeIndex(c, fn, idx, tl) || condInsideLoop(st.Block()) {
		return true, false
	}
	// the slice is exactly as long as the table
	a, _ := p.prove(leq(p.lenOf(ms), p.lenOf(tl), "copy of the table's names"), st, nil, 0)
	b, _ := p.prove(leq(p.lenOf(tl), p.lenOf(ms), "copy of the table's names"), st, nil, 0)
	return true, a && b
}
