package main

import (
	"fmt"
	"go/constant"
	"go/token"
	"go/types"
	"sort"
	"strings"

	"golang.org/x/tools/go/ssa"
)

func init() { register("C19", runC19); register("C10", runC10) }

// styleSwitch describes the string switch in auto.Wrap.
type styleArm struct {
	Const string
	Entry *ssa.BasicBlock
	If    *ssa.If
}

func autoSwitch(c *Ctx, wrap *ssa.Function) (arms []styleArm, tag ssa.Value, deflt *ssa.BasicBlock) {
	var cur *ssa.BasicBlock
	if len(wrap.Blocks) > 0 {
		cur = wrap.Blocks[0]
	}
	seen := map[*ssa.BasicBlock]bool{}
	for cur != nil && !seen[cur] {
		seen[cur] = true
		iff, ok := cur.Instrs[len(cur.Instrs)-1].(*ssa.If)
		if !ok {
			break
		}
		b, ok := iff.Cond.(*ssa.BinOp)
		if !ok || b.Op != token.EQL {
			break
		}
		k, isK := constString(b.Y)
		v := b.X
		if !isK {
			k, isK = constString(b.X)
			v = b.Y
		}
		if !isK || (tag != nil && v != tag) {
			break
		}
		tag = v
		arms = append(arms, styleArm{k, cur.Succs[0], iff})
		cur = cur.Succs[1]
	}
	return arms, tag, cur
}

func runC19(c *Ctx) {
	r := c.R
	r.Explanation = "Which names the registry holds at run time is not decidable statically; what is decided is the agreement between the three places that spell style names. " +
		"R19.1 every constant that ListStyles adds is a case of the switch in auto.Wrap, every non-texttable case is listed, the list starts from the registry's names and is sorted before it is returned. " +
		"R19.2 the switch tag is strings.ToLower of section 0 of strings.Split(style, \".\"); each case constant is lower-case and its arm returns <package of that name>.Wrap(t). " +
		"R19.3 the texttable arm and the default arm both build texttable.Wrap(t); the default names the decoration by the un-lowered section 0, the texttable arm by section 1 only when there is one (plain 'texttable' keeps the default decoration). " +
		"R19.4 no built-in decoration name contains a dot or collides (case-insensitively) with a sub-package case, so every built-in name reaches the default arm. Unknown names fail at render time: C17's R17.4. " +
		"Decided: the static agreement. Not decided: names an application registers at run time (a name containing '.' or equal to a sub-package name would be advertised by the listing yet be unreachable - observation, no static site exhibits it)."
	r.NotDecided = []string{"run-time contents of the decoration registry", "that every listed name renders without error (needs the registry's contents)"}
	r.Assumptions = []string{"strings.Split/ToLower/sort.Strings behave as documented"}
	r.Rule("R19.1", "the listing adds exactly the non-text sub-package cases to the registered names and sorts")
	r.Rule("R19.2", "sub-package names dispatch case-insensitively on section 0 to the package of that name")
	r.Rule("R19.3", "'texttable.NAME' and bare 'NAME' select the same decoration; plain 'texttable' keeps the default")
	r.Rule("R19.4", "built-in decoration names reach the default arm")

	wrap := c.Func("auto", "Wrap")
	list := c.Func("auto", "ListStyles")
	ttWrap := c.Func("texttable", "Wrap")
	tt := c.Named("texttable", "TextTable")
	setNamed := c.Method(tt, true, "SetDecorationNamed")
	if wrap == nil || list == nil || ttWrap == nil || setNamed == nil {
		return
	}
	arms, tag, deflt := autoSwitch(c, wrap)
	r.Floor("R19.2", "cases of the style switch", len(arms), 5)
	cases := map[string]styleArm{}
	for _, a := range arms {
		cases[a.Const] = a
	}
	// tag = ToLower(Split(style, ".")[0])
	var split ssa.Value
	{
		ok, why := false, "switch tag is not strings.ToLower(...)"
		if call, isCall := tag.(*ssa.Call); isCall && isFunc(call.Call.StaticCallee(), "strings", "ToLower") {
			if sec, idx := sectionOf(call.Call.Args[0]); sec != nil && idx == 0 {
				if sp, isSp := sec.(*ssa.Call); isSp && isFunc(sp.Call.StaticCallee(), "strings", "Split") {
					sep, _ := constString(sp.Call.Args[1])
					if sp.Call.Args[0] == ssa.Value(wrap.Params[1]) && sep == "." {
						ok, split = true, sec
					} else {
						why = "sections are not strings.Split(style, \".\")"
					}
				}
			} else {
				why = "the tag is not section 0"
			}
		}
		r.Check("R19.2", FuncName(wrap), "switch tag is ToLower(Split(style, \".\")[0])", wrap.Pos(), ok, why)
	}
	nonText := map[string]bool{}
	// the renderer sub-packages: packages of the module that have a Wrap(Table) function
	rendererPkgs := map[string]bool{}
	for _, path := range c.sortedPkgPaths() {
		if sp := c.SSA[path]; sp != nil && sp.Func("Wrap") != nil && path != pkgPath("auto") {
			rendererPkgs[sp.Pkg.Name()] = true
		}
	}
	var rp []string
	for k := range rendererPkgs {
		rp = append(rp, k)
	}
	sort.Strings(rp)
	for _, k := range rp {
		_, ok := cases[k]
		r.Check("R19.2", FuncName(wrap), fmt.Sprintf("renderer sub-package %q has a case", k), wrap.Pos(), ok, "the sub-package cannot be selected by name")
	}
	for _, a := range arms {
		if !rendererPkgs[a.Const] {
			continue // an alias: not constrained by the property
		}
		// arm returns <pkg>.Wrap(t)
		okArm, why := false, "arm does not return <package>.Wrap(t)"
		var wcall *ssa.Call
		for _, b := range wrap.Blocks {
			if !a.Entry.Dominates(b) {
				continue
			}
			for _, in := range b.Instrs {
				if call, isCall := in.(*ssa.Call); isCall {
					if f := call.Call.StaticCallee(); f != nil && f.Name() == "Wrap" && inModule(f) {
						wcall = call
					}
				}
			}
		}
		if wcall != nil {
			f := wcall.Call.StaticCallee()
			pkgName := f.Pkg.Pkg.Name()
			if pkgName != a.Const && rendererPkgs[a.Const] {
				why = fmt.Sprintf("case %q wraps with package %s", a.Const, pkgName)
			} else if wcall.Call.Args[0] != ssa.Value(wrap.Params[0]) {
				why = "wraps something other than the table it was given"
			} else {
				okArm = true
				// every return in the arm hands back that wrapper
				for _, b := range wrap.Blocks {
					if !a.Entry.Dominates(b) {
						continue
					}
					for _, in := range b.Instrs {
						if ret, isRet := in.(*ssa.Return); isRet {
							if mi, isMI := results(ret)[0].(*ssa.MakeInterface); !isMI || mi.X != ssa.Value(wcall) {
								okArm, why = false, "arm returns something other than the wrapper it built"
							}
						}
					}
				}
			}
			if f.Pkg.Pkg.Path() != pkgPath("texttable") && rendererPkgs[a.Const] {
				nonText[a.Const] = true
			}
		}
		r.Check("R19.2", FuncName(wrap), fmt.Sprintf("case %q returns %s.Wrap(t)", a.Const, a.Const), a.If.Pos(), okArm, why)
	}

	// R19.3
	{
		check := func(entry *ssa.BasicBlock, name string, wantIdx int64, needLenGuard bool) {
			var w *ssa.Call
			var sn []*ssa.Call
			for _, b := range wrap.Blocks {
				if entry == nil || !entry.Dominates(b) {
					continue
				}
				for _, in := range b.Instrs {
					if call, ok := in.(*ssa.Call); ok {
						if call.Call.StaticCallee() == ttWrap {
							w = call
						}
						if call.Call.StaticCallee() == setNamed {
							sn = append(sn, call)
						}
					}
				}
			}
			ok, why := w != nil && len(sn) == 1, fmt.Sprintf("texttable.Wrap: %v, SetDecorationNamed calls: %d", w != nil, len(sn))
			if ok {
				call := sn[0]
				sec, idx := sectionOf(call.Call.Args[1])
				switch {
				case call.Call.Args[0] != ssa.Value(w):
					ok, why = false, "the decoration is set on a different wrapper"
				case sec != split || int64(idx) != wantIdx:
					ok, why = false, fmt.Sprintf("the decoration name is not the un-lowered section %d of the style", wantIdx)
				}
				if ok && needLenGuard {
					g := false
					p := c.Idx().proverFor(wrap)
					if good, _ := p.prove(lt(linConst(wantIdx), p.lenOf(split), "section exists"), call, nil, 0); good {
						g = true
					}
					// and nothing else guards it
					extra := 0
					base := map[ssa.Value]bool{}
					for _, cf := range dominatingConds(entry) {
						base[cf.Cond] = true
					}
					for _, cf := range dominatingConds(call.Block()) {
						if !base[cf.Cond] {
							extra++
						}
					}
					if !g || extra != 1 {
						ok, why = false, "the section-1 decoration is not applied exactly when a second section exists"
					}
				}
				if ok && !needLenGuard {
					base := len(dominatingConds(entry))
					if len(dominatingConds(call.Block())) != base {
						ok, why = false, "the decoration is set only conditionally"
					}
				}
			}
			r.Check("R19.3", FuncName(wrap), name, wrap.Pos(), ok, why)
		}
		if a, ok := cases["texttable"]; ok {
			check(a.Entry, "'texttable[.NAME]' builds a text table and names the decoration by section 1 when present", 1, true)
		} else {
			r.Check("R19.3", FuncName(wrap), "has a 'texttable' case", wrap.Pos(), false, "")
		}
		check(deflt, "a bare NAME builds a text table and names the decoration by section 0 as written", 0, false)
	}

	// R19.1
	{
		var added []string
		var base ssa.Value
		var rets []*ssa.Return
		for _, ret := range returnsOf(list) {
			rets = append(rets, ret)
			v := results(ret)[0]
			for _, root := range sliceRoots(v) {
				base = root
			}
		}
		eachInstr(list, func(in ssa.Instruction) {
			if call, ok := isBuiltinCall(valueOf(in), "append"); ok {
				if _, elems, ok := appendedElems(call); ok {
					for _, e := range elems {
						if s, isS := constString(e); isS {
							added = append(added, s)
						} else {
							r.Check("R19.1", FuncName(list), "appends a non-constant style", in.Pos(), false, "")
						}
					}
				}
			}
		})
		sort.Strings(added)
		for _, s := range added {
			_, ok := cases[s]
			r.Check("R19.1", FuncName(list), fmt.Sprintf("listed %q is a case of the style switch", s), list.Pos(), ok, "advertised but not constructible")
		}
		var nt []string
		for k := range nonText {
			nt = append(nt, k)
		}
		sort.Strings(nt)
		for _, k := range nt {
			found := false
			for _, s := range added {
				if s == k {
					found = true
				}
			}
			r.Check("R19.1", FuncName(list), fmt.Sprintf("sub-package %q is listed", k), list.Pos(), found, "a renderer exists that the listing omits")
		}
		isReg := false
		if call, ok := base.(*ssa.Call); ok && call.Call.StaticCallee() != nil && call.Call.StaticCallee().Name() == "RegisteredDecorationNames" {
			isReg = true
		}
		r.Check("R19.1", FuncName(list), "the list starts from the registry's names (including application-registered ones)", list.Pos(), isReg, "")
		for i, ret := range rets {
			sorted := false
			eachInstr(list, func(in ssa.Instruction) {
				if isCallTo(in, "sort", "Strings") && sameSlice(callCommon(in).Args[0], results(ret)[0]) && instrDominates(in, ret) {
					late := false
					for _, x := range instrsAfter(in) {
						if _, ok := isBuiltinCall(valueOf(x), "append"); ok {
							late = true
						}
					}
					sorted = !late
				}
			})
			r.Check("R19.1", FuncName(list), fmt.Sprintf("return #%d is sorted after the last addition", i+1), ret.Pos(), sorted, "")
		}
		r.Floor("R19.1", "constants added by ListStyles", len(added), 4)
	}

	// premise of R19.1: the registry's listing is a fresh slice (ListStyles appends to it and sorts it in place)
	for _, gg := range c.findGuardedGlobals() {
		if gg.G.Pkg.Pkg.Path() == pkgPath("texttable/decoration") {
			sub := &Report{Rules: map[string]string{}, known: map[string]string{}, knownSeen: map[string]bool{}, Extra: map[string]interface{}{}, c: c}
			saved := c.R
			c.R = sub
			c17Listing(c, gg)
			c.R = saved
			for _, o := range sub.Obs {
				ob := r.Check("R19.1", o.Func, "registry listing premise: "+o.Construct, 0, o.Verdict == "discharged", "ListStyles extends and sorts the slice it is handed: it must be the caller's own copy")
				ob.Pos = o.Pos
			}
		}
	}

	// R19.4
	if tp := c.TPkg("texttable/decoration"); tp != nil {
		n := 0
		for _, name := range tp.Scope().Names() {
			k, ok := tp.Scope().Lookup(name).(*types.Const)
			if !ok || !strings.HasPrefix(name, "D_") || k.Val().Kind() != constant.String {
				continue
			}
			n++
			v := constant.StringVal(k.Val())
			_, clash := cases[strings.ToLower(v)]
			r.Check("R19.4", "texttable/decoration", fmt.Sprintf("built-in %q has no dot and is not a sub-package name", v), k.Pos(), !strings.Contains(v, ".") && !clash, "")
		}
		r.Floor("R19.4", "built-in decoration names", n, 6)
	}
}

// sectionOf: v is sections[idx] for a constant idx; returns the slice value and idx.
func sectionOf(v ssa.Value) (ssa.Value, int) {
	u, ok := v.(*ssa.UnOp)
	if !ok || u.Op != token.MUL {
		return nil, -1
	}
	ia, ok := u.X.(*ssa.IndexAddr)
	if !ok {
		return nil, -1
	}
	k, ok := constInt(ia.Index)
	if !ok {
		return nil, -1
	}
	return ia.X, int(k)
}

// ---- C10 ---------------------------------------------------------------------------

func runC10(c *Ctx) {
	r := c.R
	r.Explanation = "Byte identity of outputs across creation paths and nestings is not decided. Decided are the structural reasons it holds: " +
		"R10.1 at every call of RegisterPropertyCallback made by the module, every dynamic type the owner argument can have (the concrete type, or any Table implementer when the argument is a Table handed in by the caller) is either registered on the core table or the returned error is checked: the registration function is executed symbolically for each such type, and must have an interface arm that catches foreign Table implementations. " +
		"R10.2 each package-level Render/RenderTo/New and auto.Render/RenderTo/New is a pure delegation: Wrap(its parameters unchanged) followed by the same-named method. R10.3 each Render method runs its own RenderTo exactly once into a fresh bytes.Buffer and returns that buffer's contents. " +
		"R10.4 no wrapper type declares a method of the Table interface itself (all table operations are promoted unchanged to the wrapped table, however deep the nesting), and renderer code never type-asserts a Table to a concrete table type."
	r.NotDecided = []string{"byte-for-byte equality of outputs across creation paths (depends on all of the rendering code being a function of the table's observable state, which R10.4 makes wrapper-independent)"}
	r.Assumptions = []string{"method promotion through an embedded interface forwards the call unchanged (Go semantics)"}
	r.Rule("R10.1", "callback registration made by a wrapper reaches the core table for every possible owner type, or its error is checked")
	r.Rule("R10.2", "package-level Render/RenderTo/New are pure delegations to Wrap and the wrapper's method")
	r.Rule("R10.3", "Render is RenderTo into a fresh buffer")
	r.Rule("R10.4", "wrappers do not override table operations; renderers do not depend on the concrete table type")

	at := c.Named("", "ATable")
	reg := c.Method(at, true, "RegisterPropertyCallback")
	table := c.Named("", "Table")
	cc := loadCbConsts(c)
	if reg == nil || table == nil || cc == nil {
		return
	}
	tableIface := table.Underlying().(*types.Interface)
	// implementers of Table in the module
	var impls []types.Type
	var wrapperTypes []*types.Named
	for _, path := range c.sortedPkgPaths() {
		if path == pkgPath("examples") {
			continue
		}
		sc := c.Pkgs[path].Types.Scope()
		for _, n := range sc.Names() {
			tn, ok := sc.Lookup(n).(*types.TypeName)
			if !ok {
				continue
			}
			nt, ok := tn.Type().(*types.Named)
			if !ok {
				continue
			}
			if _, isI := nt.Underlying().(*types.Interface); isI {
				continue
			}
			pt := types.NewPointer(nt)
			if types.Implements(pt, tableIface) {
				impls = append(impls, pt)
				if nt != at {
					wrapperTypes = append(wrapperTypes, nt)
				}
			}
		}
	}
	r.Floor("R10.4", "Table implementers in the module", len(impls), 6)

	// R10.1
	nsites := 0
	hasIfaceArm := false
	eachInstr(reg, func(in ssa.Instruction) {
		if ta, ok := in.(*ssa.TypeAssert); ok && ta.X == ssa.Value(reg.Params[1]) {
			if it, isI := ta.AssertedType.Underlying().(*types.Interface); isI && types.Implements(table, it) {
				hasIfaceArm = true
			}
		}
	})
	for _, fn := range c.LibFuncs() {
		if fn == reg {
			continue
		}
		cnt := 0
		eachInstr(fn, func(in ssa.Instruction) {
			call, ok := in.(*ssa.Call)
			if !ok {
				return
			}
			name := ""
			if call.Call.IsInvoke() {
				name = call.Call.Method.Name()
			} else if f := call.Call.StaticCallee(); f != nil {
				name = f.Name()
			}
			if name != "RegisterPropertyCallback" {
				return
			}
			if fn.Name() == "RegisterPropertyCallback" {
				return // promoted wrappers
			}
			nsites++
			cnt++
			args := call.Call.Args
			ownerArg := args[len(args)-4]
			var target, when int64 = -1, -1
			if k, ok := constInt(args[len(args)-2]); ok {
				target = k
			}
			if k, ok := constInt(args[len(args)-3]); ok {
				when = k
			}
			checked := errorChecked(call)
			inner := unwrap(ownerArg, true)
			var types_ []types.Type
			foreign := false
			if _, isI := inner.Type().Underlying().(*types.Interface); isI {
				types_ = impls
				foreign = true // the value arrives from the caller: it may be any implementation
			} else {
				types_ = []types.Type{inner.Type()}
			}
			ok2, why := true, ""
			if target < 0 || when < 0 {
				ok2, why = false, "target/time are not constants"
			}
			for _, t := range types_ {
				if !ok2 {
					break
				}
				out, w := symRegister(c, reg, t, target, when)
				if w != "" || !(out.accepted || out.selfCall) {
					ok2, why = false, fmt.Sprintf("an owner of type %s is refused (%s) and the error is not looked at: the callback silently never runs", shortType(t), w)
				}
			}
			if ok2 && foreign && !hasIfaceArm {
				ok2, why = false, "a Table implemented outside the module would be refused: the registration switch has no interface arm"
			}
			if checked {
				ok2, why = true, "the returned error is checked"
			}
			if ok2 && why == "" {
				why = fmt.Sprintf("%d possible owner type(s), all registered on the core table", len(types_))
			}
			r.Check("R10.1", FuncName(fn), fmt.Sprintf("RegisterPropertyCallback call #%d: owner accepted for every possible type", cnt), call.Pos(), ok2, why)
		})
	}
	r.Floor("R10.1", "registration calls made by the module", nsites, 2)

	// R10.2
	nd := 0
	for _, rel := range []string{"csv", "html", "json", "markdown", "texttable", "auto"} {
		wrapFn := c.FuncOpt(rel, "Wrap")
		for _, name := range []string{"Render", "RenderTo", "New"} {
			fn := c.FuncOpt(rel, name)
			if fn == nil {
				continue
			}
			nd++
			ok, why := delegates(c, fn, wrapFn, name)
			r.Check("R10.2", FuncName(fn), "is Wrap(parameters) followed by the same-named method", fn.Pos(), ok, why)
		}
	}
	r.Floor("R10.2", "package-level delegating functions", nd, 15)

	// R10.3
	nr := 0
	for _, w := range wrapperTypes {
		fn := c.MethodOpt(w, true, "Render")
		if fn == nil {
			continue
		}
		nr++
		ok, why := renderViaBuffer(fn)
		r.Check("R10.3", FuncName(fn), "runs its own RenderTo once into a fresh buffer and returns the buffer's text", fn.Pos(), ok, why)
	}
	r.Floor("R10.3", "Render methods", nr, 5)

	// R10.4
	for _, w := range wrapperTypes {
		var clash []string
		for _, ptr := range []bool{false, true} {
			var t types.Type = w
			if ptr {
				t = types.NewPointer(w)
			}
			ms := c.Prog.MethodSets.MethodSet(t)
			for i := 0; i < ms.Len(); i++ {
				sel := ms.At(i)
				if len(sel.Index()) != 1 {
					continue // promoted
				}
				for j := 0; j < tableIface.NumMethods(); j++ {
					if tableIface.Method(j).Name() == sel.Obj().Name() {
						clash = append(clash, sel.Obj().Name())
					}
				}
			}
		}
		r.Check("R10.4", shortType(w), "declares no method of the Table interface itself", w.Obj().Pos(), len(clash) == 0, "overrides "+strings.Join(clash, ","))
		// embeds the interface, not a concrete table
		st, _ := w.Underlying().(*types.Struct)
		emb := false
		if st != nil {
			for i := 0; i < st.NumFields(); i++ {
				if st.Field(i).Embedded() && types.Identical(st.Field(i).Type(), table) {
					emb = true
				}
			}
		}
		r.Check("R10.4", shortType(w), "embeds the Table interface (any table, any nesting)", w.Obj().Pos(), emb, "")
	}
	nta := 0
	for _, fn := range c.LibFuncs() {
		if funcPkgPath(fn) == modPath {
			continue
		}
		eachInstr(fn, func(in ssa.Instruction) {
			ta, ok := in.(*ssa.TypeAssert)
			if !ok {
				return
			}
			if !types.Implements(ta.X.Type(), tableIface) {
				if _, isI := ta.X.Type().Underlying().(*types.Interface); !isI || !types.Identical(ta.X.Type(), table) {
					return
				}
			}
			if _, isI := ta.AssertedType.Underlying().(*types.Interface); isI {
				return
			}
			nta++
			r.Check("R10.4", FuncName(fn), "type assertion from Table to "+shortType(ta.AssertedType), in.Pos(), false, "rendering depends on which concrete type holds the table")
		})
	}
	if nta == 0 {
		r.Check("R10.4", "renderers", "no renderer asserts a Table to a concrete table type", 0, true, "")
	}
}

// errorChecked: the error result of call is tested against nil somewhere.
func errorChecked(call *ssa.Call) bool {
	var e ssa.Value = call
	if isTuple(call.Type()) {
		e = nil
		tl := call.Type().(*types.Tuple).Len()
		for _, rr := range referrersOf(call) {
			if ex, ok := rr.(*ssa.Extract); ok && ex.Index == tl-1 {
				e = ex
			}
		}
	}
	if e == nil {
		return false
	}
	for _, rr := range referrersOf(e) {
		switch x := rr.(type) {
		case *ssa.BinOp:
			if isNil(x.X) || isNil(x.Y) {
				return true
			}
		case *ssa.Return:
			return true
		}
	}
	return false
}

// delegates: fn(params...) = Wrap(leading params...).Name(remaining params...)   (New: Wrap(tabular.New()[, style]))
func delegates(c *Ctx, fn, wrapFn *ssa.Function, name string) (bool, string) {
	if wrapFn == nil {
		return false, "package has no Wrap"
	}
	var calls []*ssa.Call
	eachInstr(fn, func(in ssa.Instruction) {
		if call, ok := in.(*ssa.Call); ok {
			calls = append(calls, call)
		}
	})
	rets := returnsOf(fn)
	if len(rets) != 1 || len(fn.Blocks) != 1 {
		return false, "more than one path"
	}
	newFn := c.Func("", "New")
	if name == "New" {
		// Wrap(tabular.New() [, style])
		if len(calls) != 2 || calls[0].Call.StaticCallee() != newFn || calls[1].Call.StaticCallee() != wrapFn {
			return false, "is not Wrap(tabular.New(), ...)"
		}
		w := calls[1]
		if unwrap(w.Call.Args[0], true) != ssa.Value(calls[0]) {
			return false, "wraps something other than the new table"
		}
		for i, a := range w.Call.Args[1:] {
			if i >= len(fn.Params) || a != ssa.Value(fn.Params[i]) {
				return false, "style argument is not passed through"
			}
		}
		rv := unwrap(results(rets[0])[0], true)
		if rv != ssa.Value(w) {
			return false, "does not return the wrapper"
		}
		return true, ""
	}
	if len(calls) != 2 || calls[0].Call.StaticCallee() != wrapFn {
		return false, fmt.Sprintf("%d calls; first is not Wrap", len(calls))
	}
	w, m := calls[0], calls[1]
	mname := ""
	var recv ssa.Value
	margs := m.Call.Args
	if m.Call.IsInvoke() {
		mname, recv = m.Call.Method.Name(), m.Call.Value
	} else if f := m.Call.StaticCallee(); f != nil {
		mname = f.Name()
		if len(margs) > 0 {
			recv, margs = margs[0], margs[1:]
		}
	}
	if mname != name || recv != ssa.Value(w) {
		return false, "second call is not " + name + " on the wrapper"
	}
	// all parameters are used exactly once, unchanged, by one of the two calls
	used := map[ssa.Value]int{}
	for _, a := range w.Call.Args {
		used[a]++
	}
	for _, a := range margs {
		used[a]++
	}
	for _, p := range fn.Params {
		if used[p] != 1 {
			return false, "parameter " + p.Name() + " is not passed through exactly once"
		}
	}
	if len(w.Call.Args)+len(margs) != len(fn.Params) {
		return false, "extra arguments"
	}
	// results forwarded
	rv := results(rets[0])
	if len(rv) == 1 {
		if rv[0] != ssa.Value(m) {
			return false, "result is not forwarded"
		}
	} else {
		for i, v := range rv {
			ex, ok := v.(*ssa.Extract)
			if !ok || ex.Tuple != ssa.Value(m) || ex.Index != i {
				return false, "results are not forwarded"
			}
		}
	}
	return true, ""
}

// renderViaBuffer: b := &bytes.Buffer{}; err := recv.RenderTo(b); ... return b.String(), nil
func renderViaBuffer(fn *ssa.Function) (bool, string) {
	var buf *ssa.Alloc
	eachInstr(fn, func(in ssa.Instruction) {
		if al, ok := in.(*ssa.Alloc); ok && (isNamed(al.Type().(*types.Pointer).Elem(), "bytes", "Buffer") || isNamed(al.Type().(*types.Pointer).Elem(), "strings", "Builder")) {
			buf = al
		}
	})
	if buf == nil {
		return false, "no fresh buffer (bytes.Buffer / strings.Builder) allocated here"
	}
	nrt := 0
	okRecv := false
	var others []string
	for _, rr := range referrersOf(buf) {
		switch x := rr.(type) {
		case *ssa.MakeInterface:
			for _, r2 := range referrersOf(x) {
				if call, ok := r2.(*ssa.Call); ok {
					f := call.Call.StaticCallee()
					if f != nil && f.Name() == "RenderTo" && len(call.Call.Args) == 2 && call.Call.Args[0] == ssa.Value(fn.Params[0]) {
						nrt++
						okRecv = true
					} else {
						others = append(others, calleeDesc(&call.Call))
					}
				}
			}
		case *ssa.Call:
			if f := x.Call.StaticCallee(); f != nil && (funcPkgPath(f) == "bytes" || funcPkgPath(f) == "strings") && f.Name() == "String" {
				continue
			}
			others = append(others, calleeDesc(&x.Call))
		case *ssa.DebugRef:
		default:
			others = append(others, rr.String())
		}
	}
	if nrt != 1 || !okRecv {
		return false, fmt.Sprintf("RenderTo on the receiver with the buffer is called %d times", nrt)
	}
	if len(others) > 0 {
		return false, "the buffer is also used by " + strings.Join(others, ", ")
	}
	for _, ret := range returnsOf(fn) {
		rv := results(ret)
		if isNil(rv[1]) {
			call, ok := rv[0].(*ssa.Call)
			if !ok || call.Call.StaticCallee() == nil || call.Call.StaticCallee().Name() != "String" || call.Call.Args[0] != ssa.Value(buf) {
				return false, "the success return is not the buffer's String()"
			}
		}
	}
	return true, ""
}
