package main

import (
	"fmt"
	"go/token"
	"go/types"
	"os"
	"sort"

	"golang.org/x/tools/go/ssa"
)

// What Decoration.Populate guarantees non-empty, decided from what it DOES rather than from how it is spelled.
// Populate is read as a sequence of fill events, in execution order:
//
//   d.F = "x" under a test that F is empty (or unconditionally)            -> F filled from a constant
//   decorateDefaultTo(d, "F", "S")   (the reflection helper, by its names) -> F filled from S
//   h(&d.F, "x") / h(&d.F, d.S) where h's body stores its value parameter through its pointer parameter exactly
//   once, guarded only by tests that the target is empty                   -> F filled from a constant / from S
//   the same call inside a loop that visits every row of a local table literal, target and source taken from the
//   row                                                                    -> one event per row, in table order
//
// F is guaranteed non-empty after an event whose source is a non-empty constant or a field already guaranteed.
// A store of anything else into a glyph field takes the guarantee away again.

type fillEv struct {
	To, From string // From == "" : a non-empty constant; From == "?" : unknown value (kills the guarantee)
	At       token.Pos
}

// emptinessTest: (cond, val) says "the string `s` is empty", for s satisfying isTarget.
func emptinessTest(cond ssa.Value, val bool, isTarget func(ssa.Value) bool) bool {
	b, ok := cond.(*ssa.BinOp)
	if !ok {
		return false
	}
	lenOfTarget := func(v ssa.Value) bool {
		c, ok := v.(*ssa.Call)
		if !ok {
			return false
		}
		bi, isB := c.Call.Value.(*ssa.Builtin)
		return isB && bi.Name() == "len" && isTarget(c.Call.Args[0])
	}
	isEmptyStr := func(v ssa.Value) bool { s, ok := constString(v); return ok && s == "" }
	isInt := func(v ssa.Value, k int64) bool { n, ok := constInt(v); return ok && n == k }
	switch {
	case isTarget(b.X) && isEmptyStr(b.Y), isTarget(b.Y) && isEmptyStr(b.X):
		return (b.Op == token.EQL && val) || (b.Op == token.NEQ && !val)
	case lenOfTarget(b.X) && isInt(b.Y, 0):
		// len == 0 | len != 0 | len > 0 | len <= 0
		return (b.Op == token.EQL && val) || (b.Op == token.NEQ && !val) || (b.Op == token.GTR && !val) || (b.Op == token.LEQ && val)
	case lenOfTarget(b.X) && isInt(b.Y, 1):
		// len < 1 | len >= 1
		return (b.Op == token.LSS && val) || (b.Op == token.GEQ && !val)
	case lenOfTarget(b.Y) && isInt(b.X, 0):
		// 0 == len | 0 != len | 0 < len | 0 >= len
		return (b.Op == token.EQL && val) || (b.Op == token.NEQ && !val) || (b.Op == token.LSS && !val) || (b.Op == token.GEQ && val)
	}
	return false
}

// fillIfEmptyHelper: h(p *string, v string) (either order) whose only effect is *p = v, at most guarded by tests
// that *p is empty.
func fillIfEmptyHelper(h *ssa.Function) (ptrIdx, valIdx int, guarded, ok bool) {
	if h == nil || h.Blocks == nil || len(h.Params) != 2 || h.Signature.Results().Len() != 0 {
		return 0, 0, false, false
	}
	ptrIdx, valIdx = -1, -1
	for i, p := range h.Params {
		if pt, isP := p.Type().Underlying().(*types.Pointer); isP && isStringType(pt.Elem()) {
			ptrIdx = i
		} else if isStringType(p.Type()) {
			valIdx = i
		}
	}
	if ptrIdx < 0 || valIdx < 0 {
		return 0, 0, false, false
	}
	ptr, val := h.Params[ptrIdx], h.Params[valIdx]
	isTarget := func(v ssa.Value) bool {
		u, ok := v.(*ssa.UnOp)
		return ok && u.Op == token.MUL && u.X == ssa.Value(ptr)
	}
	var st *ssa.Store
	bad := false
	eachInstr(h, func(in ssa.Instruction) {
		switch x := in.(type) {
		case *ssa.Store:
			if st != nil || x.Addr != ssa.Value(ptr) || x.Val != ssa.Value(val) {
				bad = true
			}
			st = x
		case ssa.CallInstruction:
			if _, isB := x.Common().Value.(*ssa.Builtin); !isB {
				bad = true
			}
		case *ssa.Panic, *ssa.Go, *ssa.Defer, *ssa.MapUpdate, *ssa.Send:
			bad = true
		}
	})
	if bad || st == nil {
		return 0, 0, false, false
	}
	for _, cf := range expandConds(dominatingConds(st.Block())) {
		if !emptinessTest(cf.Cond, cf.Val, isTarget) {
			return 0, 0, false, false
		}
		guarded = true
	}
	return ptrIdx, valIdx, guarded, true
}

// localTableRowsOf: v is field #f of the current element of a loop over a local array literal; returns the
// value that field has in every row (in row order) and the instruction that addresses the element, or ok=false.
// Unlike localTableColumn it also reads literals whose elements are stored whole (*(&arr[k]) = *complit).
func localTableRowsOf(v ssa.Value) (rows []ssa.Value, elemAddr *tableAccess, root *ssa.Alloc, ok bool) {
	fieldIdx := -1
	cur := v
	for i := 0; i < 12 && root == nil; i++ {
		switch y := cur.(type) {
		case *ssa.Field:
			if fieldIdx < 0 {
				fieldIdx = y.Field
			}
			cur = y.X
		case *ssa.FieldAddr:
			if fieldIdx < 0 {
				fieldIdx = y.Field
			}
			cur = y.X
		case *ssa.UnOp:
			if y.Op != token.MUL {
				return nil, nil, nil, false
			}
			cur = y.X
		case *ssa.Global:
			// a package-level table that nothing but its initialiser ever writes: read the literal it was built from
			lit := globalTableLiteral(y)
			if lit == nil || elemAddr == nil {
				return nil, nil, nil, false
			}
			root = lit
		case *ssa.IndexAddr:
			if elemAddr == nil {
				elemAddr = &tableAccess{Index: y.Index, X: y.X, At: y.Block()}
			}
			cur = y.X
		case *ssa.Index:
			// an element of the array VALUE (for _, e := range [...]T{..} copies the array first)
			if elemAddr == nil {
				elemAddr = &tableAccess{Index: y.Index, X: y.X, At: y.Block()}
			}
			cur = y.X
		case *ssa.Slice:
			if y.Low != nil || y.High != nil {
				return nil, nil, nil, false
			}
			cur = y.X
		case *ssa.Alloc:
			if _, isArr := y.Type().(*types.Pointer).Elem().Underlying().(*types.Array); isArr && elemAddr != nil {
				root = y
				break
			}
			// the loop variable: a local assigned once per iteration from the element
			var only *ssa.Store
			n := 0
			for _, rr := range referrersOf(y) {
				if st, isSt := rr.(*ssa.Store); isSt && st.Addr == ssa.Value(y) {
					only = st
					n++
				}
			}
			if n != 1 {
				return nil, nil, nil, false
			}
			cur = only.Val
		default:
			return nil, nil, nil, false
		}
	}
	if root == nil || fieldIdx < 0 || elemAddr == nil {
		return nil, nil, nil, false
	}
	at := root.Type().(*types.Pointer).Elem().Underlying().(*types.Array)
	rows = make([]ssa.Value, at.Len())
	fieldStoredIn := func(base ssa.Value) ssa.Value {
		var out ssa.Value
		n := 0
		for _, r2 := range referrersOf(base) {
			fa, isFA := r2.(*ssa.FieldAddr)
			if !isFA || fa.Field != fieldIdx {
				continue
			}
			for _, r3 := range referrersOf(fa) {
				if st, isSt := r3.(*ssa.Store); isSt && st.Addr == ssa.Value(fa) {
					out = st.Val
					n++
				}
			}
		}
		if n != 1 {
			return nil
		}
		return out
	}
	for _, rr := range referrersOf(root) {
		ia, isIA := rr.(*ssa.IndexAddr)
		if !isIA {
			continue
		}
		k, isK := constInt(ia.Index)
		if !isK || k < 0 || k >= at.Len() || rows[k] != nil {
			return nil, nil, nil, false
		}
		if fv := fieldStoredIn(ia); fv != nil {
			rows[k] = fv
			continue
		}
		for _, r2 := range referrersOf(ia) {
			st, isSt := r2.(*ssa.Store)
			if !isSt || st.Addr != ssa.Value(ia) {
				continue
			}
			if u, isU := st.Val.(*ssa.UnOp); isU && u.Op == token.MUL {
				if lit, isAl := u.X.(*ssa.Alloc); isAl {
					rows[k] = fieldStoredIn(lit)
				}
			}
		}
	}
	for _, rv := range rows {
		if rv == nil {
			return nil, nil, nil, false
		}
	}
	return rows, elemAddr, root, true
}

// localTableLoopIsFull: the element address is taken at an index that runs over every row of the table.
// tableAccess: where and with which index an element of a local table is read.
type tableAccess struct {
	Index ssa.Value
	X     ssa.Value
	At    *ssa.BasicBlock
}

func (a *tableAccess) Block() *ssa.BasicBlock { return a.At }

func localTableLoopIsFull(ia *tableAccess, n int64) bool {
	if os.Getenv("TABDBG") == "fill" {
		fmt.Fprintf(os.Stderr, "  loopfull: index %s = %s in %s\n", ia.Index.Name(), ia.Index, ia.At)
	}
	isLenOfTable := func(v ssa.Value) bool {
		if k, ok := constInt(v); ok {
			return k == n
		}
		c, ok := v.(*ssa.Call)
		if !ok {
			return false
		}
		bi, isB := c.Call.Value.(*ssa.Builtin)
		if !isB || bi.Name() != "len" {
			return false
		}
		return c.Call.Args[0] == ia.X
	}
	var phi *ssa.Phi
	first := int64(0)
	switch x := ia.Index.(type) {
	case *ssa.Phi:
		phi = x
	case *ssa.BinOp:
		if q, ok := x.X.(*ssa.Phi); ok && x.Op == token.ADD {
			if k, ok := constInt(x.Y); ok && k == 1 {
				phi, first = q, -1
			}
		}
	}
	if phi == nil {
		return false
	}
	hdr := phi.Block()
	for k, pred := range hdr.Preds {
		e := phi.Edges[k]
		if hdr.Dominates(pred) {
			// back edge: previous index + 1
			if first == -1 {
				if e != ia.Index {
					return false
				}
			} else {
				b, ok := e.(*ssa.BinOp)
				if !ok || b.Op != token.ADD || b.X != ssa.Value(phi) {
					return false
				}
				if s, ok := constInt(b.Y); !ok || s != 1 {
					return false
				}
			}
		} else if k0, ok := constInt(e); !ok || k0 != first {
			return false
		}
	}
	iff, ok := hdr.Instrs[len(hdr.Instrs)-1].(*ssa.If)
	if !ok {
		return false
	}
	b, ok := iff.Cond.(*ssa.BinOp)
	if !ok || b.Op != token.LSS || b.X != ia.Index || !isLenOfTable(b.Y) {
		return false
	}
	// the element is addressed on the way into every iteration, not under a further condition
	return hdr.Succs[0].Dominates(ia.Block()) && !condInsideLoop(ia.Block())
}

// populateFillEvents reads fn (Decoration.Populate) as described at the top of this file.
func (ix *idxEngine) populateFillEvents(fn *ssa.Function, dec *types.Named, reflHelper *ssa.Function) ([]fillEv, bool, string) {
	if fn == nil || len(fn.Params) == 0 {
		return nil, false, "no Populate"
	}
	recv := fn.Params[0]
	st, _ := dec.Underlying().(*types.Struct)
	// the glyph field a pointer value addresses (on the receiver)
	fieldOfAddr := func(v ssa.Value) string {
		fa, ok := v.(*ssa.FieldAddr)
		if !ok || fa.X != ssa.Value(recv) || st == nil {
			return ""
		}
		f := st.Field(fa.Field)
		if !isStringType(f.Type()) {
			return ""
		}
		return f.Name()
	}
	fieldLoaded := func(v ssa.Value) string {
		u, ok := v.(*ssa.UnOp)
		if !ok || u.Op != token.MUL {
			return ""
		}
		return fieldOfAddr(u.X)
	}
	var out []fillEv
	order := rpoOrder(fn)
	blocks := append([]*ssa.BasicBlock(nil), fn.Blocks...)
	sort.SliceStable(blocks, func(i, j int) bool { return order[blocks[i]] < order[blocks[j]] })
	// fills made through package reflect (by whatever helpers): evaluated abstractly over the whole function; they
	// are merged with the direct ones by source position, which is execution order in this straight-line function
	reflDone := false
	if reflHelper == nil {
		re := ix.newReflEval(dec)
		evs, okR, whyR := re.eventsIn(fn, map[ssa.Value]rabs{ssa.Value(recv): {kind: "dec"}}, 0)
		if !okR {
			return nil, false, whyR
		}
		out = append(out, evs...)
		reflDone = true
	}
	// a block may be skipped by Populate's early returns only (tests of the receiver or of its boolean fields);
	// any other condition makes an event there conditional
	neutralCond := func(cond ssa.Value) bool {
		if e, _, isT := nilTest(cond); isT && e == ssa.Value(recv) {
			return true
		}
		if u, ok := cond.(*ssa.UnOp); ok {
			if u.Op == token.NOT {
				u2, ok2 := u.X.(*ssa.UnOp)
				if !ok2 {
					return false
				}
				u = u2
			}
			if fa, ok := u.X.(*ssa.FieldAddr); ok && u.Op == token.MUL && fa.X == ssa.Value(recv) {
				return true
			}
		}
		return false
	}
	guardsOf := func(b *ssa.BasicBlock, target string) (unconditional, emptyGuard bool) {
		unconditional = true
		for _, cf := range expandConds(dominatingConds(b)) {
			if h := innermostLoopHeader(b); h != nil && cf.If.Block() == h {
				continue // the loop's own test; fullness of the loop is checked where a table drives it
			}
			if neutralCond(cf.Cond) {
				continue
			}
			if target != "" && emptinessTest(cf.Cond, cf.Val, func(v ssa.Value) bool { return fieldLoaded(v) == target }) {
				emptyGuard = true
				continue
			}
			unconditional = false
		}
		return
	}
	for _, b := range blocks {
		for _, in := range b.Instrs {
			switch x := in.(type) {
			case *ssa.Store:
				to := fieldOfAddr(x.Addr)
				if to == "" {
					// *row.field = *row.fallback, written out in the loop over a local table of pointer pairs
					toRows, ia1, root1, ok1 := localTableRowsOf(x.Addr)
					if !ok1 {
						continue
					}
					if _, isK := constInt(ia1.Index); isK || loopDepth(ia1.At) == 0 {
						continue // the table literal being built, not the loop that applies it
					}
					n := root1.Type().(*types.Pointer).Elem().Underlying().(*types.Array).Len()
					// guards: the loop's own test, Populate's early returns, and "the target is empty"
					guarded, foreign := false, false
					for _, cf := range expandConds(dominatingConds(b)) {
						if h := innermostLoopHeader(b); h != nil && cf.If.Block() == h {
							continue
						}
						if neutralCond(cf.Cond) {
							continue
						}
						if emptinessTest(cf.Cond, cf.Val, func(v ssa.Value) bool {
							u, isU := v.(*ssa.UnOp)
							if !isU || u.Op != token.MUL {
								return false
							}
							r2, ia2, root2, ok2 := localTableRowsOf(u.X)
							return ok2 && root2 == root1 && ia2.Index == ia1.Index && len(r2) == len(toRows) && sameColumn(r2, toRows)
						}) {
							guarded = true
							continue
						}
						foreign = true
					}
					if os.Getenv("TABDBG") == "fill" {
						fmt.Fprintf(os.Stderr, "inline table fill at %s: %s guarded=%v foreign=%v rows=%d\n", ix.c.Pos(x.Pos()), x, guarded, foreign, len(toRows))
					}
					if foreign || !localTableLoopIsFull(ia1, n) {
						return nil, false, fmt.Sprintf("%s: the loop over the table of defaults does not fill every row (or fills under some other condition)", ix.c.Pos(x.Pos()))
					}
					var fromRows []ssa.Value
					if u, isU := x.Val.(*ssa.UnOp); isU && u.Op == token.MUL {
						if rows2, ia2, root2, ok2 := localTableRowsOf(u.X); ok2 && root2 == root1 && ia2.Index == ia1.Index {
							fromRows = rows2
						}
					}
					for k, tr := range toRows {
						toF := fieldOfAddr(tr)
						if toF == "" {
							return nil, false, fmt.Sprintf("%s: row %d of the table of defaults does not name a field of the receiver", ix.c.Pos(x.Pos()), k)
						}
						from := "?"
						if fromRows != nil {
							if f := fieldOfAddr(fromRows[k]); f != "" {
								from = f
							} else if al, isAl := fromRows[k].(*ssa.Alloc); isAl {
								// a local string that is only ever given one non-empty constant
								nst, okc := 0, true
								for _, rr := range referrersOf(al) {
									if st2, isSt := rr.(*ssa.Store); isSt && st2.Addr == ssa.Value(al) {
										nst++
										if s0, isS := constString(st2.Val); !isS || s0 == "" {
											okc = false
										}
									}
								}
								if nst == 1 && okc {
									from = ""
								}
							}
						}
						if from == "?" && guarded {
							continue
						}
						out = append(out, fillEv{toF, from, x.Pos()})
					}
					continue
				}
				uncond, _ := guardsOf(b, to)
				from := "?"
				if s, ok := constString(x.Val); ok && s != "" {
					from = ""
				} else if f := fieldLoaded(x.Val); f != "" {
					from = f
				}
				if !uncond {
					if from == "?" {
						out = append(out, fillEv{to, "?", x.Pos()}) // may or may not run: the guarantee is gone either way
					}
					continue
				}
				out = append(out, fillEv{to, from, x.Pos()})
			case ssa.CallInstruction:
				callee := x.Common().StaticCallee()
				if callee == nil {
					continue
				}
				if reflHelper != nil && callee == reflHelper {
					if uncond, _ := guardsOf(b, ""); !uncond {
						continue
					}
					prs, ok, why := ix.defaultPairsAt(x, reflHelper)
					if !ok {
						return nil, false, why
					}
					for _, pr := range prs {
						out = append(out, fillEv{pr[0], pr[1], x.Pos()})
					}
					continue
				}
				pi, vi, guarded, isFill := fillIfEmptyHelper(callee)
				if !isFill {
					continue
				}
				_ = reflDone
				args := x.Common().Args
				uncond, _ := guardsOf(b, "")
				classifyVal := func(v ssa.Value) string {
					if s, ok := constString(v); ok && s != "" {
						return ""
					}
					if f := fieldLoaded(v); f != "" {
						return f
					}
					return "?"
				}
				if to := fieldOfAddr(args[pi]); to != "" {
					from := classifyVal(args[vi])
					switch {
					case uncond && (from != "?" || !guarded):
						out = append(out, fillEv{to, from, x.Pos()})
					case !uncond && from == "?" && !guarded:
						out = append(out, fillEv{to, "?", x.Pos()})
					}
					continue
				}
				// target taken from the current row of a local table
				toRows, ia1, root1, ok1 := localTableRowsOf(args[pi])
				if !ok1 {
					if _, isPtrToGlyph := args[pi].Type().Underlying().(*types.Pointer); isPtrToGlyph {
						return nil, false, fmt.Sprintf("%s: the target of %s is neither a field of the receiver nor taken from a local table", ix.c.Pos(x.Pos()), callee.Name())
					}
					continue
				}
				n := root1.Type().(*types.Pointer).Elem().Underlying().(*types.Array).Len()
				if !localTableLoopIsFull(ia1, n) || !uncond {
					return nil, false, fmt.Sprintf("%s: the loop over the table of defaults does not visit every row unconditionally", ix.c.Pos(x.Pos()))
				}
				var fromRows []ssa.Value
				if u, isU := args[vi].(*ssa.UnOp); isU && u.Op == token.MUL {
					if rows2, ia2, root2, ok2 := localTableRowsOf(u.X); ok2 && root2 == root1 && ia2.Index == ia1.Index {
						fromRows = rows2
					}
				}
				for k, tr := range toRows {
					to := fieldOfAddr(tr)
					if to == "" {
						return nil, false, fmt.Sprintf("%s: row %d of the table of defaults does not name a field of the receiver", ix.c.Pos(x.Pos()), k)
					}
					from := "?"
					if fromRows != nil {
						if f := fieldOfAddr(fromRows[k]); f != "" {
							from = f
						}
					} else {
						from = classifyVal(args[vi])
					}
					if from == "?" && guarded {
						continue
					}
					out = append(out, fillEv{to, from, x.Pos()})
				}
			}
		}
	}
	if reflDone {
		sort.SliceStable(out, func(i, j int) bool { return out[i].At < out[j].At })
	}
	return out, true, ""
}

func (ix *idxEngine) newReflEval(dec *types.Named) *reflEval {
	re := &reflEval{ix: ix, decFields: map[string]bool{}}
	if st, ok := dec.Underlying().(*types.Struct); ok {
		for i := 0; i < st.NumFields(); i++ {
			if isStringType(st.Field(i).Type()) {
				re.decFields[st.Field(i).Name()] = true
			}
		}
	}
	return re
}

// sameColumn: two column read-outs of one local table are the same column (row by row the same value).
func sameColumn(a, b []ssa.Value) bool {
	if len(a) != len(b) {
		return false
	}
	for i := range a {
		if a[i] != b[i] {
			return false
		}
	}
	return true
}

// globalTableLiteral: g is a package-level array that is assigned once, whole, by the package initialiser from a
// literal built in a local variable, and is otherwise only read (whole, or element by element): returns that
// local variable, whose element stores give the rows.
func globalTableLiteral(g *ssa.Global) *ssa.Alloc {
	c := gCtx
	if c == nil || !inModule2(g) {
		return nil
	}
	if _, isArr := g.Type().(*types.Pointer).Elem().Underlying().(*types.Array); !isArr {
		return nil
	}
	var lit *ssa.Alloc
	nst := 0
	ok := true
	var readOnly func(v ssa.Value, d int) bool
	readOnly = func(v ssa.Value, d int) bool {
		if d > 5 {
			return false
		}
		for _, rr := range referrersOf(v) {
			switch y := rr.(type) {
			case *ssa.DebugRef, *ssa.UnOp:
			case *ssa.FieldAddr:
				if !readOnly(y, d+1) {
					return false
				}
			case *ssa.IndexAddr:
				if y.X != v || !readOnly(y, d+1) {
					return false
				}
			default:
				return false
			}
		}
		return true
	}
	for _, fn := range c.LibFuncs() {
		isInit := fn.Synthetic != "" && fn.Name() == "init" && fn.Parent() == nil
		eachInstr(fn, func(in ssa.Instruction) {
			for _, op := range in.Operands(nil) {
				if op == nil || *op != ssa.Value(g) {
					continue
				}
				switch x := in.(type) {
				case *ssa.UnOp, *ssa.DebugRef:
				case *ssa.Store:
					if x.Addr != ssa.Value(g) || !isInit {
						ok = false
						continue
					}
					nst++
					if u, isU := x.Val.(*ssa.UnOp); isU && u.Op == token.MUL {
						lit, _ = u.X.(*ssa.Alloc)
					}
				case *ssa.IndexAddr:
					if x.X != ssa.Value(g) || !readOnly(x, 0) {
						ok = false
					}
				default:
					ok = false
				}
			}
		})
	}
	if !ok || nst != 1 {
		return nil
	}
	return lit
}
