package main

import (
	"fmt"
	"go/token"
	"go/types"
	"strings"

	"golang.org/x/tools/go/ssa"
)

// ---- write sites -----------------------------------------------------------

func isIOWriter(t types.Type) bool {
	n, ok := t.(*types.Named)
	return ok && n.Obj().Pkg() != nil && n.Obj().Pkg().Path() == "io" && n.Obj().Name() == "Writer"
}

func isErrorType(t types.Type) bool {
	n, ok := t.(*types.Named)
	return ok && n.Obj().Pkg() == nil && n.Obj().Name() == "error"
}

// writerValues computes the SSA values of fn that are (derived from) an
// io.Writer parameter or free variable: the destination of a render.
// destWriterSeeds, when set, restricts the writer parameters / captured variables that count as "the destination
// writer" to those a destination writer can actually be passed for (see destinationWriters).
var destWriterSeeds map[ssa.Value]bool

func writerValues(fn *ssa.Function) map[ssa.Value]bool {
	w := map[ssa.Value]bool{}
	for _, p := range fn.Params {
		if isIOWriter(p.Type()) && (destWriterSeeds == nil || destWriterSeeds[p]) {
			w[p] = true
		}
		// a struct that carries the destination (a small "emitter" type holding the writer and what goes with it)
		if (destWriterSeeds == nil || destWriterSeeds[p]) && carriesWriter(p.Type()) {
			w[p] = true
		}
	}
	for _, fv := range fn.FreeVars {
		if destWriterSeeds != nil && !destWriterSeeds[fv] {
			continue
		}
		// a captured io.Writer variable is captured by reference: *io.Writer
		if pt, ok := fv.Type().(*types.Pointer); ok && isIOWriter(pt.Elem()) {
			w[fv] = true
		}
		if isIOWriter(fv.Type()) {
			w[fv] = true
		}
	}
	if len(w) == 0 {
		return w
	}
	for changed := true; changed; {
		changed = false
		eachInstr(fn, func(in ssa.Instruction) {
			v, ok := in.(ssa.Value)
			if !ok || w[v] {
				return
			}
			switch x := in.(type) {
			case *ssa.Phi:
				for _, e := range x.Edges {
					if w[e] {
						w[v] = true
						changed = true
						return
					}
				}
			case *ssa.ChangeInterface:
				if w[x.X] {
					w[v], changed = true, true
				}
			case *ssa.ChangeType:
				if w[x.X] {
					w[v], changed = true, true
				}
			case *ssa.MakeInterface:
				if w[x.X] {
					w[v], changed = true, true
				}
			case *ssa.TypeAssert:
				if w[x.X] {
					w[v], changed = true, true
				}
			case *ssa.Extract:
				if w[x.Tuple] {
					if _, isTA := x.Tuple.(*ssa.TypeAssert); isTA && x.Index == 0 {
						w[v], changed = true, true
					}
				}
			case *ssa.UnOp:
				if x.Op == token.MUL && w[x.X] {
					w[v], changed = true, true
				}
			case *ssa.Alloc:
				// a local variable holding the writer: stores of a writer into it
				for _, r := range referrersOf(x) {
					if st, ok := r.(*ssa.Store); ok && st.Addr == x && w[st.Val] {
						w[v], changed = true, true
					}
					// ... or a struct one of whose fields is given the writer
					if fa, ok := r.(*ssa.FieldAddr); ok && fa.X == ssa.Value(x) {
						for _, r2 := range referrersOf(fa) {
							if st, ok := r2.(*ssa.Store); ok && st.Addr == ssa.Value(fa) && w[st.Val] {
								w[v], changed = true, true
							}
						}
					}
				}
			case *ssa.Field:
				// the writer (or a nested carrier) taken out of a struct that carries it
				if w[x.X] && (isIOWriter(x.Type()) || carriesWriter(x.Type())) {
					w[v], changed = true, true
				}
			case *ssa.FieldAddr:
				if w[x.X] {
					if pt, ok := x.Type().(*types.Pointer); ok && (isIOWriter(pt.Elem()) || carriesWriter(pt.Elem())) {
						w[v], changed = true, true
					}
				}
			}
		})
	}
	return w
}

// A writeSite is a call that is handed the destination writer.
type writeSite struct {
	Fn   *ssa.Function
	Call ssa.CallInstruction
	Desc string
	Ord  int
}

// writeSitesOf lists, in block/instruction order, the calls of fn that receive a writer value.
func writeSitesOf(fn *ssa.Function, wv map[ssa.Value]bool) []*writeSite {
	var out []*writeSite
	count := map[string]int{}
	eachInstr(fn, func(in ssa.Instruction) {
		ci, ok := in.(ssa.CallInstruction)
		if !ok {
			return
		}
		cc := ci.Common()
		hit := false
		if cc.IsInvoke() && wv[cc.Value] {
			hit = true
		}
		for _, a := range cc.Args {
			if wv[a] {
				hit = true
			}
		}
		// a closure called at once, or one kept in a (once-assigned) variable and called through it
		if mc, ok := capturedLoad(cc.Value).(*ssa.MakeClosure); ok {
			for _, b := range mc.Bindings {
				if wv[b] {
					hit = true
				}
			}
		}
		if !hit {
			return
		}
		name := calleeDesc(cc)
		count[name]++
		out = append(out, &writeSite{Fn: fn, Call: ci, Desc: fmt.Sprintf("write %s#%d", name, count[name])})
	})
	return out
}

func calleeDesc(cc *ssa.CallCommon) string {
	if cc.IsInvoke() {
		return shortType(cc.Value.Type()) + "." + cc.Method.Name()
	}
	if f := cc.StaticCallee(); f != nil {
		return FuncName(f)
	}
	if b, ok := cc.Value.(*ssa.Builtin); ok {
		return b.Name()
	}
	return "dynamic call"
}

// errResultOf returns the SSA value holding the error result of a call
// (nil, false if the callee has no error result; nil, true if it has one but it is never extracted).
func errResultOf(ci ssa.CallInstruction) (ssa.Value, bool) {
	sig := ci.Common().Signature()
	res := sig.Results()
	if res.Len() == 0 || !isErrorType(res.At(res.Len()-1).Type()) {
		return nil, false
	}
	v := ci.Value()
	if v == nil {
		return nil, true // go/defer
	}
	if res.Len() == 1 {
		return v, true
	}
	for _, r := range referrersOf(v) {
		if ex, ok := r.(*ssa.Extract); ok && ex.Index == res.Len()-1 {
			return ex, true
		}
	}
	return nil, true
}

// nilTest recognises `e != nil` / `e == nil` and returns (e, successor index taken when e is non-nil).
func nilTest(cond ssa.Value) (ssa.Value, int, bool) {
	b, ok := cond.(*ssa.BinOp)
	if !ok || (b.Op != token.NEQ && b.Op != token.EQL) {
		return nil, 0, false
	}
	var e ssa.Value
	switch {
	case isNil(b.Y):
		e = b.X
	case isNil(b.X):
		e = b.Y
	default:
		return nil, 0, false
	}
	if b.Op == token.NEQ {
		return e, 0, true
	}
	return e, 1, true
}

// derivedFrom: v is e, or computed from e (a call taking e or e.Error(), a conversion, a phi all of whose edges are derived).
func derivedFrom(v, e ssa.Value, depth int) bool {
	if v == e {
		return true
	}
	if depth > 6 {
		return false
	}
	switch x := v.(type) {
	case *ssa.Call:
		if x.Call.IsInvoke() && derivedFrom(x.Call.Value, e, depth+1) {
			return true
		}
		for _, a := range x.Call.Args {
			if derivedFrom(a, e, depth+1) {
				return true
			}
		}
	case *ssa.MakeInterface:
		return derivedFrom(x.X, e, depth+1)
	case *ssa.ChangeInterface:
		return derivedFrom(x.X, e, depth+1)
	case *ssa.Slice:
		return derivedFrom(x.X, e, depth+1)
	case *ssa.Alloc:
		// varargs array: any element store derived from e
		for _, r := range referrersOf(x) {
			if ia, ok := r.(*ssa.IndexAddr); ok {
				for _, rr := range referrersOf(ia) {
					if st, ok := rr.(*ssa.Store); ok && derivedFrom(st.Val, e, depth+1) {
						return true
					}
				}
			}
		}
	case *ssa.Phi:
		for _, ed := range x.Edges {
			if !derivedFrom(ed, e, depth+1) {
				return false
			}
		}
		return len(x.Edges) > 0
	}
	return false
}

// checkW1 decides rule W1 for one write site.  Returns ok and an explanation.
func checkW1(site *writeSite, allSites map[ssa.Instruction]bool) (bool, string) {
	e, has := errResultOf(site.Call)
	if !has {
		return false, "the callee receives the writer but returns no error: a failure inside it cannot surface"
	}
	if e == nil {
		return false, "the error result is discarded (never extracted from the call)"
	}
	errIdx := func(r *ssa.Return) ssa.Value {
		if len(r.Results) == 0 {
			return nil
		}
		last := results(r)[len(r.Results)-1]
		if !isErrorType(last.Type()) {
			return nil
		}
		return last
	}
	// forward scan from the call to the first branch.
	cur := e // the value that holds this write's error on the path being followed
	start := site.Call.(ssa.Instruction)
	b := start.Block()
	idx := instrIndex(start) + 1
	visited := map[*ssa.BasicBlock]bool{}
	for {
		for ; idx < len(b.Instrs); idx++ {
			in := b.Instrs[idx]
			if allSites[in] {
				return false, "another write is issued before this write's error is examined"
			}
			switch t := in.(type) {
			case *ssa.Return:
				rv := errIdx(t)
				if rv != nil && (derivedFrom(rv, e, 0) || derivedFrom(rv, cur, 0)) {
					return true, "error returned directly"
				}
				return false, "function returns without handing back this write's error"
			case *ssa.If:
				te, nonNil, ok := nilTest(t.Cond)
				if !ok || (te != e && te != cur) {
					return false, "the branch after the write does not test this write's error against nil"
				}
				return nonNilRegionOK(b.Succs[nonNil], b.Succs[1-nonNil], te, allSites, errIdx)
			case *ssa.Jump:
				// fallthrough to successor
			case *ssa.Panic:
				return false, "panics after the write"
			}
		}
		if len(b.Succs) != 1 || visited[b.Succs[0]] {
			return false, "control leaves the write without testing its error"
		}
		visited[b] = true
		nb := b.Succs[0]
		// a variable shared by several writes (err = writeA() / err = writeB(); if err != nil ..): where the paths
		// meet, the merged value IS this write's error on the path that comes from here, so a test of the merged
		// value is a test of it
		prev := b
		b, idx = nb, 0
		for idx < len(b.Instrs) {
			phi, ok := b.Instrs[idx].(*ssa.Phi)
			if !ok {
				break
			}
			for k, pr := range b.Preds {
				if pr == prev && k < len(phi.Edges) && (phi.Edges[k] == e || phi.Edges[k] == cur) {
					cur = phi
				}
			}
			idx++
		}
	}
}

// nonNilRegionOK: from the successor taken when e != nil, every path must reach a
// return carrying (something derived from) e, without any further write.
func nonNilRegionOK(start, other *ssa.BasicBlock, e ssa.Value, allSites map[ssa.Instruction]bool, errIdx func(*ssa.Return) ssa.Value) (bool, string) {
	if start == other {
		return false, "both branches of the nil test go to the same place"
	}
	seen := map[*ssa.BasicBlock]bool{}
	var walk func(b *ssa.BasicBlock) (bool, string)
	walk = func(b *ssa.BasicBlock) (bool, string) {
		if seen[b] {
			return false, "the error path loops"
		}
		seen[b] = true
		for _, in := range b.Instrs {
			if allSites[in] {
				return false, "a write is issued on the path taken after this write failed"
			}
			if r, ok := in.(*ssa.Return); ok {
				rv := errIdx(r)
				if rv == nil || !derivedFrom(rv, e, 0) {
					return false, "the failure path returns something other than this write's error"
				}
				return true, ""
			}
			if _, ok := in.(*ssa.Panic); ok {
				return false, "the failure path panics"
			}
		}
		if len(b.Succs) == 0 {
			return false, "the failure path ends without return"
		}
		for _, s := range b.Succs {
			if ok, why := walk(s); !ok {
				return false, why
			}
		}
		return true, ""
	}
	ok, why := walk(start)
	if ok {
		return true, "error tested against nil immediately; the non-nil branch returns it with no further write"
	}
	return false, why
}

// ---- C15 ---------------------------------------------------------------------

func init() { register("C15", runC15) }

func runC15(c *Ctx) {
	r := c.R
	r.Explanation = "Rule W1 at every write site of every module function that holds the destination io.Writer: the write's error result is returned, or tested against nil before any further write with the non-nil branch returning it (or a wrap of it) without writing again. " +
		"W1 at all sites implies structurally that RenderTo returns non-nil for a failing write wherever it happens and that nothing is offered to the writer after the first failure, so the accepted bytes are a prefix of the fault-free output. " +
		"Decided: the error discipline at each site, for every table and every failure point at once. Not decided: the byte content of the prefix (follows from determinism of the writes before the failure), and absence of panics (C09)."
	r.NotDecided = []string{"byte-level equality of the accepted prefix with the fault-free output", "writers that violate io.Writer's contract (n < len(p) with nil error)"}
	r.Assumptions = []string{"fmt.Fprint*/io.WriteString/html/template.Execute report the writer's error and issue no further write after it (standard library)", "a write site is any call handed a value derived from an io.Writer parameter"}
	r.Rule("W1", "every call that receives the destination writer has its error returned or nil-tested before any further write; the non-nil branch returns it without writing")
	r.Rule("W0", "every RenderTo method has a writer parameter and at least one write site reachable")

	nsites := 0
	pk := map[string]bool{}
	// the destination writer is the one the caller hands to an exported function (RenderTo and the like); it reaches
	// other functions only by being passed on or captured. Code that formats into a buffer of its own (debug
	// printing) never holds it.
	destWriterSeeds = destinationWriters(c)
	defer func() { destWriterSeeds = nil }()
	for _, fn := range c.LibFuncs() {
		wv := writerValues(fn)
		if len(wv) == 0 {
			continue
		}
		sites := writeSitesOf(fn, wv)
		all := map[ssa.Instruction]bool{}
		for _, s := range sites {
			all[s.Call.(ssa.Instruction)] = true
		}
		for _, s := range sites {
			ok, why := checkW1(s, all)
			r.Check("W1", FuncName(fn), s.Desc, s.Call.Pos(), ok, why)
			nsites++
			pk[funcPkgPath(fn)] = true
		}
	}
	r.Floor("W1", "write sites", nsites, 25)
	r.Floor("W1", "packages with write sites", len(pk), 5)
	// no output bytes survive a render: RenderTo keeps no buffer in the wrapper (what a failed render left there
	// would come out in front of the next one)
	r.Rule("W3", "a renderer keeps no buffered output in its wrapper between renders")
	nrt := 0
	for _, fn := range c.LibFuncs() {
		if fn.Name() != "RenderTo" || fn.Signature.Recv() == nil {
			continue
		}
		nrt++
		hs := receiverStateHandedOut(c, fn)
		for _, ef := range hs {
			r.Check("W3", FuncName(fn), "hands part of the wrapper itself to "+strings.TrimPrefix(ef.What, "opaque:"), ef.At.Pos(), false,
				"state that lives in the wrapper is filled during a render and can outlive a failed one")
		}
		if len(hs) == 0 {
			r.Check("W3", FuncName(fn), "no buffer or other callee-modified state inside the wrapper", fn.Pos(), true, "")
		}
	}
	r.Floor("W3", "RenderTo methods", nrt, 5)
	// "without panicking": the code that runs when a write fails (and everything else in the functions that
	// write) has no reachable panic (C09's R09.P obligations of the functions that hold a write site)
	r.Rule("W2", "the functions that write cannot panic, on the error path or elsewhere")
	holders := map[string]bool{}
	for _, o := range r.Obs {
		if o.Rule == "W1" {
			holders[o.Func] = true
		}
	}
	// ... and the module functions they call (an error constructor used on the failure path, say), two levels deep
	for _, fn := range c.LibFuncs() {
		if !holders[FuncName(fn)] {
			continue
		}
		var mark func(f *ssa.Function, d int)
		mark = func(f *ssa.Function, d int) {
			eachInstr(f, func(in ssa.Instruction) {
				if cal := staticCallee(in); cal != nil && inModule(cal) && cal.Blocks != nil && !holders[FuncName(cal)] {
					holders[FuncName(cal)] = true
					if d < 2 {
						mark(cal, d+1)
					}
				}
			})
		}
		mark(fn, 0)
	}
	importPremises(c, "W2", "no-panic premise ", "a panic on the way out replaces the error the caller should get", func(o *Ob) bool { return o.Rule == "R09.P" && holders[o.Func] }, func() { runC09(c) })
	// W0: the five renderers
	n := 0
	for _, rel := range []string{"csv", "html", "json", "markdown", "texttable"} {
		for _, fn := range c.ModFuncs(rel) {
			if fn.Name() == "RenderTo" && fn.Signature.Recv() != nil {
				wv := writerValues(fn)
				sites := writeSitesOf(fn, wv)
				r.Check("W0", FuncName(fn), "has write sites", fn.Pos(), len(sites) > 0, fmt.Sprintf("%d write sites", len(sites)))
				n++
			}
		}
	}
	r.Floor("W0", "RenderTo methods", n, 5)
}

// destinationWriters: writer-typed parameters of exported functions, closed under "passed as an argument to a
// module function" and "captured by a closure".
func destinationWriters(c *Ctx) map[ssa.Value]bool {
	seeds := map[ssa.Value]bool{}
	for _, fn := range c.LibFuncs() {
		if fn.Parent() == nil && fn.Object() != nil && fn.Object().Exported() {
			for _, p := range fn.Params {
				if isIOWriter(p.Type()) {
					seeds[p] = true
				}
			}
		}
	}
	eff := c.Effects()
	for changed := true; changed; {
		changed = false
		for _, fn := range c.LibFuncs() {
			destWriterSeeds = seeds
			wv := writerValues(fn)
			if len(wv) == 0 {
				continue
			}
			eachInstr(fn, func(in ssa.Instruction) {
				if mc, ok := in.(*ssa.MakeClosure); ok {
					g, _ := mc.Fn.(*ssa.Function)
					for i, b := range mc.Bindings {
						if wv[b] && g != nil && i < len(g.FreeVars) && !seeds[g.FreeVars[i]] {
							seeds[g.FreeVars[i]] = true
							changed = true
						}
					}
					return
				}
				ci, ok := in.(ssa.CallInstruction)
				if !ok {
					return
				}
				cc := ci.Common()
				for _, g := range eff.calleesAt(fn, ci) {
					if g == nil || !inModule(g) || g.Blocks == nil {
						continue
					}
					off := 0
					if cc.IsInvoke() {
						off = 1
					}
					for k, a := range cc.Args {
						if wv[a] && k+off < len(g.Params) && !seeds[g.Params[k+off]] {
							seeds[g.Params[k+off]] = true
							changed = true
						}
					}
				}
			})
		}
	}
	destWriterSeeds = nil
	return seeds
}

// carriesWriter: t is a struct (or pointer to one) with a field of type io.Writer, directly or one level down.
func carriesWriter(t types.Type) bool {
	return carriesWriterDepth(t, 0)
}

func carriesWriterDepth(t types.Type, depth int) bool {
	if depth > 2 {
		return false
	}
	if pt, ok := t.Underlying().(*types.Pointer); ok {
		t = pt.Elem()
	}
	st, ok := t.Underlying().(*types.Struct)
	if !ok {
		return false
	}
	for i := 0; i < st.NumFields(); i++ {
		ft := st.Field(i).Type()
		if isIOWriter(ft) || carriesWriterDepth(ft, depth+1) {
			return true
		}
	}
	return false
}
