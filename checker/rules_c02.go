package main

import (
	"fmt"
	"go/types"

	"golang.org/x/tools/go/ssa"
)

func init() { register("C02", runC02) }

// appendedElems: v = append(s, e1..en) with a literal variadic list; returns s and the elements.
func appendedElems(v ssa.Value) (base ssa.Value, elems []ssa.Value, ok bool) {
	call, is := isBuiltinCall(v, "append")
	if !is || len(call.Call.Args) != 2 {
		return nil, nil, false
	}
	sl, is := call.Call.Args[1].(*ssa.Slice)
	if !is {
		return call.Call.Args[0], nil, true // append(s, t...)
	}
	al, is := sl.X.(*ssa.Alloc)
	if !is {
		return call.Call.Args[0], nil, true
	}
	for _, r := range referrersOf(al) {
		if ia, ok := r.(*ssa.IndexAddr); ok {
			for _, rr := range referrersOf(ia) {
				if st, ok := rr.(*ssa.Store); ok && st.Addr == ssa.Value(ia) {
					elems = append(elems, st.Val)
				}
			}
		}
	}
	return call.Call.Args[0], elems, true
}

func runC02(c *Ctx) {
	r := c.R
	r.Explanation = "Counts, order and addressing are maintained by a handful of stores; each rule checks every writer of one piece of that state. " +
		"R02.1 the row list is append-only (each store appends exactly one row to the field's own previous value) and NRows is its length; R02.2 a row's number and a cell's column number are the list's length right after the append that installed them, on the object just appended (so Location() is the (r,c) it is found at); " +
		"R02.3 every function that grows a row's cells or installs a row also brings the column count up to that row's cell count (when the row is in a table), the column count is written only by the constructor and by the resize helper, which only increases it and keeps len(columns)==nColumns+1; " +
		"R02.4 CellAt returns &rows[r-1].cells[c-1] exactly, with nil pointer iff non-nil error, all index obligations discharged, and Column(n) is non-nil exactly for 0<=n<=nColumns; R02.5 no function hands out the row list itself (AllRows returns a fresh copy). " +
		"Decided: these writer/reader pairings for every history of building calls. Not decided: the numeric values of the counts beyond the pairings (they follow by induction over the history from R02.1-3)."
	r.NotDecided = []string{"an explicit inductive proof over histories that NColumns equals the maximum cell count (the step is R02.3, the induction is argued in prose)", "Row.Cells() hands out the row's own cell slice (documented; the property only speaks of the row list)"}
	r.Assumptions = []string{"struct fields are unexported, so all writers are in the module"}
	r.Rule("R02.1", "ATable.rows is append-only, one row per store; NRows returns its length")
	r.Rule("R02.2", "row and column numbers are the list length right after the installing append, stored on the appended object")
	r.Rule("R02.3", "growing a row or installing a row brings the table's column count up to the row's cell count; only the resize helper and the constructor write the count, and it never decreases")
	r.Rule("R02.4", "lookup returns exactly the addressed cell, nil iff error; Column(n) non-nil exactly on 0..nColumns")
	r.Rule("R02.5", "the table's own row slice never escapes")

	at := c.Named("", "ATable")
	row := c.Named("", "Row")
	cell := c.Named("", "Cell")
	rows, nCols, cols, hdr := c.Field(at, "rows"), c.Field(at, "nColumns"), c.Field(at, "columns"), c.Field(at, "headerRow")
	cells, rowNum, inTable := c.Field(row, "cells"), c.Field(row, "rowNum"), c.Field(row, "inTable")
	colNum, inRow := c.Field(cell, "columnNum"), c.Field(cell, "inRow")
	resize := c.Method(at, true, "resizeColumnsAtLeast")
	if rows == nil || nCols == nil || cols == nil || hdr == nil || cells == nil || rowNum == nil || inTable == nil || colNum == nil || inRow == nil || resize == nil {
		return
	}
	ix := c.Idx()

	// ---- R02.1
	nr := 0
	for _, fs := range c.StoresTo(rows) {
		nr++
		if fs.Fresh {
			isMake := false
			switch x := fs.St.Val.(type) {
			case *ssa.MakeSlice:
				isMake = true
			case *ssa.Slice:
				_, isMake = x.X.(*ssa.Alloc)
			}
			r.Check("R02.1", FuncName(fs.Fn), "initial ATable.rows is an empty make", fs.St.Pos(), isMake && ix.proverFor(fs.Fn).lenOf(fs.St.Val).String() == "0", "")
			continue
		}
		base, elems, ok := appendedElems(fs.St.Val)
		good := ok && len(elems) == 1
		if good {
			f, b := loadedField(base)
			good = f == rows && b == fs.Base
		}
		r.Check("R02.1", FuncName(fs.Fn), "store ATable.rows = append(same rows, one row)", fs.St.Pos(), good, "rows must only ever be extended at the end by one row")
	}
	r.Floor("R02.1", "writers of ATable.rows", nr, 2)
	if fn := c.Method(at, true, "NRows"); fn != nil {
		for i, ret := range returnsOf(fn) {
			v := results(ret)[0]
			call, ok := isBuiltinCall(v, "len")
			good := false
			if ok {
				f, b := loadedField(call.Call.Args[0])
				good = f == rows && b == ssa.Value(fn.Params[0])
			}
			r.Check("R02.1", FuncName(fn), fmt.Sprintf("return #%d is len(rows)", i+1), ret.Pos(), good, "")
		}
	}
	if fn := c.Method(at, true, "NColumns"); fn != nil {
		for i, ret := range returnsOf(fn) {
			r.Check("R02.1", FuncName(fn), fmt.Sprintf("return #%d is the nColumns field", i+1), ret.Pos(), isGetterOf(fn, nCols), "")
		}
	}

	// ---- R02.2
	nn := 0
	for _, fs := range c.StoresTo(rowNum) {
		if fs.Fresh {
			continue
		}
		nn++
		p := ix.proverFor(fs.Fn)
		// the append-store of rows in the same function that dominates this store
		ok, why := false, "no dominating append to rows in this function"
		for _, as := range c.StoresTo(rows) {
			if as.Fn != fs.Fn || as.Fresh || !instrDominates(as.St, fs.St) {
				continue
			}
			_, elems, isApp := appendedElems(as.St.Val)
			if !isApp || len(elems) != 1 {
				continue
			}
			if elems[0] != fs.Base {
				why = "the numbered row is not the row just appended"
				continue
			}
			if p.linOf(fs.St.Val).String() != p.lenOf(as.St.Val).String() {
				why = "stored number " + p.linOf(fs.St.Val).String() + " is not the list length after the append " + p.lenOf(as.St.Val).String()
				continue
			}
			ok, why = true, "rowNum = len(rows) after appending this row"
		}
		r.Check("R02.2", FuncName(fs.Fn), "store Row.rowNum", fs.St.Pos(), ok, why)
	}
	r.Floor("R02.2", "writers of Row.rowNum", nn, 1)
	nc := 0
	for _, fs := range c.StoresTo(colNum) {
		if fs.Fresh {
			// alternative shape: the number is set on the function's own copy of the cell, which is then appended;
			// it must be the cell count the row has after that append, and inRow must be set on the same copy
			al, isAl := fs.Base.(*ssa.Alloc)
			if !isAl {
				continue
			}
			p := ix.proverFor(fs.Fn)
			for _, as := range c.StoresTo(cells) {
				if as.Fn != fs.Fn || as.Fresh {
					continue
				}
				_, elems, isApp := appendedElems(as.St.Val)
				if !isApp || len(elems) != 1 {
					continue
				}
				ld, isLd := elems[0].(*ssa.UnOp)
				if !isLd || ld.X != ssa.Value(al) || !instrDominates(fs.St, ld) {
					continue
				}
				nc++
				okv := p.linOf(fs.St.Val).String() == p.lenOf(as.St.Val).String()
				okRow := false
				for _, rs := range c.StoresTo(inRow) {
					if rs.Fn == fs.Fn && rs.Base == fs.Base && rs.St.Val == as.Base && instrDominates(rs.St, ld) {
						okRow = true
					}
				}
				r.Check("R02.2", FuncName(fs.Fn), "store Cell.columnNum", fs.St.Pos(), okv && okRow, fmt.Sprintf("set on the copy that is then appended: number == cell count after the append: %v; inRow set on it: %v", okv, okRow))
			}
			continue
		}
		nc++
		p := ix.proverFor(fs.Fn)
		ok, why := false, "no dominating append to cells in this function"
		for _, as := range c.StoresTo(cells) {
			if as.Fn != fs.Fn || as.Fresh || !instrDominates(as.St, fs.St) {
				continue
			}
			if p.linOf(fs.St.Val).String() != p.lenOf(as.St.Val).String() {
				why = "stored column number is not the cell count after the append"
				continue
			}
			// the numbered cell is &cells[len-1]
			ia, isIA := fs.Base.(*ssa.IndexAddr)
			if !isIA {
				why = "the numbered cell is not an element of the row's cells"
				continue
			}
			f, b := loadedField(ia.X)
			if f != cells || b != as.Base {
				why = "the numbered cell is not in the row that was extended"
				continue
			}
			if p.linOf(ia.Index).String() != p.lenOf(as.St.Val).sub(linConst(1)).String() {
				why = "the numbered cell is not the last one"
				continue
			}
			// inRow set on the same cell to the same row
			okRow := false
			for _, rs := range c.StoresTo(inRow) {
				if rs.Fn == fs.Fn && rs.Base == fs.Base && rs.St.Val == as.Base {
					okRow = true
				}
			}
			if !okRow {
				why = "inRow is not set on the appended cell"
				continue
			}
			ok, why = true, "columnNum = len(cells) after the append, on &cells[len-1], inRow = the row"
		}
		r.Check("R02.2", FuncName(fs.Fn), "store Cell.columnNum", fs.St.Pos(), ok, why)
	}
	r.Floor("R02.2", "writers of Cell.columnNum", nc, 1)
	// inTable stored alongside rowNum
	for _, fs := range c.StoresTo(rowNum) {
		if fs.Fresh {
			continue
		}
		ok := false
		for _, ts := range c.StoresTo(inTable) {
			if ts.Fn == fs.Fn && ts.Base == fs.Base {
				for _, as := range c.StoresTo(rows) {
					if as.Fn == fs.Fn && ts.St.Val == as.Base {
						ok = true
					}
				}
			}
		}
		r.Check("R02.2", FuncName(fs.Fn), "Row.inTable is set to the table on the installed row", fs.St.Pos(), ok, "")
	}
	// Location()
	c02Location(c, cell, row, colNum, inRow, rowNum)

	// ---- R02.3
	c02Growth(c, ix, rows, hdr, cells, inTable, nCols, cols, resize)

	// a row the library builds can hold cells unless it is a separator: Row.Add refuses rows whose cell storage
	// is nil, so cells added to such a row would never be counted
	c02RowStorage(c, row, cells)

	// ---- R02.4
	c02Lookup(c, ix, at, rows, cells, nCols, cols)

	// ---- R02.5
	nesc := 0
	for _, fn := range c.LibFuncs() {
		for _, ret := range returnsOf(fn) {
			for i, v := range results(ret) {
				if _, ok := v.Type().Underlying().(*types.Slice); !ok {
					continue
				}
				for _, root := range sliceRoots(v) {
					if f, _ := loadedField(root); f == rows {
						nesc++
						r.Check("R02.5", FuncName(fn), fmt.Sprintf("result #%d is the table's own row slice", i), ret.Pos(), false, "a caller could reorder or truncate the table through it")
					}
				}
			}
		}
		eachInstr(fn, func(in ssa.Instruction) {
			if st, ok := in.(*ssa.Store); ok {
				if _, isSlice := st.Val.Type().Underlying().(*types.Slice); !isSlice {
					return
				}
				if f, _ := storeField(st.Addr); f == rows {
					return
				}
				for _, root := range sliceRoots(st.Val) {
					if f, _ := loadedField(root); f == rows {
						nesc++
						r.Check("R02.5", FuncName(fn), "the table's own row slice is stored elsewhere", st.Pos(), false, "aliasing the row list")
					}
				}
			}
		})
	}
	if allRows := c.Method(at, true, "AllRows"); allRows != nil {
		for i, ret := range returnsOf(allRows) {
			v := results(ret)[0]
			ok, why := freshFullCopy(ix, allRows, v, ret, func(x ssa.Value) bool { f, _ := loadedField(x); return f == rows }, 0)
			r.Check("R02.5", FuncName(allRows), fmt.Sprintf("return #%d is a fresh full copy of the row list", i+1), ret.Pos(), ok, why)
		}
	}
	if nesc == 0 {
		r.Check("R02.5", "module", "no function returns or stores the rows field's slice", 0, true, fmt.Sprintf("%d functions scanned", len(c.LibFuncs())))
	}
}

func c02Location(c *Ctx, cell, row *types.Named, colNum, inRow, rowNum *types.Var) {
	r := c.R
	tp := c.TPkg("")
	loc := c.Named("", "CellLocation")
	if tp == nil || loc == nil {
		return
	}
	lr, lc := c.Field(loc, "Row"), c.Field(loc, "Column")
	if fn := c.Method(cell, false, "Location"); fn != nil {
		okC, okR := false, false
		eachInstr(fn, func(in ssa.Instruction) {
			st, ok := in.(*ssa.Store)
			if !ok {
				return
			}
			f, _ := storeField(st.Addr)
			if f == lc {
				okC = recvFieldRead(fn, st.Val, colNum)
			}
			if f == lr {
				// load rowNum of (load inRow of receiver)
				if fl, base := loadedField(st.Val); fl == rowNum {
					okR = recvFieldRead(fn, base, inRow)
				}
			}
		})
		r.Check("R02.2", FuncName(fn), "Location().Column is the cell's columnNum", fn.Pos(), okC, "")
		r.Check("R02.2", FuncName(fn), "Location().Row is the rowNum of the cell's row", fn.Pos(), okR, "")
	}
	if fn := c.Method(row, true, "Location"); fn != nil {
		okR := false
		eachInstr(fn, func(in ssa.Instruction) {
			st, ok := in.(*ssa.Store)
			if !ok {
				return
			}
			if f, _ := storeField(st.Addr); f == lr {
				fl, base := loadedField(st.Val)
				okR = fl == rowNum && base == ssa.Value(fn.Params[0])
			}
		})
		r.Check("R02.2", FuncName(fn), "Row.Location().Row is the row's rowNum", fn.Pos(), okR, "")
	}
}

func c02Growth(c *Ctx, ix *idxEngine, rows, hdr, cells, inTable, nCols, cols *types.Var, resize *ssa.Function) {
	r := c.R
	// writers of the count
	nw := 0
	for _, f := range []*types.Var{nCols, cols} {
		for _, fs := range c.StoresTo(f) {
			nw++
			ok := fs.Fresh || fs.Fn == resize
			r.Check("R02.3", FuncName(fs.Fn), "store ATable."+f.Name(), fs.St.Pos(), ok, "the column bookkeeping is written outside its constructor and resize helper")
		}
	}
	r.Floor("R02.3", "writers of nColumns/columns", nw, 3)
	// the list of column handles only ever grows at its end: what is stored into ATable.columns is the table's own
	// list (extended, resliced), or a new slice into which the whole of the old list was copied first - a column
	// handle handed out earlier, and the properties set through it, stay the column's
	for _, fs := range c.StoresTo(cols) {
		if fs.Fresh {
			continue
		}
		p := ix.proverFor(fs.Fn)
		isOwn := func(v ssa.Value) bool {
			f, b := loadedField(p.resolve(v))
			return f == cols && b == fs.Base
		}
		good, why := true, ""
		for _, root := range sliceRoots(fs.St.Val) {
			if isNil(root) || isOwn(root) {
				continue
			}
			ms, isMS := root.(*ssa.MakeSlice)
			if !isMS {
				good, why = false, "the list is replaced by "+root.String()
				continue
			}
			copied := false
			eachInstr(fs.Fn, func(in ssa.Instruction) {
				call, is := isBuiltinCall(valueOf(in), "copy")
				if !is || !sameSlice(call.Call.Args[0], ms) || !instrDominates(in, fs.St) {
					return
				}
				for _, src := range sliceRoots(call.Call.Args[1]) {
					if !isOwn(src) {
						continue
					}
					// every old entry fits: len(old) <= len(destination) where the copy is made
					if ok, _ := p.prove(leq(p.lenOf(call.Call.Args[1]), p.lenOf(call.Call.Args[0]), "copy takes every old entry"), in, nil, 0); ok {
						copied = true
					}
				}
			})
			if !copied {
				good, why = false, "the list is replaced by a new slice that was not first filled with every entry of the old one (copy copies min(len(dst), len(src)) entries): column handles and their properties are lost"
			}
		}
		r.Check("R02.3", FuncName(fs.Fn), "store ATable.columns keeps every existing column handle in place", fs.St.Pos(), good, why)
	}
	r.Check("R02.3", FuncName(resize), "the column count never decreases", resize.Pos(), ix.nonDecreasingField(nCols), "every store of nColumns is dominated by a comparison that makes the new value >= the old one")
	inv := ix.invariants()
	if len(inv) > 0 {
		r.Check("R02.3", "tabular.ATable", "len(columns) == nColumns+1 is established by the constructor and preserved by every writer", resize.Pos(), ix.invariantHolds(inv[0]), "")
	}
	// resize stores its parameter
	for _, fs := range c.StoresTo(nCols) {
		if fs.Fn == resize {
			r.Check("R02.3", FuncName(resize), "nColumns is set to the requested count", fs.St.Pos(), fs.St.Val == ssa.Value(resize.Params[1]), "")
		}
	}

	// growth => resize
	ng := 0
	type grower struct {
		fn     *ssa.Function
		at     ssa.Instruction
		grows  bool      // grows Row.cells (as opposed to installing a row)
		newLen ssa.Value // the grown cells slice (for grows)
		rowV   ssa.Value // the row whose cell count matters
		tableV ssa.Value // the table (for installs)
		what   string
	}
	var gs []grower
	for _, fs := range c.StoresTo(cells) {
		if fs.Fresh {
			continue
		}
		gs = append(gs, grower{fn: fs.Fn, at: fs.St, grows: true, newLen: fs.St.Val, rowV: fs.Base, what: "grows Row.cells"})
	}
	for _, e := range c.installEvents(rows, hdr) {
		if e.Lifted {
			continue // the obligation is checked at the helper's call sites
		}
		gs = append(gs, grower{fn: e.Fn, at: e.At, rowV: e.Row, tableV: e.Table, what: e.What})
	}
	for _, g := range gs {
		ng++
		fn := g.fn
		p := ix.proverFor(fn)
		// exempt: a row built by a constructor that stores no cells (separator)
		if call, ok := g.rowV.(*ssa.Call); ok {
			if f := call.Call.StaticCallee(); f != nil && inModule(f) {
				storesCells := false
				for _, fs := range c.StoresTo(cells) {
					if fs.Fn == f {
						storesCells = true
					}
				}
				if !storesCells && !g.grows {
					r.Check("R02.3", FuncName(fn), g.what+": row without a cell list has nothing to count", g.at.Pos(), true, "built by "+FuncName(f)+", which stores no cells")
					continue
				}
			}
		}
		// likewise a row allocated right here whose cell list is never set
		if al, isAl := g.rowV.(*ssa.Alloc); isAl && !g.grows {
			storesCells := false
			for _, fs := range c.StoresTo(cells) {
				if fs.Base == ssa.Value(al) {
					storesCells = true
				}
			}
			if !storesCells {
				r.Check("R02.3", FuncName(fn), g.what+": row without a cell list has nothing to count", g.at.Pos(), true, "built here without cells")
				continue
			}
		}
		ok, why := false, "no call to the resize helper with this row's cell count"
		eachInstr(fn, func(in ssa.Instruction) {
			if staticCallee(in) != resize || ok {
				return
			}
			cc := callCommon(in)
			arg := cc.Args[1]
			// the argument is the row's cell count
			argOK := false
			al := p.linOf(arg)
			if g.grows {
				argOK = al.String() == p.lenOf(g.newLen).String()
			} else {
				// len(row.cells) read in this function, or len(items) of the variadic from which the row is filled
				if call, is := isBuiltinCall(p.resolve(arg), "len"); is {
					a0 := call.Call.Args[0]
					if f, b := loadedField(a0); f == cells && b == g.rowV {
						argOK = true
					} else if par, isPar := a0.(*ssa.Parameter); isPar && fillsRowFromParam(fn, g.rowV, par) {
						argOK = true
					}
				}
			}
			if !argOK {
				why = "resize is called with something other than this row's cell count"
				return
			}
			// guard: only "row is in a table" may stand between the growth and the resize
			extra := 0
			storeConds := map[ssa.Value]bool{}
			for _, cf := range dominatingConds(g.at.Block()) {
				storeConds[cf.Cond] = true
			}
			for _, cf := range dominatingConds(in.Block()) {
				if storeConds[cf.Cond] {
					continue
				}
				e, nn, isNil := nilTest(cf.Cond)
				if isNil {
					if f, b := loadedField(e); f == inTable && b == g.rowV && ((nn == 0) == cf.Val) {
						continue
					}
				}
				extra++
			}
			if extra > 0 {
				why = "the resize is conditional on something other than the row being in a table"
				return
			}
			// receiver: the table the row is in / being installed in
			recv := cc.Args[0]
			recvOK := false
			if g.grows {
				f, b := loadedField(recv)
				recvOK = f == inTable && b == g.rowV
			} else {
				recvOK = capturedLoad(recv) == g.tableV
			}
			if !recvOK {
				why = "resize is applied to a different table"
				return
			}
			ok, why = true, "resize(len(cells)) on the owning table, unconditionally or under inTable != nil"
		})
		r.Check("R02.3", FuncName(fn), g.what+" and keeps the column count in step", g.at.Pos(), ok, why)
	}
	r.Floor("R02.3", "functions that grow or install a row", ng, 3)
}

// fillsRowFromParam: fn appends exactly one cell per element of the variadic parameter to rowV
// (a loop over the parameter calling Row.Add on rowV once per iteration).
func fillsRowFromParam(fn *ssa.Function, rowV ssa.Value, par *ssa.Parameter) bool {
	return fillsRowFromParamD(fn, rowV, par, 0)
}

func fillsRowFromParamD(fn *ssa.Function, rowV ssa.Value, par *ssa.Parameter, depth int) bool {
	found := false
	// one cell per item: a cell added to the row from inside a second loop (an item expanded into several cells) makes
	// the row wider than the item count the columns were sized for
	nested := false
	eachInstr(fn, func(in ssa.Instruction) {
		f := staticCallee(in)
		if f == nil || f.Name() != "Add" || f.Signature.Recv() == nil {
			return
		}
		if capturedLoad(callCommon(in).Args[0]) == rowV && loopDepth(in.Block()) > 1 {
			nested = true
		}
	})
	if nested {
		return false
	}
	eachInstr(fn, func(in ssa.Instruction) {
		f := staticCallee(in)
		// a helper handed the row and the list, which does the filling
		if f != nil && inModule(f) && f.Blocks != nil && f.Name() != "Add" && depth < 2 {
			args := callCommon(in).Args
			if len(args) == len(f.Params) {
				ri, pi := -1, -1
				for k, a := range args {
					if a == rowV {
						ri = k
					}
					if a == ssa.Value(par) {
						pi = k
					}
				}
				if ri >= 0 && pi >= 0 && fillsRowFromParamD(f, f.Params[ri], f.Params[pi], depth+1) {
					found = true
				}
			}
			return
		}
		if f == nil || f.Name() != "Add" || f.Signature.Recv() == nil {
			return
		}
		cc := callCommon(in)
		if capturedLoad(cc.Args[0]) != rowV {
			return
		}
		// inside a loop whose header test compares against len(par)
		b := in.Block()
		for _, h := range fn.Blocks {
			if !h.Dominates(b) || h == b {
				continue
			}
			isLoop := false
			for _, pr := range h.Preds {
				if h.Dominates(pr) {
					isLoop = true
				}
			}
			if !isLoop {
				continue
			}
			if iff, ok := h.Instrs[len(h.Instrs)-1].(*ssa.If); ok {
				if bo, ok := iff.Cond.(*ssa.BinOp); ok {
					for _, side := range []ssa.Value{bo.X, bo.Y} {
						if call, is := isBuiltinCall(side, "len"); is && call.Call.Args[0] == ssa.Value(par) {
							found = true
						}
					}
				}
			}
		}
	})
	return found
}

func c02Lookup(c *Ctx, ix *idxEngine, at *types.Named, rows, cells, nCols, cols *types.Var) {
	r := c.R
	cellAt := c.Method(at, true, "CellAt")
	column := c.Method(at, true, "Column")
	if cellAt == nil || column == nil {
		return
	}
	ix.Run()
	for _, fn := range []*ssa.Function{cellAt, column} {
		n, ok := 0, 0
		for _, o := range ix.Obls {
			if o.Fn != fn {
				continue
			}
			n++
			if o.OK {
				ok++
			}
			r.CheckHow("R02.4", FuncName(fn), o.Kind+" "+o.What, o.In.Pos(), o.OK, o.How, o.How)
		}
		r.Floor("R02.4", "index obligations in "+fn.Name(), n, 1)
	}
	// CellAt returns
	p := ix.proverFor(cellAt)
	loc := cellAt.Params[1]
	for _, rc := range returnCases(cellAt) {
		i, ret, rv := rc.N-1, rc.Ret, rc.Vals
		ptrNil, errNil := isNil(rv[0]), isNil(rv[1])
		r.Check("R02.4", FuncName(cellAt), fmt.Sprintf("return #%d: nil cell iff non-nil error", i+1), ret.Pos(), ptrNil != errNil, "")
		if !ptrNil {
			// &rows[loc.Row-1].cells[loc.Column-1]
			good, why := false, "returned pointer is not an element address"
			if ia, ok := rv[0].(*ssa.IndexAddr); ok {
				f, base := loadedField(ia.X)
				wantC := p.linOf(fieldOfParam(p, loc, "Column")).sub(linConst(1))
				if f != cells {
					why = "not an element of a row's cells"
				} else if p.linOf(ia.Index).String() != wantC.String() {
					why = "column index is " + p.linOf(ia.Index).String() + ", want " + wantC.String()
				} else {
					// base = rows[loc.Row-1]
					if ld, ok := p.resolve(base).(*ssa.UnOp); ok {
						if ia2, ok := ld.X.(*ssa.IndexAddr); ok {
							f2, b2 := loadedField(ia2.X)
							wantR := p.linOf(fieldOfParam(p, loc, "Row")).sub(linConst(1))
							if f2 == rows && b2 == ssa.Value(cellAt.Params[0]) && p.linOf(ia2.Index).String() == wantR.String() {
								good, why = true, "&t.rows[loc.Row-1].cells[loc.Column-1]"
							} else {
								why = "row index is " + p.linOf(ia2.Index).String()
							}
						}
					}
				}
			}
			r.Check("R02.4", FuncName(cellAt), fmt.Sprintf("return #%d addresses exactly the (row, column) asked for", i+1), ret.Pos(), good, why)
		} else {
			// the error carries the location
			mi, ok := rv[1].(*ssa.MakeInterface)
			good := ok && isNamed(mi.X.Type(), modPath, "NoSuchCellError")
			r.Check("R02.4", FuncName(cellAt), fmt.Sprintf("return #%d: the error is a NoSuchCellError", i+1), ret.Pos(), good, "")
		}
	}
	// Column: non-nil exactly for 0 <= n <= nColumns, and it is columns[n]
	pc := ix.proverFor(column)
	for i, ret := range returnsOf(column) {
		v := results(ret)[0]
		if isNil(v) {
			continue
		}
		n := column.Params[1]
		nl := pc.linOf(n)
		var facts []constraint
		for _, cf := range dominatingConds(ret.Block()) {
			facts = append(facts, pc.condConstraints(cf.Cond, cf.Val)...)
		}
		// the guards must say exactly 0 <= n <= nColumns: implied both ways
		var nc lin
		found := false
		eachInstr(column, func(in ssa.Instruction) {
			if u, ok := in.(*ssa.UnOp); ok {
				if f, b := loadedField(u); f == nCols && b == ssa.Value(column.Params[0]) {
					nc = pc.linOf(u)
					found = true
				}
			}
		})
		okG := found && entails(facts, leq(linConst(0), nl, "")) && entails(facts, leq(nl, nc, ""))
		// and not stronger: 0<=n<=nc implies each guard
		if okG {
			hyp := []constraint{leq(linConst(0), nl, ""), leq(nl, nc, "")}
			for _, f := range facts {
				if !entails(hyp, f) {
					okG = false
				}
			}
		}
		r.Check("R02.4", FuncName(column), fmt.Sprintf("return #%d (non-nil) is reached exactly when 0 <= n <= nColumns", i+1), ret.Pos(), okG, "")
		// value is columns[n]
		el := pc.resolve(v)
		okV := false
		switch x := el.(type) {
		case *ssa.UnOp:
			if ia, ok := x.X.(*ssa.IndexAddr); ok {
				f, b := loadedField(ia.X)
				okV = f == cols && b == ssa.Value(column.Params[0]) && pc.linOf(ia.Index).String() == nl.String()
			}
		case *ssa.IndexAddr:
			f, b := loadedField(x.X)
			okV = f == cols && b == ssa.Value(column.Params[0]) && pc.linOf(x.Index).String() == nl.String()
		}
		r.Check("R02.4", FuncName(column), fmt.Sprintf("return #%d is column n of this table", i+1), ret.Pos(), okV, "")
	}
}

// fieldOfParam finds an SSA value reading field name of the by-value struct parameter par.
func fieldOfParam(p *prover, par *ssa.Parameter, name string) ssa.Value {
	var out ssa.Value
	eachInstr(p.fn, func(in ssa.Instruction) {
		switch x := in.(type) {
		case *ssa.Field:
			if x.X == ssa.Value(par) && fieldOfField(x).Name() == name && out == nil {
				out = x
			}
		case *ssa.UnOp:
			if fa, ok := x.X.(*ssa.FieldAddr); ok && fieldOfFieldAddr(fa).Name() == name {
				if al, ok := fa.X.(*ssa.Alloc); ok && p.spillOf(al) == par && out == nil {
					out = x
				}
			}
		}
	})
	if out == nil {
		return par
	}
	return out
}

// c02RowStorage: every Row object allocated by the library either is marked a separator or has its cell storage
// set to a non-nil slice before the function can return.
func c02RowStorage(c *Ctx, row *types.Named, cells *types.Var) {
	r := c.R
	// the flag IsSeparator() reports (found through the method, not by name)
	var isSep *types.Var
	if m := c.Method(row, true, "IsSeparator"); m != nil {
		for _, ret := range returnsOf(m) {
			if f, _ := loadedField(results(ret)[0]); f != nil {
				isSep = f
			}
		}
	}
	n := 0
	for _, fn := range c.LibFuncs() {
		if funcPkgPath(fn) != modPath {
			continue
		}
		eachInstr(fn, func(in ssa.Instruction) {
			al, ok := in.(*ssa.Alloc)
			if !ok || !al.Heap {
				return
			}
			if n, isN := al.Type().(*types.Pointer).Elem().(*types.Named); !isN || n != row {
				return // (a captured *Row variable is a cell holding a pointer, not a row)
			}
			n++
			sep, stored := false, false
			for _, rr := range referrersOf(al) {
				fa, isFA := rr.(*ssa.FieldAddr)
				if !isFA {
					continue
				}
				f := row.Underlying().(*types.Struct).Field(fa.Field)
				for _, r2 := range referrersOf(fa) {
					st, isSt := r2.(*ssa.Store)
					if !isSt || st.Addr != ssa.Value(fa) {
						continue
					}
					if isSep != nil && f == isSep {
						if b, isB := constBool(st.Val); isB && b {
							sep = true
						}
					}
					if f == cells && !isNil(st.Val) {
						nonNil := false
						switch x := st.Val.(type) {
						case *ssa.MakeSlice:
							nonNil = true
						case *ssa.Slice:
							_, nonNil = x.X.(*ssa.Alloc)
						}
						all := true
						for _, ret := range returnsOf(fn) {
							if !instrDominates(st, ret) {
								all = false
							}
						}
						if nonNil && all {
							stored = true
						}
					}
				}
			}
			r.Check("R02.3", FuncName(fn), fmt.Sprintf("row built here (#%d) is a separator or has non-nil cell storage on every path", n), al.Pos(), sep || stored,
				"a row without cell storage refuses every cell added to it: those cells are never counted or addressable")
		})
	}
	r.Floor("R02.3", "rows built by the library", n, 1)
}

// freshFullCopy: v, returned at ret in fn, is a slice made here (or by a helper, generic or not, that is handed the
// source) with the source's length and filled by copy(v, src) - or append(<nil or empty>, src...) - before the return.
func freshFullCopy(ix *idxEngine, fn *ssa.Function, v ssa.Value, ret ssa.Instruction, isSrc func(ssa.Value) bool, depth int) (bool, string) {
	p := ix.proverFor(fn)
	rv := p.resolve(unwrap(v, true))
	switch x := rv.(type) {
	case *ssa.MakeSlice:
		copied := false
		eachInstr(fn, func(in ssa.Instruction) {
			if call, is := isBuiltinCall(valueOf(in), "copy"); is {
				if sameSlice(call.Call.Args[0], x) && isSrc(call.Call.Args[1]) && instrDominates(in, ret) {
					copied = true
				}
			}
		})
		sameLen := false
		if call, is := isBuiltinCall(x.Len, "len"); is {
			sameLen = isSrc(call.Call.Args[0])
		}
		return copied && sameLen, fmt.Sprintf("fresh make: true, len(source): %v, copy(new, source) before return: %v", sameLen, copied)
	case *ssa.Call:
		if b, isB := x.Call.Value.(*ssa.Builtin); isB && b.Name() == "append" && len(x.Call.Args) == 2 {
			// append([]T(nil), src...) / append(make([]T, 0, n), src...)
			base := p.resolve(unwrap(x.Call.Args[0], true))
			empty := isNil(base)
			if ms, isMS := base.(*ssa.MakeSlice); isMS {
				if k, isK := constInt(ms.Len); isK && k == 0 {
					empty = true
				}
			}
			return empty && isSrc(x.Call.Args[1]), "append onto something that is not a fresh empty slice, or of something other than the source"
		}
		h := x.Call.StaticCallee()
		if h == nil || h.Blocks == nil || !inModule(h) || depth > 2 {
			return false, "not a fresh slice"
		}
		idx := -1
		for k, a := range x.Call.Args {
			if isSrc(a) {
				idx = k
			}
		}
		if idx < 0 || idx >= len(h.Params) {
			return false, "the helper is not handed the source"
		}
		par := h.Params[idx]
		for _, hret := range returnsOf(h) {
			ok, why := freshFullCopy(ix, h, results(hret)[0], hret, func(y ssa.Value) bool { return y == ssa.Value(par) }, depth+1)
			if !ok {
				return false, "in " + FuncName(h) + ": " + why
			}
		}
		return true, "a helper returns a fresh full copy of what it is given"
	}
	return false, "not a fresh slice"
}
