package main

import (
	"go/token"

	"golang.org/x/tools/go/ssa"
)

// A path walker over a small group of functions (an entry function and the unexported helpers only it uses, the
// "unit"): every path from the entry function's first instruction to one of ITS returns is enumerated, calls of unit
// functions are followed inline, a condition value tested twice on a path is decided the same way both times, and
// boolean flags that are phis of constants (and boolean results of inlined calls that are constants) are evaluated.
// The state carried along a path is a short byte string owned by the rule; the rule supplies what a store does to
// it and how a test refines it. Nothing is executed: values other than those booleans stay unknown and both sides of
// a test on them are walked.

type pwFrame struct {
	fn   *ssa.Function
	b    *ssa.BasicBlock
	idx  int
	call *ssa.Call
}

type pathWalker struct {
	unit     map[*ssa.Function]bool
	onStore  func(fn *ssa.Function, st *ssa.Store, s string) string
	onIf     func(fn *ssa.Function, cond ssa.Value, s string) (string, string)
	onReturn func(ret *ssa.Return, s string)
	onInstr  func(fn *ssa.Function, in ssa.Instruction, s string) string
	decided  map[ssa.Value]bool
	env      map[*ssa.Phi]bool
	npaths   int
	limit    int
}

// hasLoop: some function of the unit has a back edge, or the unit is recursive.
func unitHasLoop(unit map[*ssa.Function]bool) bool {
	for fn := range unit {
		for _, b := range fn.Blocks {
			for _, s := range b.Succs {
				if s.Dominates(b) {
					return true
				}
			}
		}
	}
	return false
}

func (w *pathWalker) eval(v ssa.Value) (bool, bool) {
	if k, ok := constBool(v); ok {
		return k, true
	}
	if d, ok := w.decided[v]; ok {
		return d, true
	}
	if phi, ok := v.(*ssa.Phi); ok {
		if d, has := w.env[phi]; has {
			return d, true
		}
	}
	if u, ok := v.(*ssa.UnOp); ok && u.Op == token.NOT {
		if d, has := w.eval(u.X); has {
			return !d, true
		}
	}
	return false, false
}

func (w *pathWalker) run(entry *ssa.Function, init string) {
	w.decided = map[ssa.Value]bool{}
	w.env = map[*ssa.Phi]bool{}
	if w.limit == 0 {
		w.limit = 50000
	}
	w.block(entry, entry.Blocks[0], nil, 0, init, nil)
}

func (w *pathWalker) block(fn *ssa.Function, b, prev *ssa.BasicBlock, start int, s string, stack []pwFrame) {
	if w.npaths > w.limit {
		return
	}
	type saved struct {
		phi *ssa.Phi
		val bool
		had bool
	}
	var sv []saved
	if start == 0 {
		for _, in := range b.Instrs {
			phi, ok := in.(*ssa.Phi)
			if !ok {
				break
			}
			old, had := w.env[phi]
			sv = append(sv, saved{phi, old, had})
			delete(w.env, phi)
			for k, p := range b.Preds {
				if p == prev {
					if d, known := w.eval(phi.Edges[k]); known {
						w.env[phi] = d
					}
				}
			}
		}
	}
	defer func() {
		for _, x := range sv {
			if x.had {
				w.env[x.phi] = x.val
			} else {
				delete(w.env, x.phi)
			}
		}
	}()
	for i := start; i < len(b.Instrs); i++ {
		if w.onInstr != nil {
			s = w.onInstr(fn, b.Instrs[i], s)
		}
		switch x := b.Instrs[i].(type) {
		case *ssa.Store:
			if w.onStore != nil {
				s = w.onStore(fn, x, s)
			}
		case *ssa.Call:
			callee := x.Call.StaticCallee()
			if callee != nil && w.unit[callee] && callee != fn && len(stack) < 4 && callee.Blocks != nil {
				w.block(callee, callee.Blocks[0], nil, 0, s, append(append([]pwFrame{}, stack...), pwFrame{fn, b, i + 1, x}))
				return
			}
		case *ssa.Return:
			if len(stack) == 0 {
				w.npaths++
				if w.onReturn != nil {
					w.onReturn(x, s)
				}
				return
			}
			fr := stack[len(stack)-1]
			old, had := w.decided[fr.call]
			set := false
			if rv := results(x); len(rv) == 1 {
				if d, known := w.eval(rv[0]); known {
					w.decided[fr.call] = d
					set = true
				}
			}
			if !set {
				delete(w.decided, fr.call)
			}
			w.block(fr.fn, fr.b, nil, fr.idx, s, stack[:len(stack)-1])
			if had {
				w.decided[fr.call] = old
			} else {
				delete(w.decided, fr.call)
			}
			return
		case *ssa.If:
			if d, known := w.eval(x.Cond); known {
				if d {
					w.block(fn, b.Succs[0], b, 0, s, stack)
				} else {
					w.block(fn, b.Succs[1], b, 0, s, stack)
				}
				return
			}
			st, sf := s, s
			if w.onIf != nil {
				st, sf = w.onIf(fn, x.Cond, s)
			}
			w.decided[x.Cond] = true
			w.block(fn, b.Succs[0], b, 0, st, stack)
			w.decided[x.Cond] = false
			w.block(fn, b.Succs[1], b, 0, sf, stack)
			delete(w.decided, x.Cond)
			return
		}
	}
	for _, succ := range b.Succs {
		w.block(fn, succ, b, 0, s, stack)
	}
}

// updateUnitOf: entry plus the unexported methods with the same receiver type that are called only from functions of
// the unit, on the caller's own receiver: together they are "the function" as far as path rules are concerned.
func updateUnitOf(c *Ctx, entry *ssa.Function) map[*ssa.Function]bool {
	unit := map[*ssa.Function]bool{entry: true}
	if entry.Signature.Recv() == nil {
		return unit
	}
	for changed := true; changed; {
		changed = false
		for _, f := range c.LibFuncs() {
			if unit[f] || f.Signature.Recv() == nil || f.Object() == nil || f.Object().Exported() || f.Blocks == nil {
				continue
			}
			if f.Signature.Recv().Type().String() != entry.Signature.Recv().Type().String() {
				continue
			}
			sites, ok := 0, true
			for _, g := range c.LibFuncs() {
				eachInstr(g, func(in ssa.Instruction) {
					if staticCallee(in) != f {
						return
					}
					sites++
					if !unit[g] || len(g.Params) == 0 || callCommon(in).Args[0] != ssa.Value(g.Params[0]) {
						ok = false
					}
				})
			}
			if ok && sites > 0 {
				unit[f] = true
				changed = true
			}
		}
	}
	return unit
}
