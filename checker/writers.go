package main

import (
	"go/types"

	"golang.org/x/tools/go/ssa"
)

// A fieldStore is one Store instruction whose address is a struct field.
type fieldStore struct {
	Fn    *ssa.Function
	Field *types.Var
	St    *ssa.Store
	Base  ssa.Value // the struct pointer the field is selected from
	Fresh bool      // the struct was allocated in Fn (constructor initialisation)
}

func (c *Ctx) FieldStores() []fieldStore {
	if c.fstores != nil {
		return c.fstores
	}
	for _, fn := range c.LibFuncs() {
		eachInstr(fn, func(in ssa.Instruction) {
			st, ok := in.(*ssa.Store)
			if !ok {
				return
			}
			f, base := storeField(st.Addr)
			if f == nil {
				return
			}
			root, steps := addrPath(st.Addr)
			fresh := false
			if _, ok := root.(*ssa.Alloc); ok {
				fresh = true
				for _, s := range steps {
					if s.Deref {
						fresh = false
					}
				}
			}
			c.fstores = append(c.fstores, fieldStore{Fn: fn, Field: f, St: st, Base: base, Fresh: fresh})
		})
	}
	if c.fstores == nil {
		c.fstores = []fieldStore{}
	}
	return c.fstores
}

func (c *Ctx) StoresTo(f *types.Var) []fieldStore {
	var out []fieldStore
	for _, fs := range c.FieldStores() {
		if fs.Field == f {
			out = append(out, fs)
		}
	}
	return out
}

// recvField: v reads field f of fn's receiver (param 0), directly or through the receiver's local spill.
func recvFieldRead(fn *ssa.Function, v ssa.Value, f *types.Var) bool {
	if len(fn.Params) == 0 {
		return false
	}
	recv := fn.Params[0]
	fld, base := loadedField(v)
	if fld != f {
		return false
	}
	return isRecvOrSpill(recv, base)
}

func isRecvOrSpill(recv *ssa.Parameter, base ssa.Value) bool {
	if base == ssa.Value(recv) {
		return true
	}
	// pointer to a local that was initialised from the receiver value
	if al, ok := base.(*ssa.Alloc); ok {
		for _, r := range referrersOf(al) {
			if st, ok := r.(*ssa.Store); ok && st.Addr == ssa.Value(al) && st.Val == ssa.Value(recv) {
				return true
			}
		}
	}
	return false
}
