package main

import (
	"fmt"
	"go/token"
	"go/types"
	"sort"
	"strings"

	"golang.org/x/tools/go/ssa"
)

func init() { register("C16", runC16) }

// pureOpaque: callees outside the analysed code that do not modify what their arguments point to
// or are documented as safe for concurrent use.
func pureOpaque(what string) bool {
	name := strings.TrimPrefix(what, "opaque:")
	for _, p := range []string{
		"fmt.", "errors.", "strings.", "strconv.", "unicode.", "unicode/utf8.", "reflect.TypeOf", "reflect.Type.", "reflect.DeepEqual",
		"(*sync.", "(*sync/atomic.", "(*regexp.Regexp).", "os.Getenv", "bytes.Equal", "bytes.Compare",
	} {
		if strings.HasPrefix(name, p) {
			return true
		}
	}
	// interface methods that only render a value
	for _, s := range []string{".Error", ".String", ".GoString", ".isAlignment"} {
		if strings.HasSuffix(name, s) {
			return true
		}
	}
	return false
}

func isPkgInit(fn *ssa.Function) bool {
	if fn.Parent() != nil {
		return isPkgInit(fn.Parent())
	}
	if fn.Signature.Recv() != nil {
		return false
	}
	return fn.Name() == "init" || strings.HasPrefix(fn.Name(), "init#")
}

// onceClosure: fn is a closure passed directly to (*sync.Once).Do.
func onceClosure(fn *ssa.Function) bool {
	if fn.Parent() == nil {
		return false
	}
	ok := false
	eachInstr(fn.Parent(), func(in ssa.Instruction) {
		mc, is := in.(*ssa.MakeClosure)
		if !is || mc.Fn != ssa.Value(fn) {
			return
		}
		for _, r := range referrersOf(mc) {
			if isCallTo(r, "sync", "(*Once).Do") {
				ok = true
			}
		}
	})
	return ok
}

func runC16(c *Ctx) {
	r := c.R
	r.Explanation = "Distinct tables can only interfere through state that is not per table: package-level variables (of the module and of its two non-standard dependencies) and goroutines started by the library. " +
		"An interprocedural effect analysis (stores, map updates, append/copy targets, and pointer arguments handed to unanalysed callees, each with the origin of the object written: local, parameter, global, other heap) is computed to a fixpoint over the module, go-runewidth, uniseg and the synthetic wrappers. " +
		"R16.1: no function other than package initialisers has, in its transitive summary, an effect whose origin is a package-level variable, unless the variable carries its own mutex and the access is proved lock-held (R17.1 analysis) or the callee is a documented concurrency-safe/pure standard-library function. " +
		"R16.2: no module function starts a goroutine. R16.3: fields of the renderer wrappers are written only through the method receiver/constructor (never through a global or an unrelated heap object). " +
		"Decided: absence of shared mutable state reachable from the public API. Not decided: that outputs under concurrency equal the sequential ones byte for byte (follows from absence of shared state plus determinism), races inside the standard library, and items the caller shares between tables."
	r.NotDecided = []string{"byte equality of concurrent and sequential outputs", "races on user-supplied items, callbacks or writers shared between tables by the caller", "standard-library internals"}
	r.Assumptions = []string{"html/template, fmt, encoding/json, bytes, sync and regexp are safe for the concurrent use made of them", "module callees do not retain pointers to a caller's locals (escape summary checked for parameters)"}
	r.Rule("R16.1", "every package-level variable reachable from the public API is written only by package initialisers, or only while its mutex is held")
	r.Rule("R16.2", "no function of the module starts a goroutine")
	r.Rule("R16.3", "renderer wrapper fields are written only through the wrapper's own receiver or constructor")

	e := c.Effects()
	guarded := map[*ssa.Global]*guardedGlobal{}
	for _, gg := range c.findGuardedGlobals() {
		guarded[gg.G] = gg
	}

	type finding struct {
		ef effect
		fn *ssa.Function
	}
	perGlobal := map[*ssa.Global][]finding{}
	seen := map[string]bool{}
	goCount := 0
	for _, fn := range c.LibFuncs() {
		if isPkgInit(fn) {
			continue
		}
		for _, ef := range e.EffectsOf(fn) {
			if ef.What == "go" {
				k := fmt.Sprintf("go@%p", ef.At)
				if !seen[k] {
					seen[k] = true
					goCount++
					r.Check("R16.2", FuncName(ef.Fn), "go statement", ef.At.Pos(), false, "the library starts a goroutine; shared access to the table it works on is then possible")
				}
				continue
			}
			if ef.Org.Kind != orgGlobal {
				continue
			}
			k := fmt.Sprintf("%p|%s|%s", ef.At, ef.Org.Glob.Name(), ef.Path)
			if seen[k] {
				continue
			}
			seen[k] = true
			perGlobal[ef.Org.Glob] = append(perGlobal[ef.Org.Glob], finding{ef, fn})
		}
	}
	if goCount == 0 {
		r.Check("R16.2", "module", "no go statement in any of the module's functions", 0, true, fmt.Sprintf("%d functions scanned", len(c.LibFuncs())))
	}

	// one obligation per module global, plus one per dependency global that has findings
	nglob := 0
	check := func(g *ssa.Global) {
		name := relPkg(g.Pkg.Pkg.Path()) + "." + g.Name()
		fs := perGlobal[g]
		bad := 0
		for _, f := range fs {
			ef := f.ef
			if strings.HasPrefix(ef.What, "opaque:") && pureOpaque(ef.What) {
				continue
			}
			if onceClosure(ef.Fn) {
				continue
			}
			if gg := guarded[g]; gg != nil {
				// guarded: the access must be lock-held in the function that performs it
				lr := analyseLock(ef.Fn, gg, false)
				held := false
				for _, a := range lr.Accesses {
					if a.In == ef.At || sameBlockDef(a.In, ef.At) {
						held = a.Held
					}
				}
				if ma, ok := ef.At.(*ssa.MapUpdate); ok {
					held = lockHeldAt(ef.Fn, gg, ma)
				}
				if held {
					continue
				}
			}
			bad++
			r.Check("R16.1", FuncName(ef.Fn), fmt.Sprintf("%s of %s rooted at var %s", ef.What, ef.Path, name), ef.At.Pos(), false,
				fmt.Sprintf("written outside package initialisation (reached from %s via %s): state shared by all tables", FuncName(f.fn), ef.Via))
		}
		if bad == 0 {
			how := "never written after package initialisation"
			if guarded[g] != nil {
				how = "written only while its own mutex is held"
			}
			o := r.Check("R16.1", relPkg(g.Pkg.Pkg.Path()), "var "+name, g.Pos(), true, fmt.Sprintf("%s (%d accesses with this origin examined)", how, len(fs)))
			o.Trivial = len(fs) == 0
		}
	}
	for _, path := range c.sortedPkgPaths() {
		if path == pkgPath("examples") {
			continue
		}
		sp := c.SSA[path]
		for _, name := range sortedMemberNames(sp) {
			g, ok := sp.Members[name].(*ssa.Global)
			if !ok || name == "init$guard" {
				continue
			}
			nglob++
			check(g)
			delete(perGlobal, g)
		}
	}
	// dependency globals with post-init effects
	var rest []*ssa.Global
	for g := range perGlobal {
		rest = append(rest, g)
	}
	sortGlobals(rest)
	for _, g := range rest {
		if g.Name() == "init$guard" {
			continue
		}
		check(g)
	}
	r.Floor("R16.1", "package-level variables of the module", nglob, 12)

	// R16.4 no reference into package-level mutable state is handed out or stored elsewhere
	r.Rule("R16.4", "no pointer into package-level state that could be modified through it leaves the function that obtained it")
	// cells are copied by value between tables and share their property-chain links: tables stay independent only
	// while those links are never modified once built (C12's R12.1)
	r.Rule("R16.6", "an object handed to a sync.Pool is not also returned to the caller or kept")
	c16PoolDiscipline(c)
	r.Rule("R16.7", "no public function writes into a slice or map its caller handed it")
	c16CallerSlices(c)
	r.Rule("R16.5", "structure shared by by-value copies of a cell (property-chain links, callback lists) is never modified in place")
	importPremises(c, "R16.5", "shared-structure premise ", "two tables holding copies of one cell would write the same memory", func(o *Ob) bool { return o.Rule == "R12.1" }, func() { runC12(c) })
	importPremises(c, "R16.5", "shared-structure premise ", "two tables holding copies of one cell would append into the same backing array", func(o *Ob) bool { return o.Rule == "R13.6" }, func() { runC13(c) })
	nesc := 0
	nseen := 0
	for _, fn := range c.LibFuncs() {
		if isPkgInit(fn) {
			continue
		}
		check := func(v ssa.Value, at ssa.Instruction, how string) {
			if v == nil || !containsMutablePointers(v.Type(), 0) {
				return
			}
			for o := range e.originOf(fn, v) {
				if o.Kind != orgGlobal {
					continue
				}
				nseen++
				if immutableGlobalTarget(c, o.Glob, v.Type()) {
					continue
				}
				nesc++
				r.Check("R16.4", FuncName(fn), how+" a reference into var "+relPkg(o.Glob.Pkg.Pkg.Path())+"."+o.Glob.Name(), at.Pos(), false,
					"a "+shortType(v.Type())+" reachable from package-level state escapes: whoever holds it can modify state shared by all tables, outside any lock")
			}
		}
		for _, ret := range returnsOf(fn) {
			for _, v := range results(ret) {
				check(v, ret, "returns")
			}
		}
		eachInstr(fn, func(in ssa.Instruction) {
			st, ok := in.(*ssa.Store)
			if !ok {
				return
			}
			// storing it into something that is not itself that global
			root, _ := addrPath(st.Addr)
			if g, isG := root.(*ssa.Global); isG {
				_ = g
				return
			}
			if _, isLocal := root.(*ssa.Alloc); isLocal {
				al := root.(*ssa.Alloc)
				if !al.Heap {
					return
				}
			}
			check(st.Val, in, "stores elsewhere")
		})
	}
	if nesc == 0 {
		r.Check("R16.4", "module", "no escaping reference into mutable package-level state", 0, true, fmt.Sprintf("%d global-rooted references examined, all to immutable targets", nseen))
	}

	// R16.3 wrapper fields
	nw := 0
	for _, w := range []struct{ pkg, typ string }{{"csv", "CSVTable"}, {"html", "HTMLTable"}, {"json", "JSONTable"}, {"markdown", "MarkdownTable"}, {"texttable", "TextTable"}} {
		n := c.Named(w.pkg, w.typ)
		if n == nil {
			continue
		}
		nw++
		prefix := w.typ + "."
		bad := 0
		cnt := 0
		for _, fn := range c.LibFuncs() {
			for _, ef := range e.EffectsOf(fn) {
				if !strings.HasPrefix(ef.Path, prefix) || ef.What != "store" {
					continue
				}
				cnt++
				if ef.Org.Kind == orgGlobal || (ef.Org.Kind == orgHeap && ef.Fn == fn) {
					bad++
					r.Check("R16.3", FuncName(ef.Fn), "store "+ef.Path+" through "+ef.Org.String(), ef.At.Pos(), false, "a wrapper field is written through something other than the wrapper's own receiver")
				}
			}
		}
		if bad == 0 {
			r.Check("R16.3", w.pkg+"."+w.typ, "fields of "+w.typ, n.Obj().Pos(), true, fmt.Sprintf("%d summarised stores, all through a parameter/receiver", cnt))
		}
	}
	r.Floor("R16.3", "wrapper types", nw, 5)
}

func sortGlobals(gs []*ssa.Global) {
	for i := 1; i < len(gs); i++ {
		for j := i; j > 0 && gs[j].String() < gs[j-1].String(); j-- {
			gs[j], gs[j-1] = gs[j-1], gs[j]
		}
	}
}

func sameBlockDef(a, b ssa.Instruction) bool { return a == b }

// lockHeldAt: is gg's mutex held on all paths when `at` executes in fn?
func lockHeldAt(fn *ssa.Function, gg *guardedGlobal, at ssa.Instruction) bool {
	lr := analyseLock(fn, gg, false)
	// the access list is keyed by the instruction using the field address; `at` may use a value
	// loaded earlier (t = *FieldAddr; MapUpdate t ...): find the load feeding it
	for _, a := range lr.Accesses {
		if a.In == at {
			return a.Held
		}
	}
	// fall back to the loads that feed `at`
	ok := false
	for _, opnd := range at.Operands(nil) {
		if opnd == nil || *opnd == nil {
			continue
		}
		if ld, isInstr := (*opnd).(ssa.Instruction); isInstr {
			for _, a := range lr.Accesses {
				if a.In == ld {
					if !a.Held {
						return false
					}
					ok = true
				}
			}
		}
	}
	if !ok {
		return false
	}
	// and the lock must still be held at `at` itself: no unlock between; approximate by
	// requiring that every guarded access in the same block after the load is held
	return heldAtInstr(fn, gg, at)
}

// heldAtInstr recomputes the lock state at one instruction.
func heldAtInstr(fn *ssa.Function, gg *guardedGlobal, at ssa.Instruction) bool {
	// run the analysis and replay the block
	if len(fn.Blocks) == 0 {
		return false
	}
	in := map[*ssa.BasicBlock]*lockState{fn.Blocks[0]: {}}
	work := []*ssa.BasicBlock{fn.Blocks[0]}
	step := func(s lockState, ins ssa.Instruction) lockState {
		if op, isDefer := lockOp(ins, gg); op != "" {
			switch {
			case (op == "lock" || op == "rlock") && !isDefer:
				s.held = true
				s.shared = op == "rlock"
			case op == "unlock" && !isDefer:
				s.held = false
				s.shared = false
			case op == "unlock" && isDefer:
				s.deferred = true
			}
		}
		if _, ok := ins.(*ssa.RunDefers); ok && s.deferred {
			s.held = false
		}
		return s
	}
	for len(work) > 0 {
		b := work[0]
		work = work[1:]
		s := *in[b]
		for _, ins := range b.Instrs {
			s = step(s, ins)
		}
		for _, su := range b.Succs {
			cur := in[su]
			if cur == nil {
				cp := s
				in[su] = &cp
				work = append(work, su)
				continue
			}
			n := lockState{held: cur.held && s.held, deferred: cur.deferred && s.deferred, shared: cur.shared || s.shared}
			if n != *cur {
				*cur = n
				work = append(work, su)
			}
		}
	}
	st := in[at.Block()]
	if st == nil {
		return false
	}
	s := *st
	for _, ins := range at.Block().Instrs {
		if ins == at {
			return s.held && !(s.shared && isWriteAccess(at))
		}
		s = step(s, ins)
	}
	return false
}

// containsMutablePointers: values of this type can be used to modify something they point to.
func containsMutablePointers(t types.Type, depth int) bool {
	if depth > 4 {
		return true
	}
	switch u := t.Underlying().(type) {
	case *types.Basic:
		return false
	case *types.Pointer, *types.Slice, *types.Map, *types.Chan:
		return true
	case *types.Signature:
		return false
	case *types.Interface:
		return true
	case *types.Struct:
		for i := 0; i < u.NumFields(); i++ {
			if containsMutablePointers(u.Field(i).Type(), depth+1) {
				return true
			}
		}
		return false
	case *types.Array:
		return containsMutablePointers(u.Elem(), depth+1)
	case *types.Tuple:
		for i := 0; i < u.Len(); i++ {
			if containsMutablePointers(u.At(i).Type(), depth+1) {
				return true
			}
		}
		return false
	}
	return true
}

// immutableGlobalTarget: what the global holds cannot be modified through a reference to it: an error value,
// or a pointer to a module type none of whose fields is ever stored to after construction.
func immutableGlobalTarget(c *Ctx, g *ssa.Global, vt types.Type) bool {
	gt := g.Type().(*types.Pointer).Elem()
	if isErrorType(gt) || isErrorType(vt) {
		return true
	}
	var target types.Type
	if pt, ok := gt.Underlying().(*types.Pointer); ok {
		target = pt.Elem()
	} else {
		target = gt
	}
	n, ok := target.(*types.Named)
	if !ok || n.Obj().Pkg() == nil || !strings.HasPrefix(n.Obj().Pkg().Path(), modPath) {
		return false
	}
	st, isStruct := n.Underlying().(*types.Struct)
	if !isStruct {
		_, isBasic := n.Underlying().(*types.Basic)
		return isBasic
	}
	ix := c.Idx()
	for i := 0; i < st.NumFields(); i++ {
		if containsMutablePointers(st.Field(i).Type(), 0) {
			return false
		}
		if !ix.immutableField(st.Field(i)) {
			return false
		}
	}
	return true
}

// c16PoolDiscipline: whatever a function puts into a sync.Pool (directly or by defer) is from then on another
// goroutine's to take. The function must not also return it - or memory reachable through it - to its caller.
func c16PoolDiscipline(c *Ctx) {
	r := c.R
	n := 0
	for _, fn := range c.LibFuncs() {
		eachInstr(fn, func(in ssa.Instruction) {
			cc := callCommon(in)
			if cc == nil {
				return
			}
			f := cc.StaticCallee()
			if f == nil || f.Name() != "Put" || funcPkgPath(f) != "sync" || len(cc.Args) < 2 {
				return
			}
			n++
			pooled := unwrap(cc.Args[1], true)
			// everything that shares memory with the pooled object within this function
			shared := map[ssa.Value]bool{}
			var spread func(v ssa.Value, depth int)
			spread = func(v ssa.Value, depth int) {
				if v == nil || shared[v] || depth > 12 {
					return
				}
				shared[v] = true
				for _, rr := range referrersOf(v) {
					switch x := rr.(type) {
					case *ssa.UnOp:
						if x.Op == token.MUL && pointerLike(x.Type()) {
							spread(x, depth+1)
						}
					case *ssa.Slice:
						spread(x, depth+1)
					case *ssa.Phi:
						spread(x, depth+1)
					case *ssa.IndexAddr:
						spread(x, depth+1)
					case *ssa.FieldAddr:
						spread(x, depth+1)
					case *ssa.ChangeType:
						spread(x, depth+1)
					case *ssa.MakeInterface:
						spread(x, depth+1)
					case *ssa.Call:
						if b, ok := x.Call.Value.(*ssa.Builtin); ok && b.Name() == "append" && x.Call.Args[0] == v {
							spread(x, depth+1)
						}
					case *ssa.Store:
						if x.Addr == v {
							spread(x.Val, depth+1) // what is stored in the pooled object belongs to the pool too
						}
					}
				}
			}
			spread(pooled, 0)
			bad := ""
			for _, ret := range returnsOf(fn) {
				for _, rv := range results(ret) {
					for _, v := range phiClosure(rv) {
						if shared[unwrap(v, true)] {
							bad = c.Pos(ret.Pos())
						}
					}
				}
			}
			r.Check("R16.6", FuncName(fn), fmt.Sprintf("sync.Pool.Put #%d: the pooled object is not also handed to the caller", n), in.Pos(), bad == "",
				"the return at "+bad+" hands out memory that was (or, by defer, will at once be) put back into the pool: a concurrent render can take and overwrite it")
			// a pooled buffer carries nothing from one user to the next: it is emptied before first use, or on every
			// path on which it goes back
			hasReset := false
			if pt, isP := pooled.Type().(*types.Pointer); isP {
				if nm := namedOf(pt.Elem()); nm != nil {
					for i := 0; i < nm.NumMethods(); i++ {
						if nm.Method(i).Name() == "Reset" {
							hasReset = true
						}
					}
				}
			}
			if hasReset {
				var resets, uses []ssa.Instruction
				eachInstr(fn, func(x ssa.Instruction) {
					cc2 := callCommon(x)
					if cc2 == nil || x == in {
						return
					}
					touches := false
					for _, a := range cc2.Args {
						if shared[unwrap(a, true)] {
							touches = true
						}
					}
					if !touches {
						return
					}
					f2 := cc2.StaticCallee()
					isReset := f2 != nil && f2.Name() == "Reset"
					if f2 != nil && f2.Name() == "Truncate" && len(cc2.Args) == 2 {
						if k, ok := constInt(cc2.Args[1]); ok && k == 0 {
							isReset = true
						}
					}
					if isReset {
						resets = append(resets, x)
					} else if f2 == nil || f2.Name() != "Put" || funcPkgPath(f2) != "sync" {
						uses = append(uses, x)
					}
				})
				_, deferred := in.(*ssa.Defer)
				okA := false // emptied before any use
				for _, rs := range resets {
					all := true
					for _, u := range uses {
						if !instrDominates(rs, u) {
							all = false
						}
					}
					if all {
						okA = true
					}
				}
				okB := true // emptied on every way back
				var ends []ssa.Instruction
				if deferred {
					for _, ret := range returnsOf(fn) {
						ends = append(ends, ret)
					}
					eachInstr(fn, func(x ssa.Instruction) {
						if pn, isP := x.(*ssa.Panic); isP {
							ends = append(ends, pn)
						}
					})
				} else {
					ends = []ssa.Instruction{in}
				}
				for _, e := range ends {
					dom := false
					for _, rs := range resets {
						if instrDominates(rs, e) {
							// and nothing writes to it again between the reset and the way out
							clean := true
							for _, u := range uses {
								if instrDominates(rs, u) && instrDominates(u, e) {
									if f3 := callCommon(u).StaticCallee(); f3 == nil || !(f3.Name() == "String" || f3.Name() == "Len" || f3.Name() == "Bytes" || f3.Name() == "Cap") {
										clean = false
									}
								}
							}
							if clean {
								dom = true
							}
						}
					}
					if !dom {
						okB = false
					}
				}
				r.Check("R16.6", FuncName(fn), fmt.Sprintf("sync.Pool.Put #%d: the pooled buffer is empty when the next user gets it", n), in.Pos(), okA || okB,
					"on some path (an early error return, say) the buffer goes back with what this render wrote into it, and it is not emptied when taken out: an unrelated render starts with those bytes")
			}
		})
	}
	if n == 0 {
		r.Check("R16.6", "module", "no sync.Pool in use", 0, true, "")
	}
	// a package-level channel is a free list by another name: what one render sends, another receives
	nch := 0
	for _, fn := range c.LibFuncs() {
		eachInstr(fn, func(in ssa.Instruction) {
			var ch ssa.Value
			switch x := in.(type) {
			case *ssa.Send:
				ch = x.Chan
			case *ssa.UnOp:
				if x.Op == token.ARROW {
					ch = x.X
				}
			case *ssa.Select:
				for _, st := range x.States {
					if loadedGlobal(unwrap(st.Chan, true)) != nil {
						ch = st.Chan
					}
				}
			}
			if ch == nil {
				return
			}
			if g := loadedGlobal(unwrap(ch, true)); g != nil && inModule2(g) {
				nch++
				r.Check("R16.6", FuncName(fn), fmt.Sprintf("package-level channel %s is not used to pass objects between calls", g.Name()), in.Pos(), false,
					"objects (buffers, say) handed from one render to the next through a package-level channel are shared state between independent tables: what one render left in them, or a second reference to one of them, shows up in another's output")
			}
		})
	}
	if nch == 0 {
		r.Check("R16.6", "module", "no package-level channel carries objects between calls", 0, true, "")
	}
}

// c16CallerSlices: goroutines that build their own tables may still share what they build them FROM (one slice of
// column titles, one list of items). The library may read such an argument but not write into it: a store into
// an element of a slice or map parameter of a public function (directly, or in whatever it calls with it) is a
// write to memory the caller owns and may be sharing.
func c16CallerSlices(c *Ctx) {
	r := c.R
	eff := c.Effects()
	n := 0
	for _, fn := range c.LibFuncs() {
		if fn.Parent() != nil || fn.Synthetic != "" || funcPkgPath(fn) == pkgPath("examples") || fn.Object() == nil || !fn.Object().Exported() {
			continue
		}
		if recv := fn.Signature.Recv(); recv != nil {
			if nt := namedOf(recv.Type()); nt == nil || !nt.Obj().Exported() {
				continue
			}
		}
		sum := eff.Summary(fn)
		if sum == nil {
			continue
		}
		first := 0
		if fn.Signature.Recv() != nil {
			first = 1
		}
		for i := first; i < len(fn.Params); i++ {
			par := fn.Params[i]
			switch pt := par.Type().Underlying().(type) {
			case *types.Slice:
				// a buffer the function is asked to fill ([]byte destination) is the caller's wish, not a leak
				if b, isB := pt.Elem().Underlying().(*types.Basic); isB && b.Kind() == types.Uint8 {
					continue
				}
			case *types.Map:
			default:
				continue
			}
			n++
			var bad []string
			var at token.Pos
			for _, ef := range sum.Effects {
				if ef.Org.Kind != orgParam || ef.Org.Idx != i || ef.Org.Deep {
					continue
				}
				switch ef.What {
				case "store", "mapupdate", "copy", "delete":
					bad = append(bad, ef.What+" "+ef.Path+" in "+FuncName(ef.Fn))
					if ef.At != nil {
						at = ef.At.Pos()
					}
				}
			}
			sort.Strings(bad)
			if at == token.NoPos {
				at = fn.Pos()
			}
			r.Check("R16.7", FuncName(fn), "parameter "+par.Name()+" (a slice or map of the caller's) is only read", at, len(bad) == 0, strings.Join(bad, "; ")+": goroutines building separate tables from one shared list would write the same memory")
		}
	}
	r.Floor("R16.7", "slice/map parameters of public functions", n, 3)
}
