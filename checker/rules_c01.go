package main

import (
	"fmt"
	"go/token"
	"go/types"
	"sort"

	"golang.org/x/tools/go/ssa"
)

func init() { register("C01", runC01) }

// A tsArm is one arm of the dispatch on the dynamic type of the cell's item.
type tsArm struct {
	Kind   string     // nil | concrete | iface | default
	Type   types.Type // asserted type (nil for nil/default)
	Val    ssa.Value  // the asserted value (Extract #0), nil for nil/default
	Entry  *ssa.BasicBlock
	Test   ssa.Instruction
	Method string        // for single-method interfaces
	Fn     *ssa.Function // function containing the arm (Update, or the helper Update delegates the text to)
}

func (a tsArm) name() string {
	switch a.Kind {
	case "nil":
		return "arm nil"
	case "default":
		return "arm default"
	}
	return "arm " + shortType(a.Type)
}

// typeSwitchArms extracts, in test order, the chain of dynamic-type tests on a value loaded from field f.
func typeSwitchArms(fn *ssa.Function, f *types.Var) []tsArm {
	return typeSwitchArmsBy(fn, func(v ssa.Value) bool { fl, _ := loadedField(v); return fl == f })
}

// typeSwitchArmsOnParam: the chain of dynamic-type tests on a parameter.
func typeSwitchArmsOnParam(fn *ssa.Function, par *ssa.Parameter) []tsArm {
	return typeSwitchArmsBy(fn, func(v ssa.Value) bool { return v == ssa.Value(par) })
}

func typeSwitchArmsBy(fn *ssa.Function, isRaw func(ssa.Value) bool) []tsArm {
	var arms []tsArm
	if len(fn.Blocks) == 0 {
		return nil
	}
	// find the first block whose terminator tests the raw value
	var cur *ssa.BasicBlock
	for _, b := range fn.Blocks {
		if iff, ok := b.Instrs[len(b.Instrs)-1].(*ssa.If); ok {
			if _, ok := rawTest(iff.Cond, isRaw); ok {
				cur = b
				break
			}
		}
	}
	seen := map[*ssa.BasicBlock]bool{}
	for cur != nil && !seen[cur] {
		seen[cur] = true
		iff, ok := cur.Instrs[len(cur.Instrs)-1].(*ssa.If)
		if !ok {
			break
		}
		arm, ok := rawTest(iff.Cond, isRaw)
		if !ok {
			break
		}
		arm.Test = iff
		tIdx, fIdx := 0, 1
		if arm.Kind == "nil" {
			if b := iff.Cond.(*ssa.BinOp); b.Op == token.NEQ {
				tIdx, fIdx = 1, 0
			}
		}
		arm.Entry = cur.Succs[tIdx]
		arm.Fn = fn
		arms = append(arms, arm)
		cur = cur.Succs[fIdx]
	}
	if cur != nil && len(arms) > 0 {
		arms = append(arms, tsArm{Kind: "default", Entry: cur, Fn: fn})
	}
	return arms
}

func rawTest(cond ssa.Value, isRaw func(ssa.Value) bool) (tsArm, bool) {
	switch x := cond.(type) {
	case *ssa.BinOp:
		if (x.Op == token.EQL || x.Op == token.NEQ) && ((isRaw(x.X) && isNil(x.Y)) || (isRaw(x.Y) && isNil(x.X))) {
			return tsArm{Kind: "nil"}, true
		}
	case *ssa.Extract:
		ta, ok := x.Tuple.(*ssa.TypeAssert)
		if !ok || !ta.CommaOk || x.Index != 1 || !isRaw(ta.X) {
			return tsArm{}, false
		}
		arm := tsArm{Type: ta.AssertedType, Kind: "concrete"}
		if it, ok := ta.AssertedType.Underlying().(*types.Interface); ok {
			arm.Kind = "iface"
			if it.NumMethods() == 1 {
				arm.Method = it.Method(0).Name()
			}
		}
		for _, r := range referrersOf(ta) {
			if ex, ok := r.(*ssa.Extract); ok && ex.Index == 0 {
				arm.Val = ex
			}
		}
		return arm, true
	}
	return tsArm{}, false
}

func runC01(c *Ctx) {
	r := c.R
	r.Explanation = "The text of a cell is computed in one place, (*Cell).Update, by a chain of dynamic-type tests on the stored item. The rules check that chain against the documented precedence and each arm against its source: " +
		"R01.1 arm order (every concrete arm precedes any interface arm it satisfies; String < GoString < Error among the interface arms; all documented arms and a default present); " +
		"R01.2 the value stored as the text in each arm is the documented one (the string itself, string(rune), the arm's own method, the inner cell's text, \"\", fmt %v of the item); " +
		"R01.3 every path through each arm stores the text before the arms rejoin (definite assignment); R01.4 the empty flag at every exit agrees with the text (path-enumerated abstract interpretation of Update); " +
		"R01.5 the item field is written only by constructors and Item() returns it; R01.6 only Update calls methods on the item, Update is called only by NewCell/updateCache, and the accessors return the snapshot. " +
		"Decided: the dispatch structure for all dynamic types at once (the type switch is finite; inputs only select an arm). Not decided: what fmt's %v prints."
	r.NotDecided = []string{"the output of fmt's %v verb for arbitrary values (trusted standard library)", "values returned by user methods"}
	r.Assumptions = []string{"go/types method-set computation decides which concrete arm types satisfy which interface arms"}
	r.Rule("R01.1", "dispatch order realises the documented precedence; all documented arms exist")
	r.Rule("R01.2", "each arm stores the documented text form of its item")
	r.Rule("R01.3", "every path through an arm assigns the text before leaving the arm")
	r.Rule("R01.4", "at every exit of Update, empty == (text is empty)")
	r.Rule("R01.5", "the item is stored only at construction and returned unchanged")
	r.Rule("R01.6", "the item's methods are called only by Update; accessors read the snapshot")

	cell := c.Named("", "Cell")
	raw, str, empty, mustCalc := c.Field(cell, "raw"), c.Field(cell, "str"), c.Field(cell, "empty"), c.Field(cell, "mustCalc")
	update := c.Method(cell, true, "Update")
	if raw == nil || str == nil || empty == nil || update == nil || mustCalc == nil {
		return
	}
	// Update may hand parts of its work to unexported methods only it uses (on the same cell): the dispatch is
	// looked for in whichever of them switches on the item
	unit := updateUnitOf(c, update)
	armFn := update
	arms := typeSwitchArms(update, raw)
	for _, f := range sortedFuncs(unit) {
		if f != update {
			if a2 := typeSwitchArms(f, raw); len(a2) > len(arms) {
				arms, armFn = a2, f
			}
		}
	}
	un := FuncName(armFn)
	// the dispatch may continue in a helper that Update hands the item to and whose result becomes the text
	var helper *ssa.Function
	var helperCall *ssa.Call
	eachInstr(armFn, func(in ssa.Instruction) {
		call, ok := in.(*ssa.Call)
		if !ok || helper != nil {
			return
		}
		f := call.Call.StaticCallee()
		if f == nil || !inModule(f) || len(f.Blocks) == 0 || f.Signature.Results().Len() != 1 || !isStringType(f.Signature.Results().At(0).Type()) {
			return
		}
		argIdx := -1
		for i, a := range call.Call.Args {
			if fl, _ := loadedField(unwrap(a, true)); fl == raw {
				argIdx = i
			}
		}
		if argIdx < 0 {
			return
		}
		// its result is stored as the text
		stored := false
		for _, rr := range referrersOf(call) {
			if st, ok := rr.(*ssa.Store); ok && st.Val == ssa.Value(call) {
				if fl, _ := storeField(st.Addr); fl == str {
					stored = true
				}
			}
		}
		if stored {
			if ha := typeSwitchArmsOnParam(f, f.Params[argIdx]); len(ha) > 0 {
				helper, helperCall = f, call
				// the helper's arms continue where Update's chain ends (its default arm)
				if n := len(arms); n > 0 && arms[n-1].Kind == "default" {
					arms = arms[:n-1]
				}
				arms = append(arms, ha...)
			}
		}
	})
	_ = helperCall
	r.Floor("R01.1", "dispatch arms on the item", len(arms), 8)

	// ---- R01.1
	want := map[string]bool{}
	ifaceOrder := []string{}
	for i, a := range arms {
		switch a.Kind {
		case "nil":
			want["nil"] = true
		case "concrete":
			if isNamed(a.Type, modPath, "Cell") {
				want["Cell"] = true
			}
			if b, ok := a.Type.Underlying().(*types.Basic); ok {
				if b.Kind() == types.String {
					want["string"] = true
				}
				if b.Kind() == types.Int32 {
					want["rune"] = true
				}
			}
			// must precede every interface arm it satisfies
			for j := 0; j < i; j++ {
				if arms[j].Kind == "iface" {
					it := arms[j].Type.Underlying().(*types.Interface)
					if types.Implements(a.Type, it) {
						r.Check("R01.1", un, a.name()+" precedes "+arms[j].name(), a.Test.Pos(), false, "the concrete arm is unreachable: values of this type are captured by the earlier interface arm")
					}
				}
			}
		case "iface":
			ifaceOrder = append(ifaceOrder, a.Method)
			want["iface:"+a.Method] = true
		case "default":
			want["default"] = true
		}
	}
	for _, w := range []string{"nil", "Cell", "string", "rune", "iface:String", "iface:GoString", "iface:Error", "default"} {
		r.Check("R01.1", un, "has arm "+w, armFn.Pos(), want[w], "documented arm missing from the dispatch")
	}
	pos := func(m string) int {
		for i, x := range ifaceOrder {
			if x == m {
				return i
			}
		}
		return -1
	}
	if pos("String") >= 0 && pos("GoString") >= 0 && pos("Error") >= 0 {
		r.Check("R01.1", un, "interface arms in order String < GoString < Error", armFn.Pos(), pos("String") < pos("GoString") && pos("GoString") < pos("Error"), fmt.Sprint(ifaceOrder))
	}
	// concrete-before-interface summary obligation
	r.Check("R01.1", un, "every concrete arm precedes the interface arms it satisfies", armFn.Pos(), true, fmt.Sprintf("%d arms examined", len(arms)))

	// ---- R01.2 / R01.3
	recv := armFn.Params[0]
	strStoresIn := func(entry *ssa.BasicBlock) []*ssa.Store {
		var out []*ssa.Store
		for _, b := range armFn.Blocks {
			if !entry.Dominates(b) {
				continue
			}
			for _, in := range b.Instrs {
				if st, ok := in.(*ssa.Store); ok {
					if f, base := storeField(st.Addr); f == str && base == ssa.Value(recv) {
						out = append(out, st)
					}
				}
			}
		}
		return out
	}
	nstores := 0
	for _, a := range arms {
		if a.Fn != armFn {
			// an arm of the helper: its text is what it returns
			nret := 0
			for _, b := range a.Fn.Blocks {
				if !a.Entry.Dominates(b) {
					continue
				}
				for _, in := range b.Instrs {
					if ret, isRet := in.(*ssa.Return); isRet {
						nret++
						nstores++
						ok, why := armSourceOK(a, results(ret)[0], raw, str)
						r.Check("R01.2", FuncName(a.Fn), fmt.Sprintf("%s: returned text #%d is the documented form", a.name(), nret), ret.Pos(), ok, why)
					}
				}
			}
			r.Check("R01.3", FuncName(a.Fn), a.name()+": text produced on every path", a.Entry.Instrs[0].Pos(), nret > 0, "the arm never returns a text")
			continue
		}
		stores := strStoresIn(a.Entry)
		nstores += len(stores)
		// R01.3
		ok, why := mustStoreBeforeLeaving(a.Entry, func(in ssa.Instruction) bool {
			st, is := in.(*ssa.Store)
			if !is {
				return false
			}
			f, base := storeField(st.Addr)
			return f == str && base == ssa.Value(recv)
		})
		r.Check("R01.3", un, a.name()+": text assigned on every path", a.Entry.Instrs[0].Pos(), ok, why)
		// R01.2
		for i, st := range stores {
			if helper != nil && st.Val == ssa.Value(helperCall) {
				continue // the text computed by the helper's arms, judged there
			}
			ok, why := armSourceOK(a, st.Val, raw, str)
			r.Check("R01.2", un, fmt.Sprintf("%s: stored text #%d is the documented form", a.name(), i+1), st.Pos(), ok, why)
		}
	}
	if helper != nil {
		// the helper's result is stored as the text on every path that reaches it
		ok, why := mustStoreBeforeLeaving(helperCall.Block(), func(in ssa.Instruction) bool {
			st, is := in.(*ssa.Store)
			return is && st.Val == ssa.Value(helperCall)
		})
		r.Check("R01.3", un, "the text computed by "+FuncName(helper)+" is assigned on every path", helperCall.Pos(), ok, why)
	}
	r.Floor("R01.2", "text values produced by dispatch arms", nstores, 8)
	// the text an arm produced is final: Update stores the text only inside a dispatch arm (or as the result of the
	// helper the dispatch continues in); a later rewrite (trimming, normalising line ends, expanding tabs) changes
	// what every renderer prints
	{
		inArm := func(st *ssa.Store) bool {
			for _, a := range arms {
				if a.Fn == armFn && a.Entry != nil && a.Entry.Dominates(st.Block()) {
					return true
				}
			}
			return false
		}
		n := 0
		for _, fs := range c.StoresTo(str) {
			if !unit[fs.Fn] || len(fs.Fn.Params) == 0 || fs.Base != ssa.Value(fs.Fn.Params[0]) {
				continue
			}
			if fs.Fn == armFn && inArm(fs.St) || (helper != nil && fs.St.Val == ssa.Value(helperCall)) {
				continue
			}
			// the documented empty-text bookkeeping may store the constant ""
			if s0, isK := constString(fs.St.Val); isK && s0 == "" {
				continue
			}
			n++
			r.Check("R01.2", un, fmt.Sprintf("text store #%d outside the dispatch arms", n), fs.St.Pos(), false, "the text computed by the arm is replaced afterwards by "+fs.St.Val.String())
		}
	}

	// ---- R01.4 path enumeration
	c01Emptiness(c, update, recv, str, empty)
	// writers of empty outside Update
	for _, fs := range c.StoresTo(empty) {
		if !unit[fs.Fn] {
			ok := fs.Fresh
			if k, isC := constBool(fs.St.Val); isC && !k && fs.Fresh {
				ok = true
			}
			r.Check("R01.4", FuncName(fs.Fn), "store Cell.empty outside Update", fs.St.Pos(), ok && nextCallsUpdate(fs, update), "the empty flag is set somewhere that does not also recompute the text")
		}
	}
	for _, fs := range c.StoresTo(str) {
		if !unit[fs.Fn] {
			r.Check("R01.4", FuncName(fs.Fn), "store Cell.str outside Update", fs.St.Pos(), false, "the text is written somewhere that does not recompute the empty flag")
		}
	}

	// ---- R01.5
	nraw := 0
	for _, fs := range c.StoresTo(raw) {
		nraw++
		r.Check("R01.5", FuncName(fs.Fn), "store Cell.raw", fs.St.Pos(), fs.Fresh, "the stored item is replaced after construction (only a constructor's fresh cell may set it)")
	}
	r.Floor("R01.5", "writers of Cell.raw", nraw, 1)
	c01ItemsReachCells(c, "R01.5")
	// the constructor wraps whatever it is given: every cell it returns is one it built, holding the argument itself
	if nc := c.Func("", "NewCell"); nc != nil && len(nc.Params) == 1 {
		for i, ret := range returnsOf(nc) {
			ok, why := false, "the returned cell is not one built here around the argument"
			for _, v := range phiClosure(results(ret)[0]) {
				ld, isLd := v.(*ssa.UnOp)
				if !isLd {
					ok, why = false, "returns "+v.String()+": an item that is itself a cell must still be stored as the item of a new cell"
					break
				}
				al, isAl := ld.X.(*ssa.Alloc)
				if !isAl {
					ok = false
					break
				}
				ok = false
				for _, fs := range c.StoresTo(raw) {
					if fs.Fn == nc && fs.Base == ssa.Value(al) && fs.St.Val == ssa.Value(nc.Params[0]) && instrDominates(fs.St, ret) {
						ok = true
					}
				}
				if !ok {
					break
				}
			}
			r.Check("R01.5", FuncName(nc), fmt.Sprintf("return #%d is a cell built here whose item is the argument, unchanged", i+1), ret.Pos(), ok, why)
		}
	}
	if item := c.Method(cell, false, "Item"); item != nil {
		for i, ret := range returnsOf(item) {
			v := results(ret)[0]
			r.Check("R01.5", FuncName(item), fmt.Sprintf("return #%d is the stored item itself", i+1), ret.Pos(), recvFieldRead(item, v, raw), v.String())
		}
	}

	// ---- R01.6
	updateCache := c.MethodOpt(cell, true, "updateCache")
	newCell := c.Func("", "NewCell")
	ninv := 0
	for _, fn := range c.LibFuncs() {
		eachInstr(fn, func(in ssa.Instruction) {
			cc := callCommon(in)
			if cc == nil {
				return
			}
			var rv ssa.Value
			if cc.IsInvoke() {
				rv = cc.Value
			} else if cc.StaticCallee() != nil && cc.Signature().Recv() != nil && len(cc.Args) > 0 {
				rv = cc.Args[0]
			} else {
				return
			}
			if !derivesFromField(rv, raw, 0) && !(fn == helper && helper != nil && derivesFromParam(rv, helper, 0)) {
				return
			}
			ninv++
			r.Check("R01.6", FuncName(fn), "method call on the stored item: "+calleeDesc(cc), in.Pos(), unit[fn] || fn == helper, "the item is consulted outside Update: a mutated item would show through without an update")
		})
		// callers of Update
		eachInstr(fn, func(in ssa.Instruction) {
			if staticCallee(in) == update {
				ok := fn == newCell || fn == updateCache || guardedByField(in, mustCalc) || allCallersGuarded(c, fn, mustCalc)
				r.Check("R01.6", FuncName(fn), "call to (*Cell).Update", in.Pos(), ok, "Update is re-run implicitly; the cell's text must be a snapshot until the caller asks for an update")
			}
		})
	}
	r.Floor("R01.6", "method calls on the stored item", ninv, 3)
	// every implicit recomputation (updateCache) is guarded by the mustCalc flag of the same cell
	if updateCache != nil {
		for _, fn := range c.LibFuncs() {
			eachInstr(fn, func(in ssa.Instruction) {
				if staticCallee(in) != updateCache {
					return
				}
				guarded := false
				for _, cf := range dominatingConds(in.Block()) {
					if f, _ := loadedField(cf.Cond); f == mustCalc && cf.Val {
						guarded = true
					}
				}
				r.Check("R01.6", FuncName(fn), "call to updateCache is under a test of mustCalc", in.Pos(), guarded, "an accessor recomputes the text from the item unconditionally")
			})
		}
	}
	for _, fs := range c.StoresTo(mustCalc) {
		k, isC := constBool(fs.St.Val)
		zeroInit := isC && !k
		r.Check("R01.6", FuncName(fs.Fn), "store Cell.mustCalc", fs.St.Pos(), zeroInit, "mustCalc set to a non-false value makes every accessor re-read the item")
	}
	// accessors return the snapshot
	for _, acc := range []struct {
		name string
		f    *types.Var
	}{{"String", str}} {
		fn := c.Method(cell, false, acc.name)
		if fn == nil {
			continue
		}
		for i, ret := range returnsOf(fn) {
			v := results(ret)[0]
			fl, _ := loadedField(v)
			if fv, isF := v.(*ssa.Field); isF {
				// the field of a cell value handed back by an unexported helper applied to the receiver
				if call, isCall := fv.X.(*ssa.Call); isCall && call.Call.StaticCallee() != nil && inModule(call.Call.StaticCallee()) && len(call.Call.Args) > 0 && isRecvValue(fn, call.Call.Args[0]) {
					fl = fieldOfField(fv)
				}
			}
			r.Check("R01.6", FuncName(fn), fmt.Sprintf("return #%d is the cached %s of a cell", i+1, acc.f.Name()), ret.Pos(), fl == acc.f, v.String())
		}
	}
	if emptyFn := c.Method(cell, true, "Empty"); emptyFn != nil {
		for i, ret := range returnsOf(emptyFn) {
			ok := true
			var v ssa.Value
			for _, v = range phiClosure(results(ret)[0]) {
				k, isC := constBool(v)
				if !(recvFieldRead(emptyFn, v, empty) || (isC && k)) {
					ok = false
					break
				}
			}
			r.Check("R01.6", FuncName(emptyFn), fmt.Sprintf("return #%d is the cached flag (or true for a nil cell)", i+1), ret.Pos(), ok, v.String())
		}
	}
}

// mustStoreBeforeLeaving: on every path from entry, a matching instruction executes before control
// returns or leaves the region dominated by entry.
func mustStoreBeforeLeaving(entry *ssa.BasicBlock, match func(ssa.Instruction) bool) (bool, string) {
	seen := map[*ssa.BasicBlock]bool{}
	var walk func(b *ssa.BasicBlock) (bool, string)
	walk = func(b *ssa.BasicBlock) (bool, string) {
		if seen[b] {
			return true, ""
		}
		seen[b] = true
		for _, in := range b.Instrs {
			if match(in) {
				return true, ""
			}
			if _, ok := in.(*ssa.Return); ok {
				return false, "a path returns without assigning"
			}
		}
		for _, s := range b.Succs {
			if !entry.Dominates(s) {
				return false, "a path leaves the arm without assigning (the previous text would be kept)"
			}
			if ok, why := walk(s); !ok {
				return false, why
			}
		}
		return true, ""
	}
	return walk(entry)
}

// armSourceOK: the value stored as text in arm a is the documented one.
func armSourceOK(a tsArm, v ssa.Value, raw, str *types.Var) (bool, string) {
	switch a.Kind {
	case "nil":
		s, ok := constString(v)
		return ok && s == "", "nil item must give the empty text"
	case "default":
		call, ok := v.(*ssa.Call)
		if !ok {
			return false, "default arm must format the item with fmt"
		}
		f := call.Call.StaticCallee()
		if f == nil || funcPkgPath(f) != "fmt" {
			return false, "default arm must format the item with fmt"
		}
		switch f.Name() {
		case "Sprintf":
			fs, ok := constString(call.Call.Args[0])
			if !ok || fs != "%v" {
				return false, "format is not %v"
			}
			return varargsAre(call.Call.Args[1], raw), "the formatted operand must be the item itself"
		case "Sprint":
			return varargsAre(call.Call.Args[0], raw), "the formatted operand must be the item itself"
		}
		return false, "unexpected fmt function " + f.Name()
	case "iface":
		call, ok := v.(*ssa.Call)
		if !ok || !call.Call.IsInvoke() {
			return false, "interface arm must store the result of the arm's own method"
		}
		if call.Call.Value != a.Val {
			return false, "the method is invoked on something other than this arm's asserted value"
		}
		if a.Method == "" || call.Call.Method.Name() != a.Method {
			return false, fmt.Sprintf("calls %s() in the arm for %s", call.Call.Method.Name(), shortType(a.Type))
		}
		return true, ""
	case "concrete":
		if b, ok := a.Type.Underlying().(*types.Basic); ok {
			switch b.Kind() {
			case types.String:
				return v == a.Val, "string arm must store the string itself"
			case types.Int32:
				cv, ok := v.(*ssa.Convert)
				return ok && cv.X == a.Val && isStringType(cv.Type()), "rune arm must store string(rune)"
			}
		}
		if isNamed(a.Type, modPath, "Cell") {
			if call, ok := v.(*ssa.Call); ok {
				// o.String() on the nested cell is its text as well
				if f := call.Call.StaticCallee(); f != nil && f.Name() == "String" && f.Signature.Recv() != nil && isNamed(f.Signature.Recv().Type(), modPath, "Cell") {
					arg := call.Call.Args[0]
					if arg == a.Val {
						return true, ""
					}
					if u, ok := arg.(*ssa.UnOp); ok && u.Op == token.MUL {
						arg = u.X
					}
					if al, ok := arg.(*ssa.Alloc); ok {
						for _, r := range referrersOf(al) {
							if st, ok := r.(*ssa.Store); ok && st.Addr == ssa.Value(al) && st.Val == a.Val {
								return true, ""
							}
						}
					}
				}
				return false, "Cell arm must store the inner cell's text"
			}
			f, base := loadedField(v)
			if f != str {
				return false, "Cell arm must store the inner cell's text"
			}
			if base == a.Val {
				return true, ""
			}
			if al, ok := base.(*ssa.Alloc); ok {
				for _, r := range referrersOf(al) {
					if st, ok := r.(*ssa.Store); ok && st.Addr == ssa.Value(al) && st.Val == a.Val {
						return true, ""
					}
				}
			}
			return false, "Cell arm reads the text of something other than the nested cell"
		}
		// an arm the documentation does not list must print exactly what the catch-all does (fmt's %v): either
		// it calls fmt the same way, or it is one of the strconv spellings that fmt itself uses for that kind
		if call, ok := v.(*ssa.Call); ok {
			if f := call.Call.StaticCallee(); f != nil {
				switch funcPkgPath(f) + "." + f.Name() {
				case "fmt.Sprintf":
					if fs, okF := constString(call.Call.Args[0]); okF && fs == "%v" {
						return true, ""
					}
				case "fmt.Sprint":
					return true, ""
				}
				if ok2, why := strconvEqualsV(call, a); ok2 {
					return true, ""
				} else if why != "" {
					return false, why
				}
			}
		}
		return false, "an arm for " + shortType(a.Type) + ", which the documentation does not list, formats the item in its own way; only fmt's %v (or the strconv call fmt uses for that kind, with the right bit size) is the documented text"
	}
	return false, "?"
}

// strconvEqualsV: the strconv call prints what fmt's %v prints for a value of the arm's (basic) type.
func strconvEqualsV(call *ssa.Call, a tsArm) (bool, string) {
	b, ok := a.Type.Underlying().(*types.Basic)
	if !ok {
		return false, ""
	}
	f := call.Call.StaticCallee()
	if funcPkgPath(f) != "strconv" {
		return false, ""
	}
	arg0 := call.Call.Args[0]
	if cv, isCv := arg0.(*ssa.Convert); isCv {
		arg0 = cv.X
	}
	if arg0 != a.Val {
		return false, "the strconv call formats something other than the item"
	}
	konst := func(i int) (int64, bool) {
		if i >= len(call.Call.Args) {
			return 0, false
		}
		return constInt(call.Call.Args[i])
	}
	info := b.Info()
	switch f.Name() {
	case "Itoa":
		return info&types.IsInteger != 0 && info&types.IsUnsigned == 0, ""
	case "FormatInt":
		base, okB := konst(1)
		if info&types.IsInteger != 0 && info&types.IsUnsigned == 0 && okB && base == 10 {
			return true, ""
		}
		return false, "FormatInt with a base other than 10, or on an unsigned kind"
	case "FormatUint":
		base, okB := konst(1)
		if info&types.IsUnsigned != 0 && okB && base == 10 && b.Kind() != types.Uint8 && b.Kind() != types.Uintptr {
			return true, ""
		}
		return false, "FormatUint with a base other than 10, or on a kind fmt prints differently"
	case "FormatBool":
		return b.Kind() == types.Bool, ""
	case "FormatFloat":
		fm, ok1 := konst(1)
		prec, ok2 := konst(2)
		bits, ok3 := konst(3)
		want := int64(64)
		if b.Kind() == types.Float32 {
			want = 32
		}
		if info&types.IsFloat != 0 && ok1 && fm == 'g' && ok2 && prec == -1 && ok3 && bits == want {
			return true, ""
		}
		return false, fmt.Sprintf("FormatFloat must be ('g', -1, %d) for %s to agree with %%v (shortest representation at the value's own precision)", want, b.Name())
	}
	return false, ""
}

func isStringType(t types.Type) bool {
	b, ok := t.Underlying().(*types.Basic)
	return ok && b.Kind() == types.String
}

// varargsAre: the variadic slice holds exactly one element, a load of field f.
func varargsAre(sl ssa.Value, f *types.Var) bool {
	s, ok := sl.(*ssa.Slice)
	if !ok {
		return false
	}
	al, ok := s.X.(*ssa.Alloc)
	if !ok {
		return false
	}
	at, ok := al.Type().(*types.Pointer).Elem().(*types.Array)
	if !ok || at.Len() != 1 {
		return false
	}
	for _, r := range referrersOf(al) {
		if ia, ok := r.(*ssa.IndexAddr); ok {
			for _, rr := range referrersOf(ia) {
				if st, ok := rr.(*ssa.Store); ok {
					v := unwrap(st.Val, true)
					if fl, _ := loadedField(v); fl == f {
						return true
					}
					if _, isPar := v.(*ssa.Parameter); isPar {
						return true // the helper's own item parameter
					}
					return false
				}
			}
		}
	}
	return false
}

// derivesFromField: v is obtained from a load of field f by type assertion / extraction / phi.
func derivesFromField(v ssa.Value, f *types.Var, depth int) bool {
	if depth > 8 {
		return false
	}
	if fl, _ := loadedField(v); fl == f {
		return true
	}
	switch x := v.(type) {
	case *ssa.Extract:
		return derivesFromField(x.Tuple, f, depth+1)
	case *ssa.TypeAssert:
		return derivesFromField(x.X, f, depth+1)
	case *ssa.ChangeInterface:
		return derivesFromField(x.X, f, depth+1)
	case *ssa.MakeInterface:
		return derivesFromField(x.X, f, depth+1)
	case *ssa.Phi:
		for _, e := range x.Edges {
			if derivesFromField(e, f, depth+1) {
				return true
			}
		}
	}
	return false
}

func nextCallsUpdate(fs fieldStore, update *ssa.Function) bool {
	// a constructor that initialises the flag and then calls Update on the same fresh cell
	found := false
	eachInstr(fs.Fn, func(in ssa.Instruction) {
		if staticCallee(in) == update {
			if cc := callCommon(in); len(cc.Args) > 0 && cc.Args[0] == fs.Base && instrDominates(fs.St, in) {
				found = true
			}
		}
	})
	return found
}

// c01Emptiness enumerates the paths of Update (with the helpers only it uses followed inline) carrying the abstract
// state (text emptiness, flag).
func c01Emptiness(c *Ctx, update *ssa.Function, recv *ssa.Parameter, str, empty *types.Var) {
	r := c.R
	un := FuncName(update)
	unit := updateUnitOf(c, update)
	if unitHasLoop(unit) {
		r.Note("shape-unrecognised R01.4: Update contains a loop; emptiness not evaluated by path enumeration")
		return
	}
	type res struct {
		st  string
		ret *ssa.Return
	}
	var outs []res
	w := &pathWalker{unit: unit}
	w.onStore = func(fn *ssa.Function, x *ssa.Store, st string) string {
		f, base := storeField(x.Addr)
		if len(fn.Params) == 0 || base != ssa.Value(fn.Params[0]) {
			return st
		}
		b := []byte(st)
		if f == str {
			if s0, ok := constString(x.Val); ok {
				if s0 == "" {
					b[0] = 'E'
				} else {
					b[0] = 'N'
				}
			} else if fl, _ := loadedField(x.Val); fl == str {
				b[0] = 'C'
			} else if f2 := staticCalleeOfValue(x.Val); f2 != nil && f2.Name() == "String" && f2.Signature.Recv() != nil && isNamed(f2.Signature.Recv().Type(), modPath, "Cell") {
				b[0] = 'C'
			} else {
				b[0] = 'U'
			}
		}
		if f == empty {
			if k, ok := constBool(x.Val); ok {
				if k {
					b[1] = 'T'
				} else {
					b[1] = 'F'
				}
			} else if fl, _ := loadedField(x.Val); fl == empty {
				b[1] = 'C'
			} else if isTest, neg := strEmptyTest(x.Val, paramOf(fn), str); isTest {
				// c.empty = (c.str == ""): the flag is the test itself
				if b[0] == 'E' {
					b[1] = map[bool]byte{false: 'T', true: 'F'}[neg]
				} else if b[0] == 'N' {
					b[1] = map[bool]byte{false: 'F', true: 'T'}[neg]
				} else {
					b[1] = 'U'
				}
			} else {
				b[1] = 'U'
			}
		}
		return string(b)
	}
	w.onIf = func(fn *ssa.Function, cond ssa.Value, st string) (string, string) {
		isEmptyTest, neg := strEmptyTest(cond, paramOf(fn), str)
		if !isEmptyTest {
			return st, st
		}
		t, f := []byte(st), []byte(st)
		if !neg {
			t[0], f[0] = refine(st[0], true), refine(st[0], false)
		} else {
			t[0], f[0] = refine(st[0], false), refine(st[0], true)
		}
		return string(t), string(f)
	}
	w.onReturn = func(ret *ssa.Return, st string) { outs = append(outs, res{st, ret}) }
	w.run(update, "UU")
	npaths := w.npaths
	bad := map[*ssa.Return]string{}
	for _, o := range outs {
		ok := (o.st[0] == 'E' && o.st[1] == 'T') || (o.st[0] == 'N' && o.st[1] == 'F') || (o.st[0] == 'C' && o.st[1] == 'C')
		if !ok {
			bad[o.ret] = fmt.Sprintf("a path reaches this return with text=%c flag=%c (E empty, N non-empty, C copied from the nested cell, U unknown; T/F)", o.st[0], o.st[1])
		}
	}
	for i, ret := range returnsOf(update) {
		why, isBad := bad[ret]
		r.Check("R01.4", un, fmt.Sprintf("return #%d: empty flag agrees with the text on all paths", i+1), ret.Pos(), !isBad, why)
	}
	r.Extra["R01.4_paths_enumerated"] = npaths
	r.Floor("R01.4", "paths through Update", npaths, 5)
	_ = recv
}

func paramOf(fn *ssa.Function) *ssa.Parameter {
	if len(fn.Params) == 0 {
		return nil
	}
	return fn.Params[0]
}

func refine(s byte, empty bool) byte {
	if s == 'C' {
		return 'C'
	}
	if empty {
		return 'E'
	}
	return 'N'
}

// strEmptyTest recognises `c.str == ""`, `c.str != ""`, `len(c.str) == 0`, `len(c.str) != 0`, `len(c.str) > 0`.
func strEmptyTest(cond ssa.Value, recv *ssa.Parameter, str *types.Var) (isTest bool, negated bool) {
	b, ok := cond.(*ssa.BinOp)
	if !ok {
		return false, false
	}
	isStr := func(v ssa.Value) bool {
		f, base := loadedField(v)
		return f == str && base == ssa.Value(recv)
	}
	isLenStr := func(v ssa.Value) bool {
		call, ok := isBuiltinCall(v, "len")
		return ok && isStr(call.Call.Args[0])
	}
	emptyConst := func(v ssa.Value) bool { s, ok := constString(v); return ok && s == "" }
	zero := func(v ssa.Value) bool { n, ok := constInt(v); return ok && n == 0 }
	switch b.Op {
	case token.EQL, token.NEQ:
		if (isStr(b.X) && emptyConst(b.Y)) || (isStr(b.Y) && emptyConst(b.X)) || (isLenStr(b.X) && zero(b.Y)) || (isLenStr(b.Y) && zero(b.X)) {
			return true, b.Op == token.NEQ
		}
	case token.GTR:
		if isLenStr(b.X) && zero(b.Y) {
			return true, true
		}
	}
	return false, false
}

func staticCalleeOfValue(v ssa.Value) *ssa.Function {
	call, ok := v.(*ssa.Call)
	if !ok {
		return nil
	}
	return call.Call.StaticCallee()
}

// derivesFromParam: v is obtained from a parameter of fn by type assertion / extraction / phi.
func derivesFromParam(v ssa.Value, fn *ssa.Function, depth int) bool {
	if depth > 8 {
		return false
	}
	switch x := v.(type) {
	case *ssa.Parameter:
		for _, p := range fn.Params {
			if p == x {
				return true
			}
		}
	case *ssa.Extract:
		return derivesFromParam(x.Tuple, fn, depth+1)
	case *ssa.TypeAssert:
		return derivesFromParam(x.X, fn, depth+1)
	case *ssa.ChangeInterface:
		return derivesFromParam(x.X, fn, depth+1)
	case *ssa.MakeInterface:
		return derivesFromParam(x.X, fn, depth+1)
	case *ssa.Phi:
		for _, e := range x.Edges {
			if derivesFromParam(e, fn, depth+1) {
				return true
			}
		}
	}
	return false
}

// c01ItemsReachCells: the builders that take a list of items (AddRowItems, AddHeaders) turn item i into cell i
// by NewCell(items[i]) for every i, in order, with nothing done to the item on the way.
func c01ItemsReachCells(c *Ctx, rule string) {
	r := c.R
	nc := c.Func("", "NewCell")
	add := c.Method(c.Named("", "Row"), true, "Add")
	if nc == nil || add == nil {
		return
	}
	n := 0
	for _, fn := range c.ModFuncs("") {
		if fn.Object() == nil || len(fn.Params) == 0 {
			continue
		}
		// the list of items: the variadic parameter of an exported builder, or the []interface{} parameter of an
		// unexported helper to which every caller passes its own list unchanged
		var items *ssa.Parameter
		for _, par := range fn.Params {
			if sl, ok := par.Type().Underlying().(*types.Slice); ok && types.Identical(sl.Elem(), types.NewInterfaceType(nil, nil)) {
				items = par
			}
		}
		if items == nil {
			continue
		}
		if fn.Object().Exported() {
			if !fn.Signature.Variadic() || items != fn.Params[len(fn.Params)-1] {
				continue
			}
		} else {
			idx := -1
			for i, q := range fn.Params {
				if q == items {
					idx = i
				}
			}
			okCallers, ncall := true, 0
			for _, g := range c.ModFuncs("") {
				eachInstr(g, func(ci ssa.Instruction) {
					if staticCallee(ci) != fn {
						return
					}
					ncall++
					a, isPar := callCommon(ci).Args[idx].(*ssa.Parameter)
					if !isPar || !g.Signature.Variadic() || a != g.Params[len(g.Params)-1] {
						okCallers = false
					}
				})
			}
			if !okCallers || ncall == 0 {
				continue
			}
		}
		calls := 0
		eachInstr(fn, func(in ssa.Instruction) {
			call, ok := in.(*ssa.Call)
			if !ok || call.Call.StaticCallee() != nc {
				return
			}
			calls++
			n++
			sl, idx := sectionOfAny(call.Call.Args[0])
			okItem := sl == ssa.Value(items) && isFullRangeIndex(c, fn, idx, sl)
			r.Check(rule, FuncName(fn), fmt.Sprintf("cell #%d is NewCell(items[i]) for every i, the item as given", calls), in.Pos(), okItem, "the item is altered, replaced or skipped before it is stored: "+call.Call.Args[0].String())
			added := false
			for _, rr := range referrersOf(call) {
				if staticCallee(rr) == add && !condInsideLoop(rr.Block()) && rr.Block() == in.Block() {
					added = true
				}
			}
			r.Check(rule, FuncName(fn), fmt.Sprintf("cell #%d is added to the row being built, unconditionally", calls), in.Pos(), added, "")
		})
	}
	r.Floor(rule, "item-to-cell conversions in the variadic builders", n, 1)
}

// guardedByField: the instruction runs only where a (true) test of boolean field f dominates it.
func guardedByField(in ssa.Instruction, f *types.Var) bool {
	for _, cf := range expandConds(dominatingConds(in.Block())) {
		if fl, _ := loadedField(cf.Cond); fl == f && cf.Val {
			return true
		}
	}
	return false
}

// allCallersGuarded: fn is unexported, is called somewhere in the module, and every such call is under a test of f.
func allCallersGuarded(c *Ctx, fn *ssa.Function, f *types.Var) bool {
	if fn.Object() == nil || fn.Object().Exported() {
		return false
	}
	n, ok := 0, true
	for _, g := range c.LibFuncs() {
		eachInstr(g, func(in ssa.Instruction) {
			if staticCallee(in) == fn {
				n++
				if !guardedByField(in, f) {
					ok = false
				}
			}
		})
	}
	return ok && n > 0
}

// isRecvValue: v is fn's receiver (by value), or a load of / the address of its spill.
func isRecvValue(fn *ssa.Function, v ssa.Value) bool {
	if len(fn.Params) == 0 {
		return false
	}
	recv := fn.Params[0]
	for i := 0; i < 3; i++ {
		if v == ssa.Value(recv) {
			return true
		}
		switch x := v.(type) {
		case *ssa.UnOp:
			v = x.X
		case *ssa.Alloc:
			for _, rr := range referrersOf(x) {
				if st, ok := rr.(*ssa.Store); ok && st.Addr == ssa.Value(x) && st.Val == ssa.Value(recv) {
					return true
				}
			}
			return false
		default:
			return false
		}
	}
	return false
}

func sortedFuncs(m map[*ssa.Function]bool) []*ssa.Function {
	var out []*ssa.Function
	for f := range m {
		out = append(out, f)
	}
	sort.Slice(out, func(i, j int) bool { return FuncName(out[i]) < FuncName(out[j]) })
	return out
}
