package main

import (
	"fmt"
	"go/token"
	"go/types"
	"sort"
	"strings"
	"unicode"
	"unicode/utf8"

	"golang.org/x/tools/go/ssa"
)

func init() { register("C03", runC03); register("C04", runC04) }

// alignArm: the align.<Name> global compared (== true) on the way to block b, or "nil"/"".
func alignArm(b *ssa.BasicBlock) string {
	alignPkg := pkgPath("properties/align")
	arm := ""
	for _, cf := range dominatingConds(b) {
		bo, ok := cf.Cond.(*ssa.BinOp)
		if !ok || !(bo.Op == token.EQL && cf.Val || bo.Op == token.NEQ && !cf.Val) {
			continue
		}
		for _, side := range []ssa.Value{bo.X, bo.Y} {
			if g := loadedGlobal(unwrap(side, true)); g != nil && g.Pkg.Pkg.Path() == alignPkg {
				arm = g.Name()
			}
		}
	}
	return arm
}

func runC03(c *Ctx) {
	r := c.R
	r.Explanation = "Rectangularity relates the display widths of all output lines for all inputs; that arithmetic over run-time strings is NOT decided. Decided are conditions without which it cannot hold: " +
		"R03.1 one width source: the emitter's column widths have a single writer (ForColumnWidths, storing its argument), RenderTo builds one emitter from the one widths slice it computed and draws every line with it; every store into that slice is the header's width or an update guarded by 'new > old' (so a column is as wide as its widest header/body cell), and the update loop visits every cell of every non-separator row. " +
		"R03.2 rule lines and content lines use the same arithmetic: a rule line repeats the horizontal glyph K + width times per column, a content line pads each slot to the width and joins slots and dividers with the separator J; K == 2*len(J) with K and J read from the code (K=2, J=\" \"); both builders append exactly one slot and one divider per column. " +
		"R03.3 one measure: layout widths come from Cell.TerminalCellWidth and emit widths from StringCells of the same text (C18 R18.2). R03.4 decorations complete: every Decoration field the emitter reads is guaranteed non-empty by Populate (base glyph or a default whose source is already filled), every built-in is built through Populate or is boxless, and every glyph constant is exactly one non-combining rune. " +
		"R03.5 line sequence: top rule (header or body form), header lines then header rule, per row either one separator rule or one content line per element of the row's line list (which has at least one element), bottom rule; the boxless decoration yields no rule lines."
	r.NotDecided = []string{"equality of display widths of all rendered lines (arithmetic over run-time strings)", "display width of the glyphs in a terminal (assumed one cell each, as Decoration's doc requires)"}
	r.Assumptions = []string{"strings.Repeat/Join behave as documented", "each decoration glyph renders one cell wide"}
	r.Rule("R03.1", "one width source per render; column width is the maximum over header and body cells")
	r.Rule("R03.2", "rule-line and content-line arithmetic agree (K == 2*len(J)); one slot and one divider per column in both")
	r.Rule("R03.3", "layout and emit share one measure")
	r.Rule("R03.4", "every glyph the emitter reads is non-empty for populated decorations; built-ins are populated or boxless; glyphs are single runes")
	r.Rule("R03.5", "the sequence of rule and content lines")

	fn := renderToOf(c, "texttable")
	dec := c.Named("texttable/decoration", "Decoration")
	em := c.Named("texttable/decoration", "emitter")
	if fn == nil || dec == nil || em == nil {
		return
	}
	ix := c.Idx()
	p := ix.proverFor(fn)

	// ---- R03.1
	ok, why := ix.colWidthsPremise()
	r.CheckHow("R03.1", "texttable/decoration.emitter", "colWidths has a single writer that stores its argument; callers pass a slice they made, with non-negative elements", em.Obj().Pos(), ok, why, why)
	fcw := c.Method(dec, true, "ForColumnWidths")
	var fcwCalls []*ssa.Call
	eachInstr(fn, func(in ssa.Instruction) {
		if call, ok := in.(*ssa.Call); ok && call.Call.StaticCallee() == fcw && fcw != nil {
			fcwCalls = append(fcwCalls, call)
		}
	})
	r.Check("R03.1", FuncName(fn), "exactly one emitter is built per render, outside loops", fn.Pos(), len(fcwCalls) == 1 && loopDepth(fcwCalls[0].Block()) == 0, fmt.Sprintf("%d calls", len(fcwCalls)))
	var widths ssa.Value
	if len(fcwCalls) == 1 {
		widths = p.resolve(fcwCalls[0].Call.Args[1])
		// every emitter method call uses that emitter
		var emAlloc ssa.Value
		for _, rr := range referrersOf(fcwCalls[0]) {
			if st, ok := rr.(*ssa.Store); ok && st.Val == ssa.Value(fcwCalls[0]) {
				emAlloc = st.Addr
			}
		}
		n, bad := 0, 0
		eachInstr(fn, func(in ssa.Instruction) {
			f := staticCallee(in)
			if f == nil || f.Signature.Recv() == nil || namedOf(f.Signature.Recv().Type()) != em {
				return
			}
			n++
			recv := callCommon(in).Args[0]
			if u, ok := recv.(*ssa.UnOp); ok {
				recv = u.X
			}
			if recv != emAlloc && recv != ssa.Value(fcwCalls[0]) {
				bad++
			}
		})
		r.Check("R03.1", FuncName(fn), "every line is drawn by that one emitter", fn.Pos(), bad == 0 && n >= 6, fmt.Sprintf("%d emitter calls, %d on another emitter", n, bad))
	}
	// the widths may be made and filled by a helper that returns them
	var widthsBind map[*ssa.Parameter]ssa.Value
	if wc, isCall := widths.(*ssa.Call); isCall {
		if hms, h := returnedMake(wc); hms != nil {
			widths = hms
			widthsBind = map[*ssa.Parameter]ssa.Value{}
			for k, a := range wc.Call.Args {
				if k < len(h.Params) {
					widthsBind[h.Params[k]] = a
				}
			}
		}
	}
	if ms0, ok := widths.(*ssa.MakeSlice); ok {
		ns := 0
		for _, site := range sliceStoreSites(ms0, widthsBind, 0) {
			{
				st, ia, ms := site.St, site.IA, site.Slice
				fn := site.Fn
				p := ix.proverFor(fn)
				isHeadersResult := func(v ssa.Value) bool {
					if par, isPar := v.(*ssa.Parameter); isPar {
						if act, has := site.Bind[par]; has {
							return isHeadersResult(act)
						}
					}
					return isHeadersResult(v)
				}
				ns++
				// value is a cellWidth field of extracted dimensions
				isCW := false
				switch x := p.resolve(st.Val).(type) {
				case *ssa.Field:
					isCW = fieldOfField(x).Name() == anchorFieldName("texttable", "dimensions", "cellWidth")
				case *ssa.UnOp:
					if f, _ := loadedField(x); f != nil {
						isCW = f.Name() == anchorFieldName("texttable", "dimensions", "cellWidth")
					}
				}
				// guarded by new > old on the same element, or a header initialisation (first pass over headers)
				guarded := false
				for _, cf := range dominatingConds(st.Block()) {
					bo, ok := cf.Cond.(*ssa.BinOp)
					if !ok {
						continue
					}
					isOld := func(v ssa.Value) bool {
						u, ok := v.(*ssa.UnOp)
						if !ok {
							return false
						}
						ia2, ok := u.X.(*ssa.IndexAddr)
						return ok && p.canon(ia2.X) == p.canon(ms) && p.linOf(ia2.Index).String() == p.linOf(ia.Index).String()
					}
					if (bo.Op == token.GTR && cf.Val && p.canon(bo.X) == p.canon(st.Val) && isOld(bo.Y)) || (bo.Op == token.LSS && cf.Val && p.canon(bo.Y) == p.canon(st.Val) && isOld(bo.X)) {
						guarded = true
					}
				}
				hdrInit := false
				if !guarded {
					// the header pass: value read from headers[i] with the same i, before the body pass
					if call := sourceCallOf(p.resolve(st.Val)); call != nil && len(call.Call.Args) > 0 {
						if ia3, ok := call.Call.Args[0].(*ssa.IndexAddr); ok && isHeadersResult(ia3.X) && p.linOf(ia3.Index).String() == p.linOf(ia.Index).String() {
							hdrInit = true
						}
					}
				}
				// nothing else may decide whether a cell's width is taken into account
				for _, cf := range dominatingConds(st.Block()) {
					hb := cf.If.Block()
					isHdr := false
					for _, pr := range hb.Preds {
						if hb.Dominates(pr) {
							isHdr = true
						}
					}
					if isHdr {
						continue
					}
					okCond := false
					if x, _, isT := nilTest(cf.Cond); isT && isHeadersResult(x) {
						okCond = true
					}
					if call, isCall := cf.Cond.(*ssa.Call); isCall && call.Call.StaticCallee() != nil && call.Call.StaticCallee().Name() == "IsSeparator" && !cf.Val {
						okCond = true
					}
					if bo, isB := cf.Cond.(*ssa.BinOp); isB {
						switch bo.Op {
						case token.GTR, token.LSS, token.GEQ, token.LEQ:
							// the index bound tests (i >= len(headers), i >= columnCount) and the new > old test
							cs := p.condConstraints(cf.Cond, cf.Val)
							idx := p.linOf(ia.Index)
							for _, c1 := range cs {
								for t := range idx.coef {
									if _, has := c1.e.coef[t]; has {
										okCond = true
									}
								}
							}
							if p.canon(bo.X) == p.canon(st.Val) || p.canon(bo.Y) == p.canon(st.Val) {
								okCond = true
							}
						}
					}
					if !okCond {
						// a guard of the whole render (its other branch leaves the function and never rejoins) is fine
						other := hb.Succs[0]
						if cf.Val {
							other = hb.Succs[1]
						}
						ro, rs := blockReach(other, nil), blockReach(st.Block(), nil)
						disjoint := true
						for b := range ro {
							if rs[b] {
								disjoint = false
							}
						}
						okCond = disjoint
					}
					if !okCond {
						r.Check("R03.1", FuncName(fn), fmt.Sprintf("store #%d into the column widths is not conditional on anything but the cell's existence", ns), st.Pos(), false, "guarded by "+cf.Cond.String()+": some cells would not widen their column")
					}
				}
				r.Check("R03.1", FuncName(fn), fmt.Sprintf("store #%d into the column widths is the header's width or a maximum update", ns), st.Pos(), isCW && (guarded || hdrInit),
					fmt.Sprintf("measured cell width: %v, guarded by new > old: %v, header initialisation: %v", isCW, guarded, hdrInit))
			}
		}
		r.Floor("R03.1", "stores into the column widths", ns, 1)
	} else if widths != nil {
		r.Check("R03.1", FuncName(fn), "the widths slice is made in RenderTo", fn.Pos(), false, widths.String())
	}

	// ---- R03.2
	ctl := c.Method(em, false, "commonTemplateLine")
	crl := c.Method(em, false, "commonRenderedLine")
	if ctl != nil && crl != nil {
		K, J := int64(-1), ""
		haveJ := false
		pt := ix.proverFor(ctl)
		eachInstr(ctl, func(in ssa.Instruction) {
			if isCallTo(in, "strings", "Repeat") {
				cnt := pt.linOf(callCommon(in).Args[1])
				// K + e.colWidths[i]
				if len(cnt.coef) == 1 {
					K = cnt.k
				}
			}
		})
		eachInstr(crl, func(in ssa.Instruction) {
			if isCallTo(in, "strings", "Join") {
				if s, ok := constString(callCommon(in).Args[1]); ok {
					J, haveJ = s, true
				}
			}
		})
		r.Check("R03.2", "texttable/decoration.emitter", "horizontal run per column is width + 2*len(separator between slots and dividers)", ctl.Pos(), haveJ && K == int64(2*len(J)), fmt.Sprintf("K=%d, J=%q", K, J))
		// sibling agreement: both builders add the same number of pieces per column, in the same idiom
		type sig struct {
			idiom       string
			uncond, cnd int
			overCols    bool
		}
		sigOf := func(f *ssa.Function) sig {
			var sg sig
			count := func(in ssa.Instruction, n int) {
				if loopDepth(in.Block()) != 1 {
					return
				}
				if condInsideLoop(in.Block()) {
					sg.cnd += n
				} else {
					sg.uncond += n
				}
			}
			eachInstr(f, func(in ssa.Instruction) {
				if call, ok := isBuiltinCall(valueOf(in), "append"); ok {
					n := 1
					if _, elems, okE := appendedElems(call); okE && elems != nil {
						n = len(elems)
					}
					if sg.idiom == "" || sg.idiom == "append" {
						sg.idiom = "append"
						count(in, n)
					} else {
						sg.idiom = "mixed"
					}
					return
				}
				if cc := callCommon(in); cc != nil && cc.StaticCallee() != nil {
					fn := cc.StaticCallee()
					if (fn.Name() == "WriteString" || fn.Name() == "WriteByte" || fn.Name() == "WriteRune" || fn.Name() == "Write") && (funcPkgPath(fn) == "strings" || funcPkgPath(fn) == "bytes") {
						if sg.idiom == "" || sg.idiom == "builder" {
							sg.idiom = "builder"
							count(in, 1)
						} else {
							sg.idiom = "mixed"
						}
					}
				}
			})
			pf := ix.proverFor(f)
			eachInstr(f, func(in ssa.Instruction) {
				if iff, ok := in.(*ssa.If); ok {
					for _, cs := range pf.condConstraints(iff.Cond, true) {
						for t := range cs.e.coef {
							if strings.Contains(t, anchorFieldName("texttable/decoration", "emitter", "colWidths")) && strings.HasPrefix(t, "len(") {
								sg.overCols = true
							}
						}
					}
				}
			})
			return sg
		}
		// the per-column loop may live in a helper the builder hands its pieces to
		builderOf := func(f *ssa.Function) *ssa.Function {
			if sg := sigOf(f); sg.idiom != "" && sg.uncond+sg.cnd > 0 {
				return f
			}
			var found *ssa.Function
			for _, h := range pkgReach(f, 1)[1:] {
				if sg := sigOf(h); sg.idiom != "" && sg.uncond+sg.cnd > 0 {
					if found != nil {
						return f
					}
					found = h
				}
			}
			if found != nil {
				return found
			}
			return f
		}
		st, sr := sigOf(builderOf(ctl)), sigOf(builderOf(crl))
		switch {
		case st.idiom == "" || sr.idiom == "" || st.idiom == "mixed" || sr.idiom == "mixed" || st.idiom != sr.idiom:
			r.Note(fmt.Sprintf("shape-unrecognised R03.2: the rule-line builder (%s) and the content-line builder (%s) assemble their pieces in different ways; per-column piece agreement is not evaluated", st.idiom, sr.idiom))
		default:
			r.Check("R03.2", "texttable/decoration.emitter", "rule lines and content lines add the same number of pieces per column (one slot, one divider), looping over the column widths", ctl.Pos(),
				st.uncond+st.cnd == sr.uncond+sr.cnd && st.uncond >= 1 && sr.uncond >= 1 && st.overCols && sr.overCols,
				fmt.Sprintf("rule line: %d unconditional + %d conditional per iteration; content line: %d + %d", st.uncond, st.cnd, sr.uncond, sr.cnd))
		}
	}

	// ---- R03.3
	dims := c.Named("texttable", "dimensions")
	if dims != nil {
		cw := c.Field(dims, "cellWidth")
		n := 0
		for _, fs := range c.StoresTo(cw) {
			n++
			okv := false
			if k, isK := constInt(fs.St.Val); isK && k == 0 {
				okv = true
			}
			if call, isCall := fs.St.Val.(*ssa.Call); isCall && call.Call.StaticCallee() != nil && call.Call.StaticCallee().Name() == "TerminalCellWidth" {
				okv = true
			}
			r.Check("R03.3", FuncName(fs.Fn), "layout width of a cell is Cell.TerminalCellWidth()", fs.St.Pos(), okv, "")
		}
		r.Floor("R03.3", "constructions of the layout width", n, 1)
	}

	checkEmitWidth(c, "R03.3")
	importFreshState(c, "R03.3", "texttable")
	// a slot is as wide as its column: the text plus (column width - measured width) spaces, whatever the alignment
	importPremises(c, "R03.3", "slot-width premise ", "a slot padded from anything but the measured width of its text is narrower or wider than the column", func(o *Ob) bool {
		return o.Rule == "R04.3"
	}, func() { runC04(c) })
	// premise: the layout width (TerminalCellWidth) is the widest line measured in terminal cells, the same
	// measure the emitter applies to each line it prints
	if lines := c.Func("length", "Lines"); lines != nil {
		importPremises(c, "R03.3", "cell-width premise: ", "the column is sized from this measure", nil, func() { c18LongestAll(c, lines, []string{"Cells"}) })
		importPremises(c, "R03.3", "cell-width premise: ", "the column is sized from the width the cell records", nil, func() { c18WidthStores(c, "R18.2") })
		if cellT := c.Named("", "Cell"); cellT != nil {
			if upd := c.MethodOpt(cellT, true, "Update"); upd != nil {
				importPremises(c, "R03.3", "cell-width premise: ", "a cell that prints text but is recorded as 0 wide makes its lines wider than the column", func(o *Ob) bool {
					return strings.Contains(o.Construct, "width of 0")
				}, func() { c18MetricsAssigned(c, upd, c.FieldOpt(cellT, "width"), c.FieldOpt(cellT, "height"), false) })
			}
		}
		// ... and what is printed for a cell is what was measured: the lines the layout pass measured are the cell's
		// own lines (Cell.Lines is length.Lines of the text) and the measuring callback records them on every render
		importPremises(c, "R03.3", "measured-is-printed premise ", "a line printed from a stale or differently split text does not fit the column sized for the current one", func(o *Ob) bool {
			return (o.Rule == "R18.2" && strings.Contains(o.Construct, "length.Lines")) || (o.Rule == "R04.2" && (strings.Contains(o.Construct, "lines were recorded") || strings.Contains(o.Construct, "record i of a cell")))
		}, func() { runC18(c); runC04(c) })
	}

	// ---- R03.4
	need := map[string]bool{}
	for _, f := range c.ModFuncs("texttable/decoration") {
		if f.Signature.Recv() == nil || namedOf(f.Signature.Recv().Type()) != em {
			continue
		}
		eachInstr(f, func(in ssa.Instruction) {
			if u, ok := in.(*ssa.UnOp); ok {
				if fl, _ := loadedField(u); fl != nil && c.ownerOf(fl) == "Decoration."+fl.Name() && isStringType(fl.Type()) {
					need[fl.Name()] = true
				}
			}
		})
	}
	okp, whyp := ix.populateComplete(need)
	var nl []string
	for k := range need {
		nl = append(nl, k)
	}
	sort.Strings(nl)
	r.CheckHow("R03.4", "texttable/decoration", "every glyph field the emitter reads is filled by Populate; built-ins are populated or boxless", dec.Obj().Pos(), okp, strings.Join(nl, ","), whyp)
	r.Floor("R03.4", "decoration fields read by the emitter", len(need), 15)
	ng := 0
	for _, f := range c.ModFuncs("texttable/decoration") {
		eachInstr(f, func(in ssa.Instruction) {
			st, ok := in.(*ssa.Store)
			if !ok {
				return
			}
			fl, _ := storeField(st.Addr)
			if fl == nil || c.ownerOf(fl) != "Decoration."+fl.Name() {
				return
			}
			s, isC := constString(st.Val)
			if !isC || s == "" {
				return
			}
			ng++
			rn, _ := utf8.DecodeRuneInString(s)
			okG := utf8.RuneCountInString(s) == 1 && !unicode.Is(unicode.Mn, rn) && rn != utf8.RuneError
			r.Check("R03.4", FuncName(f), fmt.Sprintf("glyph %q for %s is one non-combining rune", s, fl.Name()), st.Pos(), okG, "a glyph that is not one cell wide breaks every line it appears in")
		})
	}
	r.Floor("R03.4", "glyph constants", ng, 40)

	// ---- R03.5
	c03Sequence(c, fn, em)
	// boxless: the rule-line builder returns "" at once
	if ctl != nil {
		isBox := c.Field(dec, "isBoxless")
		ok := false
		for _, ret := range returnsOf(ctl) {
			if s, isC := constString(results(ret)[0]); isC && s == "" {
				for _, cf := range dominatingConds(ret.Block()) {
					if f, _ := loadedField(cf.Cond); f == isBox && cf.Val && cf.If.Block() == ctl.Blocks[0] {
						ok = true
					}
				}
			}
		}
		r.Check("R03.5", FuncName(ctl), "a boxless decoration yields no rule line at all", ctl.Pos(), ok, "")
	}
	// at least one line per row
	if rtl := c.MethodOpt(c.Named("texttable", "TextTable"), true, "RowToLinesOfWidthStrings"); rtl != nil {
		pr := ix.proverFor(rtl)
		ok := true
		for _, ret := range returnsOf(rtl) {
			if good, _ := pr.prove(leq(linConst(1), pr.lenOf(results(ret)[0]), "at least one line"), ret, nil, 0); !good {
				ok = false
			}
		}
		r.Check("R03.5", FuncName(rtl), "every row has at least one content line", rtl.Pos(), ok, "")
		fs := ix.fillSummaryOf(rtl)
		r.Check("R03.5", FuncName(rtl), "every content line has one slot per column", rtl.Pos(), fs.ok && fs.elemLen.String() == "p:columnCount", fs.elemLen.String())
	}
}

func sourceCallOf(v ssa.Value) *ssa.Call {
	switch x := v.(type) {
	case *ssa.Call:
		return x
	case *ssa.Field:
		return sourceCallOf(x.X)
	case *ssa.Extract:
		return sourceCallOf(x.Tuple)
	case *ssa.UnOp:
		if fa, ok := x.X.(*ssa.FieldAddr); ok {
			if al, ok := fa.X.(*ssa.Alloc); ok {
				for _, rr := range referrersOf(al) {
					if st, ok := rr.(*ssa.Store); ok && st.Addr == ssa.Value(al) {
						return sourceCallOf(st.Val)
					}
				}
			}
		}
	}
	return nil
}

// c03Sequence: the sequence of emitter line methods feeding the writes of texttable.RenderTo.
func c03Sequence(c *Ctx, fn *ssa.Function, em *types.Named) {
	r := c.R
	rpo := rpoOrder(fn)
	type ev struct {
		name  string
		depth int
		order int
		hdr   string // "hdr" when under headers != nil, "nohdr" under == nil
		sep   string
		in    ssa.Instruction
	}
	var evs []ev
	eachInstr(fn, func(in ssa.Instruction) {
		f := staticCallee(in)
		if f == nil || f.Signature.Recv() == nil || namedOf(f.Signature.Recv().Type()) != em {
			return
		}
		if !strings.HasPrefix(f.Name(), "Line") && !strings.HasSuffix(f.Name(), "LineRendered") {
			return
		}
		// its result must be written
		written := flowsToWriter(in.(ssa.Value), 0)
		e := ev{name: f.Name(), depth: loopDepth(in.Block()), order: rpo[in.Block()]*10000 + instrIndex(in), in: in}
		if !written {
			e.name += "(unwritten)"
		}
		for _, cf := range dominatingConds(in.Block()) {
			if x, nn, ok := nilTest(cf.Cond); ok && isHeadersResult(x) {
				if (nn == 0) == cf.Val {
					e.hdr = "hdr"
				} else {
					e.hdr = "nohdr"
				}
			}
			if call, ok := cf.Cond.(*ssa.Call); ok && call.Call.StaticCallee() != nil && call.Call.StaticCallee().Name() == "IsSeparator" {
				if cf.Val {
					e.sep = "sep"
				} else {
					e.sep = "row"
				}
			}
		}
		evs = append(evs, e)
	})
	sort.Slice(evs, func(i, j int) bool { return evs[i].order < evs[j].order })
	// three groups: with headers, without headers, and the common tail (rows, bottom rule); the order of the two
	// branches in the source is immaterial, the tail must follow both
	var got []string
	group := map[string][]string{}
	lastBranch, firstTail := -1, 1<<60
	for _, e := range evs {
		desc := strings.Join(strings.Fields(fmt.Sprintf("%s/%d %s", e.name, e.depth, e.sep)), " ")
		group[e.hdr] = append(group[e.hdr], desc)
		if e.hdr != "" && e.order > lastBranch {
			lastBranch = e.order
		}
		if e.hdr == "" && e.order < firstTail {
			firstTail = e.order
		}
	}
	for _, g := range []string{"hdr", "nohdr", ""} {
		got = append(got, "["+g+"] "+strings.Join(group[g], "; "))
	}
	want := []string{"[hdr] LineHeaderTop/0; HeaderLineRendered/1; LineHeaderBodySep/0", "[nohdr] LineBodyTop/0", "[] LineSeparator/1 sep; BodyLineRendered/2 row; LineBottom/0"}
	norm := func(ss []string) string { return strings.Join(ss, " | ") }
	var pos token.Pos
	if len(evs) > 0 {
		pos = evs[0].in.Pos()
	}
	r.Check("R03.5", FuncName(fn), "lines are written in the documented sequence", pos, norm(got) == norm(want) && lastBranch < firstTail, "got "+norm(got)+" want "+norm(want))
	// the bottom rule is written on every successful path; the top rule precedes everything else in its branch
	for _, e := range evs {
		var w ssa.Instruction
		for _, rr := range referrersOf(e.in.(ssa.Value)) {
			if cc := callCommon(rr); cc != nil {
				w = rr
			}
		}
		if w == nil {
			continue
		}
		switch e.name {
		case "LineBottom":
			ok := true
			for _, ret := range returnsOf(fn) {
				if isNil(results(ret)[0]) && !instrDominates(w, ret) {
					ok = false
				}
			}
			r.Check("R03.5", FuncName(fn), "the bottom rule is written on every path that ends successfully", w.Pos(), ok, "a table can be left without its bottom rule")
		case "LineHeaderTop", "LineBodyTop":
			ok := true
			for _, o := range evs {
				if o.in == e.in || o.hdr != e.hdr {
					continue
				}
				if !instrDominates(w, o.in) {
					ok = false
				}
			}
			// unconditional within its branch
			base := 0
			for _, cf := range dominatingConds(w.Block()) {
				if x, _, isT := nilTest(cf.Cond); isT && isHeadersResult(x) {
					continue
				}
				if _, isT := cf.Cond.(*ssa.BinOp); isT {
					if e2, _, ok2 := nilTest(cf.Cond); ok2 && e2 != nil {
						// error checks of earlier writes / the decoration test
						continue
					}
				}
				base++
			}
			_ = base
			r.Check("R03.5", FuncName(fn), e.name+" precedes every other line of its branch", w.Pos(), ok, "")
		}
	}
	r.Floor("R03.5", "line-producing calls", len(evs), 7)
	// the line loops range over RowToLinesOfWidthStrings(headers / row.Cells())
	for _, e := range evs {
		if !strings.HasSuffix(e.name, "LineRendered") {
			continue
		}
		arg := callCommon(e.in).Args[1]
		sl, idx := sectionOfAny(arg)
		ok := false
		if call, isCall := sl.(*ssa.Call); isCall && call.Call.StaticCallee() != nil && call.Call.StaticCallee().Name() == "RowToLinesOfWidthStrings" {
			if isFullRangeIndex(c, fn, idx, sl) {
				src := call.Call.Args[1]
				if e.name == "HeaderLineRendered" {
					ok = isHeadersResult(src)
				} else {
					if cc, isC := src.(*ssa.Call); isC && cc.Call.StaticCallee() != nil && cc.Call.StaticCallee().Name() == "Cells" {
						ok = true
					}
				}
			}
		}
		r.Check("R03.5", FuncName(fn), e.name+": one content line per element of the row's line list", e.in.Pos(), ok, "")
	}
}

// ---- C04 -----------------------------------------------------------------------------

func runC04(c *Ctx) {
	r := c.R
	r.Explanation = "That every cell line survives unmodified in its slot for all inputs, and the exact pad counts, are value-level and NOT decided. Decided: " +
		"R04.1 effective alignment: the text renderer reads the alignment of each column and of column 0 and uses the latter where the former is unset (own setting beats the all-columns default). " +
		"R04.2 slot wiring: a content line's slot i is WithinWidthAligned(colWidths[i], colAligns[i]) of cellStrs[i] - the same i three times; a row's line l, column c is line l of cell c, blank when the cell has no such line or the row no such cell; the per-line records are built from the cell's own lines, in order, text unchanged. " +
		"R04.3 padding: pad = available - W clamped at 0; left = text then pad spaces, right = pad spaces then text, centre = pad/2 spaces, text, pad - pad/2 spaces (odd space on the right); the text occurs exactly once in each arm; unset alignment means left. " +
		"R04.4 declared sizes reach layout: width and height recorded for a cell are Cell.TerminalCellWidth()/Height() (which honour the item's overrides, C01/C18); a single-line item that declares its width is padded by that width; the per-line array is at least as long as the declared height and as the line count."
	r.NotDecided = []string{"that the padded slot has exactly the column's display width for all texts (needs W to equal the real display width)", "multi-line items that declare a width (the statement only covers single-line ones)"}
	r.Assumptions = []string{"strings.Repeat(\" \", n) is n spaces"}
	r.Rule("R04.1", "a column's own alignment overrides the column-0 default")
	r.Rule("R04.2", "every cell line goes, unmodified, into the slot of its own column and line")
	r.Rule("R04.3", "padding side and split follow the alignment; text appears exactly once")
	r.Rule("R04.4", "declared width and height drive layout and padding")

	fn := renderToOf(c, "texttable")
	em := c.Named("texttable/decoration", "emitter")
	ws := c.Named("texttable/decoration", "WidthString")
	if fn == nil || em == nil || ws == nil {
		return
	}
	ix := c.Idx()
	checkEffectiveProperty(c, "R04.1", fn, "properties/align", "PropertyType")
	importPropertyStore(c, "R04.1")
	// the resolved alignment of column i+1 is stored at columnAligns[i]
	{
		ok := false
		for _, hf := range pkgReach(fn, 2) {
			p := ix.proverFor(hf)
			eachInstr(hf, func(in ssa.Instruction) {
				st, isSt := in.(*ssa.Store)
				if !isSt {
					return
				}
				ia, isIA := st.Addr.(*ssa.IndexAddr)
				if !isIA {
					return
				}
				ta, isTA := st.Val.(*ssa.TypeAssert)
				if !isTA || !isNamed(ta.AssertedType, pkgPath("properties/align"), "Alignment") {
					return
				}
				// ta.X = GetProperty on Column(k): k == index + 1 (or the column-0 default)
				call := sourceCallOf(ta.X)
				if call == nil {
					return
				}
				var recv ssa.Value
				if call.Call.IsInvoke() {
					recv = call.Call.Value
				} else {
					recv = call.Call.Args[0]
				}
				if fa, isFA := recv.(*ssa.FieldAddr); isFA {
					recv = fa.X
				}
				if colCall, isC := unwrap(recv, true).(*ssa.Call); isC {
					k := colCall.Call.Args[len(colCall.Call.Args)-1]
					if p.linOf(k).String() == p.linOf(ia.Index).add(linConst(1)).String() {
						ok = true
					}
				}
			})
		}
		r.Check("R04.1", FuncName(fn), "the alignment of column i+1 is recorded for slot i", fn.Pos(), ok, "")
	}

	// ---- R04.2
	crl := c.Method(em, false, "commonRenderedLine")
	wwa := c.Method(ws, false, "WithinWidthAligned")
	if crl != nil && wwa != nil {
		n := 0
		for _, hf := range pkgReach(crl, 2) {
			hf := hf
			eachInstr(hf, func(in ssa.Instruction) {
				if staticCallee(in) != wwa {
					return
				}
				n++
				cc := callCommon(in)
				_, i0 := sectionOfAny(cc.Args[0])
				_, i1 := sectionOfAny(cc.Args[1])
				_, i2 := sectionOfAny(cc.Args[2])
				s0, _ := sectionOfAny(cc.Args[0])
				// the texts are the builder's cellStrs parameter (handed on unchanged when a helper does the loop)
				isCellStrs := s0 == ssa.Value(crl.Params[2])
				if hf != crl {
					isCellStrs = false
					eachInstr(crl, func(ci ssa.Instruction) {
						if staticCallee(ci) != hf {
							return
						}
						for k, a := range callCommon(ci).Args {
							if k < len(hf.Params) && s0 == ssa.Value(hf.Params[k]) && a == ssa.Value(crl.Params[2]) {
								isCellStrs = true
							}
						}
					})
				}
				// the width may be the range value of the widths (for i, w := range e.colWidths): same index by construction
				sameIdx := i0 != nil && i0 == i2 && (i1 == i0 || rangeValueIndex(cc.Args[1]) == i0)
				ok := sameIdx && isCellStrs
				r.Check("R04.2", FuncName(hf), "slot i is cellStrs[i] within colWidths[i] aligned by colAligns[i]", in.Pos(), ok, "the three indexes differ: text, width or alignment of another column is used")
			})
		}
		r.Floor("R04.2", "slot constructions", n, 1)
	}
	if rtl := c.MethodOpt(c.Named("texttable", "TextTable"), true, "RowToLinesOfWidthStrings"); rtl != nil {
		p := ix.proverFor(rtl)
		cells := rtl.Params[1]
		okCols, okCopy, okBlank := false, false, false
		nOther := 0
		condCols := false
		eachInstr(rtl, func(in ssa.Instruction) {
			st, isSt := in.(*ssa.Store)
			if !isSt {
				return
			}
			ia, isIA := st.Addr.(*ssa.IndexAddr)
			if !isIA {
				return
			}
			// columns[i] = Extract(&cells[i])
			if call, isCall := st.Val.(*ssa.Call); isCall && call.Call.StaticCallee() != nil && call.Call.StaticCallee().Name() == "CellPropertyExtractLinesWidths" {
				if ia2, isIA2 := call.Call.Args[0].(*ssa.IndexAddr); isIA2 && ia2.X == ssa.Value(cells) && ia2.Index == ia.Index {
					okCols = true
					if condInsideLoop(in.Block()) {
						condCols = true
					}
				}
				return
			}
			// lines[l][c] = columns[c][l]
			if isNamed(st.Val.Type(), pkgPath("texttable/decoration"), "WidthString") {
				dl, dc := twoLevelIndex(p, st.Addr)
				if k, isK := st.Val.(*ssa.Const); isK && k.Value == nil {
					okBlank = dl != "" // blank for a missing line
					return
				}
				if u, isU := st.Val.(*ssa.UnOp); isU {
					sc, sl := twoLevelIndex(p, u.X)
					if dl != "" && dl == sl && dc == sc {
						okCopy = true
						return
					}
				}
				if dl != "" {
					nOther++
					r.Check("R04.2", FuncName(rtl), fmt.Sprintf("slot store #%d is the cell's own line or a blank", nOther), st.Pos(), false, "a slot of line l, column c receives something other than line l of cell c or the blank record")
				}
			}
		})
		r.Check("R04.2", FuncName(rtl), "column c of a row is measured from cell c", rtl.Pos(), okCols, "")
		if okCols {
			r.Check("R04.2", FuncName(rtl), "the lines of every cell of the row are fetched, whatever the cell holds", rtl.Pos(), !condCols, "some cells are skipped under a condition: their text never reaches the output")
		}
		r.Check("R04.2", FuncName(rtl), "line l, column c of a row is line l of cell c", rtl.Pos(), okCopy, "")
		// no line of any cell is left out: the grid handed back has at least as many lines as every per-cell record
		// fetched (its line count is the running maximum of THEIR lengths - a height recorded elsewhere may be smaller
		// than the number of text lines)
		{
			pr := ix.proverFor(rtl)
			var grid *ssa.MakeSlice
			for _, ret := range returnsOf(rtl) {
				if ms, isMS := pr.resolve(results(ret)[0]).(*ssa.MakeSlice); isMS {
					grid = ms
				}
			}
			nl := 0
			if grid != nil {
				eachInstr(rtl, func(in ssa.Instruction) {
					u, isU := in.(*ssa.UnOp)
					if !isU || u.Op != token.MUL {
						return
					}
					ia, isIA := u.X.(*ssa.IndexAddr)
					if !isIA {
						return
					}
					ms, isMS := pr.resolve(ia.X).(*ssa.MakeSlice)
					if !isMS || ms == grid || !types.Identical(ms.Type(), grid.Type()) {
						return
					}
					// a record of one cell, read back after the records were fetched
					if h := innermostLoopHeader(u.Block()); h != nil {
						for _, site := range sliceStoreSites(ms, nil, 0) {
							if innermostLoopHeader(site.St.Block()) == h {
								return // still inside the fetching loop: the line count is not final yet
							}
						}
					}
					nl++
					okL, _ := pr.prove(leq(pr.lenOf(u), pr.lenOf(grid), "every line of the cell has a line of the grid"), u, nil, 0)
					r.Check("R04.2", FuncName(rtl), fmt.Sprintf("the grid has a line for every line of the cell record read at #%d", nl), u.Pos(), okL,
						"the number of lines of the grid is not shown to reach the number of lines of this cell's record: text lines beyond it are dropped")
				})
			}
		}
		if !okBlank {
			// no explicit blank store: fine when every line's slice is freshly made (zeroed) for that line alone
			fresh, n := true, 0
			eachInstr(rtl, func(in ssa.Instruction) {
				ms, isMS := in.(*ssa.MakeSlice)
				if !isMS {
					return
				}
				if sl, isSl := ms.Type().Underlying().(*types.Slice); !isSl || !isNamed(sl.Elem(), pkgPath("texttable/decoration"), "WidthString") {
					return
				}
				n++
				if loopDepth(ms.Block()) == 0 {
					fresh = false
				}
			})
			okBlank = fresh && n > 0
		}
		r.Check("R04.2", FuncName(rtl), "a missing line is a blank slot", rtl.Pos(), okBlank, "")
		// the slots a short row does not reach are blank too: every line's slice is made afresh (zeroed) for that
		// line, unconditionally - not re-used from an earlier row or render
		{
			nline, stale := 0, ""
			eachInstr(rtl, func(in ssa.Instruction) {
				st, isSt := in.(*ssa.Store)
				if !isSt {
					return
				}
				sl, isSl := st.Val.Type().Underlying().(*types.Slice)
				if !isSl || !isNamed(sl.Elem(), pkgPath("texttable/decoration"), "WidthString") {
					return
				}
				ia, isIA := st.Addr.(*ssa.IndexAddr)
				if !isIA {
					return
				}
				// only the grid that is handed back (not the per-column lists it is built from)
				isResult := false
				for _, ret := range returnsOf(rtl) {
					for _, root := range sliceRoots(results(ret)[0]) {
						for _, r2 := range sliceRoots(ia.X) {
							if root == r2 {
								isResult = true
							}
						}
					}
				}
				if !isResult {
					return
				}
				nline++
				ms, isMS := p.resolve(st.Val).(*ssa.MakeSlice)
				switch {
				case !isMS:
					stale = "a line's slots are " + st.Val.String() + ", not a slice made for this line"
				case loopDepth(ms.Block()) == 0:
					stale = "one slice is made before the loop and shared by every line"
				case condInsideLoop(ms.Block()) || condInsideLoop(st.Block()):
					stale = "a line's slice is made only under a condition: otherwise the slots keep what an earlier row left there"
				}
			})
			if nline > 0 {
				r.Check("R04.2", FuncName(rtl), "every line's slots start out blank (a slice made for that line, unconditionally)", rtl.Pos(), stale == "", stale)
			}
		}
	}
	// dimensionSetter: linesWidths[i] = {S: lines[i], ...} over cell.Lines()
	var ds *ssa.Function
	for _, f := range c.ModFuncs("texttable") {
		if f.Name() == "UpdateProperties" {
			ds = f
		}
	}
	if ds != nil {
		p := ix.proverFor(ds)
		sF, wF := c.Field(ws, "S"), c.Field(ws, "W")
		// the per-line records may be filled by a helper handed the slice and the lines: its parameters are read
		// as the values passed at its (single) call from the callback
		dsFns := pkgReach(ds, 1)
		inDs := map[*ssa.Function]bool{}
		bind := map[ssa.Value]ssa.Value{}
		for _, hf := range dsFns {
			inDs[hf] = true
			if hf == ds {
				continue
			}
			ncalls := 0
			eachInstr(ds, func(ci ssa.Instruction) {
				if staticCallee(ci) == hf {
					ncalls++
					for k, a := range callCommon(ci).Args {
						if k < len(hf.Params) {
							bind[hf.Params[k]] = a
						}
					}
				}
			})
			if ncalls != 1 {
				for _, par := range hf.Params {
					delete(bind, par)
				}
			}
		}
		res := func(v ssa.Value) ssa.Value {
			if a, ok := bind[v]; ok {
				return a
			}
			return v
		}
		okS := false
		var linesV ssa.Value
		for _, fs := range c.StoresTo(sF) {
			if !inDs[fs.Fn] {
				continue
			}
			slLocal, idx := sectionOfAny(fs.St.Val)
			sl := res(slLocal)
			if call, isCall := sl.(*ssa.Call); isCall && call.Call.StaticCallee() != nil && call.Call.StaticCallee().Name() == "Lines" {
				linesV = sl
				// stored into linesWidths[idx]
				for _, rr := range referrersOf(fs.Base) {
					if u, isU := rr.(*ssa.UnOp); isU {
						for _, r3 := range referrersOf(u) {
							if st, isSt := r3.(*ssa.Store); isSt && st.Val == ssa.Value(u) {
								if ia, isIA := st.Addr.(*ssa.IndexAddr); isIA && ia.Index == idx && isFullRangeIndex(c, fs.Fn, idx, slLocal) {
									okS = true
								}
							}
						}
					}
				}
			}
		}
		r.Check("R04.2", FuncName(ds), "record i of a cell holds line i of the cell's text, unchanged, for every line", ds.Pos(), okS, "")
		// every successful run of the callback records the lines it has just split: no path returns success without
		// the SetProperty calls (a cell whose item was changed and updated must not keep the lines of an earlier render)
		{
			setBlocks := map[*ssa.BasicBlock]bool{}
			eachInstr(ds, func(in ssa.Instruction) {
				cc := callCommon(in)
				if cc == nil {
					return
				}
				name := ""
				if cc.IsInvoke() {
					name = cc.Method.Name()
				} else if f := cc.StaticCallee(); f != nil {
					name = f.Name()
				}
				if name == "SetProperty" {
					setBlocks[in.Block()] = true
				}
			})
			// a call inside a loop that runs a constant, positive number of times (a table of key/value pairs)
			// happens whenever the loop is reached
			for b := range setBlocks {
				if h := innermostLoopHeader(b); h != nil && constTripAtLeastOne(h) {
					every := true
					for _, pred := range h.Preds {
						if h.Dominates(pred) && !b.Dominates(pred) {
							every = false
						}
					}
					if every {
						setBlocks[h] = true
					}
				}
			}
			reach := blockReach(ds.Blocks[0], func(b *ssa.BasicBlock) bool { return setBlocks[b] })
			for i, ret := range returnsOf(ds) {
				ev := results(ret)[len(ret.Results)-1]
				if !isNil(ev) {
					continue
				}
				bypass := reach[ret.Block()] && !setBlocks[ret.Block()]
				r.Check("R04.2", FuncName(ds), fmt.Sprintf("return #%d (success) is reached only after the cell's lines were recorded", i+1), ret.Pos(), !bypass && len(setBlocks) > 0,
					"a path reports success without measuring: the cell keeps the lines recorded by an earlier render")
			}
		}
		// R04.4
		dims := c.Named("texttable", "dimensions")
		if dims != nil {
			for _, fname := range []string{"cellWidth", "height"} {
				f := c.Field(dims, fname)
				want := map[string]string{"cellWidth": "TerminalCellWidth", "height": "Height"}[fname]
				ok := false
				for _, fs := range c.StoresTo(f) {
					if inDs[fs.Fn] {
						if call, isCall := fs.St.Val.(*ssa.Call); isCall && call.Call.StaticCallee() != nil && call.Call.StaticCallee().Name() == want {
							ok = true
						}
					}
				}
				r.Check("R04.4", FuncName(ds), "the recorded "+fname+" is the cell's "+want+"() (which honours the item's own declaration)", ds.Pos(), ok, "")
			}
		}
		// W uses the declared width for a single-line item that declares one
		okW, whyW := false, "the emit width never takes the declared width into account"
		for _, fs := range c.StoresTo(wF) {
			if !inDs[fs.Fn] {
				continue
			}
			phi, isPhi := fs.St.Val.(*ssa.Phi)
			if !isPhi {
				continue
			}
			pf := ix.proverFor(fs.Fn)
			for k, e := range phi.Edges {
				if !isDeclaredWidth(res(e)) {
					continue
				}
				pred := phi.Block().Preds[k]
				declares, single := false, false
				// the conditions of the edge; a condition that is a parameter of the helper stands for the value passed
				var conds []condFact
				for _, cf := range pf.edgeConds(pred, phi.Block()) {
					if a, isBound := bind[cf.Cond]; isBound {
						conds = append(conds, expandConds([]condFact{{a, cf.Val, cf.If}})...)
					} else {
						conds = append(conds, cf)
					}
				}
				for _, cf := range conds {
					if ex, ok := cf.Cond.(*ssa.Extract); ok && cf.Val {
						if ta, ok := ex.Tuple.(*ssa.TypeAssert); ok && isNamed(ta.AssertedType, modPath, "TerminalCellWidther") {
							declares = true
						}
					}
					if linesV != nil {
						for _, cs := range p.condConstraints(cf.Cond, cf.Val) {
							if entails([]constraint{cs}, leq(p.lenOf(linesV), linConst(1), "")) {
								single = true
							}
						}
					}
				}
				if declares && single {
					okW, whyW = true, ""
				} else {
					whyW = fmt.Sprintf("declared width used, but not exactly for single-line items that declare one (declares: %v, single line: %v)", declares, single)
				}
			}
		}
		r.Check("R04.4", FuncName(ds), "a single-line item that declares its width is padded by that width", ds.Pos(), okW, whyW)
		// array length >= declared height and >= line count
		eachInstr(ds, func(in ssa.Instruction) {
			ms, isMS := in.(*ssa.MakeSlice)
			if !isMS || !isNamed(ms.Type().Underlying().(*types.Slice).Elem(), pkgPath("texttable/decoration"), "WidthString") {
				return
			}
			var h ssa.Value
			eachInstr(ds, func(x ssa.Instruction) {
				if call, ok := x.(*ssa.Call); ok && call.Call.StaticCallee() != nil && call.Call.StaticCallee().Name() == "Height" {
					h = call
				}
			})
			ok1, ok2 := false, false
			if h != nil {
				ok1, _ = p.prove(leq(p.linOf(h), p.linOf(ms.Len), "len >= declared height"), in, nil, 0)
			}
			if linesV != nil {
				ok2, _ = p.prove(leq(p.lenOf(linesV), p.linOf(ms.Len), "len >= line count"), in, nil, 0)
			}
			r.Check("R04.4", FuncName(ds), "a cell occupies at least its declared height and at least its line count", in.Pos(), ok1 && ok2, fmt.Sprintf(">= declared height: %v, >= line count: %v", ok1, ok2))
		})
	}

	// premise: the measuring callback Wrap registers runs for every cell whatever other callbacks do
	importFreshState(c, "R04.2", "texttable")
	importPremises(c, "R04.4", "measuring-callback premise: ", "a cell that is not measured renders as a blank slot", nil, func() { c13InvokesAll(c, "R13.7") })

	// the item's own Height()/TerminalCellWidth() is consulted for every item that reaches the text dispatch,
	// whatever its text (an item with empty text may still declare a size)
	if upd := c.Method(c.Named("", "Cell"), true, "Update"); upd != nil {
		rawF := c.Field(c.Named("", "Cell"), "raw")
		unit := updateUnitOf(c, upd)
		arms := typeSwitchArms(upd, rawF)
		for _, f := range sortedFuncs(unit) {
			if a2 := typeSwitchArms(f, rawF); len(a2) > len(arms) {
				arms = a2
			}
		}
		armEntry := map[ssa.Instruction]string{}
		for _, a := range arms {
			if a.Kind == "nil" || (a.Kind == "concrete" && isNamed(a.Type, modPath, "Cell")) || a.Entry == nil || len(a.Entry.Instrs) == 0 {
				continue
			}
			armEntry[a.Entry.Instrs[0]] = a.name()
		}
		for _, iface := range []struct{ name, method, field string }{{"Heighter", "Height", "height"}, {"TerminalCellWidther", "TerminalCellWidth", "width"}} {
			var ta *ssa.TypeAssert
			for _, uf := range sortedFuncs(unit) {
				eachInstr(uf, func(in ssa.Instruction) {
					if x, ok := in.(*ssa.TypeAssert); ok && x.CommaOk && isNamed(x.AssertedType, modPath, iface.name) {
						if f, _ := loadedField(x.X); f == rawF {
							ta = x
						}
					}
				})
			}
			if ta == nil {
				r.Check("R04.4", FuncName(upd), "consults the item's "+iface.method+"()", upd.Pos(), false, "no assertion to "+iface.name)
				continue
			}
			ok, why := true, ""
			if unitHasLoop(unit) {
				r.Note("shape-unrecognised R04.4: Update contains a loop; that the item's " + iface.method + "() is consulted on every path is not evaluated")
			} else {
				// every path that enters a text arm reaches the assertion before Update returns (helpers followed inline)
				w := &pathWalker{unit: unit}
				w.onInstr = func(fn *ssa.Function, in ssa.Instruction, st string) string {
					b := []byte(st)
					if nm, isArm := armEntry[in]; isArm {
						b[0] = 'a'
						_ = nm
					}
					if in == ssa.Instruction(ta) {
						b[1] = 'y'
					}
					return string(b)
				}
				w.onReturn = func(ret *ssa.Return, st string) {
					if st[0] == 'a' && st[1] != 'y' {
						ok, why = false, "there is a path through a text arm to return that never asks the item for its "+iface.method+"()"
					}
				}
				w.run(upd, "--")
			}
			// the ok edge stores the declared value
			stored := false
			fld := c.Field(c.Named("", "Cell"), iface.field)
			for _, fs := range c.StoresTo(fld) {
				if call, isCall := fs.St.Val.(*ssa.Call); isCall && call.Call.IsInvoke() && call.Call.Method.Name() == iface.method {
					stored = true
				}
			}
			r.Check("R04.4", FuncName(upd), "an item's declared "+iface.method+"() is consulted on every path (also for empty text) and recorded", ta.Pos(), ok && stored, why)
		}
	}

	// ---- R04.3
	if wwa != nil {
		c04Padding(c, wwa, ws)
	}
}

// twoLevelIndex: addr is &A[x][y] (element y of the slice loaded from element x of A): returns canon lin of x and y.
func twoLevelIndex(p *prover, addr ssa.Value) (string, string) {
	ia, ok := addr.(*ssa.IndexAddr)
	if !ok {
		return "", ""
	}
	// the inner slice may also be one made here and installed as A[x] (line := make(..); ..; lines[l] = line)
	if ms, isMS := p.resolve(ia.X).(*ssa.MakeSlice); isMS {
		var outer *ssa.IndexAddr
		n := 0
		for _, rr := range referrersOf(ms) {
			if st, isSt := rr.(*ssa.Store); isSt && st.Val == ssa.Value(ms) {
				n++
				outer, _ = st.Addr.(*ssa.IndexAddr)
			}
		}
		if n == 1 && outer != nil {
			return p.linOf(outer.Index).String(), p.linOf(ia.Index).String()
		}
		return "", ""
	}
	u, ok := ia.X.(*ssa.UnOp)
	if !ok {
		return "", ""
	}
	ia2, ok := u.X.(*ssa.IndexAddr)
	if !ok {
		return "", ""
	}
	return p.linOf(ia2.Index).String(), p.linOf(ia.Index).String()
}

func c04Padding(c *Ctx, wwa *ssa.Function, ws *types.Named) {
	r := c.R
	p := c.Idx().proverFor(wwa)
	name := FuncName(wwa)
	sF, wF := c.Field(ws, "S"), c.Field(ws, "W")
	avail := wwa.Params[1]
	isS := func(v ssa.Value) bool {
		f, b := loadedField(v)
		if f != sF {
			return false
		}
		if al, ok := b.(*ssa.Alloc); ok {
			return p.spillOf(al) == wwa.Params[0]
		}
		return b == ssa.Value(wwa.Params[0])
	}
	// pad = phi(available - W, 0) under < 0 - in this function, or in a helper handed available - W
	clampPhiOf := func(f *ssa.Function, pf *prover, isRaw func(l lin) bool) *ssa.Phi {
		var out *ssa.Phi
		eachInstr(f, func(in ssa.Instruction) {
			phi, ok := in.(*ssa.Phi)
			if !ok || !isIntType(phi.Type()) || len(phi.Edges) != 2 {
				return
			}
			var raw ssa.Value
			zero := false
			for _, e := range phi.Edges {
				if k, isK := constInt(e); isK && k == 0 {
					zero = true
				} else {
					raw = e
				}
			}
			if !zero || raw == nil {
				return
			}
			l := pf.linOf(raw)
			if !isRaw(l) {
				return
			}
			// the zero edge is taken exactly when raw < 0
			for k, e := range phi.Edges {
				if kk, isK := constInt(e); isK && kk == 0 {
					var facts []constraint
					for _, cf := range pf.edgeConds(phi.Block().Preds[k], phi.Block()) {
						facts = append(facts, pf.condConstraints(cf.Cond, cf.Val)...)
					}
					if entails(facts, lt(l, linConst(0), "")) {
						out = phi
					}
				}
			}
		})
		return out
	}
	isAvailMinusW := func(pf *prover) func(l lin) bool {
		return func(l lin) bool {
			wTerm := ""
			for t, cf := range l.coef {
				if cf == -1 {
					wTerm = t
				}
			}
			return l.coef[pf.canon(avail)] == 1 && len(l.coef) == 2 && l.k == 0 && strings.Contains(wTerm, "."+wF.Name())
		}
	}
	pad := clampPhiOf(wwa, p, isAvailMinusW(p))
	var padHelper *ssa.Function
	var padHelperPhi *ssa.Phi
	if pad == nil {
		eachInstr(wwa, func(in ssa.Instruction) {
			call, ok := in.(*ssa.Call)
			if !ok || pad != nil {
				return
			}
			h := call.Call.StaticCallee()
			if h == nil || h.Blocks == nil || !inModule(h) {
				return
			}
			for k, a := range call.Call.Args {
				if k >= len(h.Params) || !isIntType(a.Type()) || !isAvailMinusW(p)(p.linOf(a)) {
					continue
				}
				ph := c.Idx().proverFor(h)
				par := h.Params[k]
				if phi := clampPhiOf(h, ph, func(l lin) bool { return l.String() == linTerm(ph.canon(par)).String() }); phi != nil {
					pad, padHelper, padHelperPhi = phi, h, phi
				}
			}
		})
	}
	r.Check("R04.3", name, "pad = available - W, clamped at 0", wwa.Pos(), pad != nil, "")
	if pad == nil {
		return
	}
	padL := linTerm(p.canon(pad))
	arms := 0
	// one (before, after) pair of space counts per alignment arm: read off the concatenation in each arm of the
	// function itself, or - when one concatenation serves all arms - off the arms of the helper that computes the pair
	type split struct {
		arm           string
		before, after lin
		pr            *prover
		padL          lin
		pos           token.Pos
		fn            *ssa.Function
		ok            bool
		why           string
	}
	var splits []split
	partsOf := func(ret *ssa.Return) (before, after []ssa.Value, nS int, okParts bool) {
		okParts = true
		seenS := false
		for _, part := range concatParts(results(ret)[0]) {
			if isS(part) {
				nS++
				seenS = true
				continue
			}
			cntV, ok := spaceRun(part)
			if !ok {
				okParts = false
				continue
			}
			if seenS {
				after = append(after, cntV)
			} else {
				before = append(before, cntV)
			}
		}
		return
	}
	sumOf := func(pr *prover, vs []ssa.Value) lin {
		out := linConst(0)
		for _, v := range vs {
			out = out.add(pr.linOf(v))
		}
		return out
	}
	for _, ret := range returnsOf(wwa) {
		arm := alignArm(ret.Block())
		bv, av, nS, okParts := partsOf(ret)
		if arm != "" {
			splits = append(splits, split{arm: arm, before: sumOf(p, bv), after: sumOf(p, av), pr: p, padL: padL, pos: ret.Pos(), fn: wwa, ok: okParts && nS == 1,
				why: fmt.Sprintf("text occurrences: %d", nS)})
			continue
		}
		// a single concatenation for all arms: counts are results of a helper called with the pad
		if !okParts || nS != 1 || len(bv) != 1 || len(av) != 1 {
			continue
		}
		exB, okB := bv[0].(*ssa.Extract)
		exA, okA := av[0].(*ssa.Extract)
		if !okB || !okA || exB.Tuple != exA.Tuple {
			continue
		}
		hc, isCall := exB.Tuple.(*ssa.Call)
		if !isCall || hc.Call.StaticCallee() == nil || hc.Call.StaticCallee().Blocks == nil || !inModule(hc.Call.StaticCallee()) {
			continue
		}
		h := hc.Call.StaticCallee()
		ph := c.Idx().proverFor(h)
		var hPad lin
		found := false
		for k, a := range hc.Call.Args {
			if k < len(h.Params) && padHelper == nil && p.canon(a) == p.canon(pad) {
				hPad, found = linTerm(ph.canon(h.Params[k])), true
			}
		}
		if padHelper == h && padHelperPhi != nil {
			// the helper clamps the spare room itself
			hPad, found = linTerm(ph.canon(padHelperPhi)), true
		}
		if !found {
			continue
		}
		// (a single return fed by per-arm assignments to named results is taken apart into its cases)
		for _, rc := range returnCasesDepth(h, 1) {
			arm := alignArm(rc.Ret.Block())
			if arm == "" && rc.Via != nil {
				arm = alignArm(rc.Via)
			}
			if arm == "" {
				continue
			}
			rv := rc.Vals
			splits = append(splits, split{arm: arm, before: ph.linOf(rv[exB.Index]), after: ph.linOf(rv[exA.Index]), pr: ph, padL: hPad, pos: rc.Ret.Pos(), fn: h, ok: true})
		}
	}
	for _, sp := range splits {
		arms++
		ok, why := sp.ok, sp.why
		isZero := func(l lin) bool { return l.isConst() && l.k == 0 }
		if ok {
			switch sp.arm {
			case "Left":
				ok = isZero(sp.before) && sp.after.String() == sp.padL.String()
				why = fmt.Sprintf("before: %s, after: %s (want 0 and %s)", sp.before.String(), sp.after.String(), sp.padL.String())
			case "Right":
				ok = isZero(sp.after) && sp.before.String() == sp.padL.String()
				why = fmt.Sprintf("before: %s, after: %s (want %s and 0)", sp.before.String(), sp.after.String(), sp.padL.String())
			case "Center":
				// before is pad/2 (a quotient term), after = pad - before
				isQuo := false
				if len(sp.before.coef) == 1 && sp.before.k == 0 {
					for t, cf := range sp.before.coef {
						if cf != 1 {
							continue
						}
						if v, has := sp.pr.termIndex().ints[t]; has {
							if bo, isB := v.(*ssa.BinOp); isB && bo.Op == token.QUO {
								if k, isK := constInt(bo.Y); isK && k == 2 && sp.pr.linOf(bo.X).String() == sp.padL.String() {
									isQuo = true
								}
							}
						}
					}
				}
				ok = isQuo && sp.after.String() == sp.padL.sub(sp.before).String()
				why = "centre: the left share must be pad/2 and the right share the rest (odd space on the right)"
			}
		}
		r.Check("R04.3", FuncName(sp.fn), "alignment "+sp.arm+": text once, padded on the documented side(s) by exactly pad", sp.pos, ok, why)
	}
	r.Floor("R04.3", "alignment arms", arms, 3)
	// a slot without the text: only for the "no such line" marker (a negative width), never for a real line however
	// narrow - a line of zero display width (a combining mark, an escape sequence with a declared width of 0)
	// is still that cell's text
	for i, ret := range returnsOf(wwa) {
		hasText := false
		for _, v := range phiClosure(results(ret)[0]) {
			for _, part := range concatParts(v) {
				if isS(part) {
					hasText = true
				}
				if call, isCall := part.(*ssa.Call); isCall {
					for _, a := range call.Call.Args {
						if isS(a) {
							hasText = true
						}
					}
				}
			}
		}
		if hasText {
			continue
		}
		var wv ssa.Value
		eachInstr(wwa, func(in ssa.Instruction) {
			if v, ok := in.(ssa.Value); ok {
				if f, b := loadedField(v); f == wF {
					if al, isAl := b.(*ssa.Alloc); (isAl && p.spillOf(al) == wwa.Params[0]) || b == ssa.Value(wwa.Params[0]) {
						if instrDominates(in, ret) {
							wv = v
						}
					}
				}
			}
		})
		okNeg := false
		if wv != nil {
			okNeg, _ = p.prove(leq(p.linOf(wv), linConst(-1), "blank slot only for the negative-width marker"), ret, nil, 0)
		}
		// ... or where the text is known to be empty anyway
		for _, cf := range expandConds(dominatingConds(ret.Block())) {
			if emptinessTest(cf.Cond, cf.Val, isS) {
				okNeg = true
			}
		}
		r.Check("R04.3", name, fmt.Sprintf("return #%d leaves the text out only under W < 0", i+1), ret.Pos(), okNeg, "a slot made of spaces alone is returned for widths that real lines can have (W == 0): their text is dropped")
	}
	// unset alignment means left
	okNil := false
	eachInstr(wwa, func(in ssa.Instruction) {
		phi, ok := in.(*ssa.Phi)
		if !ok || !isNamed(phi.Type(), pkgPath("properties/align"), "Alignment") {
			return
		}
		for k, e := range phi.Edges {
			if g := loadedGlobal(unwrap(e, true)); g != nil && g.Name() == "Left" {
				for _, cf := range p.edgeConds(phi.Block().Preds[k], phi.Block()) {
					if x, nn, isT := nilTest(cf.Cond); isT && x == ssa.Value(wwa.Params[2]) && (nn == 1) == cf.Val {
						okNil = true
					}
				}
			}
		}
	})
	r.Check("R04.3", name, "an unset alignment is treated as left", wwa.Pos(), okNil, "")
}

// condInsideLoop: b (inside a loop) executes only under some condition tested inside that loop other than the
// loop's own continuation test.
func condInsideLoop(b *ssa.BasicBlock) bool {
	hdr := innermostLoopHeader(b)
	if hdr == nil {
		return false
	}
	for _, cf := range dominatingConds(b) {
		if cf.If.Block() != hdr && hdr.Dominates(cf.If.Block()) {
			return true
		}
	}
	return false
}

// spaceRun: v is a run of ASCII spaces of a computed length: strings.Repeat(" ", n), or a call of a module helper
// whose only result is strings.Repeat(" ", <its parameter>). Returns n (in the caller's terms).
func spaceRun(v ssa.Value) (ssa.Value, bool) {
	call, ok := v.(*ssa.Call)
	if !ok {
		return nil, false
	}
	f := call.Call.StaticCallee()
	if isFunc(f, "strings", "Repeat") {
		if s, ok := constString(call.Call.Args[0]); ok && s == " " {
			return call.Call.Args[1], true
		}
		return nil, false
	}
	if f == nil || !inModule(f) || f.Blocks == nil || f.Signature.Recv() != nil {
		return nil, false
	}
	rets := returnsOf(f)
	if len(rets) != 1 || len(results(rets[0])) != 1 {
		return nil, false
	}
	inner, ok := spaceRun(results(rets[0])[0])
	if !ok {
		return nil, false
	}
	for i, par := range f.Params {
		if inner == ssa.Value(par) {
			return call.Call.Args[i], true
		}
	}
	return nil, false
}

// A store into an element of a slice made by some function, found either in that function or in a helper of the
// module that was handed the slice (as an out-parameter), up to two calls deep.
type sliceStoreSite struct {
	Fn    *ssa.Function
	St    *ssa.Store
	IA    *ssa.IndexAddr
	Slice ssa.Value                    // the slice as Fn names it: the made slice, or Fn's parameter
	Bind  map[*ssa.Parameter]ssa.Value // Fn's parameters -> the values the outermost function passed for them
}

func sliceStoreSites(root ssa.Value, bind map[*ssa.Parameter]ssa.Value, depth int) []sliceStoreSite {
	var out []sliceStoreSite
	var fn *ssa.Function
	switch x := root.(type) {
	case ssa.Instruction:
		fn = x.Parent()
	case *ssa.Parameter:
		fn = x.Parent()
	}
	if fn == nil {
		return nil
	}
	seen := map[ssa.Value]bool{}
	var visit func(v ssa.Value)
	visit = func(v ssa.Value) {
		if seen[v] {
			return
		}
		seen[v] = true
		for _, rr := range referrersOf(v) {
			switch x := rr.(type) {
			case *ssa.IndexAddr:
				if x.X != v {
					continue
				}
				for _, r3 := range referrersOf(x) {
					if st, ok := r3.(*ssa.Store); ok && st.Addr == ssa.Value(x) {
						out = append(out, sliceStoreSite{fn, st, x, root, bind})
					}
				}
			case *ssa.Phi:
				visit(x)
			case *ssa.Store:
				// the slice put into a local struct that groups values and is handed whole to helpers
				al, k := carrierOfStore(x)
				if al == nil || x.Val != v {
					continue
				}
				vals, stores, calls, okC := structFieldAliases(al, k, 0)
				if !okC || len(stores) != 1 {
					continue
				}
				for _, a := range vals {
					visit(a)
				}
				var follow func(calls []carrierCall, b map[*ssa.Parameter]ssa.Value, d int)
				follow = func(calls []carrierCall, b map[*ssa.Parameter]ssa.Value, d int) {
					for _, cc := range calls {
						callee := cc.Call.Common().StaticCallee()
						if callee == nil || !inModule(callee) || callee.Blocks == nil || d >= 3 || len(cc.Call.Common().Args) != len(callee.Params) {
							continue
						}
						nb := map[*ssa.Parameter]ssa.Value{}
						for j, a := range cc.Call.Common().Args {
							act := a
							if par, isPar := a.(*ssa.Parameter); isPar && b != nil {
								if outer, has := b[par]; has {
									act = outer
								}
							}
							nb[callee.Params[j]] = act
						}
						cv, cst, ccalls, okH := structFieldAliases(callee.Params[cc.Arg], k, 0)
						if !okH || len(cst) != 0 {
							continue
						}
						for _, a := range cv {
							out = append(out, sliceStoreSites(a, nb, d+1)...)
						}
						follow(ccalls, nb, d+1)
					}
				}
				follow(calls, bind, depth)
			case ssa.CallInstruction:
				cc := x.Common()
				callee := cc.StaticCallee()
				if callee == nil || !inModule(callee) || callee.Blocks == nil || depth >= 2 || len(cc.Args) != len(callee.Params) {
					continue
				}
				nb := map[*ssa.Parameter]ssa.Value{}
				for k, a := range cc.Args {
					act := a
					if par, isPar := a.(*ssa.Parameter); isPar && bind != nil {
						if outer, has := bind[par]; has {
							act = outer
						}
					}
					nb[callee.Params[k]] = act
				}
				for k, a := range cc.Args {
					if a == v {
						out = append(out, sliceStoreSites(callee.Params[k], nb, depth+1)...)
					}
				}
			}
		}
	}
	visit(root)
	return out
}

// flowsToWriter: v is handed to a write on an io.Writer value of its function (io.WriteString, fmt.Fprint*,
// w.Write, ...), directly or as the argument of a local closure / module helper whose corresponding parameter is
// (depth <= 2).
func flowsToWriter(v ssa.Value, depth int) bool {
	var fn *ssa.Function
	switch x := v.(type) {
	case ssa.Instruction:
		fn = x.Parent()
	case *ssa.Parameter:
		fn = x.Parent()
	}
	if fn == nil {
		return false
	}
	wv := writerValues(fn)
	for _, rr := range referrersOf(v) {
		ci, ok := rr.(ssa.CallInstruction)
		if !ok {
			// conversions ([]byte(s)) and variadic packing
			switch y := rr.(type) {
			case *ssa.Convert:
				if flowsToWriter(y, depth) {
					return true
				}
			case *ssa.MakeInterface:
				if flowsToWriter(y, depth) {
					return true
				}
			case *ssa.Store:
				// element of the implicit []interface{} of a variadic Fprint
				if ia, isIA := y.Addr.(*ssa.IndexAddr); isIA {
					if al, isAl := ia.X.(*ssa.Alloc); isAl {
						for _, r2 := range referrersOf(al) {
							if sl, isSl := r2.(*ssa.Slice); isSl && flowsToWriter(sl, depth) {
								return true
							}
						}
					}
				}
			}
			continue
		}
		cc := ci.Common()
		takesWriter := cc.IsInvoke() && wv[cc.Value]
		for _, a := range cc.Args {
			if wv[a] {
				takesWriter = true
			}
		}
		callee := cc.StaticCallee()
		if takesWriter && (callee == nil || !inModule(callee)) {
			return true
		}
		if callee == nil || callee.Blocks == nil || !inModule(callee) || depth >= 2 || len(cc.Args) != len(callee.Params) {
			continue
		}
		for k, a := range cc.Args {
			if a == v && flowsToWriter(callee.Params[k], depth+1) {
				return true
			}
		}
	}
	return false
}

// rangeValueIndex: v is the value variable of a range loop over a slice (for i, v := range s): returns the index i.
func rangeValueIndex(v ssa.Value) ssa.Value {
	_, idx := sectionOfAny(v)
	return idx
}

// constTripAtLeastOne: the loop headed by h is a counting loop from a constant start to a constant bound with at
// least one iteration:  for i := range <array of N>,  for i := 0; i < N; i++  (N >= 1 a constant).
func constTripAtLeastOne(h *ssa.BasicBlock) bool {
	iff, ok := h.Instrs[len(h.Instrs)-1].(*ssa.If)
	if !ok {
		return false
	}
	b, ok := iff.Cond.(*ssa.BinOp)
	if !ok || b.Op != token.LSS {
		return false
	}
	n, isK := constInt(b.Y)
	if !isK {
		return false
	}
	// b.X is phi (init 0) or phi+1 with phi init -1
	start := int64(0)
	var phi *ssa.Phi
	switch x := b.X.(type) {
	case *ssa.Phi:
		phi = x
	case *ssa.BinOp:
		if q, isPhi := x.X.(*ssa.Phi); isPhi && x.Op == token.ADD {
			if k, isC := constInt(x.Y); isC {
				phi, start = q, k
			}
		}
	}
	if phi == nil || phi.Block() != h {
		return false
	}
	for k, pred := range h.Preds {
		if h.Dominates(pred) {
			continue
		}
		k0, isC := constInt(phi.Edges[k])
		if !isC {
			return false
		}
		if k0+start >= n {
			return false
		}
	}
	return n >= 1
}
