package main

import (
	"sort"

	"golang.org/x/tools/go/ssa"
)

func sortStrings(s []string) { sort.Strings(s) }

func sortedMemberNames(p *ssa.Package) []string {
	var out []string
	for n := range p.Members {
		out = append(out, n)
	}
	sort.Strings(out)
	return out
}
