package main

import (
	"fmt"
	"go/constant"
	"go/token"
	"go/types"
	"os"

	"golang.org/x/tools/go/ssa"
)

// csvQuoterEmitShape recognises the all-fields quoter by WHAT IT EMITS on every path rather than by how it is
// spelled.  The output container is either a strings.Builder / bytes.Buffer local (events: Write* calls) or a
// []byte threaded through append (events: the appended elements).  Each emitted element is classified
// Q (the constant quote byte), B (the current input byte in[i] of the one loop, which visits every index) or
// other.  Accepted iff, over all paths:
//   - before the loop exactly [Q] is emitted, after it exactly [Q];
//   - one trip of the loop emits [B] on paths where B != '"' is known, and two bytes each B or Q on paths where
//     B == '"' is known (so a quote is doubled); a path that does not know which is rejected;
//   - nothing leaves the loop but the header's own test, nothing else touches the container, and the
//     returned string is the container's final content.
func csvQuoterEmitShape(c *Ctx, f *ssa.Function, in *ssa.Parameter, rv ssa.Value) string {
	events := map[ssa.Instruction][]ssa.Value{}
	form := ""
	switch x := rv.(type) {
	case *ssa.Call:
		callee := x.Call.StaticCallee()
		if callee == nil || callee.Name() != "String" || len(x.Call.Args) != 1 {
			return ""
		}
		if pp := funcPkgPath(callee); pp != "strings" && pp != "bytes" {
			return ""
		}
		root, _ := addrPath(x.Call.Args[0])
		al, isAl := root.(*ssa.Alloc)
		if !isAl {
			return ""
		}
		for _, r := range referrersOf(al) {
			switch u := r.(type) {
			case *ssa.DebugRef:
			case *ssa.Store:
				if u.Addr != ssa.Value(al) {
					return ""
				}
				if _, isConst := u.Val.(*ssa.Const); !isConst {
					return ""
				}
			case *ssa.Call:
				cf := u.Call.StaticCallee()
				if cf == nil || len(u.Call.Args) == 0 || u.Call.Args[0] != ssa.Value(al) {
					return ""
				}
				if pp := funcPkgPath(cf); pp != "strings" && pp != "bytes" {
					return ""
				}
				switch cf.Name() {
				case "Grow", "String", "Len", "Cap":
				case "WriteByte", "WriteString", "WriteRune":
					arg := u.Call.Args[1]
					if cf.Name() != "WriteByte" {
						// only a constant may be written as a string or rune (a byte >= 0x80 written as a rune is re-encoded)
						if _, isConst := arg.(*ssa.Const); !isConst {
							events[u] = []ssa.Value{nil}
							continue
						}
					}
					events[u] = []ssa.Value{arg}
				default:
					return ""
				}
			default:
				return ""
			}
		}
		form = "builder"
	case *ssa.Convert:
		sl, isSl := x.X.Type().Underlying().(*types.Slice)
		if !isSl {
			return ""
		}
		if b, isB := sl.Elem().Underlying().(*types.Basic); !isB || b.Kind() != types.Uint8 {
			return ""
		}
		states := map[ssa.Value]bool{}
		initIA := map[*ssa.IndexAddr]bool{}
		work := []ssa.Value{x.X}
		for len(work) > 0 {
			v := work[0]
			work = work[1:]
			if states[v] {
				continue
			}
			states[v] = true
			switch s := v.(type) {
			case *ssa.Phi:
				work = append(work, s.Edges...)
			case *ssa.Call:
				if b, isB := s.Call.Value.(*ssa.Builtin); !isB || b.Name() != "append" || len(s.Call.Args) != 2 {
					return ""
				}
				events[s] = quoterAppendedElems(s.Call.Args[1])
				work = append(work, s.Call.Args[0])
			case *ssa.MakeSlice:
				k, ok := constInt(s.Len)
				if !ok || k < 0 || k > 8 {
					return ""
				}
				if k > 0 {
					// make([]byte, k, ...) whose k elements are each set once, in order, straight after the make:
					// a start that already holds those k bytes
					next := int64(0)
					for _, ins := range s.Block().Instrs {
						ia, isIA := ins.(*ssa.IndexAddr)
						if !isIA || ia.X != ssa.Value(s) {
							continue
						}
						ik, isK := constInt(ia.Index)
						refs := referrersOf(ia)
						var st *ssa.Store
						for _, rr := range refs {
							switch y := rr.(type) {
							case *ssa.DebugRef:
							case *ssa.Store:
								if st != nil || y.Addr != ssa.Value(ia) {
									return ""
								}
								st = y
							default:
								return ""
							}
						}
						if !isK || ik != next || st == nil || st.Block() != s.Block() {
							return ""
						}
						next++
						events[st] = []ssa.Value{st.Val}
						initIA[ia] = true
					}
					if next != k {
						return ""
					}
				}
			case *ssa.Const:
				if !s.IsNil() {
					return ""
				}
			case *ssa.Slice:
				// room[:0] of a buffer made here and used for nothing else: an empty start with spare capacity
				ms, isMS := s.X.(*ssa.MakeSlice)
				if !isMS || s.Low != nil || s.High == nil {
					return ""
				}
				if k, ok := constInt(s.High); !ok || k != 0 {
					return ""
				}
				for _, r := range referrersOf(ms) {
					switch u := r.(type) {
					case *ssa.DebugRef:
					case *ssa.Slice:
						if u != s {
							return ""
						}
					default:
						return ""
					}
				}
			default:
				return ""
			}
		}
		// nothing else touches a state, and no two consumers of one state can both run
		for s := range states {
			var consumers []ssa.Instruction
			for _, r := range referrersOf(s) {
				switch u := r.(type) {
				case *ssa.DebugRef:
				case *ssa.Phi:
					if !states[u] {
						return ""
					}
				case *ssa.Call:
					if !states[u] || u.Call.Args[0] != s || u.Call.Args[1] == s {
						return ""
					}
					consumers = append(consumers, u)
				case *ssa.Convert:
					if u != x {
						return ""
					}
					consumers = append(consumers, u)
				case *ssa.IndexAddr:
					if !initIA[u] {
						return ""
					}
				default:
					return ""
				}
			}
			for i, a := range consumers {
				for j, b := range consumers {
					if i != j && (a.Block() == b.Block() || a.Block().Dominates(b.Block())) {
						return ""
					}
				}
			}
		}
		form = "append"
	default:
		return ""
	}
	if len(events) == 0 {
		return ""
	}

	// the one loop
	var hdr *ssa.BasicBlock
	for _, h := range f.Blocks {
		for _, p := range h.Preds {
			if h.Dominates(p) {
				if hdr != nil && hdr != h {
					return ""
				}
				hdr = h
			}
		}
	}
	if hdr == nil {
		return ""
	}
	inLoop := map[*ssa.BasicBlock]bool{}
	for _, b := range f.Blocks {
		if hdr.Dominates(b) && blockReach(b, nil)[hdr] {
			inLoop[b] = true
		}
	}
	iff, ok := hdr.Instrs[len(hdr.Instrs)-1].(*ssa.If)
	if !ok {
		return ""
	}
	var body, exit *ssa.BasicBlock
	switch {
	case inLoop[hdr.Succs[0]] && !inLoop[hdr.Succs[1]]:
		body, exit = hdr.Succs[0], hdr.Succs[1]
	case inLoop[hdr.Succs[1]] && !inLoop[hdr.Succs[0]]:
		body, exit = hdr.Succs[1], hdr.Succs[0]
	default:
		return ""
	}
	_ = iff
	for _, ins := range hdr.Instrs {
		if _, isEv := events[ins]; isEv {
			return ""
		}
	}

	isQuote := func(v ssa.Value) bool {
		if v == nil {
			return false
		}
		if k, ok := constInt(v); ok && k == '"' {
			return true
		}
		s, ok := constString(v)
		return ok && s == "\""
	}
	var idxV, bytesSlice ssa.Value
	okIdx := true
	curByte := func(v ssa.Value) bool {
		var idx, base ssa.Value
		switch x := v.(type) {
		case *ssa.Lookup:
			if x.X == ssa.Value(in) {
				idx, base = x.Index, in
			}
		case *ssa.Index:
			if x.X == ssa.Value(in) {
				idx, base = x.Index, in
			}
		case *ssa.UnOp:
			if ia, ok := x.X.(*ssa.IndexAddr); ok && x.Op == token.MUL {
				if cv, isCv := ia.X.(*ssa.Convert); isCv && cv.X == ssa.Value(in) {
					if sl, isSl := cv.Type().Underlying().(*types.Slice); isSl {
						if b, isB := sl.Elem().Underlying().(*types.Basic); isB && b.Kind() == types.Uint8 {
							idx, base = ia.Index, ia.X
						}
					}
				}
			}
		}
		if idx == nil {
			return false
		}
		if idxV != nil && idxV != idx {
			okIdx = false
		}
		idxV, bytesSlice = idx, base
		return true
	}
	classify := func(v ssa.Value) byte {
		switch {
		case isQuote(v):
			return 'Q'
		case v != nil && curByte(v):
			return 'B'
		}
		return 'O'
	}

	type pstate struct {
		ev string
		q  int // what the path knows about B == '"': 1 yes, -1 no, 0 nothing
	}
	const maxPaths = 256
	// enumerate the paths from start that stay in the region, until end(b) holds on arrival (or a Return for the tail)
	enumerate := func(start *ssa.BasicBlock, region func(*ssa.BasicBlock) bool, end *ssa.BasicBlock) ([]pstate, bool) {
		var out []pstate
		good := true
		var walk func(b *ssa.BasicBlock, st pstate, seen map[*ssa.BasicBlock]bool)
		walk = func(b *ssa.BasicBlock, st pstate, seen map[*ssa.BasicBlock]bool) {
			if !good || len(out) > maxPaths {
				good = false
				return
			}
			if b == end {
				out = append(out, st)
				return
			}
			if !region(b) || seen[b] {
				good = false
				return
			}
			seen[b] = true
			defer delete(seen, b)
			for _, ins := range b.Instrs {
				if evs, isEv := events[ins]; isEv {
					for _, e := range evs {
						st.ev += string(classify(e))
					}
				}
				switch t := ins.(type) {
				case *ssa.Return:
					if end != nil {
						good = false
						return
					}
					out = append(out, st)
					return
				case *ssa.Panic:
					good = false
					return
				case *ssa.Jump:
					walk(b.Succs[0], st, seen)
					return
				case *ssa.If:
					know := 0
					if bo, isB := t.Cond.(*ssa.BinOp); isB && (bo.Op == token.EQL || bo.Op == token.NEQ) {
						if (isQuote(bo.Y) && curByte(bo.X)) || (isQuote(bo.X) && curByte(bo.Y)) {
							know = 1
							if bo.Op == token.NEQ {
								know = -1
							}
						}
					}
					for k, s := range b.Succs {
						st2 := st
						if know != 0 {
							v := know
							if k == 1 {
								v = -know
							}
							if st.q != 0 && st.q != v {
								continue // infeasible
							}
							st2.q = v
						}
						walk(s, st2, seen)
					}
					return
				}
			}
		}
		walk(start, pstate{}, map[*ssa.BasicBlock]bool{})
		return out, good && len(out) > 0
	}
	notLoop := func(b *ssa.BasicBlock) bool { return !inLoop[b] }
	dbg := os.Getenv("TABDBG") == "quoter"
	pre, ok1 := enumerate(f.Blocks[0], notLoop, hdr)
	trips, ok2 := enumerate(body, func(b *ssa.BasicBlock) bool { return inLoop[b] && b != hdr }, hdr)
	post, ok3 := enumerate(exit, notLoop, nil)
	if dbg {
		fmt.Fprintf(os.Stderr, "quoter %s: pre %v %v trips %v %v post %v %v idx %v\n", f.Name(), pre, ok1, trips, ok2, post, ok3, idxV)
	}
	if !ok1 || !ok2 || !ok3 {
		return ""
	}
	for _, p := range pre {
		if p.ev != "Q" {
			return ""
		}
	}
	for _, p := range post {
		if p.ev != "Q" {
			return ""
		}
	}
	sawDouble := false
	for _, p := range trips {
		switch p.q {
		case -1:
			if p.ev != "B" {
				return ""
			}
		case 1:
			if len(p.ev) != 2 || (p.ev[0] != 'B' && p.ev[0] != 'Q') || (p.ev[1] != 'B' && p.ev[1] != 'Q') {
				return ""
			}
			sawDouble = true
		default:
			return ""
		}
	}
	if !sawDouble || !okIdx || idxV == nil {
		return ""
	}
	if !isFullRangeIndex(c, f, idxV, bytesSlice) {
		return ""
	}
	if phi, isPhi := idxV.(*ssa.Phi); isPhi && phi.Block() != hdr {
		return ""
	}
	return form + " (decided per path): opening quote, every input byte copied, each quote byte doubled, closing quote"
}

// quoterAppendedElems lists what append(s, elems...) adds: the elements of the variadic array literal, in order; a
// single nil stands for "something this analysis does not enumerate".
func quoterAppendedElems(v ssa.Value) []ssa.Value {
	unknown := []ssa.Value{nil}
	switch x := v.(type) {
	case *ssa.Const:
		if s, ok := constString(x); ok {
			var out []ssa.Value
			for i := 0; i < len(s); i++ {
				out = append(out, ssa.NewConst(constant.MakeInt64(int64(s[i])), types.Typ[types.Uint8]))
			}
			return out
		}
	case *ssa.Slice:
		al, isAl := x.X.(*ssa.Alloc)
		if !isAl || x.Low != nil || x.High != nil {
			return unknown
		}
		pt, _ := al.Type().Underlying().(*types.Pointer)
		if pt == nil {
			return unknown
		}
		arr, _ := pt.Elem().Underlying().(*types.Array)
		if arr == nil {
			return unknown
		}
		out := make([]ssa.Value, arr.Len())
		for _, r := range referrersOf(al) {
			switch u := r.(type) {
			case *ssa.IndexAddr:
				k, ok := constInt(u.Index)
				if !ok || k < 0 || k >= arr.Len() {
					return unknown
				}
				for _, rr := range referrersOf(u) {
					st, isSt := rr.(*ssa.Store)
					if !isSt || st.Addr != ssa.Value(u) || out[k] != nil {
						return unknown
					}
					out[k] = st.Val
				}
			case *ssa.Slice, *ssa.DebugRef:
			default:
				return unknown
			}
		}
		for _, e := range out {
			if e == nil {
				return unknown
			}
		}
		return out
	}
	return unknown
}
