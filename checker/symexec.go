package main

import (
	"go/token"
	"go/types"

	"golang.org/x/tools/go/ssa"
)

// A tiny path enumerator used by the dispatch/agreement rules: it walks a function's CFG from its
// entry with some parameters fixed to constants or to a dynamic type, deciding every branch it can
// (comparisons of those parameters with constants, comma-ok type assertions on them, nil tests of
// values whose abstract value on this path is known) and exploring both sides of the others.  Static
// calls to module functions are executed the same way (depth <= 3), so helpers that a maintainer
// extracts do not change what the rules see.

type absVal struct {
	kind string // "int" | "nil" | "nonnil" | "type" | "addr" | "load"
	k    int64
	v    ssa.Value  // nonnil: the defining value; addr/load: the root object (a pointer value)
	t    types.Type // "type": dynamic type of an interface value; nonnil from a type assertion: that type
	path []int      // addr/load: field indexes from the root
}

type symPath struct {
	env      map[ssa.Value]absVal
	trace    []ssa.Instruction // instructions of interest, in execution order (all frames)
	ret      *ssa.Return
	panicked bool
	blocks   []*ssa.BasicBlock
	result   []absVal // abstract values of the returned results (when resolvable)
	resOK    []bool
}

func (sp *symPath) resolve(v ssa.Value) (absVal, bool) {
	if c, ok := v.(*ssa.Const); ok {
		if c.Value == nil && !isBasicKind(c.Type()) {
			return absVal{kind: "nil"}, true
		}
		if k, ok := constInt(c); ok {
			return absVal{kind: "int", k: k}, true
		}
		if b, ok := constBool(c); ok {
			// (a flag a helper hands back: "found", "known")
			if b {
				return absVal{kind: "int", k: 1}, true
			}
			return absVal{kind: "int", k: 0}, true
		}
	}
	if a, ok := sp.env[v]; ok {
		return a, true
	}
	switch x := v.(type) {
	case *ssa.FieldAddr:
		base, ok := sp.resolve(x.X)
		switch {
		case ok && (base.kind == "addr"):
			return absVal{kind: "addr", v: base.v, path: append(append([]int{}, base.path...), x.Field)}, true
		case ok && base.kind == "nonnil" && base.v != nil:
			return absVal{kind: "addr", v: base.v, path: []int{x.Field}}, true
		case ok && base.kind == "nil":
			return absVal{}, false
		}
		return absVal{kind: "addr", v: x.X, path: []int{x.Field}}, true
	case *ssa.UnOp:
		if x.Op == token.MUL {
			if a, ok := sp.resolve(x.X); ok && a.kind == "addr" {
				return absVal{kind: "load", v: a.v, path: a.path}, true
			}
		}
		return absVal{}, false
	case *ssa.Alloc, *ssa.IndexAddr, *ssa.MakeInterface, *ssa.MakeSlice, *ssa.MakeClosure, *ssa.Function:
		return absVal{kind: "nonnil", v: v}, true
	case *ssa.ChangeType:
		return sp.resolve(x.X)
	}
	return absVal{}, false
}

func (sp *symPath) decide(cond ssa.Value) (bool, bool) {
	if isBoolType(cond.Type()) {
		if a, ok := sp.resolve(cond); ok && a.kind == "int" {
			return a.k != 0, true
		}
		if u, isU := cond.(*ssa.UnOp); isU && u.Op == token.NOT {
			if v, ok := sp.decide(u.X); ok {
				return !v, true
			}
			return false, false
		}
	}
	switch x := cond.(type) {
	case *ssa.BinOp:
		if x.Op != token.EQL && x.Op != token.NEQ {
			return false, false
		}
		a, ok1 := sp.resolve(x.X)
		b, ok2 := sp.resolve(x.Y)
		if !ok1 || !ok2 {
			return false, false
		}
		nn := func(k string) bool { return k == "nonnil" || k == "type" || k == "addr" }
		var eq bool
		switch {
		case a.kind == "int" && b.kind == "int":
			eq = a.k == b.k
		case a.kind == "nil" && b.kind == "nil":
			eq = true
		case (a.kind == "nil" && nn(b.kind)) || (nn(a.kind) && b.kind == "nil"):
			eq = false
		default:
			return false, false
		}
		if x.Op == token.NEQ {
			eq = !eq
		}
		return eq, true
	case *ssa.Extract:
		ta, ok := x.Tuple.(*ssa.TypeAssert)
		if !ok || x.Index != 1 {
			return false, false
		}
		a, ok := sp.resolve(ta.X)
		if !ok || a.kind != "type" {
			if ok && a.kind == "nil" {
				return false, true
			}
			return false, false
		}
		if it, isI := ta.AssertedType.Underlying().(*types.Interface); isI {
			return types.Implements(a.t, it), true
		}
		return types.Identical(a.t, ta.AssertedType), true
	}
	return false, false
}

func (sp *symPath) fork() *symPath {
	return &symPath{env: copyEnv(sp.env), trace: append([]ssa.Instruction{}, sp.trace...), blocks: append([]*ssa.BasicBlock{}, sp.blocks...)}
}

type symCtx struct {
	interest func(ssa.Instruction) bool
	out      []*symPath
	budget   int
}

// symExec enumerates paths (up to a bound); interest selects the instructions recorded in the trace.
func symExec(fn *ssa.Function, init map[ssa.Value]absVal, interest func(ssa.Instruction) bool) []*symPath {
	return symExecDepth(fn, init, interest, 0)
}

func symExecDepth(fn *ssa.Function, init map[ssa.Value]absVal, interest func(ssa.Instruction) bool, depth int) []*symPath {
	if len(fn.Blocks) == 0 {
		return nil
	}
	ctx := &symCtx{interest: interest, budget: 512}
	visits := map[*ssa.BasicBlock]int{}
	var walk func(b, pred *ssa.BasicBlock, from int, sp *symPath)
	walk = func(b, pred *ssa.BasicBlock, from int, sp *symPath) {
		if len(ctx.out) > ctx.budget {
			return
		}
		if from == 0 {
			if visits[b] > 2 {
				return
			}
			visits[b]++
			defer func() { visits[b]-- }()
			sp.blocks = append(sp.blocks, b)
			for _, in := range b.Instrs {
				phi, ok := in.(*ssa.Phi)
				if !ok {
					break
				}
				for i, p := range b.Preds {
					if p == pred {
						if a, ok := sp.resolve(phi.Edges[i]); ok {
							sp.env[phi] = a
						} else {
							delete(sp.env, phi)
						}
					}
				}
			}
		}
		for idx := from; idx < len(b.Instrs); idx++ {
			in := b.Instrs[idx]
			if interest != nil && interest(in) {
				sp.trace = append(sp.trace, in)
			}
			switch x := in.(type) {
			case *ssa.Extract:
				if ta, ok := x.Tuple.(*ssa.TypeAssert); ok && x.Index == 0 {
					if a, ok := sp.resolve(ta.X); ok && a.kind == "type" {
						sp.env[x] = absVal{kind: "nonnil", v: x, t: a.t}
					}
				}
				if call, ok := x.Tuple.(*ssa.Call); ok {
					if a, ok := sp.env[tupleKey{call, x.Index}.value()]; ok {
						sp.env[x] = a
					}
				}
			case *ssa.Call:
				callee := x.Call.StaticCallee()
				if callee != nil && inModule(callee) && len(callee.Blocks) > 0 && depth < 3 && callee != fn {
					cenv := map[ssa.Value]absVal{}
					for i, par := range callee.Params {
						if i < len(x.Call.Args) {
							if a, ok := sp.resolve(x.Call.Args[i]); ok {
								cenv[par] = a
							}
						}
					}
					cpaths := symExecDepth(callee, cenv, interest, depth+1)
					if len(cpaths) > 0 && len(cpaths) <= 8 {
						// fork the caller per callee outcome
						for _, cp := range cpaths {
							np := sp.fork()
							np.trace = append(np.trace, cp.trace...)
							if cp.panicked {
								np.panicked = true
								ctx.out = append(ctx.out, np)
								continue
							}
							if len(cp.result) == 1 && cp.resOK[0] {
								np.env[x] = cp.result[0]
							} else {
								for i := range cp.result {
									if cp.resOK[i] {
										np.env[tupleKey{x, i}.value()] = cp.result[i]
									}
								}
							}
							walk(b, pred, idx+1, np)
						}
						return
					}
				}
			case *ssa.Return:
				cp := sp.fork()
				cp.ret = x
				rv := results(x)
				cp.result = make([]absVal, len(rv))
				cp.resOK = make([]bool, len(rv))
				for i, v := range rv {
					cp.result[i], cp.resOK[i] = sp.resolve(v)
				}
				ctx.out = append(ctx.out, cp)
				return
			case *ssa.If:
				if val, ok := sp.decide(x.Cond); ok {
					i := 1
					if val {
						i = 0
					}
					walk(b.Succs[i], b, 0, sp)
					return
				}
				for _, s := range b.Succs {
					walk(s, b, 0, sp.fork())
				}
				return
			case *ssa.Panic:
				cp := sp.fork()
				cp.panicked = true
				ctx.out = append(ctx.out, cp)
				return
			}
		}
		for _, s := range b.Succs {
			walk(s, b, 0, sp)
		}
	}
	walk(fn.Blocks[0], nil, 0, &symPath{env: copyEnv(init)})
	return ctx.out
}

// tupleKey gives a stable pseudo-value under which component i of a call's result tuple is remembered.
type tupleKey struct {
	call *ssa.Call
	idx  int
}

var tupleKeys = map[tupleKey]*ssa.Const{}

func (k tupleKey) value() ssa.Value {
	if v, ok := tupleKeys[k]; ok {
		return v
	}
	v := &ssa.Const{}
	tupleKeys[k] = v
	return v
}

func copyEnv(e map[ssa.Value]absVal) map[ssa.Value]absVal {
	c := make(map[ssa.Value]absVal, len(e))
	for k, v := range e {
		c[k] = v
	}
	return c
}

// loopDepth: number of loop headers whose loop contains block b.
func loopDepth(b *ssa.BasicBlock) int {
	fn := b.Parent()
	d := 0
	for _, h := range fn.Blocks {
		isHdr := false
		for _, p := range h.Preds {
			if h.Dominates(p) {
				isHdr = true
			}
		}
		if !isHdr || !h.Dominates(b) {
			continue
		}
		if blockReach(b, nil)[h] {
			d++
		}
	}
	return d
}

// rpoOrder numbers blocks in reverse post-order (execution order within an iteration).
func rpoOrder(fn *ssa.Function) map[*ssa.BasicBlock]int {
	seen := map[*ssa.BasicBlock]bool{}
	var post []*ssa.BasicBlock
	var dfs func(b *ssa.BasicBlock)
	dfs = func(b *ssa.BasicBlock) {
		if seen[b] {
			return
		}
		seen[b] = true
		for i := len(b.Succs) - 1; i >= 0; i-- {
			dfs(b.Succs[i])
		}
		post = append(post, b)
	}
	if len(fn.Blocks) > 0 {
		dfs(fn.Blocks[0])
	}
	out := map[*ssa.BasicBlock]int{}
	for i := range post {
		out[post[len(post)-1-i]] = i
	}
	return out
}

// innermostLoopHeader: the header of the innermost natural loop containing b (nil when b is in no loop).
func innermostLoopHeader(b *ssa.BasicBlock) *ssa.BasicBlock {
	fn := b.Parent()
	var best *ssa.BasicBlock
	for _, h := range fn.Blocks {
		isHdr := false
		for _, p := range h.Preds {
			if h.Dominates(p) {
				isHdr = true
			}
		}
		if !isHdr || !h.Dominates(b) || !blockReach(b, nil)[h] {
			continue
		}
		if best == nil || best.Dominates(h) {
			best = h
		}
	}
	return best
}
