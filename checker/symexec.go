package main

import (
	"go/token"
	"go/types"

	"golang.org/x/tools/go/ssa"
)

// A tiny path enumerator used by the dispatch/agreement rules: it walks a function's CFG from its
// entry with some parameters fixed to constants or to a dynamic type, deciding every branch it can
// (comparisons of those parameters with constants, comma-ok type assertions on them, nil tests of phis
// whose incoming value on this path is known) and exploring both sides of the others.

type absVal struct {
	kind string // "int" | "nil" | "nonnil" | "type"
	k    int64
	v    ssa.Value  // for nonnil: the defining value (e.g. the FieldAddr selected)
	t    types.Type // for "type": dynamic type of an interface parameter
}

type symPath struct {
	env    map[ssa.Value]absVal
	trace  []ssa.Instruction // instructions of interest, in execution order
	ret    *ssa.Return
	blocks []*ssa.BasicBlock
}

func (sp *symPath) resolve(v ssa.Value) (absVal, bool) {
	if c, ok := v.(*ssa.Const); ok {
		if c.Value == nil && !isBasicKind(c.Type()) {
			return absVal{kind: "nil"}, true
		}
		if k, ok := constInt(c); ok {
			return absVal{kind: "int", k: k}, true
		}
	}
	a, ok := sp.env[v]
	if ok {
		return a, true
	}
	switch x := v.(type) {
	case *ssa.FieldAddr, *ssa.Alloc, *ssa.IndexAddr, *ssa.MakeInterface, *ssa.MakeSlice:
		return absVal{kind: "nonnil", v: v}, true
	case *ssa.ChangeType:
		return sp.resolve(x.X)
	}
	return absVal{}, false
}

func (sp *symPath) decide(cond ssa.Value) (bool, bool) {
	switch x := cond.(type) {
	case *ssa.BinOp:
		if x.Op != token.EQL && x.Op != token.NEQ {
			return false, false
		}
		a, ok1 := sp.resolve(x.X)
		b, ok2 := sp.resolve(x.Y)
		if !ok1 || !ok2 {
			return false, false
		}
		var eq bool
		switch {
		case a.kind == "int" && b.kind == "int":
			eq = a.k == b.k
		case a.kind == "nil" && b.kind == "nil":
			eq = true
		case (a.kind == "nil" && b.kind == "nonnil") || (a.kind == "nonnil" && b.kind == "nil"):
			eq = false
		case (a.kind == "nil" && b.kind == "type") || (a.kind == "type" && b.kind == "nil"):
			eq = false
		default:
			return false, false
		}
		if x.Op == token.NEQ {
			eq = !eq
		}
		return eq, true
	case *ssa.Extract:
		ta, ok := x.Tuple.(*ssa.TypeAssert)
		if !ok || x.Index != 1 {
			return false, false
		}
		a, ok := sp.resolve(ta.X)
		if !ok || a.kind != "type" {
			if ok && a.kind == "nil" {
				return false, true
			}
			return false, false
		}
		if it, isI := ta.AssertedType.Underlying().(*types.Interface); isI {
			return types.Implements(a.t, it), true
		}
		return types.Identical(a.t, ta.AssertedType), true
	}
	return false, false
}

// symExec enumerates paths (up to a bound); interest selects the instructions recorded in the trace.
func symExec(fn *ssa.Function, init map[ssa.Value]absVal, interest func(ssa.Instruction) bool) []*symPath {
	var out []*symPath
	var walk func(b, pred *ssa.BasicBlock, sp *symPath, visits map[*ssa.BasicBlock]int)
	walk = func(b, pred *ssa.BasicBlock, sp *symPath, visits map[*ssa.BasicBlock]int) {
		if len(out) > 512 || visits[b] > 2 {
			return
		}
		visits[b]++
		defer func() { visits[b]-- }()
		sp.blocks = append(sp.blocks, b)
		// phis
		for _, in := range b.Instrs {
			phi, ok := in.(*ssa.Phi)
			if !ok {
				break
			}
			for i, p := range b.Preds {
				if p == pred {
					if a, ok := sp.resolve(phi.Edges[i]); ok {
						sp.env[phi] = a
					} else {
						delete(sp.env, phi)
					}
				}
			}
		}
		for _, in := range b.Instrs {
			if interest != nil && interest(in) {
				sp.trace = append(sp.trace, in)
			}
			switch x := in.(type) {
			case *ssa.Extract:
				// value of a successful type assertion carries the dynamic type
				if ta, ok := x.Tuple.(*ssa.TypeAssert); ok && x.Index == 0 {
					if a, ok := sp.resolve(ta.X); ok && a.kind == "type" {
						sp.env[x] = absVal{kind: "nonnil", v: x, t: a.t}
					}
				}
			case *ssa.Return:
				cp := *sp
				cp.ret = x
				cp.env = copyEnv(sp.env)
				cp.trace = append([]ssa.Instruction{}, sp.trace...)
				cp.blocks = append([]*ssa.BasicBlock{}, sp.blocks...)
				out = append(out, &cp)
				return
			case *ssa.If:
				if val, ok := sp.decide(x.Cond); ok {
					idx := 1
					if val {
						idx = 0
					}
					walk(b.Succs[idx], b, sp, visits)
					return
				}
				for _, s := range b.Succs {
					cp := &symPath{env: copyEnv(sp.env), trace: append([]ssa.Instruction{}, sp.trace...), blocks: append([]*ssa.BasicBlock{}, sp.blocks...)}
					walk(s, b, cp, visits)
				}
				return
			case *ssa.Panic:
				return
			}
		}
		for _, s := range b.Succs {
			walk(s, b, sp, visits)
		}
	}
	if len(fn.Blocks) == 0 {
		return nil
	}
	walk(fn.Blocks[0], nil, &symPath{env: copyEnv(init)}, map[*ssa.BasicBlock]int{})
	return out
}

func copyEnv(e map[ssa.Value]absVal) map[ssa.Value]absVal {
	c := make(map[ssa.Value]absVal, len(e))
	for k, v := range e {
		c[k] = v
	}
	return c
}

// loopDepth: number of loop headers whose loop contains block b.
func loopDepth(b *ssa.BasicBlock) int {
	fn := b.Parent()
	d := 0
	for _, h := range fn.Blocks {
		isHdr := false
		for _, p := range h.Preds {
			if h.Dominates(p) {
				isHdr = true
			}
		}
		if !isHdr || !h.Dominates(b) {
			continue
		}
		// b is in h's loop if b reaches h
		if blockReach(b, nil)[h] {
			d++
		}
	}
	return d
}

// rpoOrder numbers blocks in reverse post-order (execution order within an iteration).
func rpoOrder(fn *ssa.Function) map[*ssa.BasicBlock]int {
	seen := map[*ssa.BasicBlock]bool{}
	var post []*ssa.BasicBlock
	var dfs func(b *ssa.BasicBlock)
	dfs = func(b *ssa.BasicBlock) {
		if seen[b] {
			return
		}
		seen[b] = true
		// visit successors in reverse so that the first successor comes first in RPO
		for i := len(b.Succs) - 1; i >= 0; i-- {
			dfs(b.Succs[i])
		}
		post = append(post, b)
	}
	if len(fn.Blocks) > 0 {
		dfs(fn.Blocks[0])
	}
	out := map[*ssa.BasicBlock]int{}
	for i := range post {
		out[post[len(post)-1-i]] = i
	}
	return out
}
