package main

import (
	"go/token"
	"go/types"

	"golang.org/x/tools/go/ssa"
)

// ---- what a function knows about the elements of a slice of slices it made and filled itself ------------------
//
//   cols := make([][]T, n)
//   for c := range cols { cols[c] = f(c); if len(cols[c]) > most { most = len(cols[c]) } }
//   ...
//   for c, col := range cols { for l := range col { lines[l] ... } }        // needs len(col) <= most
//
//   lines := make([][]T, k)
//   for l := range lines { lines[l] = make([]T, w) }
//   ... lines[l][c] ...                                                       // needs len(lines[l]) == w
//
// localElemLenFacts gives, for t = len(v) with v an element loaded from such a slice AFTER its (single) fill loop:
//   - len(v) == len(X) when the loop stores X into every element and len(X) is made of values fixed before the
//     loop (a full fill);
//   - len(v) <= m for every integer the loop carries (a header phi) that it only ever raises and that it raises to
//     at least len(X) in every iteration that stores X (a running maximum); elements never stored are nil,
//     length 0, which m bounds too when it starts non-negative.
// The slice must not escape: its only uses are indexing, len/cap, ranging and being returned.

func (ix *idxEngine) localElemLenFacts(p *prover, v ssa.Value, t string, at ssa.Instruction) []constraint {
	u, ok := v.(*ssa.UnOp)
	if !ok || u.Op != token.MUL || at == nil {
		return nil
	}
	ia, ok := u.X.(*ssa.IndexAddr)
	if !ok {
		return nil
	}
	A, ok := p.resolve(ia.X).(*ssa.MakeSlice)
	if !ok || A.Parent() != p.fn {
		return nil
	}
	if _, isSl := A.Type().Underlying().(*types.Slice).Elem().Underlying().(*types.Slice); !isSl {
		return nil
	}
	key := "localfill:" + p.canon(A)
	var stores []*ssa.Store
	for _, r := range referrersOf(A) {
		switch x := r.(type) {
		case *ssa.IndexAddr:
			for _, rr := range referrersOf(x) {
				switch y := rr.(type) {
				case *ssa.Store:
					if y.Addr != ssa.Value(x) {
						return nil // the element's address is stored somewhere
					}
					stores = append(stores, y)
				case *ssa.UnOp, *ssa.DebugRef:
				default:
					return nil
				}
			}
		case *ssa.Return, *ssa.DebugRef:
		case ssa.CallInstruction:
			if b, isB := x.Common().Value.(*ssa.Builtin); isB && (b.Name() == "len" || b.Name() == "cap") {
				continue
			}
			return nil
		case *ssa.Range:
			return nil // ranging over a slice compiles to indexing; a Range instruction here is something else
		default:
			return nil
		}
	}
	if len(stores) != 1 {
		return nil
	}
	st := stores[0]
	H := innermostLoopHeader(st.Block())
	if H == nil {
		return nil
	}
	inLoop := func(b *ssa.BasicBlock) bool { return H.Dominates(b) && blockReach(b, nil)[H] }
	// the use lies beyond the fill loop
	if inLoop(at.Block()) || !H.Dominates(at.Block()) || inLoop(u.Block()) {
		return nil
	}
	if c, ok := p.relCache[key]; ok {
		return rename(c, t)
	}
	p.relCache[key] = nil
	var out []constraint
	X := st.Val
	xl := p.lenOf(X)
	// (a) full fill with a loop-invariant length
	if ix.fullFillLoop(p, A, st, H) {
		ti := p.termIndex()
		fixed := true
		for tm := range xl.coef {
			var src ssa.Value
			if x, ok := ti.ints[tm]; ok {
				src = x
			} else if x, ok := ti.lens[tm]; ok {
				src = x
			}
			switch y := src.(type) {
			case *ssa.Const, *ssa.Parameter:
			case ssa.Instruction:
				if inLoop(y.Block()) {
					fixed = false
				}
				if ld, isU := src.(*ssa.UnOp); isU && ld.Op == token.MUL {
					fixed = false
				}
			default:
				fixed = false
			}
		}
		if fixed {
			why := "every element of this slice is stored by its fill loop with this length"
			out = append(out, leq(linTerm("$len"), xl, why), leq(xl, linTerm("$len"), why))
		}
	}
	// (b) running maxima
	for _, in := range H.Instrs {
		m, isPhi := in.(*ssa.Phi)
		if !isPhi {
			break
		}
		if !isIntType(m.Type()) {
			continue
		}
		good := true
		for k, pred := range H.Preds {
			e := m.Edges[k]
			if !H.Dominates(pred) {
				if lb, ok := p.lowerBoundInt(e, 0); !ok || lb < 0 {
					good = false
				}
				continue
			}
			last := pred.Instrs[len(pred.Instrs)-1]
			var edge []constraint
			if pi, isIf := last.(*ssa.If); isIf && pred.Succs[0] != pred.Succs[1] {
				edge = p.condConstraints(pi.Cond, pred.Succs[0] == H)
			}
			// never lowered
			if ok, _ := p.prove(leq(linTerm(p.canon(m)), p.linOf(e), "running maximum never lowered"), last, edge, 1); !ok {
				good = false
				break
			}
			// raised to at least the stored element's length whenever this iteration stored one
			if st.Block().Dominates(pred) || st.Block() == pred {
				goal := leq(xl, p.linOf(e), "running maximum covers the element stored in this iteration")
				okX, _ := p.prove(goal, last, edge, 1)
				if !okX {
					// the loop may measure a reload of the element it has just stored
					for _, ld := range ix.reloadsOf(p, st, pred) {
						if okR, _ := p.prove(leq(p.lenOf(ld), p.linOf(e), goal.why), last, edge, 1); okR {
							okX = true
						}
					}
				}
				if !okX {
					good = false
					break
				}
			}
		}
		if good {
			out = append(out, leq(linTerm("$len"), linTerm(p.canon(m)), "the fill loop keeps "+p.canon(m)+" at least as large as every element it stores (running maximum)"))
		}
	}
	p.relCache[key] = out
	return rename(out, t)
}

// rename substitutes the placeholder term "$len" by t.
func rename(cs []constraint, t string) []constraint {
	var out []constraint
	for _, c := range cs {
		e := lin{coef: map[string]int64{}, k: c.e.k}
		for tm, cf := range c.e.coef {
			if tm == "$len" {
				tm = t
			}
			e.coef[tm] += cf
		}
		out = append(out, constraint{e, c.why})
	}
	return out
}

// reloadsOf: loads of the element st has just stored (same slice, same index value, nothing in between that could
// write it), on the way from st to the end of block `upTo`.
func (ix *idxEngine) reloadsOf(p *prover, st *ssa.Store, upTo *ssa.BasicBlock) []ssa.Value {
	sia := st.Addr.(*ssa.IndexAddr)
	var out []ssa.Value
	eachInstr(p.fn, func(in ssa.Instruction) {
		ld, ok := in.(*ssa.UnOp)
		if !ok || ld.Op != token.MUL {
			return
		}
		lia, ok := ld.X.(*ssa.IndexAddr)
		if !ok || p.resolve(lia.X) != p.resolve(sia.X) || p.resolve(lia.Index) != p.resolve(sia.Index) {
			return
		}
		if !instrDominates(st, ld) {
			return
		}
		for _, mid := range p.between(st, ld) {
			if s2, isSt := mid.(*ssa.Store); isSt {
				if a2, isIA := s2.Addr.(*ssa.IndexAddr); isIA && p.resolve(a2.X) == p.resolve(sia.X) {
					return
				}
			}
		}
		out = append(out, ld)
	})
	return out
}

// fullFillLoop: st stores into A[i] on every iteration of the loop headed by H, i running over 0..len(A)-1.
func (ix *idxEngine) fullFillLoop(p *prover, A *ssa.MakeSlice, st *ssa.Store, H *ssa.BasicBlock) bool {
	ia := st.Addr.(*ssa.IndexAddr)
	idx := p.resolve(ia.Index)
	var phi *ssa.Phi
	off := int64(0)
	switch x := idx.(type) {
	case *ssa.Phi:
		phi = x
	case *ssa.BinOp:
		if q, isPhi := x.X.(*ssa.Phi); isPhi && x.Op == token.ADD {
			if k, isK := constInt(x.Y); isK {
				phi, off = q, k
			}
		}
	}
	if phi == nil || phi.Block() != H {
		return false
	}
	for k, pred := range H.Preds {
		if H.Dominates(pred) {
			e := p.linOf(phi.Edges[k]).sub(linTerm(p.canon(phi)))
			if !e.isConst() || e.k != 1 {
				return false
			}
			if !st.Block().Dominates(pred) {
				return false
			}
		} else if k0, ok := constInt(phi.Edges[k]); !ok || k0+off != 0 {
			return false
		}
	}
	iff, ok := H.Instrs[len(H.Instrs)-1].(*ssa.If)
	if !ok {
		return false
	}
	cs := p.condConstraints(iff.Cond, true)
	want := lt(p.linOf(idx), p.lenOf(A), "")
	if len(cs) != 1 || cs[0].e.String() != want.e.String() {
		return false
	}
	// nothing leaves the loop but the header's test
	for _, b := range p.fn.Blocks {
		if !(H.Dominates(b) && blockReach(b, nil)[H]) || b == H {
			continue
		}
		for _, s := range b.Succs {
			if !(H.Dominates(s) && blockReach(s, nil)[H]) {
				return false
			}
		}
	}
	return true
}
