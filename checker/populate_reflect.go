package main

import (
	"fmt"
	"go/token"
	"os"
	"sort"

	"golang.org/x/tools/go/ssa"
)

// Fills done through package reflect, however the reflection is cut up into helpers:
//
//	dev := reflect.ValueOf(d).Elem()
//	t := dev.FieldByName("HRule"); if t.Len() > 0 { return }; t.Set(dev.FieldByName("Horizontal"))
//
// A small abstract evaluation follows the decoration pointer through ValueOf / Elem / FieldByName (and through
// module helpers that merely wrap those), with field names taken from constants, from parameters bound at the
// call, or from the rows of a constant table a full loop visits. Each reflect Set of one named field from another,
// guarded by nothing but "the target is empty" (and by sanity checks whose other branch panics), is a fill event.

type rabs struct {
	kind string // "dec" the decoration pointer, "rptr" ValueOf(d), "rstruct" its Elem(), "rfield" a named field of it, "str", "row", "" unknown
	s    string
	row  []string
}

type reflEval struct {
	ix        *idxEngine
	steps     int
	decFields map[string]bool          // names of the string fields of Decoration
	panicOK   map[ssa.Instruction]bool // per explicit panic met: infeasible in every context it was evaluated in
	visited   map[*ssa.Function]bool
}

// checkPanics decides, for the sanity checks of fn (an If one of whose branches can only panic), whether the
// panicking branch can be taken given what the reflect values are: the Kind of ValueOf(*Decoration) is Ptr, of its
// Elem() Struct (Populate has returned early for a nil decoration), of a field named by an existing string field
// String, of a field that does not exist Invalid.
func (re *reflEval) checkPanics(fn *ssa.Function, env map[ssa.Value]rabs) {
	if re.panicOK == nil {
		re.panicOK = map[ssa.Instruction]bool{}
		re.visited = map[*ssa.Function]bool{}
	}
	re.visited[fn] = true
	kindOf := func(v ssa.Value) (int64, bool) {
		c, ok := v.(*ssa.Call)
		if !ok || c.Call.StaticCallee() == nil || funcPkgPath(c.Call.StaticCallee()) != "reflect" || c.Call.StaticCallee().Name() != "Kind" || len(c.Call.Args) != 1 {
			return 0, false
		}
		switch a := re.absIn(fn, env, c.Call.Args[0], 0); a.kind {
		case "rptr":
			return 22, true // reflect.Ptr
		case "rstruct":
			return 25, true // reflect.Struct
		case "rfield":
			if re.decFields[a.s] {
				return 24, true // reflect.String
			}
			return 0, true // reflect.Invalid: no such field
		}
		return 0, false
	}
	for _, b := range fn.Blocks {
		iff, ok := b.Instrs[len(b.Instrs)-1].(*ssa.If)
		if !ok {
			continue
		}
		for k, succ := range b.Succs {
			if !onlyPanics(succ) || onlyPanics(b.Succs[1-k]) {
				continue
			}
			// the panic instructions this branch leads to
			var panics []ssa.Instruction
			for blk := range blockReach(succ, nil) {
				for _, in := range blk.Instrs {
					if pn, isP := in.(*ssa.Panic); isP {
						panics = append(panics, pn)
					}
				}
			}
			infeasible := false
			if bo, isB := iff.Cond.(*ssa.BinOp); isB && (bo.Op == token.EQL || bo.Op == token.NEQ) {
				var kd, want int64
				var okK, okW bool
				if kd, okK = kindOf(bo.X); okK {
					want, okW = constInt(bo.Y)
				} else if kd, okK = kindOf(bo.Y); okK {
					want, okW = constInt(bo.X)
				}
				if okK && okW {
					truth := (kd == want) == (bo.Op == token.EQL)
					// branch k==0 is taken when the condition is true
					infeasible = truth != (k == 0)
				}
			}
			for _, pn := range panics {
				if prev, seen := re.panicOK[pn]; seen {
					re.panicOK[pn] = prev && infeasible
				} else {
					re.panicOK[pn] = infeasible
				}
			}
		}
	}
}

func (re *reflEval) absIn(fn *ssa.Function, env map[ssa.Value]rabs, v ssa.Value, depth int) rabs {
	re.steps++
	if v == nil || depth > 10 || re.steps > 20000 {
		return rabs{}
	}
	if a, ok := env[v]; ok {
		return a
	}
	if s, ok := constString(v); ok {
		return rabs{kind: "str", s: s}
	}
	switch x := v.(type) {
	case *ssa.Field:
		if a := re.absIn(fn, env, x.X, depth+1); a.kind == "row" && x.Field < len(a.row) {
			return rabs{kind: "str", s: a.row[x.Field]}
		}
	case *ssa.UnOp:
		if x.Op != token.MUL {
			return rabs{}
		}
		switch y := x.X.(type) {
		case *ssa.FieldAddr:
			if a := re.absIn(fn, env, y.X, depth+1); a.kind == "row" && y.Field < len(a.row) {
				return rabs{kind: "str", s: a.row[y.Field]}
			}
		case *ssa.Alloc:
			return re.absIn(fn, env, y, depth+1)
		}
	case *ssa.Alloc:
		// a local holding one value (a spilled value receiver, a copy of a table element)
		var only *ssa.Store
		n := 0
		for _, r := range referrersOf(x) {
			if st, ok := r.(*ssa.Store); ok && st.Addr == ssa.Value(x) {
				only = st
				n++
			}
		}
		if n == 1 {
			return re.absIn(fn, env, only.Val, depth+1)
		}
	case *ssa.ChangeType:
		return re.absIn(fn, env, x.X, depth+1)
	case *ssa.MakeInterface:
		return re.absIn(fn, env, x.X, depth+1)
	case *ssa.Call:
		callee := x.Call.StaticCallee()
		if callee == nil {
			return rabs{}
		}
		args := x.Call.Args
		if funcPkgPath(callee) == "reflect" {
			switch callee.Name() {
			case "ValueOf":
				if len(args) == 1 && re.absIn(fn, env, args[0], depth+1).kind == "dec" {
					return rabs{kind: "rptr"}
				}
			case "Elem", "Indirect":
				if len(args) >= 1 && re.absIn(fn, env, args[0], depth+1).kind == "rptr" {
					return rabs{kind: "rstruct"}
				}
			case "FieldByName":
				if len(args) == 2 && re.absIn(fn, env, args[0], depth+1).kind == "rstruct" {
					if nm := re.absIn(fn, env, args[1], depth+1); nm.kind == "str" {
						return rabs{kind: "rfield", s: nm.s}
					}
				}
			}
			return rabs{}
		}
		if !inModule(callee) || callee.Blocks == nil || callee.Signature.Results().Len() != 1 {
			return rabs{}
		}
		// a helper that wraps the above: what it returns, on every return that is not a panic
		cenv := map[ssa.Value]rabs{}
		relevant := false
		for i, p := range callee.Params {
			if i < len(args) {
				cenv[p] = re.absIn(fn, env, args[i], depth+1)
				switch cenv[p].kind {
				case "dec", "rptr", "rstruct", "rfield":
					relevant = true
				}
			}
		}
		if relevant {
			re.checkPanics(callee, cenv)
		}
		var out *rabs
		for _, ret := range returnsOf(callee) {
			a := re.absIn(callee, cenv, results(ret)[0], depth+1)
			if out == nil {
				out = &a
			} else if out.kind != a.kind || out.s != a.s {
				return rabs{}
			}
		}
		if out != nil {
			return *out
		}
	}
	return rabs{}
}

// onlyPanics: every path from b ends in a panic (no return is reachable).
func onlyPanics(b *ssa.BasicBlock) bool {
	for blk := range blockReach(b, nil) {
		for _, in := range blk.Instrs {
			if _, isRet := in.(*ssa.Return); isRet {
				return false
			}
		}
	}
	return true
}

// eventsIn collects the reflective fill events of fn (evaluated with env), in execution order, descending into
// module helpers that are handed the decoration or a reflect value of it.
func (re *reflEval) eventsIn(fn *ssa.Function, env map[ssa.Value]rabs, depth int) ([]fillEv, bool, string) {
	if depth > 5 {
		return nil, false, "helpers nested too deeply"
	}
	re.checkPanics(fn, env)
	var out []fillEv
	order := rpoOrder(fn)
	blocks := append([]*ssa.BasicBlock(nil), fn.Blocks...)
	sort.SliceStable(blocks, func(i, j int) bool { return order[blocks[i]] < order[blocks[j]] })
	interesting := func(a rabs) bool {
		switch a.kind {
		case "dec", "rptr", "rstruct", "rfield":
			return true
		}
		return false
	}
	for _, b := range blocks {
		for _, in := range b.Instrs {
			ci, ok := in.(ssa.CallInstruction)
			if !ok {
				continue
			}
			callee := ci.Common().StaticCallee()
			if callee == nil {
				continue
			}
			args := ci.Common().Args
			if funcPkgPath(callee) == "reflect" {
				if callee.Name() != "Set" && callee.Name() != "SetString" {
					continue
				}
				if len(args) != 2 {
					continue
				}
				t := re.absIn(fn, env, args[0], 0)
				if t.kind != "rfield" {
					if interesting(t) {
						return nil, false, fmt.Sprintf("%s: a reflect Set whose target is not a named field", re.ix.c.Pos(in.Pos()))
					}
					continue
				}
				o := re.absIn(fn, env, args[1], 0)
				from := "?"
				switch {
				case o.kind == "rfield":
					from = o.s
				case o.kind == "str" && o.s != "":
					from = ""
				}
				// guards: "target empty", sanity checks that panic otherwise, nothing else
				guarded := false
				for _, cf := range expandConds(dominatingConds(b)) {
					hb := cf.If.Block()
					other := hb.Succs[1]
					if !cf.Val {
						other = hb.Succs[0]
					}
					if re.emptyTest(fn, env, cf.Cond, cf.Val, t.s) {
						guarded = true
						continue
					}
					if onlyPanics(other) {
						continue
					}
					if loopDepth(b) > 0 && isLoopHeaderBlock(hb) {
						continue
					}
					return nil, false, fmt.Sprintf("%s: the reflective fill of %s runs only under a condition that is neither 'target empty' nor a sanity check", re.ix.c.Pos(in.Pos()), t.s)
				}
				if from == "?" && guarded {
					continue // nothing guaranteed, nothing taken away
				}
				out = append(out, fillEv{t.s, from, in.Pos()})
				continue
			}
			if !inModule(callee) || callee.Blocks == nil {
				continue
			}
			// a helper handed the decoration (or a reflect value of it): its events, per row when an argument is the
			// element of a constant table that a full loop visits
			abs := make([]rabs, len(args))
			any := false
			var table *constTable
			tableArg := -1
			tableCols := map[int]int{}
			tableMixed := false
			for i, a := range args {
				abs[i] = re.absIn(fn, env, a, 0)
				if interesting(abs[i]) {
					any = true
				}
				if abs[i].kind == "" {
					if ct, fidx, elem := re.ix.c.tableElemField(a); ct != nil && elem != nil {
						if isStringType(a.Type()) {
							// one field of the current row (several arguments may each be one)
							if table != nil && table.G != ct.G {
								tableMixed = true
							}
							table = ct
							tableCols[i] = fidx
						} else {
							if table != nil && table.G != ct.G {
								tableMixed = true
							}
							table, tableArg = ct, i
						}
					}
				}
			}
			// (or several arguments are fields of the current row of one table - local, or package-level and never
			// written after initialisation - that a full loop visits)
			cols := map[int][]ssa.Value{}
			var colRoot *ssa.Alloc
			var colIdx ssa.Value
			colsOK := true
			if table == nil && any {
				for i, a := range args {
					if abs[i].kind != "" {
						continue
					}
					rows, ea, root, okT := localTableRowsOf(a)
					if !okT || ea == nil || !localTableLoopIsFull(ea, int64(len(rows))) {
						continue
					}
					if colRoot != nil && (colRoot != root || colIdx != ea.Index) {
						colsOK = false
					}
					colRoot, colIdx = root, ea.Index
					cols[i] = rows
				}
			}
			if os.Getenv("TABDBG") == "fill" {
				fmt.Fprintf(os.Stderr, "eventsIn %s: call %s any=%v cols=%d colsOK=%v table=%v\n", fn.Name(), callee.Name(), any, len(cols), colsOK, table != nil)
			}
			if !any {
				continue
			}
			if callee.Signature.Results().Len() == 1 && interesting(re.absIn(fn, env, ci.Value(), 0)) {
				continue // an accessor: evaluated where its result is used
			}
			if uncond := re.onlyNeutralGuards(fn, b); !uncond {
				return nil, false, fmt.Sprintf("%s: %s is applied to the decoration only under some condition", re.ix.c.Pos(in.Pos()), callee.Name())
			}
			runs := [][]rabs{abs}
			if table != nil {
				runs = nil
				if tableMixed {
					return nil, false, fmt.Sprintf("%s: arguments of %s come from different tables", re.ix.c.Pos(in.Pos()), callee.Name())
				}
				for _, row := range table.Rows {
					r2 := append([]rabs(nil), abs...)
					if tableArg >= 0 {
						r2[tableArg] = rabs{kind: "row", row: row}
					}
					for i, fidx := range tableCols {
						if fidx < len(row) {
							r2[i] = rabs{kind: "str", s: row[fidx]}
						}
					}
					runs = append(runs, r2)
				}
			}
			if table == nil && len(cols) > 0 && colsOK {
				runs = nil
				n := 0
				for _, rows := range cols {
					n = len(rows)
				}
				for k := 0; k < n; k++ {
					r2 := append([]rabs(nil), abs...)
					for i, rows := range cols {
						if sv, isS := constString(rows[k]); isS {
							r2[i] = rabs{kind: "str", s: sv}
						}
					}
					runs = append(runs, r2)
				}
			}
			for _, run := range runs {
				cenv := map[ssa.Value]rabs{}
				for i, p := range callee.Params {
					if i < len(run) {
						cenv[p] = run[i]
					}
				}
				evs, ok, why := re.eventsIn(callee, cenv, depth+1)
				if !ok {
					return nil, false, why
				}
				out = append(out, evs...)
			}
		}
	}
	return out, true, ""
}

// onlyNeutralGuards: b is skipped only by early returns on the receiver being nil or on one of its boolean fields,
// or is the body of a loop (whose fullness is the table rule's business).
func (re *reflEval) onlyNeutralGuards(fn *ssa.Function, b *ssa.BasicBlock) bool {
	for _, cf := range expandConds(dominatingConds(b)) {
		hb := cf.If.Block()
		if isLoopHeaderBlock(hb) {
			continue
		}
		other := hb.Succs[1]
		if !cf.Val {
			other = hb.Succs[0]
		}
		if onlyPanics(other) {
			continue
		}
		if _, _, isT := nilTest(cf.Cond); isT {
			continue
		}
		if u, ok := cf.Cond.(*ssa.UnOp); ok {
			if u.Op == token.NOT {
				if u2, ok2 := u.X.(*ssa.UnOp); ok2 {
					u = u2
				}
			}
			if _, isFA := u.X.(*ssa.FieldAddr); isFA && isBoolType(u.Type()) {
				continue
			}
		}
		return false
	}
	return true
}

// emptyTest: (cond, val) says that the reflect field named `name` is empty: Len() == 0 / !(Len() > 0) / String() == "".
func (re *reflEval) emptyTest(fn *ssa.Function, env map[ssa.Value]rabs, cond ssa.Value, val bool, name string) bool {
	bo, ok := cond.(*ssa.BinOp)
	if !ok {
		return false
	}
	isTargetCall := func(v ssa.Value, method string) bool {
		c, ok := v.(*ssa.Call)
		if !ok || c.Call.StaticCallee() == nil || funcPkgPath(c.Call.StaticCallee()) != "reflect" || c.Call.StaticCallee().Name() != method || len(c.Call.Args) < 1 {
			return false
		}
		a := re.absIn(fn, env, c.Call.Args[0], 0)
		return a.kind == "rfield" && a.s == name
	}
	isInt := func(v ssa.Value, k int64) bool { n, ok := constInt(v); return ok && n == k }
	isEmptyStr := func(v ssa.Value) bool { s, ok := constString(v); return ok && s == "" }
	switch {
	case isTargetCall(bo.X, "Len") && isInt(bo.Y, 0):
		return (bo.Op == token.EQL && val) || (bo.Op == token.NEQ && !val) || (bo.Op == token.GTR && !val) || (bo.Op == token.LEQ && val)
	case isTargetCall(bo.X, "Len") && isInt(bo.Y, 1):
		return (bo.Op == token.LSS && val) || (bo.Op == token.GEQ && !val)
	case isTargetCall(bo.X, "String") && isEmptyStr(bo.Y):
		return (bo.Op == token.EQL && val) || (bo.Op == token.NEQ && !val)
	}
	return false
}
